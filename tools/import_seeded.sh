#!/bin/bash
# Imports the deliverables of a seeding round: tools/import_seeded.sh R4 r4 [C01 ...]
# copies /tmp/mut-out/<R4>Cxx/{a,b} to seeded/Cxx-<r4>{a,b} (patch.diff, demo/, meta.json).
cd "$(dirname "$0")/.."
round=$1; tag=$2; shift 2
props=${@:-$(seq -f 'C%02g' 1 20)}
for p in $props; do
  for v in a b; do
    src=/tmp/mut-out/$round$p/$v
    [ -f $src/patch.diff ] && [ -f $src/meta.json ] || { echo "$p-$tag$v: missing deliverable"; continue; }
    dst=seeded/$p-$tag$v
    [ -d $dst ] && { echo "$dst exists"; continue; }
    mkdir -p $dst && cp -r $src/patch.diff $src/meta.json $dst/ && cp -r $src/demo $dst/ 2>/dev/null
    echo "imported $dst"
  done
done
