#!/usr/bin/env python3
"""Regenerates the seeded-change matrix of DESIGN.md section 7.6 from
seeded/RESULTS-quick-seed1.txt and the meta.json of every seeded change.
Usage: tools/seeded_matrix.py            (prints the markdown table)
       tools/seeded_matrix.py --write    (replaces the table in DESIGN.md between the markers)"""
import json, os, re, sys

ROOT = os.path.dirname(os.path.dirname(os.path.abspath(__file__)))
BEGIN, END = "<!-- seeded-matrix:begin -->", "<!-- seeded-matrix:end -->"


def order(name):
    m = re.match(r"(C\d+)-(r(\d))?([a-z])$", name)
    return (m.group(1), int(m.group(3) or 1), m.group(4))


def main():
    res = {}
    for line in open(os.path.join(ROOT, "seeded/RESULTS-quick-seed1.txt")):
        m = re.match(r"seeded/(\S+) (C\d+) rc=(\d+) wall=\d+s (\d+) keys:(.*)", line)
        if m:
            keys = re.findall(r"key=(\S+)", m.group(5))
            res[m.group(1)] = (int(m.group(3)), int(m.group(4)), keys)
    rows, caught, neutral, missed = [], 0, 0, []
    for name in sorted((d for d in os.listdir(os.path.join(ROOT, "seeded")) if os.path.isdir(os.path.join(ROOT, "seeded", d))), key=order):
        meta = json.load(open(os.path.join(ROOT, "seeded", name, "meta.json")))
        what = " ".join(str(meta.get("summary") or meta.get("what_changed") or "").split())
        if len(what) > 170:
            what = what[:170] + "…"
        what = what.replace("|", "\\|")
        rc, nk, keys = res.get(name, (None, 0, []))
        note = meta.get("neutralised_on_repaired_tree")
        other = meta.get("reported_by_other_check")
        notc = meta.get("not_counted")
        if rc == 1:
            caught += 1
            rep = meta["property"] + " " + ", ".join("`%s`" % k.replace("|", "\\|") for k in keys[:2])
            if nk > 2:
                rep += " (+%d keys)" % (nk - 2)
        elif note:
            neutral += 1
            rep = "not a violation on the repaired tree: " + " ".join(str(note).split())[:200].replace("|", "\\|")
        elif notc:
            neutral += 1
            rep = "not counted: " + " ".join(str(notc).split())[:300].replace("|", "\\|")
        elif other:
            caught += 1
            rep = " ".join(str(other).split())[:300].replace("|", "\\|")
        else:
            missed.append(name)
            why = meta.get("not_reported_reason")
            rep = "NOT REPORTED (rc=%s)" % rc + (": " + " ".join(str(why).split())[:320].replace("|", "\\|") if why else "")
        rows.append("| %s | %s | %s |" % (name, what, rep))
    head = ["| seeded change | what it does (from its meta.json) | reported by (first keys) |", "|---|---|---|"]
    table = "\n".join(head + rows)
    summary = "%d seeded changes: %d reported, %d neutralised by a fix, %d not reported %s" % (len(rows), caught, neutral, len(missed), missed)
    if "--write" in sys.argv:
        p = os.path.join(ROOT, "DESIGN.md")
        s = open(p).read()
        i, j = s.index(BEGIN), s.index(END)
        s = s[: i + len(BEGIN)] + "\n" + table + "\n" + s[j:]
        open(p, "w").write(s)
        print(summary, file=sys.stderr)
    else:
        print(table)
        print(summary, file=sys.stderr)


if __name__ == "__main__":
    main()
