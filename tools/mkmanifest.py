#!/usr/bin/env python3
"""Regenerates /verif/MANIFEST.json from the table below (keeps it schema-valid)."""
import json, os, subprocess, sys
ROOT = os.path.dirname(os.path.dirname(os.path.abspath(__file__)))

# id -> (level category, technique, level text, level note, design ref)
CHECKS = {}
exec(open(os.path.join(ROOT, "tools", "checks_table.py")).read())

ALL = ["C%02d" % i for i in range(1, 21)]
hook_commits = [l.strip() for l in open(os.path.join(ROOT, "MANIFEST.hooks")) if l.strip() and not l.startswith("#")]
m = {
    "version": 1,
    "setup_cmd": "./check --setup",
    "hooks": {
        "guard": "verif",
        "enable": "go test -tags verif (harness module in /verif/harness with replace => /repo; internal/verifhook.Hit is a no-op without the tag)",
        "baseline_off_cmd": "/verif/baseline_off.sh",
        "source_commits": [c.split()[0] for c in hook_commits],
        "add_only": True,
    },
    "engines": [
        {"name": "harness", "path": "harness", "serves_properties": sorted(CHECKS),
         "kind_free_text": "Go test binaries built from /repo's working tree (race detector where concurrency matters) driving the real packages; monitors and offline checkers (porcupine, reference models) in harness/cNN; driver ./check"},
    ],
    "checks": [],
    "not_applicable": [],
    "notes": "Runtime monitoring only: every verdict comes from an oracle observing executions of the real code. Exit 0 held / 1 VIOLATION / 2 INCONCLUSIVE. known_findings.json lists recorded and fixed defects.",
}
for pid in ALL:
    if pid in CHECKS:
        c = CHECKS[pid]
        m["checks"].append({
            "property_id": pid,
            "quick_cmd": f"./check {pid} quick",
            "thorough_cmd": f"./check {pid} thorough",
            "evidence_file": f"evidence/{pid}.json",
            "replay_cmd_template": f"./check {pid} --replay {{path}}",
            "engine": "harness",
            "level_claimed": {"category": c["level"], "text": c["text"], "design_ref": c["ref"]},
            "level_note": c["note"],
            "technique": c["technique"],
        })
    else:
        m["not_applicable"].append({"property_id": pid, "reason": NOT_YET.get(pid, "check not built yet; runtime monitoring applies (see DESIGN.md section 2), no claim is made until the monitor exists")})
json.dump(m, open(os.path.join(ROOT, "MANIFEST.json"), "w"), indent=1)
print("wrote MANIFEST.json with", len(m["checks"]), "checks")
try:
    import jsonschema
    jsonschema.validate(m, json.load(open("/root/.vp/MANIFEST.schema.json")))
    print("schema ok")
except ImportError:
    pass
