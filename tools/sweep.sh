#!/bin/bash
# Runs every registered check's quick (or $TIER) command at the given seeds on /repo
# and prints one line per run.  Usage: tools/sweep.sh "1 2 3" [C01 C02 ...]
cd "$(dirname "$0")/.."
seeds=${1:-"1 2 3"}; shift
props=${@:-$(jq -r '.checks[].property_id' MANIFEST.json)}
tier=${TIER:-quick}
bad=0
for s in $seeds; do
  for p in $props; do
    t0=$(date +%s)
    out=$(VERIF_SEED=$s ./check $p $tier 2>&1); rc=$?
    t1=$(date +%s)
    echo "seed=$s $p rc=$rc wall=$((t1-t0))s $(echo "$out" | grep -c '^KNOWN-FINDING') known"
    if [ $rc -ne 0 ]; then bad=1; echo "$out" | grep -E '^(VIOLATION|INCONCLUSIVE|  key=)' | head -10; fi
  done
done
exit $bad
