#!/bin/bash
# Applies each seeded change under /verif/seeded/<prop>-<name>/patch.diff to a scratch
# worktree of /repo (never /repo itself) and runs that property's check against it.
# Expected: exit 1 with a VIOLATION line.  Usage: tools/seeded.sh [dir ...]
cd "$(dirname "$0")/.."
dirs=${@:-$(ls -d seeded/*/ 2>/dev/null)}
# every scratch worktree path gets its own entries in the Go build cache: drop entries unused for 2 h
find /root/.cache/go-build -type f -amin +120 -delete 2>/dev/null
tier=${TIER:-quick}
for d in $dirs; do
  d=${d%/}
  prop=$(jq -r .property $d/meta.json)
  wt=$(mktemp -d /tmp/seeded-XXXXXX)
  git -C /repo worktree add --detach -q $wt ${BASE:-HEAD} || { echo "$d: worktree failed"; continue; }
  if ! git -C $wt apply $PWD/$d/patch.diff 2>/dev/null; then
    echo "$d $prop: PATCH DOES NOT APPLY"
  else
    t0=$(date +%s)
    out=$(VERIF_REPO=$wt ./check $prop $tier 2>&1); rc=$?
    nk=$(echo "$out" | grep -c '^  key=')
    keys="$nk keys: $(echo "$out" | grep '^  key=' | sed 's/ what=.*//' | sort -u | head -6 | tr '\n' ' ')"
    echo "$d $prop rc=$rc wall=$(( $(date +%s)-t0 ))s $keys"
    [ $rc -eq 2 ] && echo "$out" | grep INCONCLUSIVE | head -3
  fi
  git -C /repo worktree remove --force $wt
done
