#!/bin/bash
# Applies each property-preserving ("benign") change under /verif/benign/<prop>-<name>/patch.diff to a
# scratch worktree of /repo and runs that property's check against it.  Expected: exit 0 (no alarm).
cd "$(dirname "$0")/.."
dirs=${@:-$(ls -d benign/*/ 2>/dev/null)}
find /root/.cache/go-build -type f -amin +120 -delete 2>/dev/null
tier=${TIER:-quick}
for d in $dirs; do
  d=${d%/}
  prop=$(jq -r .property $d/meta.json)
  wt=$(mktemp -d /tmp/benign-XXXXXX)
  git -C /repo worktree add --detach -q $wt ${BASE:-HEAD} || { echo "$d: worktree failed"; continue; }
  if ! git -C $wt apply $PWD/$d/patch.diff 2>/dev/null; then
    echo "$d $prop: PATCH DOES NOT APPLY"
  else
    t0=$(date +%s)
    out=$(VERIF_REPO=$wt VERIF_SEED=${VERIF_SEED:-1} ./check $prop $tier 2>&1); rc=$?
    nk=$(echo "$out" | grep -c '^  key=')
    echo "$d $prop rc=$rc wall=$(( $(date +%s)-t0 ))s $nk keys: $(echo "$out" | grep -E '^  key=|^INCONCLUSIVE' | sed 's/ what=.*//' | sort -u | head -5 | tr '\n' ' ')"
  fi
  git -C /repo worktree remove --force $wt
done
