NOT_YET = {}
CHECKS["C16"] = dict(
    level="fault_enumeration",
    technique="runtime monitoring: enumerated upload-failure patterns x interleaving shapes against the real RuntimeRecorder with a conservation/unique-id oracle; race detector stress; porcupine linearizability check of recorded histories",
    text="All success/failure patterns of upload attempts up to length 6 (8 thorough) x 3 record/upload interleaving shapes are executed on the real billstat.RuntimeRecorder with a scripted uploader; every batch handed to the uploader and the final drain are compared with a counting model (delivered + held == recorded, metadata of the most recent call identified by unique per-call metadata). Concurrent writers vs refresher run under the race detector and small concurrent histories are checked with porcupine against a counter model.",
    note="Trusted: the scripted uploader stands in for backendpb (reads the batch only during Upload); one refresher at a time. Holds for the executions produced, not for all schedules.",
    ref="2/C16",
)
CHECKS["C02"] = dict(
    level="exploration",
    technique="runtime monitoring: real filterstorage.Default + hashprefix filters fed by a local HTTP fixture, verdicts and written messages (full dnssvc stack) compared with a precedence evaluator written from the statement; winner x loser matrix gated",
    text="Seeded worlds of rule lists (grammar with known meaning), custom rules, blocked services, safe-search and hash-prefix lists are loaded into the real filter storage; for every configuration x probe the verdict at ForConfig(...).FilterRequest/FilterResponse and the message actually written behind the real middleware stack (per-profile blocking mode and TTL, upstream marker records) are compared with a ~60-line evaluator of the documented precedence. Holds for the configurations and probes generated (pairs of overlapping sources are counted and gated).",
    note="Trusted: urlfilter's semantics inside the generated grammar; hash-prefix result caches are cleared per probe (their cross-requester leak is C12's subject). Exploration of a seeded sample, not all inputs.",
    ref="2/C02",
)
CHECKS["C03"] = dict(
    level="exploration",
    technique="runtime monitoring: requests over the product transport x identifier channel x credentials x database state injected into the real dnssvc stack (MapDB and real profiledb), attribution observed at the terminal handler / billing / query log and judged by a decision table written from the statement; real DoH/DoT listeners confirm the RequestInfo the servers build",
    text="About 40k cases (quick) over 16 servers, 20 devices, every identification channel and credential state; the security direction (attributed => entitled) is asserted on every case, the converse only where the statement fixes it. A subset goes through real HTTPS/TLS listeners.",
    note="Trusted: the harness's decision table; devices without a password hash accept any password (recorded assumption). Finite product, seeded extras.",
    ref="2/C03",
)
CHECKS["C11"] = dict(
    level="exploration",
    technique="runtime monitoring: real hashprefix Storage/Matcher/Filter and the preservice path of the full stack against an independent SHA-256/public-suffix model; value-based concurrent reset/lookup oracle",
    text="Generated lists (comments, duplicates, CRLF, public-suffix and 4-label boundaries, 2-byte prefix collisions) across resets and refreshes; ~300k host probes and prefix queries per quick run are compared for soundness and completeness with a model written from the statement; TXT prefix queries are also driven through the real middleware stack.",
    note="Trusted: x/net/publicsuffix data (cut-off logic re-implemented); hosts under non-ICANN suffixes follow the documented 'full private space' behaviour.",
    ref="2/C11",
)
CHECKS["C15"] = dict(
    level="exploration",
    technique="runtime monitoring: per-request trace of query-log/billing side effects behind the real dnssvc stack (scripted filter verdicts, all attribution/drop classes, 32-goroutine phase under the race detector) + offline checker of the real querylog.FileSystem output (parse every line, multiset of ids, field model from doc/querylog.md)",
    text="Every request's log entry and billing record must exist iff the statement allows it and must describe that request; the log file written by 32 concurrent writers must consist solely of complete single-line JSON objects, one per entry, with the documented fields.",
    note="Trusted: doc/querylog.md as the field model; scripted filter storage instead of real lists (the real lists are C02's subject).",
    ref="2/C15",
)
CHECKS["C17"] = dict(
    level="fault_enumeration",
    technique="runtime monitoring: seeded up/down/garbage/silent schedules of scripted stub upstreams against the real forward.Handler with explicit health-check rounds; reference fail-over state machine with interval arithmetic for the back-off; race detector on a concurrent query/refresh phase",
    text="288 schedules x 14 steps (quick) over M in 1..3 mains and F in 0..2 fallbacks, 11 per-step stub behaviours, back-off in {0, 450ms, 750ms, 1h}; every query is matched against the set of legitimate (main, fallback, outcome) triples of the model using the stubs' own request logs and self-identifying answers.",
    note="Trusted: the stubs' logs; back-off boundary cases are counted as ambiguous, never judged; a SERVFAIL reply from a main is relayed (statement), not failed over.",
    ref="2/C17",
)
