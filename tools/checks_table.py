NOT_YET = {}
CHECKS['C16'] = dict(
    level='fault_enumeration',
    technique='runtime monitoring: enumerated upload-failure patterns x interleaving shapes against the real RuntimeRecorder with a conservation/unique-id oracle; race detector stress; porcupine linearizability check of recorded histories',
    text='All success/failure patterns of upload attempts up to length 6 (8 thorough) x 3 record/upload interleaving shapes are executed on the real billstat.RuntimeRecorder with a scripted uploader; every batch handed to the uploader and the final drain are compared with a counting model (delivered + held == recorded, metadata of the most recent call identified by unique per-call metadata). Concurrent writers vs refresher run under the race detector and small concurrent histories are checked with porcupine against a counter model. Extended: the real backendpb.BillStat over loopback gRPC (six stream kinds, overlapping and concurrent uploads), hundreds of devices with per-call accept patterns, billed time behind a real TCP listener and on overlapping DoQ streams (dnssvc handler chain).',
    note='The scripted uploader reads the batch only during Upload (as backendpb does); the real backendpb uploader is driven separately over loopback gRPC. A backend that answers OK before reading the whole stream is outside the fault model (observed, not judged). Holds for the executions produced, not for all schedules.',
    ref='2/C16',
)
CHECKS['C02'] = dict(
    level='exploration',
    technique='runtime monitoring: real filterstorage.Default + hashprefix filters fed by a local HTTP fixture, verdicts and written messages (full dnssvc stack) compared with a precedence evaluator written from the statement; winner x loser matrix gated; the real binary with permuted rule_lists.ids of a filtering group over two conflicting rewrite lists (order as written in the file)',
    text='Seeded worlds of rule lists (grammar with known meaning), custom rules, blocked services, safe-search and hash-prefix lists are loaded into the real filter storage; for every configuration x probe the verdict at ForConfig(...).FilterRequest/FilterResponse and the message actually written behind the real middleware stack (per-profile blocking mode and TTL, upstream marker records) are compared with a ~60-line evaluator of the documented precedence. Holds for the configurations and probes generated (pairs of overlapping sources are counted and gated). Extended: TTL 0/1 profiles, qtype-alias cache histories with a cache-off twin, custom rules as delivered by the real backendpb/profiledb (full vs incremental sync), $client modifiers with named devices in both orders, four-label listed hosts.',
    note="Trusted: urlfilter's semantics inside the generated grammar; hash-prefix result caches are cleared per probe (their cross-requester leak is C12's subject). Exploration of a seeded sample, not all inputs.",
    ref='2/C02',
)
CHECKS['C03'] = dict(
    level='exploration',
    technique='runtime monitoring: requests over the product transport x identifier channel x credentials x database state injected into the real dnssvc stack (MapDB and real profiledb), attribution observed at the terminal handler / billing / query log and judged by a decision table written from the statement; real DoH/DoT listeners confirm the RequestInfo the servers build',
    text='About 40k cases (quick) over 16 servers, 20 devices, every identification channel and credential state; the security direction (attributed => entitled) is asserted on every case, the converse only where the statement fixes it. A subset goes through real HTTPS/TLS listeners. Extended: ClientHello ground truth for the SNI channel, Host-header cases, databases restored from the profile file cache, unusable stored hashes, CreateAutoDevice held while a sync lands, overlapping non-canonical human IDs.',
    note="Trusted: the harness's decision table; devices without a password hash accept any password (recorded assumption). Finite product, seeded extras.",
    ref='2/C03',
)
CHECKS['C11'] = dict(
    level='exploration',
    technique='runtime monitoring: real hashprefix Storage/Matcher/Filter and the preservice path of the full stack against an independent SHA-256/public-suffix model; value-based concurrent reset/lookup oracle',
    text='Generated lists (comments, duplicates, CRLF, public-suffix and 4-label boundaries, 2-byte prefix collisions) across resets and refreshes; ~300k host probes and prefix queries per quick run are compared for soundness and completeness with a model written from the statement; TXT prefix queries are also driven through the real middleware stack. Extended: pooled TXT records with disposal, repeated prefixes with listed names brute-forced into special buckets, fault-then-clean histories in replacement-host mode, file:// lists with old mtime and a content check after every refresh.',
    note="Trusted: x/net/publicsuffix data (cut-off logic re-implemented); hosts under non-ICANN suffixes follow the documented 'full private space' behaviour.",
    ref='2/C11',
)
CHECKS['C15'] = dict(
    level='exploration',
    technique='runtime monitoring: per-request trace of query-log/billing side effects behind the real dnssvc stack (scripted filter verdicts, all attribution/drop classes, 32-goroutine phase under the race detector) + offline checker of the real querylog.FileSystem output (parse every line, multiset of ids, field model from doc/querylog.md)',
    text="Every request's log entry and billing record must exist iff the statement allows it and must describe that request; the log file written by 32 concurrent writers must consist solely of complete single-line JSON objects, one per entry, with the documented fields. Extended: real filter storage with six blocked services, backend model with modification times and restart, deleted profiles on every identification path, extended rcodes, specially treated request names.",
    note='Trusted: doc/querylog.md as the field model; Parts 1-2 script the filter verdicts, Parts 3-4 use the real filter storage and the real profiledb.',
    ref='2/C15',
)
CHECKS['C17'] = dict(
    level='fault_enumeration',
    technique='runtime monitoring: seeded up/down/garbage/silent schedules of scripted stub upstreams against the real forward.Handler with explicit health-check rounds; reference fail-over state machine with interval arithmetic for the back-off; race detector on a concurrent query/refresh phase; the real binary on config.dist.yaml variants with scripted stub upstreams recording who receives each client query (back-off as written in the file)',
    text="288 schedules x 14 steps (quick) over M in 1..3 mains and F in 0..2 fallbacks, 11 per-step stub behaviours, back-off in {0, 450ms, 750ms, 1h}; every query is matched against the set of legitimate (main, fallback, outcome) triples of the model using the stubs' own request logs and self-identifying answers. Extended: tcp/udp/any networks with pooled-connection faults (extra message once), F=0 schedules, TC + foreign question, context-cut probes, slow calls judged by outcome, flip phase under concurrent queries, idle-pool overflow burst, production ForwardMetricsListener with a mutex-blocked-refresh watchdog; binary phase: healthcheck.interval 1s / backoff_duration 60s fail-recover history, no client query at a main stub during the back-off (control: backoff 1s returns).",
    note="Trusted: the stubs' logs; back-off boundary cases are counted as ambiguous, never judged; a SERVFAIL reply from a main is relayed (statement), not failed over.",
    ref='2/C17',
)
CHECKS['C01'] = dict(
    level='exploration',
    technique='runtime monitoring: the real dnsserver listeners of all transports (UDP, TCP, DoT, DoH h1/h2/plain GET+POST, JSON API, DoQ, DNSCrypt UDP+TCP; h3 thorough) driven by raw byte-exact clients; per-response oracle against the handler invoked directly, cross-transport comparison, hostile-input expectation table computed from the bytes; race detector',
    text="Generated well-formed queries x 16 client paths must each get exactly one response with the request's ID and question and the handler's rcode/records (modulo documented truncation/padding/keep-alive/OPT echo); random bytes, truncations at every offset and header mutations must get the documented FORMERR/NOTIMP/drop treatment, never another ID/question, and a liveness probe follows every hostile batch. Extended (rounds 3-7): production prometheus metrics listener on all benches; pipeline-limit benches; unsized/chunked DoH POST, split stream writes, long-lived DoQ/TCP/DoT/DoH connections under a handle-timeout request context, datagrams beyond the read buffer, 10 300 parked handlers; a production-pipeline phase with the dnssvc handler chain behind every transport (17 EDNS forms x 9 qclasses x 3 upstream behaviours, exactly-one-response and cross-transport oracle).",
    note="Trusted: the expectation table written from the servers' documentation; a UDP datagram longer than the read buffer is judged by its first 512 bytes; DoQ answering response-bit messages with SERVFAIL is accepted as documented. ~36k evaluations per quick run.",
    ref='2/C01',
)
CHECKS['C04'] = dict(
    level='exploration',
    technique="runtime monitoring: simple and ECS cache middlewares around a scripted upstream with per-request 'upstream called' tokens; warm/fresh differential, key-separation pairs, cacheability classes, parallel age sweep judged by interval arithmetic on monotonic timestamps; race detector on the concurrent phase",
    text='Hits must equal fresh answers (TTL masked), never cross (name, qtype, qclass, DO, subnet/location) keys, never carry a TTL above the rounded remaining lifetime at the lenient end of the recorded age interval, never be served after expiry, and uncacheable classes must reach the upstream every time. Extended: production pool wiring (shared Cloner/Constructor/Disposer), caches behind real UDP+TCP servers, sibling location subnets under unaligned prefixes, SERVFAIL lifetimes in override configurations (ages beyond 30 s are now waited for in the background).',
    note='Both caches read the wall clock: ages are real sleeps (1-3 s TTLs, hundreds of entries in parallel; SERVFAIL cases up to ~32 s in the background); cases straddling a rounding boundary are counted ambiguous.',
    ref='2/C04',
)
CHECKS['C05'] = dict(
    level='exploration',
    technique="runtime monitoring: recorded histories through the real stack with the real ECS cache, unique upstream payload per call, wire-crafted ECS options, GeoIP fake with recognisable coarse subnets; order-free 'may serve' model replayed over each history; race detector on the concurrent variant",
    text="Every upstream request's ECS must be /0 or the GeoIP coarse subnet of the client's (or its option's) location and family; /0 clients only get /0-obtained answers; scoped answers are reused only within the same subnet+family (incl. sibling subnets differing in a partial byte); the response echoes the client's own prefix with scope = source length iff the query had a valid option; malformed options get FORMERR. Extended: real geoip.File (incl. refresh race), sibling subnets, CNAME-rewrite path, and a listener-level phase with raw wire ECS forms on 8 transports (transport errors are retried and otherwise ambiguous, never verdicts).",
    note="Trusted: the scripted upstream and (outside the real-GeoIP phases) the GeoIP fake; forms the DNS library cannot decode are judged by the transport's documented reaction. 190 histories + 500 listener cases per quick run.",
    ref='2/C05',
)
CHECKS['C07'] = dict(
    level='exploration',
    technique='runtime monitoring: (1) sequential-vs-32-goroutine differential of packed responses through the real stack (real filter storage, hash-prefix filters, ECS cache, production Cloner, Dispose after write) under the race detector; (2) shadow-heap monitor over seeded Clone/Dispose/constructor histories re-checking every live message after every step',
    text='Each concurrent response must be byte-identical to the same request processed alone (TTL decay of cache hits masked by interval arithmetic); every live clone must keep its snapshot through arbitrary clone/dispose sequences over all RR types, SVCB parameters and EDNS options, equal its original and share no memory with it. Extended: scripted cache-population histories, simple-cache recycling, shared rule lists and blocked services on the real filter storage under concurrent profiles, real listeners under bursts, letter-case spellings.',
    note='Trusted: the upstream is a pure function of the question; hash-prefix names are pinned to one profile. sync.Pool behaviour makes reuse probabilistic, directed probes are retried.',
    ref='2/C07',
)
CHECKS['C09'] = dict(
    level='exploration',
    technique='runtime monitoring: exhaustive virtual-time enumeration of RequestCounter.Add against a timestamp-log model (exhaustive: true for that layer), real Backoff scenarios judged by interval arithmetic with guard bands, full-stack profile/global/protocol gating; race detector and porcupine on concurrent Add',
    text='All non-decreasing timestamp sequences of length 8 over boundary grids for limits 1-4 (72k sequences) plus long seeded sequences; Backoff: limit, back-off entry/exit incl. hits spread over several periods, allow-list, ANY refusal, every subnet key length, response-size weighting, counter-entry expiry; stack: drop = handler not run and nothing written, DoT never limited, profile limit replaces the global one. Extended: limit 0/1, slow handlers with request start times, IPv4-mapped remote addresses, allow-list / profile subnets delivered through the real backendpb clients, and a binary layer (real program: configured period vs duration, dual-stack bind, response weight after truncation/compression).',
    note='Backoff and the profile limiter read the wall clock: time-dependent verdicts only when they hold for every instant compatible with the recorded intervals (5 ms guard band); an event exactly one interval old may count either way (consistently).',
    ref='2/C09',
)
CHECKS['C10'] = dict(
    level='exploration',
    technique='runtime monitoring: real access.Global and access.DefaultProfile inside the real stack with a DNS cache; per-request trace of every downstream side effect and of written responses judged by a membership model from the statement; cold-key twin requests detect caching',
    text='300 configurations x 60 probes on subnet/ASN/name-rule boundaries (IPv4, IPv6, IPv4-mapped), attributed and anonymous clients over all identification channels: blocked => no response, nil error, zero side effects, nothing cached; not blocked => exactly one response; malformed-ECS / invalid-device-id requests of globally blocked clients must also stay unanswered. Extended: filtering-paused profiles, configuration round trip, delivery through real backendpb + profiledb (zero-length prefixes, partial syncs, restart from cache), real geoip.File with cross-family pairs, real DoH listeners with forged client-address headers.',
    note='Trusted: urlfilter semantics for the rule grammar used (host rules exact, ||d^ suffix); GeoIP fake.',
    ref='2/C10',
)
CHECKS['C12'] = dict(
    level='exploration',
    technique='runtime monitoring: twin real filter storages (result caches live vs cleared before every call) + a storage rebuilt from current content; hook-parked reader straddling a hash refresh; concurrent readers vs refreshes checked per host with porcupine against a version register; race detector',
    text='Sequential histories of queries from 8 requesters (different blocking modes, TTLs, EDE, EDNS) interleaved with rule-list, hash-list, service, safe-search refreshes and custom-rule updates: verdicts and packed messages must be equal between twins and equal to a from-scratch storage after every refresh; queries started after a refresh returned must never see the previous version. Extended: zero-rule versions, refresh window with group and profile clients, concurrent profiles on a shared cached list, qtype pairs mod 256, answer-name case pairs, failed hash refresh on a warm cache.',
    note='Trusted: version-revealing list contents; collisions of 64-bit cache keys ignored; rule-list/safe-search straddles have no hook and are covered by stress only.',
    ref='2/C12',
)
CHECKS['C14'] = dict(
    level='exploration',
    technique='runtime monitoring: real profiledb.Default over a scripted storage vs a map-of-latest-records model; verifhook-parked clean-up goroutines to produce both clean-up/sync orders; restart-from-cache field-by-field reflection comparison; concurrent lookups under the race detector + porcupine; SIGKILL/strace-injected kills during cache store',
    text='After every sync all four lookups are issued for every key that ever existed; every clean-up is released before and after the next sync (hook hit counts gated); after each full sync a second database opened on the cache file must answer identically with every exported field preserved; killed stores must leave exactly one complete version. Extended: protocol-following storage with request sync-time check, failed full syncs, Access.Config() of looked-up profiles, clean-up stress against a re-attaching sync, IP forms across restart, CreateAutoDevice in flight, hand-over syncs under concurrent lookups, one undecodable cache record.',
    note="Trusted: the scripted Storage follows the backend protocol (decides from the request's sync time) and stands in for backendpb here (C10/C02/C09 drive the real backendpb clients); crash points at syscall granularity, no power-loss semantics.",
    ref='2/C14',
)
CHECKS['C18'] = dict(
    level='exploration',
    technique='runtime monitoring: real connlimiter over harness listeners with seeded accept/close/double-close/listener-close schedules, begin/end-marked event log, hysteresis model over all orderings consistent with the marks, quiescent points established by goroutine dumps (no timing verdicts); real TCP/TLS servers with a gated handler for the pipeline bound; the real binary on config.dist.yaml variants with a holding stub upstream as the observer of per-connection concurrency',
    text="All (stop, resume) with 1<=stop<=4 x 1-3 listeners x 560 schedules: open+pending never exceeds stop, no accept while stopped, waiters proceed after resume and are released by listener close, a connection is released exactly once; pipelined bursts never exceed n concurrent handler entries per connection and every query is answered once. Extended: close-window probes parked at the limiter's own log record, failing inner closes, service-level phases through dnssvc (bind data listen configs, failed TLS handshakes, pipeline-slot time-outs, per-connection concurrency bound on every listener, accept during shutdown); binary phase: ratelimit.tcp.enabled x ratelimit.quic.enabled x max_pipeline_count as written in the file, burst on one plain-TCP / DoT connection, peak of distinct queries held by the stub upstream <= n (control: > n when disabled).",
    note='Progress is decided only at quiescent points (every actor parked in a blocking primitive, confirmed by repeated goroutine dumps); Go runtime wait-reason strings are trusted.',
    ref='2/C18',
)
CHECKS['C19'] = dict(
    level='exploration',
    technique='runtime monitoring: real websvc linked-IP proxy on loopback with a recording back-end and a raw TCP client (byte-exact request lines/headers, several peer addresses); back-end contact and every forwarded request judged by a model from doc/http.md + RFC 3986',
    text='30k generated requests (methods, path grammar with dot/encoded/empty/extra segments, absolute-form targets, forged/duplicated/Connection-named forwarding headers): back-end contacted only for the four documented shapes; forwarded path stays under /linkip/ or /ddns/ after normalisation; exactly one X-Connecting-IP equal to the TCP peer; no client-supplied forwarding header values; everything else 404/robots. Extended: multi-encoded paths, routing-hint headers, six service configurations through websvc.New, IPv6 / dual-stack / zoned peers, accounting of every request the backend ever receives (Refresh/Start/Shutdown exercised).',
    note='Requests the HTTP server itself rejects before the handler are judged leniently (back-end untouched only). Targets whose readings disagree are never required to be proxied.',
    ref='2/C19',
)
CHECKS['C13'] = dict(
    level='fault_enumeration',
    technique='runtime monitoring: real filterstorage.Default + hashprefix filters against scripted raw-TCP HTTP servers with per-request fault scripts (20 fault kinds x 10 targets x round positions), version-revealing list contents; child processes killed by stalled-transfer SIGKILL, strace-injected SIGKILL at renameat/fsync/utimensat/unlinkat/openat/write/close, and seeded random kills; cache directory and restart-with-server-down checked after every round/kill',
    text='After each fault round the faulted list must behave as its previous complete version, other lists as previous or new, valid entries of a partially invalid index applied, and every cache file must hold bytes of a complete version ever served for it; after each kill every cache file is previous-or-new complete and a new process starts from the cache alone. Extended: duplicate index keys, absent index members at permuted positions, overlapping refreshes (one faulted, parked by the list server), cross-content probes.',
    note='A body transferred completely with status 200 counts as a complete version even if a content-level validator later rejects it (restart usability is not asserted then; counted in evidence). Crash points at syscall and transfer-chunk granularity; no power-loss semantics (missing fsync invisible).',
    ref='2/C13',
)
CHECKS['C08'] = dict(
    level='exploration',
    technique='runtime monitoring: real listeners of every transport with a handler whose response size/shape is steered to the byte by the query name; raw clients measure wire lengths and framing (sentinel query after every stream frame, DoQ stream read to FIN); per-cell oracle from the statement',
    text="6140 cells per quick run (all 1640 boundary cells + seeded sample of a 232k grid: response size x advertised size x configured maximum x EDNS option subsets x own OPT x 15 paths): UDP/DNSCrypt-UDP length <= max(512, min(advertised, configured)), stream/DoH length <= 65535 with a consistent prefix, dropped records => TC and empty answer, OPT echoed with the client's UDP size and version 0, padding/keep-alive only where allowed. Extended: shared-cloner bench, real ECS-cache handler (incl. upstream OPT options), silent / erroring handlers, configured maximum 0, JSON endpoint in wire format.",
    note="'No response' (packing refused, EMSGSIZE, DoQ keep-alive refusal) is bucketed, never judged. Plain-HTTP DoH counts as DoH for the padding rule. Requests <= 512 bytes.",
    ref='2/C08',
)
CHECKS['C20'] = dict(
    level='exploration',
    technique='runtime monitoring of the real binary: YAML-tree mutations of the distributed example configuration (every numeric/duration/size/enum/cross-reference field x {0,-1,1,bound+-1,large,missing} + documented cross-field constraints + seeded pairs) started as child processes in a hermetic environment (stub upstreams, gRPC backend, Redis, HTTP lists, certificates) and exercised with a traffic script over all six transports',
    text='718 configurations per quick run: each is either rejected (non-zero exit, a configuration error that names the offending property, no runtime error) or accepted and then must serve the traffic script without panic / recovered panic / total silence and shut down cleanly; every violation is confirmed by a second execution. Extended: round values next to bounds, missing/null sections, connection-limit serviceability script, enum spellings, structural server-group operator, list operators, backend matrix under a failing key-value backend, restart from the profile cache, a 2^62 class for count-like properties.',
    note='Rate limiting by design is not a violation (only the first query of a fresh limited client is required when a rate parameter is mutated); 1 ns / 1 B values are legal positives; interface listeners are omitted from the base configuration. Seven recorded findings (five negative sizes rejected without naming the key, two 2^62 counts that panic on the first query); the parse-level findings (negative sizes rejected without naming the key) are recorded in known_findings.json.',
    ref='2/C20',
)
CHECKS['C06'] = dict(
    level='exploration',
    technique='runtime monitoring: real listeners (UDP, TCP, DoT, DoQ, DoH POST/GET) warmed with recognisable traffic, then probed with short / count-inflated / mis-framed / segmented messages and back-to-back bursts; two oracles: warmed-vs-fresh-listener differential and an own-bytes reference (unpack exactly the bytes sent); real forward.UpstreamPlain against a scripted stub replying with cut / inflated / mis-framed replies; race detector',
    text="About 13k warmed and 534 fresh probe observations, 10k overlap-burst responses and 1.8k upstream exchanges per quick run: an undecodable or incomplete message must never be answered with a question/records, every response must carry the ID and question of its own request and no bytes of the warming traffic or of another in-flight request, and Exchange must return an error or exactly the records present in the reply's own bytes. Extended: bind-to-device UDP path (real Manager on lo), pipeline-slot fault history, probes beyond the initial pool buffer size, handler reflects the decoded OPT.",
    note='sync.Pool reuse is probabilistic: probes are repeated (R=8, part of the run under GOMAXPROCS=2); the own-bytes oracle does not depend on hitting a dirty buffer. DNSCrypt has no pooled read buffer in the repository and is not covered.',
    ref='2/C06',
)
