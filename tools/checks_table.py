NOT_YET = {}
CHECKS["C16"] = dict(
    level="fault_enumeration",
    technique="runtime monitoring: enumerated upload-failure patterns x interleaving shapes against the real RuntimeRecorder with a conservation/unique-id oracle; race detector stress; porcupine linearizability check of recorded histories",
    text="All success/failure patterns of upload attempts up to length 6 (8 thorough) x 3 record/upload interleaving shapes are executed on the real billstat.RuntimeRecorder with a scripted uploader; every batch handed to the uploader and the final drain are compared with a counting model (delivered + held == recorded, metadata of the most recent call identified by unique per-call metadata). Concurrent writers vs refresher run under the race detector and small concurrent histories are checked with porcupine against a counter model.",
    note="Trusted: the scripted uploader stands in for backendpb (reads the batch only during Upload); one refresher at a time. Holds for the executions produced, not for all schedules.",
    ref="2/C16",
)
