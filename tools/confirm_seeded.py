#!/usr/bin/env python3
"""Independently confirms a seeded change under /verif/seeded/<name>/ in a scratch worktree:
   demo passes on the unchanged tree, patch applies, tree builds, the repository's own
   test suite passes with the patch (flaky bind failures are retried per package), the
   demo fails with the patch.  Writes the outcome into meta.json ("confirmed": {...}).
   Usage: tools/confirm_seeded.py seeded/C16-a [...]"""
import json, os, re, shutil, subprocess, sys, tempfile

ENV = dict(os.environ, GOPROXY="off", GOSUMDB="off", GOTOOLCHAIN="local")
for k in ("GOFLAGS", "GOWORK"):
    ENV.pop(k, None)


def sh(cmd, cwd):
    p = subprocess.run(cmd, shell=True, cwd=cwd, env=ENV, stdout=subprocess.PIPE, stderr=subprocess.STDOUT, text=True)
    return p.returncode, p.stdout


def suite(wt):
    """Runs the baseline suite; packages that fail are retried alone up to 3 times."""
    failed = []
    for mod in (".", "internal/dnsserver"):
        # A private network namespace avoids "address already in use" flakes caused by
        # other jobs on this host (the suite binds fixed/ephemeral loopback ports).
        rc, out = sh("unshare -n sh -c 'ip link set lo up; ip route add default dev lo; go test -vet=off -count=1 -timeout 25m ./... 2>&1'", os.path.join(wt, mod))
        if rc != 0:
            for m in re.finditer(r"^(?:FAIL|---\s+FAIL.*\n.*)?\s*FAIL\s+(\S+)\s+[\d.]+s$", out, re.M):
                failed.append((mod, m.group(1)))
            if "[build failed]" in out or "[setup failed]" in out:
                return False, out[-3000:]
    still = []
    for mod, pkg in sorted(set(failed)):
        ok = False
        for _ in range(3):
            rc, out = sh(f"unshare -n sh -c 'ip link set lo up; ip route add default dev lo; go test -vet=off -count=1 {pkg} 2>&1'", os.path.join(wt, mod))
            if rc == 0:
                ok = True
                break
        if not ok:
            still.append(pkg + "\n" + out[-1500:])
    return not still, "\n".join(still)


def confirm(d):
    d = os.path.abspath(d)
    meta = json.load(open(os.path.join(d, "meta.json")))
    wt = tempfile.mkdtemp(prefix="confirm-")
    res = {}
    try:
        base = os.environ.get("BASE", "HEAD")
        res["base"] = subprocess.run(f"git -C /repo rev-parse --short {base}", shell=True, capture_output=True, text=True).stdout.strip()
        rc, out = sh(f"git -C /repo worktree add --detach -q {wt} {base}", "/")
        if rc:
            res["error"] = out
            return res
        demo_rel = meta["demo_path_in_repo"].split(",")[0].strip()
        demo_dir = os.path.join(d, "demo")
        files = [f for f in os.listdir(demo_dir)]
        # demo files go next to demo_path_in_repo (single file) or keep relative layout
        target_dir = os.path.join(wt, os.path.dirname(demo_rel)) if not os.path.isdir(os.path.join(wt, demo_rel)) else os.path.join(wt, demo_rel)
        os.makedirs(target_dir, exist_ok=True)
        for f in files:
            src = os.path.join(demo_dir, f)
            if os.path.isdir(src):
                shutil.copytree(src, os.path.join(target_dir, f), dirs_exist_ok=True)
            else:
                shutil.copy(src, os.path.join(target_dir, f))
        cmd = re.sub(r"/tmp/mut/(?:R\d)?" + meta["property"] + r"\b", wt, meta["demo_cmd"].replace("<repo>", wt).replace("<worktree>", wt))
        # some demo commands copy their files themselves from a relative demo/ directory
        demo_cwd = d if re.search(r"(^|[;& ])cp demo/", cmd) else wt
        # run the demo in a private network namespace as well (loopback ports on this host are congested)
        script = os.path.join(wt, ".demo-cmd.sh")
        open(script, "w").write("ip link set lo up; ip route add default dev lo 2>/dev/null\n" + cmd + "\n")
        cmd = f"unshare -n sh {script}"
        rc, out = sh(cmd, demo_cwd)
        res["demo_passes_without_change"] = rc == 0
        if rc != 0:
            res["demo_out_without"] = out[-1500:]
        rc, out = sh(f"git apply {d}/patch.diff", wt)
        res["patch_applies"] = rc == 0
        if rc:
            res["error"] = out
            return res
        rc, out = sh("go build ./... && (cd internal/dnsserver && go build ./...)", wt)
        res["builds"] = rc == 0
        rc, out = sh(cmd, demo_cwd)
        res["demo_fails_with_change"] = rc != 0
        res["demo_out_with_change_tail"] = out[-600:]
        # remove demo before the suite so that the suite is the UNEDITED one
        for f in files:
            p = os.path.join(target_dir, f)
            shutil.rmtree(p) if os.path.isdir(p) else os.remove(p)
        ok, detail = suite(wt)
        res["suite_passes_with_change"] = ok
        if not ok:
            res["suite_detail"] = detail
        return res
    finally:
        subprocess.run(f"git -C /repo worktree remove --force {wt}", shell=True)
        shutil.rmtree(wt, ignore_errors=True)
        meta["confirmed"] = res
        meta["confirmed"]["all_ok"] = all(res.get(k) for k in ("demo_passes_without_change", "patch_applies", "builds", "demo_fails_with_change", "suite_passes_with_change"))
        json.dump(meta, open(os.path.join(d, "meta.json"), "w"), indent=1)


if __name__ == "__main__":
    for d in sys.argv[1:]:
        r = confirm(d)
        print(d, "OK" if r.get("all_ok") else "NOT-CONFIRMED", {k: v for k, v in r.items() if isinstance(v, bool)})
