// Package c11 monitors property C11: safe-browsing lookups are sound and
// complete for hosts and hash prefixes.
//
// The oracle compares what the real hashprefix.Storage / Matcher / Filter and
// the real dnssvc handler stack (preservice middleware) answer with a small
// reference model written from the property statement: a set of SHA-256 hashes
// of the listed lines, the "up to four labels, excluding the public suffix"
// candidate rule, and the "all full hashes starting with a requested prefix"
// rule.
package c11

import (
	"context"
	"crypto/sha256"
	"encoding/hex"
	"errors"
	"fmt"
	"io"
	"log/slog"
	"net"
	"net/http"
	"net/http/httptest"
	"net/netip"
	"net/url"
	"os"
	"path/filepath"
	"runtime"
	"sort"
	"strings"
	"sync"
	"sync/atomic"
	"testing"
	"time"

	"math/rand/v2"

	"github.com/AdguardTeam/AdGuardDNS/internal/agd"
	"github.com/AdguardTeam/AdGuardDNS/internal/agdcache"
	"github.com/AdguardTeam/AdGuardDNS/internal/agdtest"
	"github.com/AdguardTeam/AdGuardDNS/internal/dnsmsg"
	"github.com/AdguardTeam/AdGuardDNS/internal/dnsserver"
	"github.com/AdguardTeam/AdGuardDNS/internal/dnssvc"
	"github.com/AdguardTeam/AdGuardDNS/internal/filter"
	"github.com/AdguardTeam/AdGuardDNS/internal/filter/hashprefix"
	"github.com/AdguardTeam/AdGuardDNS/internal/geoip"
	"github.com/AdguardTeam/AdGuardDNS/internal/querylog"
	"github.com/AdguardTeam/AdGuardDNS/internal/verifhook"
	"github.com/AdguardTeam/AdGuardDNS/verif/vkit"
	"github.com/c2h5oh/datasize"
	"github.com/miekg/dns"
	"golang.org/x/net/publicsuffix"
)

// ---------------------------------------------------------------------------
// Reference model (written from the statement).
// ---------------------------------------------------------------------------

type hash = [sha256.Size]byte

// model is the meaning of one list text: the set of SHA-256 hashes of its
// non-comment, non-empty lines.
type model struct {
	text     string
	listed   map[hash]string     // hash -> listed line
	byPrefix map[[2]byte][]hash  // two-byte prefix -> distinct listed hashes
	names    []string            // distinct listed lines, in order of appearance
	comment  map[string]struct{} // bodies of comment lines ("#" stripped)
	count    int                 // non-comment, non-empty lines, duplicates included
}

// parseModel is the list-format rule of the statement: one name per line,
// blank lines and lines starting with '#' are not entries, duplicates are one
// entry.
func parseModel(text string) (m *model) {
	m = &model{
		text:     text,
		listed:   map[hash]string{},
		byPrefix: map[[2]byte][]hash{},
		comment:  map[string]struct{}{},
	}
	for _, line := range strings.Split(text, "\n") {
		line = strings.TrimSuffix(line, "\r")
		if line == "" {
			continue
		}
		if line[0] == '#' {
			m.comment[strings.TrimSpace(line[1:])] = struct{}{}
			continue
		}
		m.count++
		h := sha256.Sum256([]byte(line))
		if _, ok := m.listed[h]; ok {
			continue
		}
		m.listed[h] = line
		p := [2]byte{h[0], h[1]}
		m.byPrefix[p] = append(m.byPrefix[p], h)
		m.names = append(m.names, line)
	}
	return m
}

func (m *model) has(name string) bool {
	if m == nil {
		return false
	}
	_, ok := m.listed[sha256.Sum256([]byte(name))]
	return ok
}

// sharesPrefix reports whether some listed name's hash starts with the same
// two bytes as name's hash.
func (m *model) sharesPrefix(name string) bool {
	h := sha256.Sum256([]byte(name))
	return len(m.byPrefix[[2]byte{h[0], h[1]}]) > 0
}

func filterableQType(qt uint16) bool {
	return qt == dns.TypeA || qt == dns.TypeAAAA || qt == dns.TypeHTTPS
}

// candidates lists the names that make a host dangerous when listed: the host
// itself and its parent domains, limited to names of at most four labels, and
// without the public suffix (and what is above it).  Only the public-suffix
// DATA is taken from x/net/publicsuffix.
//
// For a host whose prevailing public-suffix rule is not ICANN-managed (private
// section of the list, or a top-level domain that is not on the list at all)
// the repository documents "check the full private domain space": nothing is
// excluded.  strictExcl is the number of labels that the alternative reading
// ("always exclude the ICANN suffix") would exclude; it is used only to count
// the cases where the two readings differ.
func candidates(host string) (cands []string, pubSufLabels int, icann bool, strictExcl int) {
	labels := strings.Split(host, ".")
	ps, icann := publicsuffix.PublicSuffix(host)
	pubSufLabels = strings.Count(ps, ".") + 1
	excl := 0
	if icann {
		excl = pubSufLabels
		strictExcl = excl
	} else {
		for k := 1; k <= len(labels); k++ {
			s := strings.Join(labels[len(labels)-k:], ".")
			if p, ic := publicsuffix.PublicSuffix(s); ic && p == s {
				strictExcl = k
			}
		}
	}
	for k := excl + 1; k <= 4 && k <= len(labels); k++ {
		cands = append(cands, strings.Join(labels[len(labels)-k:], "."))
	}
	return cands, pubSufLabels, icann, strictExcl
}

// hostExpectation is the model's verdict about one (host, qtype).
type hostExpectation struct {
	Matched bool     `json:"matched"`
	Via     []string `json:"via,omitempty"` // listed candidates
	Cands   []string `json:"candidates"`
}

func (m *model) expectHost(host string, qt uint16) (e hostExpectation) {
	cands, _, _, _ := candidates(host)
	e.Cands = cands
	if !filterableQType(qt) {
		return e
	}
	for _, c := range cands {
		if m.has(c) {
			e.Via = append(e.Via, c)
		}
	}
	e.Matched = len(e.Via) > 0
	return e
}

// txtKind classifies a TXT query name.
type txtKind int

const (
	txtNotHashQuery txtKind = iota // not under a safe-browsing suffix
	txtWellFormed
	txtMalformed
	txtUnspecified // legacy 8-character label whose discarded tail is not hex
)

func (k txtKind) String() string {
	return [...]string{"not-hash-query", "well-formed", "malformed", "unspecified"}[k]
}

func isLowerHex(s string) bool {
	for i := 0; i < len(s); i++ {
		c := s[i]
		if !(c >= '0' && c <= '9' || c >= 'a' && c <= 'f') {
			return false
		}
	}
	return true
}

// expectTXT is the hash-prefix rule: host is the normalised (lower-case, no
// trailing dot) query name; suffixes maps safe-browsing suffixes to the model
// of the list behind them.
func expectTXT(host string, suffixes map[string]*model) (kind txtKind, suffix string, want map[string]struct{}) {
	var m *model
	for s, mm := range suffixes {
		if strings.HasSuffix(host, s) {
			suffix, m = s, mm
			break
		}
	}
	if suffix == "" {
		return txtNotHashQuery, "", nil
	}
	want = map[string]struct{}{}
	prefs := strings.TrimSuffix(host, suffix)
	if prefs == "" {
		return txtWellFormed, suffix, want
	}
	kind = txtWellFormed
	var req [][2]byte
	for _, l := range strings.Split(prefs, ".") {
		switch len(l) {
		case 4:
		case 8:
			if isLowerHex(l[:4]) && !isLowerHex(l[4:]) {
				kind = txtUnspecified
			}
			l = l[:4]
		default:
			return txtMalformed, suffix, nil
		}
		if !isLowerHex(l) {
			return txtMalformed, suffix, nil
		}
		b, _ := hex.DecodeString(l)
		req = append(req, [2]byte{b[0], b[1]})
	}
	if kind == txtUnspecified {
		return kind, suffix, nil
	}
	for _, p := range req {
		for _, h := range m.byPrefix[p] {
			want[hex.EncodeToString(h[:])] = struct{}{}
		}
	}
	return txtWellFormed, suffix, want
}

// ---------------------------------------------------------------------------
// Generators.
// ---------------------------------------------------------------------------

// zones under which names are generated.  Only a choice of where to put
// names; what is a public suffix is always asked from the public-suffix data.
var zones = []string{
	// ICANN, one label.
	"com", "com", "com", "org", "net", "de", "io", "dev", "ru",
	// ICANN, two labels.
	"co.uk", "co.uk", "com.au", "co.jp", "org.uk", "com.br",
	// ICANN wildcard / exception rules.
	"ck", "www.ck", "kobe.jp", "city.kobe.jp", "kawasaki.jp",
	// ICANN, three and four labels.
	"k12.ma.us", "pvt.k12.ma.us", "chtr.k12.ma.us",
	// ICANN IDN.
	"xn--55qx5d.cn", "xn--p1ai",
	// Private section.
	"github.io", "blogspot.com", "dyndns.org", "s3.amazonaws.com", "cloudfront.net",
	"herokuapp.com", "s3.dualstack.us-east-1.amazonaws.com",
	// Not on the list at all.
	"lan", "internal", "localdomain", "corp.example",
}

const labelChars = "abcdefghijklmnopqrstuvwxyz0123456789"

func genLabel(rng *rand.Rand) string {
	n := 1 + rng.IntN(3)
	if rng.IntN(4) == 0 {
		n = 4 + rng.IntN(9)
	}
	b := make([]byte, n)
	for i := range b {
		b[i] = labelChars[rng.IntN(len(labelChars))]
	}
	if n >= 3 && rng.IntN(8) == 0 {
		b[1+rng.IntN(n-2)] = '-'
	}
	return string(b)
}

func genName(rng *rand.Rand) string {
	z := zones[rng.IntN(len(zones))]
	k := 0
	switch x := rng.IntN(100); {
	case x < 3:
		k = 0
	case x < 48:
		k = 1
	case x < 76:
		k = 2
	case x < 90:
		k = 3
	case x < 97:
		k = 4
	default:
		k = 5
	}
	var ls []string
	for i := 0; i < k; i++ {
		ls = append(ls, genLabel(rng))
	}
	ls = append(ls, z)
	return strings.Join(ls, ".")
}

// pool is a seed-determined universe of names, bucketed by the first two bytes
// of their hash so that names sharing a hash prefix can be picked on purpose.
type pool struct {
	names  []string
	groups [][]int // indices of names sharing a two-byte hash prefix (>= 2 members)
	group  map[string]int
	// special holds names found by search whose hash starts with a "default
	// looking" two-byte pattern: the zero value first of all.
	special map[[2]byte][]string
}

// specialPrefixes are the hash prefixes for which listed names are searched:
// the zero value of a prefix and other patterns that uninitialised or
// mis-decoded data tends to take.
var specialPrefixes = [][2]byte{
	{0x00, 0x00}, {0xff, 0xff}, {0x00, 0x01}, {0x01, 0x00}, {0x00, 0xff}, {0xff, 0x00},
	{0x30, 0x30}, {0x20, 0x20}, {0x01, 0x01},
}

// findSpecial brute-forces, from the seed, names whose SHA-256 starts with each
// of specialPrefixes (about 65k hashes per hit).
func findSpecial(r *vkit.Run) map[[2]byte][]string {
	rng := r.Rand("special", 0)
	want := map[[2]byte]struct{}{}
	for _, p := range specialPrefixes {
		want[p] = struct{}{}
	}
	out := map[[2]byte][]string{}
	start := rng.IntN(1 << 30)
	tlds := []string{"com", "org", "co.uk", "net"}
	missing := len(specialPrefixes)
	for i := 0; i < 6_000_000 && missing > 0; i++ {
		nm := fmt.Sprintf("b%d.c11-bucket.%s", start+i, tlds[i%len(tlds)])
		h := sha256.Sum256([]byte(nm))
		p := [2]byte{h[0], h[1]}
		if _, ok := want[p]; !ok || len(out[p]) >= 2 {
			continue
		}
		out[p] = append(out[p], nm)
		if len(out[p]) == 2 {
			missing--
		}
	}
	return out
}

func buildPool(r *vkit.Run) *pool {
	rng := r.Rand("pool", 0)
	n := r.N(60000, 200000)
	p := &pool{group: map[string]int{}}
	seen := map[string]struct{}{}
	by := map[[2]byte][]int{}
	for len(p.names) < n {
		nm := genName(rng)
		if _, ok := seen[nm]; ok || len(nm) > 200 {
			continue
		}
		seen[nm] = struct{}{}
		h := sha256.Sum256([]byte(nm))
		k := [2]byte{h[0], h[1]}
		by[k] = append(by[k], len(p.names))
		p.names = append(p.names, nm)
	}
	keys := make([][2]byte, 0, len(by))
	for k, v := range by {
		if len(v) >= 2 {
			keys = append(keys, k)
		}
	}
	sort.Slice(keys, func(i, j int) bool {
		return keys[i][0] < keys[j][0] || keys[i][0] == keys[j][0] && keys[i][1] < keys[j][1]
	})
	for _, k := range keys {
		for _, i := range by[k] {
			p.group[p.names[i]] = len(p.groups)
		}
		p.groups = append(p.groups, by[k])
	}
	p.special = findSpecial(r)
	nsp := 0
	for _, v := range p.special {
		nsp += len(v)
	}
	r.Extra("pool_special_prefix_names", nsp)
	r.Extra("pool_names", len(p.names))
	r.Extra("pool_prefix_collision_groups", len(p.groups))
	return p
}

func (p *pool) pick(rng *rand.Rand) string { return p.names[rng.IntN(len(p.names))] }

// partners returns the other pool names sharing the two-byte hash prefix.
func (p *pool) partners(name string) (out []string) {
	g, ok := p.group[name]
	if !ok {
		return nil
	}
	for _, i := range p.groups[g] {
		if p.names[i] != name {
			out = append(out, p.names[i])
		}
	}
	return out
}

// genList renders one list text.  prev are the distinct names of the previous
// version (some are carried over, most vanish).
func genList(rng *rand.Rand, p *pool, size int, prev []string) string {
	var names []string
	add := func(s string) { names = append(names, s) }
	// A few bare zones: a public suffix, a private suffix or an unlisted TLD
	// listed as such, or its top label.  Few, so that most hosts under them
	// are decided by longer names.
	for i, nz := 0, 2+rng.IntN(5); i < nz; i++ {
		z := zones[rng.IntN(len(zones))]
		if rng.IntN(3) == 0 {
			z = z[strings.LastIndexByte(z, '.')+1:]
		}
		add(z)
	}
	// Names in the hash buckets of the zero prefix and of other default
	// patterns: one zero-bucket name always, the others mostly.
	for _, sp := range specialPrefixes {
		for i, nm := range p.special[sp] {
			if (sp == [2]byte{} && i == 0) || rng.IntN(4) != 0 {
				add(nm)
			}
		}
	}
	for len(names) < size {
		switch x := rng.IntN(100); {
		case x < 60:
			add(p.pick(rng))
		case x < 75:
			// A prefix-collision group: list one member (its partners become
			// near-miss probes), sometimes two or all (several hashes behind
			// one prefix).
			g := p.groups[rng.IntN(len(p.groups))]
			switch rng.IntN(4) {
			case 0:
				for _, i := range g {
					add(p.names[i])
				}
			case 1:
				add(p.names[g[0]])
				add(p.names[g[1]])
			default:
				add(p.names[g[rng.IntN(len(g))]])
			}
		case x < 85:
			if len(prev) > 0 {
				add(prev[rng.IntN(len(prev))])
			} else {
				add(p.pick(rng))
			}
		default:
			// Parent or child of a name already in the list.
			if len(names) == 0 {
				add(p.pick(rng))
				continue
			}
			b := names[rng.IntN(len(names))]
			if i := strings.IndexByte(b, '.'); i >= 0 && rng.IntN(2) == 0 {
				add(b[i+1:])
			} else if len(b) < 180 {
				add(genLabel(rng) + "." + b)
			}
		}
	}
	eol := "\n"
	if rng.IntN(5) == 0 {
		eol = "\r\n"
	}
	var lines []string
	lines = append(lines, "# generated list", "")
	for _, nm := range names {
		lines = append(lines, nm)
		switch x := rng.IntN(100); {
		case x < 5:
			lines = append(lines, nm) // adjacent duplicate
		case x < 9:
			lines = append(lines, names[rng.IntN(len(names))]) // distant duplicate
		case x < 14:
			lines = append(lines, "")
		case x < 19:
			// A commented-out name: mostly not otherwise listed.
			lines = append(lines, "#"+p.pick(rng))
		case x < 21:
			lines = append(lines, "# "+nm)
		case x < 23:
			lines = append(lines, "#")
		}
	}
	rng.Shuffle(len(lines), func(i, j int) { lines[i], lines[j] = lines[j], lines[i] })
	text := strings.Join(lines, eol)
	if rng.IntN(10) < 7 {
		text += eol
	}
	return text
}

// hostProbe is one generated host with the reason it was generated.
type hostProbe struct {
	Host string `json:"host"`
	Kind string `json:"kind"`
}

func prepend(rng *rand.Rand, name string, k int) string {
	for i := 0; i < k && len(name) < 200; i++ {
		name = genLabel(rng) + "." + name
	}
	return name
}

func genHostProbes(rng *rand.Rand, p *pool, cur, prev *model, n int) (out []hostProbe) {
	listedName := func() string {
		if len(cur.names) == 0 {
			return p.pick(rng)
		}
		return cur.names[rng.IntN(len(cur.names))]
	}
	var comments []string
	for c := range cur.comment {
		if c != "" && !strings.Contains(c, " ") {
			comments = append(comments, c)
		}
	}
	sort.Strings(comments)
	isZone := map[string]struct{}{}
	for _, z := range zones {
		isZone[z] = struct{}{}
	}
	var listedZones []string
	for _, nm := range cur.names {
		if _, ok := isZone[nm]; ok || !strings.Contains(nm, ".") {
			listedZones = append(listedZones, nm)
		}
	}
	for len(out) < n {
		switch x := rng.IntN(100); {
		case x < 14:
			out = append(out, hostProbe{listedName(), "listed"})
		case x < 34:
			out = append(out, hostProbe{prepend(rng, listedName(), 1+rng.IntN(4)), "sub-of-listed"})
		case x < 42:
			nm := listedName()
			if i := strings.IndexByte(nm, '.'); i >= 0 {
				out = append(out, hostProbe{nm[i+1:], "parent-of-listed"})
			}
		case x < 50:
			nm := listedName()
			if i := strings.IndexByte(nm, '.'); i >= 0 {
				out = append(out, hostProbe{genLabel(rng) + nm[i:], "sibling-of-listed"})
			}
		case x < 58:
			if len(comments) > 0 {
				c := comments[rng.IntN(len(comments))]
				out = append(out, hostProbe{prepend(rng, c, rng.IntN(2)), "commented-out"})
			}
		case x < 72:
			// Not listed, but shares the two-byte hash prefix with a listed
			// name.
			ps := p.partners(listedName())
			if len(ps) > 0 {
				out = append(out, hostProbe{prepend(rng, ps[rng.IntN(len(ps))], rng.IntN(2)), "prefix-partner"})
			}
		case x < 80:
			if prev != nil && len(prev.names) > 0 {
				out = append(out, hostProbe{prepend(rng, prev.names[rng.IntN(len(prev.names))], rng.IntN(2)), "previous-version"})
			}
		case x < 88:
			z := zones[rng.IntN(len(zones))]
			if len(listedZones) > 0 && rng.IntN(10) < 7 {
				z = listedZones[rng.IntN(len(listedZones))]
				if rng.IntN(4) == 0 {
					// Another zone ending in the listed label(s).
					for _, z2 := range zones {
						if strings.HasSuffix(z2, "."+z) && rng.IntN(2) == 0 {
							z = z2
							break
						}
					}
				}
			}
			out = append(out, hostProbe{prepend(rng, z, rng.IntN(4)), "around-zone"})
		default:
			if rng.IntN(150) == 0 {
				// The root name: no labels, nothing to look up.
				out = append(out, hostProbe{"", "root"})
				continue
			}
			out = append(out, hostProbe{prepend(rng, p.pick(rng), rng.IntN(2)), "random"})
		}
	}
	return out
}

var nonFilterableQTypes = []uint16{
	dns.TypeTXT, dns.TypeCNAME, dns.TypeMX, dns.TypeNS, dns.TypeSOA, dns.TypePTR, dns.TypeSRV,
	dns.TypeSVCB, dns.TypeANY, dns.TypeDS, dns.TypeDNSKEY, dns.TypeNAPTR, dns.TypeCAA, dns.TypeNone,
	dns.TypeA + 1, dns.TypeAAAA - 1, dns.TypeAAAA + 1, dns.TypeHTTPS + 1, 255, 256, 65280, 65535,
}

// qtypesFor returns the three filterable types plus k others, shuffled.
func qtypesFor(rng *rand.Rand, k int) []uint16 {
	qts := []uint16{dns.TypeA, dns.TypeAAAA, dns.TypeHTTPS}
	for i := 0; i < k; i++ {
		if rng.IntN(6) == 0 {
			qt := uint16(rng.IntN(65536))
			if !filterableQType(qt) {
				qts = append(qts, qt)
			}
			continue
		}
		qts = append(qts, nonFilterableQTypes[rng.IntN(len(nonFilterableQTypes))])
	}
	rng.Shuffle(len(qts), func(i, j int) { qts[i], qts[j] = qts[j], qts[i] })
	return qts
}

// txtQuery is one generated TXT query name (already normalised).
type txtQuery struct {
	Host string `json:"host"`
	Kind string `json:"kind"`
}

const hexChars = "0123456789abcdef"

func randHex(rng *rand.Rand, n int) string {
	b := make([]byte, n)
	for i := range b {
		b[i] = hexChars[rng.IntN(16)]
	}
	return string(b)
}

func genTXTQuery(rng *rand.Rand, p *pool, suffix string, m *model) txtQuery {
	if x := rng.IntN(100); x < 6 {
		// Not a hash query at all.
		switch rng.IntN(4) {
		case 0:
			return txtQuery{suffix[1:], "no-suffix:suffix-itself"}
		case 1:
			return txtQuery{randHex(rng, 4) + ".x" + suffix[1:], "no-suffix:lookalike"}
		case 2:
			return txtQuery{randHex(rng, 4) + suffix + ".example.org", "no-suffix:suffix-inside"}
		default:
			return txtQuery{p.pick(rng), "no-suffix:ordinary"}
		}
	}
	if rng.IntN(100) < 14 {
		// A prefix asked more than once: literally, or in its four-character
		// and legacy eight-character forms, alone or among distinct ones.
		pref := func() string {
			if len(m.names) > 0 && rng.IntN(10) < 7 {
				h := sha256.Sum256([]byte(m.names[rng.IntN(len(m.names))]))
				return hex.EncodeToString(h[:2])
			}
			return randHex(rng, 4)
		}
		a, b, c := pref(), pref(), pref()
		leg := func(x string) string { return x + randHex(rng, 4) }
		var labels []string
		shape := rng.IntN(7)
		switch shape {
		case 0:
			labels = []string{a, a}
		case 1:
			labels = []string{a, a, a}
		case 2:
			labels = []string{a, leg(a)}
		case 3:
			labels = []string{leg(a), a}
		case 4:
			labels = []string{a, b, a}
		case 5:
			labels = []string{b, a, leg(a), c}
		default:
			labels = []string{leg(a), b, leg(a), b, c}
		}
		return txtQuery{strings.Join(labels, ".") + suffix, fmt.Sprintf("repeat:shape%d", shape)}
	}
	n := 1
	switch x := rng.IntN(100); {
	case x < 50:
		n = 1
	case x < 85:
		n = 2 + rng.IntN(3)
	default:
		n = 5 + rng.IntN(36)
	}
	kind := []string{}
	var labels []string
	legacy, dup := false, false
	for i := 0; i < n; i++ {
		var h hash
		switch x := rng.IntN(100); {
		case x < 60 && len(m.names) > 0:
			h = sha256.Sum256([]byte(m.names[rng.IntN(len(m.names))]))
		case x < 70:
			h = sha256.Sum256([]byte(p.pick(rng)))
		default:
			copy(h[:], []byte{byte(rng.IntN(256)), byte(rng.IntN(256)), byte(rng.IntN(256)), byte(rng.IntN(256))})
		}
		l := hex.EncodeToString(h[:2])
		if rng.IntN(5) == 0 {
			legacy = true
			if rng.IntN(2) == 0 {
				l = hex.EncodeToString(h[:4])
			} else {
				l += randHex(rng, 4)
			}
		}
		labels = append(labels, l)
		if rng.IntN(10) == 0 && i+1 < n {
			dup = true
			labels = append(labels, l[:4])
			i++
		}
	}
	if legacy {
		kind = append(kind, "legacy")
	}
	if dup {
		kind = append(kind, "dup")
	}
	if x := rng.IntN(100); x < 22 {
		// Malformed: damage one label.
		i := rng.IntN(len(labels))
		var bad string
		switch y := rng.IntN(10); {
		case y < 4:
			ls := []int{1, 2, 3, 5, 6, 7, 9, 10, 12, 16, 32, 63}
			bad = randHex(rng, ls[rng.IntN(len(ls))])
			kind = append(kind, "bad-length")
		case y < 7:
			b := []byte(randHex(rng, 4))
			b[rng.IntN(4)] = "ghxyz-_"[rng.IntN(7)]
			bad = string(b)
			kind = append(kind, "bad-char")
		case y < 9:
			b := []byte(randHex(rng, 8))
			b[rng.IntN(4)] = "ghxyz-_"[rng.IntN(7)]
			bad = string(b)
			kind = append(kind, "bad-char-legacy")
		default:
			bad = genLabel(rng) + "x"
			kind = append(kind, "word")
		}
		labels[i] = bad
	} else if x < 25 {
		i := rng.IntN(len(labels))
		b := []byte(randHex(rng, 8))
		b[4+rng.IntN(4)] = "ghxyz"[rng.IntN(5)]
		labels[i] = string(b)
		kind = append(kind, "legacy-tail-not-hex")
	}
	host := strings.Join(labels, ".") + suffix
	for len(host) > 253 {
		labels = labels[1:]
		host = strings.Join(labels, ".") + suffix
	}
	return txtQuery{host, fmt.Sprintf("n%d:%s", bucketN(len(labels)), strings.Join(kind, "+"))}
}

func bucketN(n int) int {
	switch {
	case n <= 4:
		return n
	case n <= 10:
		return 10
	default:
		return 40
	}
}

// repeatedPrefixCase reports whether a well-formed hash query repeats a prefix
// while the list behind suffix has a name in the zero-prefix bucket that the
// query does not ask for: the inputs on which "one entry per requested label"
// bookkeeping errors become visible.
func repeatedPrefixCase(host, suffix string, m *model) bool {
	body := strings.TrimSuffix(host, suffix)
	if body == "" || len(m.byPrefix[[2]byte{}]) == 0 {
		return false
	}
	seen := map[string]struct{}{}
	repeated := false
	for _, l := range strings.Split(body, ".") {
		if len(l) < 4 {
			return false
		}
		l = l[:4]
		if _, ok := seen[l]; ok {
			repeated = true
		}
		seen[l] = struct{}{}
	}
	_, zeroAsked := seen["0000"]
	return repeated && !zeroAsked
}

// ---------------------------------------------------------------------------
// Oracles.
// ---------------------------------------------------------------------------

type monitor struct {
	r    *vkit.Run
	t    *testing.T
	pool *pool
}

func setOf(ss []string) map[string]struct{} {
	m := make(map[string]struct{}, len(ss))
	for _, s := range ss {
		m[s] = struct{}{}
	}
	return m
}

func sortedKeys(m map[string]struct{}) []string {
	out := make([]string, 0, len(m))
	for k := range m {
		out = append(out, k)
	}
	sort.Strings(out)
	return out
}

// compareHashSets checks got against want as sets and reports the difference
// under keys starting with where.
func (mo *monitor) compareHashSets(where string, m *model, got []string, want map[string]struct{}, witness map[string]any) (ok bool) {
	ok = true
	gs := setOf(got)
	if len(gs) != len(got) {
		mo.r.Bucket(where+"_answers_with_repeated_hash", 1)
	}
	var missing, extraUnlisted, extraWrongPrefix, garbage []string
	for w := range want {
		if _, in := gs[w]; !in {
			missing = append(missing, w)
		}
	}
	for g := range gs {
		if _, in := want[g]; in {
			continue
		}
		b, err := hex.DecodeString(g)
		if err != nil || len(b) != sha256.Size || g != strings.ToLower(g) {
			garbage = append(garbage, g)
			continue
		}
		if _, in := m.listed[hash(b)]; in {
			extraWrongPrefix = append(extraWrongPrefix, g)
		} else {
			extraUnlisted = append(extraUnlisted, g)
		}
	}
	rep := func(key, what string, l []string) {
		if len(l) == 0 {
			return
		}
		ok = false
		sort.Strings(l)
		w := map[string]any{"got": got, "want": sortedKeys(want), "difference": l}
		for k, v := range witness {
			w[k] = v
		}
		mo.r.Violation(where+":"+key, what, w)
	}
	rep("missing-hash", "a listed name's hash starts with a requested prefix but is not in the answer (incomplete)", missing)
	rep("extra-hash-unlisted", "the answer contains a hash that is not the hash of any listed name (unsound)", extraUnlisted)
	rep("extra-hash-wrong-prefix", "the answer contains a listed hash that starts with none of the requested prefixes", extraWrongPrefix)
	rep("not-a-full-hash", "the answer contains a string that is not a lower-case hex SHA-256", garbage)
	return ok
}

// ---------------------------------------------------------------------------
// World A: standalone storages driven through NewStorage / Reset, and a
// matcher over them.
// ---------------------------------------------------------------------------

func (mo *monitor) directWorld() {
	r := mo.r
	nStor := 2
	versions := r.N(8, 24)
	suffixes := []string{filter.GeneralTXTSuffix, filter.AdultBlockingTXTSuffix}
	storages := make([]*hashprefix.Storage, nStor)
	cur := make([]*model, nStor)
	prev := make([]*model, nStor)
	ctx := context.Background()
	for v := 0; v < versions; v++ {
		for s := 0; s < nStor; s++ {
			rng := r.Rand(fmt.Sprintf("direct/list/%d", s), v)
			size := 200 + rng.IntN(r.N(4000, 30000))
			var text string
			switch {
			case v == 2 && s == 0:
				text = "" // an empty list empties the storage
			case v == 3 && s == 1:
				text = "# only comments\n\n#" + mo.pool.pick(rng) + "\n"
			default:
				var pn []string
				if cur[s] != nil {
					pn = cur[s].names
				}
				text = genList(rng, mo.pool, size, pn)
			}
			m := parseModel(text)
			var n int
			var err error
			how := "Reset"
			if storages[s] == nil {
				how = "NewStorage"
				storages[s], err = hashprefix.NewStorage(text)
				n = m.count
			} else {
				n, err = storages[s].Reset(text)
			}
			if err != nil {
				r.Inconclusive(fmt.Sprintf("direct world: %s of storage %d version %d failed: %v", how, s, v, err))
				return
			}
			r.Bucket("storage_resets", 1)
			r.Bucket("listed_lines", int64(m.count))
			r.Bucket("listed_distinct_names", int64(len(m.names)))
			r.Bucket("listed_duplicate_lines", int64(m.count-len(m.names)))
			r.Bucket("comment_lines", int64(len(m.comment)))
			if n != m.count {
				r.Violation("storage:reset-count", "Reset reports a number of processed names different from the number of non-comment, non-empty lines",
					map[string]any{"storage": s, "version": v, "got": n, "want": m.count, "list_head": head(text, 400)})
			}
			prev[s], cur[s] = cur[s], m
		}
		mods := map[string]*model{}
		stors := map[string]*hashprefix.Storage{}
		for s := 0; s < nStor; s++ {
			mods[suffixes[s]] = cur[s]
			stors[suffixes[s]] = storages[s]
		}
		matcher := hashprefix.NewMatcher(stors)

		for s := 0; s < nStor; s++ {
			// Exact-name membership.
			rng := r.Rand(fmt.Sprintf("direct/names/%d", s), v)
			probes := genHostProbes(rng, mo.pool, cur[s], prev[s], r.N(2500, 25000))
			for i, pr := range probes {
				mo.checkStorageMatches(storages[s], cur[s], prev[s], pr, map[string]any{"storage": s, "version": v, "probe": i})
			}
			// Prefix look-ups through Storage.Hashes and Matcher.MatchByPrefix.
			rng = r.Rand(fmt.Sprintf("direct/txt/%d", s), v)
			nq := r.N(1200, 12000)
			for i := 0; i < nq; i++ {
				q := genTXTQuery(rng, mo.pool, suffixes[s], cur[s])
				mo.checkMatcher(ctx, "matcher", matcher, storages[s], mods, q, map[string]any{"storage": s, "version": v, "query": i})
			}
		}
	}
}

func head(s string, n int) string {
	if len(s) > n {
		return s[:n] + "…"
	}
	return s
}

func (mo *monitor) checkStorageMatches(st *hashprefix.Storage, cur, prev *model, pr hostProbe, where map[string]any) {
	r := mo.r
	want := cur.has(pr.Host)
	got := st.Matches(pr.Host)
	near := ""
	switch {
	case want:
	case prev.has(pr.Host):
		near = "stale"
	case cur.sharesPrefix(pr.Host):
		near = "prefix-collision"
	default:
		if _, ok := cur.comment[pr.Host]; ok {
			near = "commented"
		}
	}
	r.Eval(fmt.Sprintf("storage.Matches|want=%v|near=%s", want, near), want || near != "")
	r.Bucket("storage_matches_calls", 1)
	if want {
		r.Bucket("storage_matches_expected_true", 1)
	}
	if near != "" {
		r.Bucket("storage_near_miss:"+near, 1)
	}
	if got == want {
		return
	}
	w := map[string]any{"name": pr.Host, "probe_kind": pr.Kind, "got": got, "want": want, "near": near}
	for k, v := range where {
		w[k] = v
	}
	if want {
		r.Violation("storage:matches-false-negative", "Storage.Matches is false for a listed name", w)
		return
	}
	key := "storage:matches-false-positive"
	if near != "" {
		key += ":" + near
	}
	r.Violation(key, "Storage.Matches is true for a name that is not listed", w)
}

// checkMatcher runs one TXT query name through Matcher.MatchByPrefix (and, for
// well-formed ones, the same prefixes through Storage.Hashes).
func (mo *monitor) checkMatcher(ctx context.Context, comp string, matcher *hashprefix.Matcher, st *hashprefix.Storage, mods map[string]*model, q txtQuery, where map[string]any) {
	r := mo.r
	kind, suffix, want := expectTXT(q.Host, mods)
	hashes, matched, err := matcher.MatchByPrefix(ctx, q.Host)
	r.Bucket(comp+"_queries", 1)
	r.Bucket(comp+"_queries_"+kind.String(), 1)
	w := map[string]any{"host": q.Host, "query_kind": q.Kind, "model_kind": kind.String(), "matched": matched, "err": fmt.Sprint(err), "hashes": hashes}
	for k, v := range where {
		w[k] = v
	}
	class := fmt.Sprintf("%s|%s|%s|want%d", comp, kind, q.Kind, bucketN(len(want)))
	switch kind {
	case txtNotHashQuery:
		r.Eval(class, true)
		if matched || err != nil || len(hashes) > 0 {
			r.Violation(comp+":non-suffix-claimed", "a name that is not under a safe-browsing suffix is treated as a hash query", w)
		}
	case txtUnspecified:
		r.Eval(class, false)
		if err != nil {
			r.Bucket(comp+"_unspecified_rejected", 1)
		} else {
			r.Bucket(comp+"_unspecified_accepted", 1)
		}
	case txtMalformed:
		r.Eval(class, true)
		if err == nil {
			r.Violation(comp+":malformed-accepted", "a malformed hash prefix is not refused with an error", w)
		} else if len(hashes) > 0 {
			r.Violation(comp+":malformed-answered", "a malformed hash-prefix query is refused but hashes are returned with the error", w)
		}
	case txtWellFormed:
		r.Eval(class, len(want) > 0)
		if repeatedPrefixCase(q.Host, suffix, mods[suffix]) {
			r.Bucket(comp+"_repeated_prefix_queries_with_zero_bucket_listed", 1)
		}
		if len(want) > 0 {
			r.Bucket(comp+"_queries_with_hashes", 1)
		}
		if len(want) > 1 {
			r.Bucket(comp+"_queries_with_several_hashes", 1)
		}
		if err != nil {
			r.Violation(comp+":wellformed-rejected", "a well-formed hash-prefix query is refused", w)
			return
		}
		if !matched {
			r.Violation(comp+":suffix-not-recognised", "a well-formed query under a safe-browsing suffix is not treated as a hash query", w)
			return
		}
		mo.compareHashSets(comp, mods[suffix], hashes, want, w)
		if st != nil {
			// The same prefixes through Storage.Hashes.
			var prefs []hashprefix.Prefix
			body := strings.TrimSuffix(q.Host, suffix)
			if body != "" {
				for _, l := range strings.Split(body, ".") {
					b, _ := hex.DecodeString(l[:4])
					prefs = append(prefs, hashprefix.Prefix{b[0], b[1]})
				}
			}
			// Storage.Hashes does not deduplicate its arguments; ask each
			// prefix once, as the matcher does.
			seen := map[hashprefix.Prefix]struct{}{}
			var uniq []hashprefix.Prefix
			for _, p := range prefs {
				if _, ok := seen[p]; !ok {
					seen[p] = struct{}{}
					uniq = append(uniq, p)
				}
			}
			got := st.Hashes(uniq)
			r.Bucket("storage_hashes_calls", 1)
			mo.compareHashSets("storage-hashes", mods[suffix], got, want, w)
		}
	}
	if r.BucketGet(comp+"_queries")%977 == 1 {
		r.Sample(map[string]any{"component": comp, "host": q.Host, "model_kind": kind.String(), "want": sortedKeys(want), "got": hashes, "err": fmt.Sprint(err)})
	}
}

// ---------------------------------------------------------------------------
// World B: real hashprefix.Filter instances refreshed from file:// and HTTP
// sources, the matcher over their storages, and the dnssvc handler stack.
// ---------------------------------------------------------------------------

type errRecorder struct {
	mu   sync.Mutex
	errs []string
}

func (e *errRecorder) Collect(_ context.Context, err error) {
	e.mu.Lock()
	defer e.mu.Unlock()
	if len(e.errs) < 20 {
		e.errs = append(e.errs, err.Error())
	}
}

func (e *errRecorder) take() []string {
	e.mu.Lock()
	defer e.mu.Unlock()
	out := e.errs
	e.errs = nil
	return out
}

type fworld struct {
	id      filter.ID
	flt     *hashprefix.Filter
	strg    *hashprefix.Storage
	srcPath string
	srv     *httptest.Server
	mu      sync.Mutex
	hits    int
	repl    string
	cur     *model
	prev    *model
}

func discardLogger() *slog.Logger { return slog.New(slog.NewTextHandler(io.Discard, nil)) }

func (mo *monitor) newFilterWorld(scratch string, id filter.ID, repl string, useHTTP bool, cacheCount int, errs *errRecorder) *fworld {
	fw := &fworld{id: id, repl: repl}
	fw.srcPath = filepath.Join(scratch, "src-"+string(id)+".txt")
	var u *url.URL
	staleness := time.Hour
	if useHTTP {
		fw.srv = httptest.NewServer(http.HandlerFunc(func(w http.ResponseWriter, _ *http.Request) {
			fw.mu.Lock()
			fw.hits++
			fw.mu.Unlock()
			b, err := os.ReadFile(fw.srcPath)
			if err != nil {
				http.Error(w, err.Error(), http.StatusInternalServerError)
				return
			}
			_, _ = w.Write(b)
		}))
		var err error
		u, err = url.Parse(fw.srv.URL + "/list.txt")
		if err != nil {
			mo.t.Fatal(err)
		}
		// The cache file is always considered stale, so that every Refresh
		// downloads; the number of downloads is verified.
		staleness = -time.Hour
	} else {
		u = &url.URL{Scheme: "file", Path: fw.srcPath}
	}
	var err error
	fw.strg, err = hashprefix.NewStorage("")
	if err != nil {
		mo.t.Fatal(err)
	}
	fw.flt, err = hashprefix.NewFilter(&hashprefix.FilterConfig{
		Logger:          discardLogger(),
		Cloner:          agdtest.NewCloner(),
		CacheManager:    agdcache.EmptyManager{},
		Hashes:          fw.strg,
		URL:             u,
		ErrColl:         errs,
		Metrics:         filter.EmptyMetrics{},
		ID:              id,
		CachePath:       filepath.Join(scratch, "cache-"+string(id)+".txt"),
		ReplacementHost: repl,
		Staleness:       staleness,
		CacheTTL:        time.Hour,
		RefreshTimeout:  time.Minute,
		CacheCount:      cacheCount,
		MaxSize:         256 * datasize.MB,
	})
	if err != nil {
		mo.t.Fatalf("NewFilter %s: %v", id, err)
	}
	return fw
}

// load publishes a new list version and makes the filter load it.
//
// oldMtime makes the published file look two days old, far beyond the
// staleness interval: a list file that was last edited long ago is as valid a
// source as one written a moment ago.
func (fw *fworld) load(ctx context.Context, text string, initial, oldMtime bool) error {
	if err := os.WriteFile(fw.srcPath, []byte(text), 0o644); err != nil {
		return err
	}
	if oldMtime {
		old := time.Now().Add(-48 * time.Hour)
		if err := os.Chtimes(fw.srcPath, old, old); err != nil {
			return err
		}
	}
	fw.mu.Lock()
	before := fw.hits
	fw.mu.Unlock()
	var err error
	if initial {
		err = fw.flt.RefreshInitial(ctx)
	} else {
		err = fw.flt.Refresh(ctx)
	}
	if err != nil {
		return err
	}
	if fw.srv != nil {
		fw.mu.Lock()
		after := fw.hits
		fw.mu.Unlock()
		if after != before+1 {
			return fmt.Errorf("refresh did not download the list exactly once (%d -> %d requests)", before, after)
		}
	}
	fw.prev, fw.cur = fw.cur, parseModel(text)
	return nil
}

// checkLoaded runs right after a successful refresh: the storage behind the
// filter must hold the names of the text that was just published.
func (mo *monitor) checkLoaded(fw *fworld, rng *rand.Rand, where map[string]any) {
	m := fw.cur
	if len(m.names) == 0 {
		return
	}
	n, missed := 60, []string{}
	for i := 0; i < n; i++ {
		nm := m.names[rng.IntN(len(m.names))]
		if !fw.strg.Matches(nm) {
			missed = append(missed, nm)
		}
	}
	mo.r.Bucket("filter_refresh_content_checks", 1)
	if len(missed) > 0 {
		key := "filter:refresh-did-not-load-published-list"
		if len(missed) == n {
			key = "filter:refresh-emptied-or-kept-old-list"
		}
		w := map[string]any{"filter": string(fw.id), "source_is_file_url": fw.srv == nil, "listed_names_sampled": n,
			"not_in_storage": len(missed), "examples": missed[:min(5, len(missed))], "published_distinct_names": len(m.names)}
		for k, v := range where {
			w[k] = v
		}
		mo.r.Violation(key, "a refresh reported success but names of the list it was given are not matched by the storage", w)
	}
}

const (
	replIPv4 = "192.0.2.77"
	replIPv6 = "2001:db8::77"
	replFQDN = "blocked-page.adult.example"
)

// upstream is the recording handler at the bottom of the stack.
type upstream struct {
	mu    sync.Mutex
	calls []dns.Question
	// failNext makes the next call fail, as an upstream that is down does.
	failNext atomic.Bool
}

var errUpstream = errors.New("c11: scripted upstream failure")

func (u *upstream) ServeDNS(ctx context.Context, rw dnsserver.ResponseWriter, req *dns.Msg) error {
	u.mu.Lock()
	u.calls = append(u.calls, req.Question[0])
	u.mu.Unlock()
	if u.failNext.Swap(false) {
		return errUpstream
	}
	resp := (&dns.Msg{}).SetReply(req)
	q := req.Question[0]
	hdr := dns.RR_Header{Name: q.Name, Rrtype: q.Qtype, Class: dns.ClassINET, Ttl: 60}
	switch q.Qtype {
	case dns.TypeTXT:
		resp.Answer = append(resp.Answer, &dns.TXT{Hdr: hdr, Txt: []string{"from-upstream"}})
	case dns.TypeA:
		resp.Answer = append(resp.Answer, &dns.A{Hdr: hdr, A: net.IP{198, 51, 100, 9}})
	case dns.TypeAAAA:
		resp.Answer = append(resp.Answer, &dns.AAAA{Hdr: hdr, AAAA: net.ParseIP("2001:db8::9")})
	}
	return rw.WriteMsg(ctx, req, resp)
}

func (u *upstream) take() []dns.Question {
	u.mu.Lock()
	defer u.mu.Unlock()
	out := u.calls
	u.calls = nil
	return out
}

// fltObservation is what the filters said about the request inside the stack.
type fltObservation struct {
	Host string `json:"host_seen_by_filter"`
	List string `json:"list,omitempty"`
	Rule string `json:"rule,omitempty"`
	Type string `json:"type,omitempty"`
	Err  string `json:"err,omitempty"`
	N    int    `json:"calls"`
}

type stack struct {
	handler dnsserver.Handler
	up      *upstream
	// cloner is the one message pool of the stack, as in production: the
	// message constructor allocates from it and every written response is
	// disposed into it (what dnsserver.ServerBase does for plain DNS and DoT).
	cloner *dnsmsg.Cloner
	// lastDisposedTXT is the number of strings in the TXT record of the most
	// recently disposed response that had one; -1 if there was none yet.
	lastDisposedTXT int
	mu              sync.Mutex
	obs             fltObservation
	laddr           net.Addr
	raddr           net.Addr
}

func (mo *monitor) newStack(worlds []*fworld, matcher filter.HashMatcher, errs *errRecorder) *stack {
	st := &stack{up: &upstream{}, cloner: agdtest.NewCloner(), lastDisposedTXT: -1}
	stackMsgs, err := dnsmsg.NewConstructor(&dnsmsg.ConstructorConfig{
		Cloner:              st.cloner,
		BlockingMode:        &dnsmsg.BlockingModeNullIP{},
		StructuredErrors:    agdtest.NewSDEConfig(true),
		FilteredResponseTTL: agdtest.FilteredResponseTTL,
		EDEEnabled:          true,
	})
	if err != nil {
		mo.t.Fatalf("dnsmsg.NewConstructor: %v", err)
	}
	flt := &agdtest.Filter{
		OnFilterRequest: func(ctx context.Context, req *filter.Request) (filter.Result, error) {
			st.mu.Lock()
			st.obs.N++
			st.obs.Host = req.Host
			st.mu.Unlock()
			for _, fw := range worlds {
				res, err := fw.flt.FilterRequest(ctx, req)
				if err != nil {
					st.mu.Lock()
					st.obs.Err = err.Error()
					st.mu.Unlock()
					return nil, err
				}
				if res != nil {
					id, rule := res.MatchedRule()
					st.mu.Lock()
					st.obs.List, st.obs.Rule, st.obs.Type = string(id), string(rule), fmt.Sprintf("%T", res)
					st.mu.Unlock()
					return res, nil
				}
			}
			return nil, nil
		},
		OnFilterResponse: func(context.Context, *filter.Response) (filter.Result, error) { return nil, nil },
	}
	fltStrg := &agdtest.FilterStorage{
		OnForConfig: func(context.Context, filter.Config) filter.Interface { return flt },
		OnHasListID: func(filter.ID) bool { return true },
	}
	srv := &agd.Server{
		Name:         "c11_dot",
		Protocol:     agd.ProtoDoT,
		ReadTimeout:  time.Second,
		WriteTimeout: time.Second,
		TCPConf:      &agd.TCPConfig{IdleTimeout: time.Second},
		UDPConf:      &agd.UDPConfig{MaxRespSize: dns.MaxMsgSize},
	}
	srv.SetBindData([]*agd.ServerBindData{{AddrPort: netip.MustParseAddrPort("192.0.2.2:853")}})
	const fgID agd.FilteringGroupID = "c11_fg"
	fltGrp := &agd.FilteringGroup{
		FilterConfig: &filter.ConfigGroup{
			Parental:     &filter.ConfigParental{},
			RuleList:     &filter.ConfigRuleList{},
			SafeBrowsing: &filter.ConfigSafeBrowsing{},
		},
		ID: fgID,
	}
	srvGrp := &agd.ServerGroup{
		DDR:            &agd.DDR{},
		Name:           "c11_group",
		FilteringGroup: fgID,
		Servers:        []*agd.Server{srv},
	}
	geo := agdtest.NewGeoIP()
	geo.OnData = func(string, netip.Addr) (*geoip.Location, error) { return nil, nil }
	handlers, err := dnssvc.NewHandlers(context.Background(), &dnssvc.HandlersConfig{
		BaseLogger:       discardLogger(),
		Cloner:           st.cloner,
		Cache:            &dnssvc.CacheConfig{Type: dnssvc.CacheTypeNone},
		HumanIDParser:    agd.NewHumanIDParser(),
		Messages:         stackMsgs,
		StructuredErrors: agdtest.NewSDEConfig(true),
		AccessManager: &agdtest.AccessManager{
			OnIsBlockedHost: func(string, uint16) bool { return false },
			OnIsBlockedIP:   func(netip.Addr) bool { return false },
		},
		BillStat: &agdtest.BillStatRecorder{
			OnRecord: func(context.Context, agd.DeviceID, geoip.Country, geoip.ASN, time.Time, agd.Protocol) {},
		},
		CacheManager: agdcache.EmptyManager{},
		DNSCheck: &agdtest.DNSCheck{
			OnCheck: func(context.Context, *dns.Msg, *agd.RequestInfo) (*dns.Msg, error) { return nil, nil },
		},
		DNSDB:                &agdtest.DNSDB{OnRecord: func(context.Context, *dns.Msg, *agd.RequestInfo) {}},
		ErrColl:              errs,
		FilterStorage:        fltStrg,
		GeoIP:                geo,
		Handler:              st.up,
		HashMatcher:          matcher,
		ProfileDB:            agdtest.NewProfileDB(),
		PrometheusRegisterer: agdtest.NewTestPrometheusRegisterer(),
		QueryLog:             &agdtest.QueryLog{OnWrite: func(context.Context, *querylog.Entry) error { return nil }},
		RateLimit:            agdtest.NewRateLimit(),
		RuleStat:             &agdtest.RuleStat{OnCollect: func(context.Context, filter.ID, filter.RuleText) {}},
		MetricsNamespace:     "c11",
		FilteringGroups:      map[agd.FilteringGroupID]*agd.FilteringGroup{fgID: fltGrp},
		ServerGroups:         []*agd.ServerGroup{srvGrp},
		EDEEnabled:           true,
	})
	if err != nil {
		mo.t.Fatalf("dnssvc.NewHandlers: %v", err)
	}
	st.handler = handlers[dnssvc.HandlerKey{Server: srv, ServerGroup: srvGrp}]
	if st.handler == nil {
		mo.t.Fatal("no handler for the server")
	}
	st.laddr = &net.TCPAddr{IP: net.IP{192, 0, 2, 2}, Port: 853}
	st.raddr = &net.TCPAddr{IP: net.IP{192, 0, 2, 1}, Port: 40000}
	return st
}

// query sends one question through the handler stack, as a DNS-over-TLS server
// would after unpacking it.
func (st *stack) query(qname string, qt uint16) (resp *dns.Msg, upCalls []dns.Question, obs fltObservation, err error) {
	return st.queryEx(qname, qt, dns.ClassINET, false)
}

// queryEx is query with a question class (CHAOS asks for the debug answer) and
// optionally with the upstream failing for this request.
func (st *stack) queryEx(qname string, qt, qclass uint16, failUpstream bool) (resp *dns.Msg, upCalls []dns.Question, obs fltObservation, err error) {
	st.mu.Lock()
	st.obs = fltObservation{}
	st.mu.Unlock()
	st.up.take()
	st.up.failNext.Store(failUpstream)
	defer st.up.failNext.Store(false)
	req := &dns.Msg{
		MsgHdr:   dns.MsgHdr{Id: dns.Id(), RecursionDesired: true},
		Question: []dns.Question{{Name: qname, Qtype: qt, Qclass: qclass}},
	}
	ctx := dnsserver.ContextWithServerInfo(context.Background(), &dnsserver.ServerInfo{
		Name: "c11_dot", Addr: "192.0.2.2:853", Proto: dnsserver.ProtoDoT,
	})
	ctx = dnsserver.ContextWithRequestInfo(ctx, &dnsserver.RequestInfo{StartTime: time.Now()})
	rw := dnsserver.NewNonWriterResponseWriter(st.laddr, st.raddr)
	err = st.handler.ServeDNS(ctx, rw, req)
	st.mu.Lock()
	obs = st.obs
	st.mu.Unlock()
	// The server has "written" the response: keep a deep copy as what the
	// client received and dispose the original, after which its parts are
	// reused for later responses.
	if written := rw.Msg(); written != nil {
		resp = written.Copy()
		for _, rr := range written.Answer {
			if t, ok := rr.(*dns.TXT); ok {
				st.lastDisposedTXT = len(t.Txt)
			}
		}
		st.cloner.Dispose(written)
	}
	return resp, st.up.take(), obs, err
}

func className(c uint16) string {
	switch c {
	case dns.ClassINET:
		return "IN"
	case dns.ClassCHAOS:
		return "CH"
	case dns.ClassHESIOD:
		return "HS"
	case dns.ClassANY:
		return "ANY"
	case dns.ClassNONE:
		return "NONE"
	}
	return fmt.Sprintf("CLASS%d", c)
}

// wireName renders a normalised host the way a client may send it: fully
// qualified, in arbitrary letter case.
func wireName(rng *rand.Rand, host string) string {
	b := []byte(host)
	switch rng.IntN(3) {
	case 0:
	case 1:
		for i := range b {
			if b[i] >= 'a' && b[i] <= 'z' && rng.IntN(2) == 0 {
				b[i] -= 'a' - 'A'
			}
		}
	default:
		b = []byte(strings.ToUpper(host))
	}
	return string(b) + "."
}

func (mo *monitor) filterWorld() {
	r := mo.r
	scratch := os.Getenv("VERIF_SCRATCH")
	if scratch == "" {
		scratch = mo.t.TempDir()
	}
	scratch = filepath.Join(scratch, "c11")
	if err := os.MkdirAll(scratch, 0o755); err != nil {
		mo.t.Fatal(err)
	}
	errs := &errRecorder{}
	worlds := []*fworld{
		mo.newFilterWorld(scratch, filter.IDSafeBrowsing, replIPv4, false, 64, errs),
		mo.newFilterWorld(scratch, filter.IDAdultBlocking, replFQDN, true, 10000, errs),
		mo.newFilterWorld(scratch, filter.IDNewRegDomains, replIPv6, false, 1000, errs),
	}
	defer func() {
		for _, fw := range worlds {
			if fw.srv != nil {
				fw.srv.Close()
			}
		}
	}()
	suffixOf := map[filter.ID]string{
		filter.IDSafeBrowsing:  filter.GeneralTXTSuffix,
		filter.IDAdultBlocking: filter.AdultBlockingTXTSuffix,
	}
	// As in production, the TXT matcher reads the very storages the filters
	// refresh.
	matcher := hashprefix.NewMatcher(map[string]*hashprefix.Storage{
		filter.GeneralTXTSuffix:       worlds[0].strg,
		filter.AdultBlockingTXTSuffix: worlds[1].strg,
	})
	st := mo.newStack(worlds, matcher, errs)
	msgs := agdtest.NewConstructor(mo.t)
	ctx := context.Background()

	versions := r.N(6, 20)
	for v := 0; v < versions; v++ {
		for wi, fw := range worlds {
			rng := r.Rand(fmt.Sprintf("filter/list/%d", wi), v)
			size := 150 + rng.IntN(r.N(3000, 20000))
			var pn []string
			if fw.cur != nil {
				pn = fw.cur.names
			}
			text := genList(rng, mo.pool, size, pn)
			// File-backed lists mostly look old: always for the first filter, on
			// alternating versions for the third.
			oldMtime := fw.srv == nil && (wi == 0 || v%2 == 1)
			if err := fw.load(ctx, text, v == 0, oldMtime); err != nil {
				r.Inconclusive(fmt.Sprintf("filter world: loading version %d of %s failed: %v", v, fw.id, err))
				return
			}
			r.Bucket("filter_refreshes", 1)
			if fw.srv == nil && v > 0 {
				if oldMtime {
					r.Bucket("filter_regular_refreshes_from_file_with_old_mtime", 1)
				} else {
					r.Bucket("filter_regular_refreshes_from_file_with_fresh_mtime", 1)
				}
			}
			mo.checkLoaded(fw, rng, map[string]any{"version": v, "old_mtime": oldMtime, "initial": v == 0})
			r.Bucket("listed_lines", int64(fw.cur.count))
			r.Bucket("listed_distinct_names", int64(len(fw.cur.names)))
			r.Bucket("listed_duplicate_lines", int64(fw.cur.count-len(fw.cur.names)))
			r.Bucket("comment_lines", int64(len(fw.cur.comment)))
		}
		mods := map[string]*model{
			filter.GeneralTXTSuffix:       worlds[0].cur,
			filter.AdultBlockingTXTSuffix: worlds[1].cur,
		}

		// (1) Filter.FilterRequest directly.
		for wi, fw := range worlds {
			rng := r.Rand(fmt.Sprintf("filter/hosts/%d", wi), v)
			probes := genHostProbes(rng, mo.pool, fw.cur, fw.prev, r.N(1500, 12000))
			// A tenth of the probes is asked again later in the round (result
			// cache, possibly after eviction).
			for i := 0; i < len(probes); i += 10 {
				probes = append(probes, probes[i])
			}
			for i, pr := range probes {
				for _, qt := range qtypesFor(rng, 4) {
					mo.checkFilter(ctx, fw, msgs, pr, qt, map[string]any{"filter": string(fw.id), "version": v, "probe": i})
				}
			}
		}

		// (2) TXT queries: the matcher directly and through the handler stack.
		for wi, fw := range worlds[:2] {
			suffix := suffixOf[fw.id]
			rng := r.Rand(fmt.Sprintf("filter/txt/%d", wi), v)
			nq := r.N(800, 8000)
			for i := 0; i < nq; i++ {
				q := genTXTQuery(rng, mo.pool, suffix, fw.cur)
				where := map[string]any{"filter": string(fw.id), "version": v, "query": i}
				mo.checkMatcher(ctx, "matcher-shared", matcher, nil, mods, q, where)
				mo.checkStackTXT(st, rng, mods, q, where)
			}
			mo.stackTXTPairs(st, rng, mods, suffix, fw.cur, fw.prev, r.N(300, 1500), map[string]any{"filter": string(fw.id), "version": v, "history": "pair"})
		}

		// (3) Host questions through the handler stack.
		rng := r.Rand("filter/stackhosts", v)
		nh := r.N(500, 6000)
		for i := 0; i < nh; i++ {
			fw := worlds[rng.IntN(len(worlds))]
			pr := genHostProbes(rng, mo.pool, fw.cur, fw.prev, 1)[0]
			for _, qt := range qtypesFor(rng, 2) {
				mo.checkStackHost(st, rng, worlds, pr, qt, map[string]any{"version": v, "probe": i})
			}
		}
		// (4) A request for a listed host that does not end on the success
		// path (upstream down, debug request), then an ordinary request for an
		// unlisted host: the latter must not inherit anything.
		mo.stackFaultHistories(st, r.Rand("filter/stackfaults", v), worlds, r.N(150, 800), map[string]any{"version": v, "history": "fault-then-clean"})

		if e := errs.take(); len(e) > 0 {
			r.Bucket("errors_collected_by_error_collector", int64(len(e)))
			r.Extra("error_collector_examples", e)
		}
	}
}

// nearMiss explains, for a host the model does not match, what could make a
// defective implementation match it.
func nearMiss(cur, prev *model, host string) string {
	cands, pubSufLabels, _, _ := candidates(host)
	labels := strings.Split(host, ".")
	isCand := map[string]struct{}{}
	for _, c := range cands {
		isCand[c] = struct{}{}
	}
	var kinds []string
	for k := 1; k <= len(labels); k++ {
		s := strings.Join(labels[len(labels)-k:], ".")
		if _, ok := isCand[s]; ok || !cur.has(s) {
			continue
		}
		if k > 4 {
			kinds = append(kinds, "beyond-4-labels")
		} else if k <= pubSufLabels {
			kinds = append(kinds, "public-suffix")
		}
	}
	for _, c := range cands {
		switch {
		case prev.has(c):
			kinds = append(kinds, "stale-after-reset")
		case cur.sharesPrefix(c):
			kinds = append(kinds, "prefix-collision")
		default:
			if _, ok := cur.comment[c]; ok {
				kinds = append(kinds, "commented")
			}
		}
	}
	if len(kinds) == 0 {
		return ""
	}
	sort.Strings(kinds)
	return kinds[0]
}

// classifyFalsePositive names the class of a wrong match from the rule the
// implementation reported for it.
func classifyFalsePositive(cur, prev *model, host, rule string, qt uint16) string {
	if !filterableQType(qt) {
		return "nonfilterable-qtype"
	}
	_, pubSufLabels, icann, _ := candidates(host)
	if rule != host && !strings.HasSuffix(host, "."+rule) {
		return "rule-not-a-parent"
	}
	k := strings.Count(rule, ".") + 1
	switch {
	case k > 4:
		return "beyond-4-labels"
	case icann && k <= pubSufLabels:
		return "public-suffix"
	case cur.has(rule):
		return "listed-eligible-rule" // cannot happen unless the model itself is inconsistent
	case prev.has(rule):
		return "stale-after-reset"
	case cur.sharesPrefix(rule):
		return "prefix-collision"
	}
	if _, ok := cur.comment[rule]; ok {
		return "commented"
	}
	return "unlisted"
}

func hostClass(comp, host string, qt uint16, e hostExpectation, near string) string {
	_, psl, icann, _ := candidates(host)
	pk := "icann"
	if !icann {
		pk = "non-icann"
	}
	n := strings.Count(host, ".") + 1
	if n > 7 {
		n = 7
	}
	via := 0
	if len(e.Via) > 0 {
		via = strings.Count(e.Via[0], ".") + 1
	}
	qc := "other"
	if filterableQType(qt) {
		qc = dns.TypeToString[qt]
	}
	return fmt.Sprintf("%s|labels%d|ps-%s%d|via%d|near-%s|qt-%s", comp, n, pk, psl, via, near, qc)
}

// divergence counts the hosts for which "exclude the ICANN suffix even inside
// the private name space" would give another verdict than the documented
// behaviour the model follows.
func (mo *monitor) divergence(cur *model, host string, qt uint16) {
	if !filterableQType(qt) {
		return
	}
	cands, _, icann, strictExcl := candidates(host)
	if icann {
		return
	}
	labels := strings.Split(host, ".")
	all, strict := false, false
	for _, c := range cands {
		if cur.has(c) {
			all = true
			if strings.Count(c, ".")+1 > strictExcl {
				strict = true
			}
		}
	}
	_ = labels
	if all != strict {
		mo.r.Bucket("private_space_reading_divergence", 1)
	}
}

func (mo *monitor) checkFilter(ctx context.Context, fw *fworld, msgs *dnsmsg.Constructor, pr hostProbe, qt uint16, where map[string]any) {
	r := mo.r
	e := fw.cur.expectHost(pr.Host, qt)
	near := ""
	if !e.Matched {
		if filterableQType(qt) {
			near = nearMiss(fw.cur, fw.prev, pr.Host)
		} else if len(fw.cur.expectHost(pr.Host, dns.TypeA).Via) > 0 {
			near = "nonfilterable-qtype"
		}
	}
	mo.divergence(fw.cur, pr.Host, qt)
	req := &dns.Msg{
		MsgHdr:   dns.MsgHdr{Id: 1, RecursionDesired: true},
		Question: []dns.Question{{Name: dns.Fqdn(pr.Host), Qtype: qt, Qclass: dns.ClassINET}},
	}
	var res filter.Result
	var err error
	func() {
		defer func() {
			if p := recover(); p != nil {
				err = fmt.Errorf("panic: %v", p)
				r.Violation("panic:filter-request", "Filter.FilterRequest panicked on a legal request",
					map[string]any{"host": pr.Host, "qtype": qt, "panic": fmt.Sprint(p), "where": where})
			}
		}()
		res, err = fw.flt.FilterRequest(ctx, &filter.Request{
			DNS:      req,
			Messages: msgs,
			RemoteIP: netip.MustParseAddr("192.0.2.1"),
			Host:     pr.Host,
			QType:    qt,
			QClass:   dns.ClassINET,
		})
	}()
	r.Eval(hostClass("filter", pr.Host, qt, e, near), e.Matched || near != "")
	r.Bucket("filter_requests", 1)
	r.Bucket("filter_probe_kind:"+pr.Kind, 1)
	if filterableQType(qt) {
		r.Bucket("filter_requests_filterable_qtype", 1)
	} else {
		r.Bucket("filter_requests_other_qtype", 1)
	}
	if e.Matched {
		r.Bucket("filter_expected_matched", 1)
		r.Bucket(fmt.Sprintf("filter_expected_matched_via_%d_labels", strings.Count(e.Via[0], ".")+1), 1)
	}
	if near != "" {
		r.Bucket("filter_near_miss:"+near, 1)
	}
	got := res != nil
	w := map[string]any{"host": pr.Host, "probe_kind": pr.Kind, "qtype": dns.Type(qt).String(), "expected": e, "near": near,
		"got_matched": got, "err": fmt.Sprint(err)}
	for k, v := range where {
		w[k] = v
	}
	if got {
		id, rule := res.MatchedRule()
		w["got_list"], w["got_rule"], w["got_type"] = string(id), string(rule), fmt.Sprintf("%T", res)
	}
	if err != nil {
		if !strings.HasPrefix(err.Error(), "panic:") {
			r.Violation("filter:error", "Filter.FilterRequest returned an error for a legal request", w)
		}
		return
	}
	switch {
	case e.Matched && !got:
		r.Violation(fmt.Sprintf("filter:false-negative:via-%d-labels", strings.Count(e.Via[0], ".")+1),
			"a host whose own name or parent (within four labels, above the public suffix) is listed is not matched", w)
	case !e.Matched && got:
		_, rule := res.MatchedRule()
		key := "filter:false-positive:" + classifyFalsePositive(fw.cur, fw.prev, pr.Host, string(rule), qt)
		r.Violation(key, "a host is matched although neither it nor an eligible parent is listed (or the question type is not A/AAAA/HTTPS)", w)
	case got:
		id, rule := res.MatchedRule()
		if id != fw.id {
			r.Violation("filter:wrong-list-id", "the result names another list than the one that matched", w)
		}
		ok := false
		for _, v := range e.Via {
			if v == string(rule) {
				ok = true
			}
		}
		if !ok {
			r.Violation("filter:rule-not-a-listed-candidate", "the rule reported for a matched host is not a listed name among the host's eligible names", w)
		}
		// The shape of the blocking result is the subject of other properties;
		// it is only counted here (the stack part checks what a client sees).
		switch m := res.(type) {
		case *filter.ResultModifiedRequest:
			if fw.repl != replFQDN || m.Msg == nil || len(m.Msg.Question) != 1 || m.Msg.Question[0].Name != dns.Fqdn(replFQDN) {
				r.Bucket("filter_result_shape_unexpected", 1)
			}
		case *filter.ResultModifiedResponse:
			if fw.repl == replFQDN || m.Msg == nil || len(m.Msg.Question) != 1 ||
				!strings.EqualFold(m.Msg.Question[0].Name, dns.Fqdn(pr.Host)) || m.Msg.Question[0].Qtype != qt {
				r.Bucket("filter_result_shape_unexpected", 1)
			}
		default:
			r.Bucket("filter_result_shape_unexpected", 1)
		}
	}
	if n := r.BucketGet("filter_requests"); n%4001 == 7 || (e.Matched && n%1499 == 3) {
		r.Sample(w)
	}
}

func txtStrings(resp *dns.Msg) (strs []string, nTXT int, other int) {
	for _, rr := range resp.Answer {
		if t, ok := rr.(*dns.TXT); ok {
			nTXT++
			strs = append(strs, t.Txt...)
		} else {
			other++
		}
	}
	return strs, nTXT, other
}

func (mo *monitor) checkStackTXT(st *stack, rng *rand.Rand, mods map[string]*model, q txtQuery, where map[string]any) {
	r := mo.r
	kind, suffix, want := expectTXT(q.Host, mods)
	qname := wireName(rng, q.Host)
	var resp *dns.Msg
	var up []dns.Question
	var err error
	// The question class: a hash-prefix query is answered from the lists (or
	// refused) whatever its class.  Names that are not hash queries keep class
	// IN (other classes there mean the debug interface, not this property).
	qclass := uint16(dns.ClassINET)
	if kind != txtNotHashQuery {
		switch x := rng.IntN(100); {
		case x < 64:
		case x < 78:
			qclass = dns.ClassCHAOS
		case x < 86:
			qclass = dns.ClassHESIOD
		case x < 93:
			qclass = dns.ClassANY
		default:
			qclass = dns.ClassNONE
		}
	}
	if kind == txtWellFormed && len(want) == 0 && st.lastDisposedTXT > 0 {
		// The pooled TXT record that will most likely carry this empty answer
		// still holds the strings of an earlier response.
		r.Bucket("stack_txt_empty_answers_after_disposed_nonempty_txt", 1)
	}
	func() {
		defer func() {
			if p := recover(); p != nil {
				err = fmt.Errorf("panic: %v", p)
			}
		}()
		resp, up, _, err = st.queryEx(qname, dns.TypeTXT, qclass, false)
	}()
	r.Bucket("stack_txt_queries", 1)
	if kind != txtNotHashQuery {
		r.Bucket("stack_txt_hash_queries_class_"+className(qclass)+"_"+kind.String(), 1)
		if qclass != dns.ClassINET {
			r.Bucket("stack_txt_hash_queries_non_IN_class", 1)
		}
	}
	r.Bucket("stack_txt_queries_"+kind.String(), 1)
	w := map[string]any{"qname": qname, "qclass": className(qclass), "query_kind": q.Kind, "model_kind": kind.String(), "upstream_calls": fmt.Sprint(up), "err": fmt.Sprint(err)}
	for k, v := range where {
		w[k] = v
	}
	if resp != nil {
		w["response"] = resp.String()
	}
	class := fmt.Sprintf("stack-txt|%s|%s|want%d|class-%s", kind, q.Kind, bucketN(len(want)), className(qclass))
	if err != nil && strings.HasPrefix(err.Error(), "panic:") {
		r.Eval(class, true)
		r.Violation("panic:stack-txt", "the handler stack panicked on a TXT query", w)
		return
	}
	switch kind {
	case txtNotHashQuery:
		r.Eval(class, true)
		if len(up) != 1 || resp == nil {
			r.Violation("stack:non-hash-txt-not-forwarded", "a TXT query that is not under a safe-browsing suffix did not reach the upstream exactly once", w)
			return
		}
		if strs, _, _ := txtStrings(resp); resp.Rcode != dns.RcodeSuccess || len(strs) != 1 || strs[0] != "from-upstream" {
			r.Violation("stack:non-hash-txt-answer-replaced", "a TXT query that is not under a safe-browsing suffix was not answered with the upstream's answer", w)
		}
	case txtUnspecified:
		r.Eval(class, false)
		if len(up) > 0 {
			r.Violation("stack:hash-query-forwarded", "a query under a safe-browsing suffix was forwarded to the upstream", w)
		}
	case txtMalformed:
		r.Eval(class, true)
		if len(up) > 0 {
			r.Violation("stack:malformed-forwarded", "a malformed hash-prefix query was forwarded to the upstream", w)
			return
		}
		if resp == nil || resp.Rcode != dns.RcodeRefused || len(resp.Answer) > 0 {
			r.Violation("stack:malformed-not-refused", "a malformed hash-prefix query was not answered REFUSED", w)
		} else {
			r.Bucket("stack_txt_refused", 1)
		}
	case txtWellFormed:
		r.Eval(class, len(want) > 0)
		if repeatedPrefixCase(q.Host, suffix, mods[suffix]) {
			r.Bucket("stack-txt_repeated_prefix_queries_with_zero_bucket_listed", 1)
		}
		if len(up) > 0 {
			r.Violation("stack:hash-query-forwarded", "a query under a safe-browsing suffix was forwarded to the upstream", w)
			return
		}
		if err != nil || resp == nil || resp.Rcode != dns.RcodeSuccess {
			r.Violation("stack:wellformed-not-answered", "a well-formed hash-prefix query did not get a NOERROR answer", w)
			return
		}
		strs, nTXT, other := txtStrings(resp)
		if other > 0 || nTXT > 1 || (nTXT == 0 && len(want) > 0) {
			r.Violation("stack:txt-answer-shape", "the answer to a hash-prefix query is not a single TXT record", w)
			return
		}
		if len(want) > 0 {
			r.Bucket("stack_txt_answers_with_hashes", 1)
		}
		// A TXT record without hashes may carry no or one empty string.
		if len(want) == 0 && len(strs) == 1 && strs[0] == "" {
			strs = nil
		}
		mo.compareHashSets("stack-txt", mods[suffix], strs, want, w)
	}
	if r.BucketGet("stack_txt_queries")%1201 == 5 {
		r.Sample(w)
	}
}

// stackTXTPairs sends histories "prefix with listed names, then prefix without
// any" (and "prefix of a name the last refresh removed") back to back from one
// goroutine, so that the second answer is built from the message parts the
// server has just disposed.
func (mo *monitor) stackTXTPairs(st *stack, rng *rand.Rand, mods map[string]*model, suffix string, cur, prev *model, n int, where map[string]any) {
	if len(cur.names) == 0 {
		return
	}
	var removed []string
	if prev != nil {
		for _, nm := range prev.names {
			if !cur.has(nm) && !cur.sharesPrefix(nm) {
				removed = append(removed, nm)
			}
		}
	}
	for i := 0; i < n; i++ {
		h := sha256.Sum256([]byte(cur.names[rng.IntN(len(cur.names))]))
		first := hex.EncodeToString(h[:2])
		if rng.IntN(3) == 0 {
			h2 := sha256.Sum256([]byte(cur.names[rng.IntN(len(cur.names))]))
			first += "." + hex.EncodeToString(h2[:2])
		}
		mo.checkStackTXT(st, rng, mods, txtQuery{first + suffix, "pair:listed-prefix"}, where)
		var second string
		kind := "pair:prefix-without-names"
		if len(removed) > 0 && rng.IntN(3) == 0 {
			hr := sha256.Sum256([]byte(removed[rng.IntN(len(removed))]))
			second = hex.EncodeToString(hr[:2])
			kind = "pair:prefix-of-removed-name"
		} else {
			for {
				second = randHex(rng, 4)
				b, _ := hex.DecodeString(second)
				if len(cur.byPrefix[[2]byte{b[0], b[1]}]) == 0 {
					break
				}
			}
		}
		if rng.IntN(4) == 0 {
			second += randHex(rng, 4) // legacy form
		}
		mo.checkStackTXT(st, rng, mods, txtQuery{second + suffix, kind}, where)
		mo.r.Bucket("stack_txt_pairs", 1)
	}
}

// stackFaultHistories: worlds[1] (adult blocking) works in replacement-host
// mode, so a listed host's request is rewritten; that request is made to fail
// after filtering (upstream error) or is a debug (CHAOS) request, and is
// followed, on the same goroutine, by an ordinary request for a host that no
// list holds, which goes through the usual host oracle.
func (mo *monitor) stackFaultHistories(st *stack, rng *rand.Rand, worlds []*fworld, n int, where map[string]any) {
	r := mo.r
	adult := worlds[1]
	if adult.repl != replFQDN || len(adult.cur.names) == 0 {
		return
	}
	filterable := []uint16{dns.TypeA, dns.TypeAAAA, dns.TypeHTTPS}
	for i := 0; i < n; i++ {
		// A host that the adult list matches and the list before it does not.
		var listed string
		for try := 0; try < 50 && listed == ""; try++ {
			c := prepend(rng, adult.cur.names[rng.IntN(len(adult.cur.names))], rng.IntN(2))
			if adult.cur.expectHost(c, dns.TypeA).Matched && !worlds[0].cur.expectHost(c, dns.TypeA).Matched {
				listed = c
			}
		}
		if listed == "" {
			continue
		}
		kind := "upstream-error"
		qclass, fail := uint16(dns.ClassINET), true
		if rng.IntN(2) == 0 {
			kind, qclass, fail = "debug-request", dns.ClassCHAOS, false
		}
		qt := filterable[rng.IntN(3)]
		var obs fltObservation
		func() {
			defer func() {
				if p := recover(); p != nil {
					r.Violation("panic:stack-fault-request", "the handler stack panicked on a request for a listed host that ends early",
						map[string]any{"host": listed, "kind": kind, "panic": fmt.Sprint(p), "where": where})
				}
			}()
			_, _, obs, _ = st.queryEx(wireName(rng, listed), qt, qclass, fail)
		}()
		r.Bucket("stack_faulted_listed_requests:"+kind, 1)
		if obs.List == string(adult.id) && strings.HasSuffix(obs.Type, "ResultModifiedRequest") {
			r.Bucket("stack_faulted_listed_requests_rewritten", 1)
		}
		// An unlisted host.
		var clean hostProbe
		for try := 0; try < 50; try++ {
			c := prepend(rng, mo.pool.pick(rng), rng.IntN(2))
			ok := true
			for _, fw := range worlds {
				if fw.cur.expectHost(c, dns.TypeA).Matched {
					ok = false
				}
			}
			if ok {
				clean = hostProbe{c, "clean-after-" + kind}
				break
			}
		}
		if clean.Host == "" {
			continue
		}
		mo.checkStackHost(st, rng, worlds, clean, filterable[rng.IntN(3)], where)
		r.Bucket("stack_clean_requests_after_faulted_listed_request", 1)
	}
}

func (mo *monitor) checkStackHost(st *stack, rng *rand.Rand, worlds []*fworld, pr hostProbe, qt uint16, where map[string]any) {
	r := mo.r
	if qt == dns.TypeTXT {
		// TXT goes through the hash-prefix path; covered by checkStackTXT.
		qt = dns.TypeMX
	}
	var first *fworld
	var e hostExpectation
	for _, fw := range worlds {
		if x := fw.cur.expectHost(pr.Host, qt); x.Matched {
			first, e = fw, x
			break
		}
	}
	if first == nil {
		e = worlds[0].cur.expectHost(pr.Host, qt)
	}
	qname := wireName(rng, pr.Host)
	var resp *dns.Msg
	var up []dns.Question
	var obs fltObservation
	var err error
	func() {
		defer func() {
			if p := recover(); p != nil {
				err = fmt.Errorf("panic: %v", p)
			}
		}()
		resp, up, obs, err = st.query(qname, qt)
	}()
	r.Bucket("stack_host_queries", 1)
	r.Bucket("stack_probe_kind:"+pr.Kind, 1)
	near := ""
	if !e.Matched && filterableQType(qt) {
		for _, fw := range worlds {
			if n := nearMiss(fw.cur, fw.prev, pr.Host); n != "" {
				near = n
				break
			}
		}
	}
	r.Eval(hostClass("stack-host", pr.Host, qt, e, near), e.Matched || near != "")
	w := map[string]any{"qname": qname, "probe_kind": pr.Kind, "qtype": dns.Type(qt).String(), "expected": e, "near": near,
		"filter_observation": obs, "upstream_calls": fmt.Sprint(up), "err": fmt.Sprint(err)}
	if first != nil {
		w["expected_list"] = string(first.id)
	}
	for k, v := range where {
		w[k] = v
	}
	if resp != nil {
		w["response"] = resp.String()
	}
	if err != nil {
		if strings.HasPrefix(err.Error(), "panic:") {
			r.Violation("panic:stack-host", "the handler stack panicked on a host question", w)
		} else {
			r.Bucket("stack_host_errors", 1)
		}
		return
	}
	if obs.N != 1 {
		// Special-domain handlers answer some names before filtering.
		r.Bucket("stack_host_not_filtered", 1)
		return
	}
	got := obs.List != ""
	switch {
	case e.Matched && !got:
		r.Violation("stack:host-false-negative", "through the handler stack, a host with a listed eligible name is not matched by any hash-prefix filter", w)
		return
	case !e.Matched && got:
		key := "stack:host-false-positive"
		for _, fw := range worlds {
			if string(fw.id) == obs.List {
				key += ":" + classifyFalsePositive(fw.cur, fw.prev, pr.Host, obs.Rule, qt)
			}
		}
		r.Violation(key, "through the handler stack, a host without a listed eligible name is matched", w)
		return
	case !got:
		r.Bucket("stack_host_passed", 1)
		if len(up) == 1 && up[0].Name == dns.Fqdn(replFQDN) && !strings.EqualFold(up[0].Name, qname) {
			r.Violation("stack:unlisted-host-rewritten-to-block-host", "a host that no filter matched was resolved as the block-page host (treated as listed)", w)
		} else if len(up) != 1 || !strings.EqualFold(up[0].Name, qname) {
			r.Violation("stack:unmatched-host-not-resolved", "an unmatched host question did not reach the upstream unchanged", w)
		}
		return
	}
	r.Bucket("stack_host_matched", 1)
	if obs.List != string(first.id) {
		r.Violation("stack:host-wrong-list", "the host was matched by another list than the first one that lists it", w)
		return
	}
	// What the client sees.
	switch {
	case first.repl == replFQDN:
		if len(up) != 1 || up[0].Name != dns.Fqdn(replFQDN) {
			r.Violation("stack:matched-host-not-rewritten", "a matched adult host was not resolved as the replacement host", w)
		}
	case first.repl == replIPv4 && qt == dns.TypeA, first.repl == replIPv6 && qt == dns.TypeAAAA:
		ok := false
		if resp != nil && len(resp.Answer) == 1 {
			switch a := resp.Answer[0].(type) {
			case *dns.A:
				ok = a.A.Equal(net.ParseIP(first.repl))
			case *dns.AAAA:
				ok = a.AAAA.Equal(net.ParseIP(first.repl))
			}
		}
		if !ok {
			r.Violation("stack:matched-host-not-blocked", "a matched host's answer is not the replacement address", w)
		}
	default:
		if resp == nil || len(resp.Answer) != 0 {
			r.Violation("stack:matched-host-not-blocked", "a matched host's answer still carries data", w)
		}
	}
	if r.BucketGet("stack_host_matched")%211 == 1 {
		r.Sample(w)
	}
}

// ---------------------------------------------------------------------------
// World B, part 2: requests in flight across a list refresh.  The hook point
// hashprefix.afterMatch (between the hash lookup and the result-cache write)
// parks some of the readers that pass it while Filter.Refresh is running and
// releases them after Refresh has returned, so that their cache writes land
// after the refresh cleared the cache.  Afterwards, with no request in flight,
// every such host is asked again: the answer must be that of the NEW list.
// ---------------------------------------------------------------------------

type staleProbe struct {
	host string
	qt   uint16
	kind string
}

func (mo *monitor) staleWorld() {
	r := mo.r
	scratch := os.Getenv("VERIF_SCRATCH")
	if scratch == "" {
		scratch = mo.t.TempDir()
	}
	scratch = filepath.Join(scratch, "c11-stale")
	if err := os.MkdirAll(scratch, 0o755); err != nil {
		mo.t.Fatal(err)
	}
	errs := &errRecorder{}
	fw := mo.newFilterWorld(scratch, filter.IDNewRegDomains, replIPv4, false, 200000, errs)
	msgs := agdtest.NewConstructor(mo.t)
	ctx := context.Background()

	// Two big lists with the same filler and disjoint sets of changing names.
	filler := r.N(200000, 300000)
	nChange := 20000
	var sb strings.Builder
	sb.WriteString("# filler\n")
	for i := 0; i < filler; i++ {
		fmt.Fprintf(&sb, "f%d.c11-filler.net\n", i)
	}
	fillerText := sb.String()
	var texts [2]string
	var mods [2]*model
	var bases [2][]string
	for v := 0; v < 2; v++ {
		var b strings.Builder
		b.WriteString(fillerText)
		for i := 0; i < nChange; i++ {
			nm := fmt.Sprintf("%c%d.c11-stale.org", 'x'+v, i)
			bases[v] = append(bases[v], nm)
			b.WriteString(nm)
			b.WriteByte('\n')
		}
		texts[v] = b.String()
		mods[v] = parseModel(texts[v])
	}
	allBases := append(append([]string(nil), bases[0]...), bases[1]...)

	if err := fw.load(ctx, texts[0], true, true); err != nil {
		r.Inconclusive("stale world: initial load failed: " + err.Error())
		return
	}

	const (
		readers = 64
		maxPark = 48
	)
	qts := []uint16{dns.TypeA, dns.TypeAAAA, dns.TypeHTTPS}
	ask := func(host string, qt uint16) (matched bool, err error) {
		defer func() {
			if p := recover(); p != nil {
				err = fmt.Errorf("panic: %v", p)
			}
		}()
		res, err := fw.flt.FilterRequest(ctx, &filter.Request{
			DNS: &dns.Msg{
				MsgHdr:   dns.MsgHdr{Id: 1, RecursionDesired: true},
				Question: []dns.Question{{Name: host + ".", Qtype: qt, Qclass: dns.ClassINET}},
			},
			Messages: msgs,
			RemoteIP: netip.MustParseAddr("192.0.2.1"),
			Host:     host,
			QType:    qt,
			QClass:   dns.ClassINET,
		})
		return res != nil, err
	}

	rounds := r.N(5, 16)
	for round := 1; round <= rounds; round++ {
		newV := round % 2
		oldM, newM := mods[1-newV], mods[newV]

		var (
			refreshing, done, released atomic.Bool
			hits, requests             atomic.Int64
			next                       atomic.Int64
			mu                         sync.Mutex
			parked                     int
			parkedAfterSwitch          int
			recorded                   []staleProbe
		)
		next.Store(1)
		release := make(chan struct{})
		sentinel := bases[newV][0] // listed in the new version only
		verifhook.Set(func(point string) {
			if point != "hashprefix.afterMatch" || !refreshing.Load() {
				return
			}
			h := hits.Add(1)
			if h < next.Load() {
				return
			}
			mu.Lock()
			park := parked < maxPark && h >= next.Load()
			if park {
				parked++
				n := next.Load()
				next.Store(max(n+1, n*13/10))
				if fw.strg.Matches(sentinel) {
					parkedAfterSwitch++
				}
			}
			mu.Unlock()
			if park {
				<-release
			}
		})

		var wg sync.WaitGroup
		for g := 0; g < readers; g++ {
			wg.Add(1)
			go func(g int) {
				defer wg.Done()
				sampled := 0
				for i := 0; !done.Load(); i++ {
					base := allBases[(g*7919+i*31)%len(allBases)]
					host := fmt.Sprintf("u%d-%d-%d.%s", round, g, i, base)
					qt := qts[(g+i)%3]
					during := refreshing.Load()
					relBefore := released.Load()
					_, err := ask(host, qt)
					requests.Add(1)
					if err != nil {
						r.Violation("filter:error-during-refresh", "Filter.FilterRequest failed or panicked while a refresh was running",
							map[string]any{"round": round, "host": host, "qtype": dns.Type(qt).String(), "err": err.Error()})
						return
					}
					switch {
					case !relBefore && released.Load():
						mu.Lock()
						recorded = append(recorded, staleProbe{host, qt, "in-flight-across-refresh"})
						mu.Unlock()
					case (during || refreshing.Load()) && sampled < 1000:
						sampled++
						mu.Lock()
						recorded = append(recorded, staleProbe{host, qt, "asked-during-refresh"})
						mu.Unlock()
					}
				}
			}(g)
		}
		// Let the readers run before the refresh starts (a count, not a time).
		for requests.Load() < 20000 {
			runtime.Gosched()
		}
		refreshing.Store(true)
		err := fw.load(ctx, texts[newV], false, round%2 == 0)
		refreshing.Store(false)
		done.Store(true)
		released.Store(true)
		close(release)
		wg.Wait()
		verifhook.Set(nil)
		if err != nil {
			r.Inconclusive(fmt.Sprintf("stale world: refresh %d failed: %v", round, err))
			return
		}
		r.Bucket("stale_rounds", 1)
		if round%2 == 0 {
			r.Bucket("filter_regular_refreshes_from_file_with_old_mtime", 1)
		} else {
			r.Bucket("filter_regular_refreshes_from_file_with_fresh_mtime", 1)
		}
		mo.checkLoaded(fw, r.Rand("stale/loaded", round), map[string]any{"world": "stale", "round": round, "old_mtime": round%2 == 0})
		r.Bucket("stale_hook_hits_during_refresh", hits.Load())
		r.Bucket("stale_readers_parked_during_refresh", int64(parked))
		r.Bucket("stale_readers_parked_before_storage_switched", int64(parked-parkedAfterSwitch))
		r.Bucket("stale_requests_concurrent", requests.Load())

		// Nothing is in flight any more: the filter must answer from the new list.
		for _, pr := range recorded {
			want := newM.expectHost(pr.host, pr.qt).Matched
			got, err := ask(pr.host, pr.qt)
			r.Bucket("stale_reprobes", 1)
			r.Bucket("stale_reprobes:"+pr.kind, 1)
			r.Eval(fmt.Sprintf("stale|%s|want=%v|qt-%s", pr.kind, want, dns.TypeToString[pr.qt]), true)
			if err != nil || got != want {
				r.Bucket("stale_mismatches:"+pr.kind, 1)
				r.Violation("filter:stale-across-reset", "after a refresh has returned and all requests that were in flight have finished, a host whose listing changed is still answered as by the old list",
					map[string]any{"round": round, "host": pr.host, "qtype": dns.Type(pr.qt).String(), "how_recorded": pr.kind,
						"want_new_list": want, "old_list_verdict": oldM.expectHost(pr.host, pr.qt).Matched, "got": got, "err": fmt.Sprint(err),
						"parked_readers": parked})
			}
		}
		if round == 1 && len(recorded) > 0 {
			r.Sample(map[string]any{"component": "stale-across-reset", "round": round, "reprobes": len(recorded), "parked": parked,
				"first": map[string]any{"host": recorded[0].host, "qtype": dns.Type(recorded[0].qt).String(), "kind": recorded[0].kind}})
		}
	}
}

// ---------------------------------------------------------------------------
// World C: look-ups concurrent with resets.  A reader must see the old or the
// new list: a name in both is always matched, a name in neither never, and the
// hashes behind a prefix are those of the old or those of the new list.
// ---------------------------------------------------------------------------

func (mo *monitor) concurrentWorld() {
	r := mo.r
	rounds := r.N(4, 40)
	const readers = 6
	for round := 0; round < rounds; round++ {
		rng := r.Rand("concurrent", round)
		size := 3000 + rng.IntN(r.N(6000, 30000))
		textA := genList(rng, mo.pool, size, nil)
		ma := parseModel(textA)
		shared := append([]string(nil), ma.names...)
		rng.Shuffle(len(shared), func(i, j int) { shared[i], shared[j] = shared[j], shared[i] })
		shared = shared[:len(shared)/2]
		textB := genList(rng, mo.pool, size/2, nil) + "\n" + strings.Join(shared, "\n") + "\n"
		mb := parseModel(textB)

		type nameProbe struct {
			name string
			want int // 1 always, 0 never, -1 either
		}
		type prefProbe struct {
			p            hashprefix.Prefix
			wantA, wantB string
		}
		var nps []nameProbe
		var pps []prefProbe
		joined := func(m *model, p [2]byte) string {
			var l []string
			for _, h := range m.byPrefix[p] {
				l = append(l, hex.EncodeToString(h[:]))
			}
			sort.Strings(l)
			return strings.Join(l, ",")
		}
		for i := 0; i < 4000; i++ {
			var nm string
			switch rng.IntN(4) {
			case 0:
				nm = shared[rng.IntN(len(shared))]
			case 1:
				nm = ma.names[rng.IntN(len(ma.names))]
			case 2:
				nm = mb.names[rng.IntN(len(mb.names))]
			default:
				nm = mo.pool.pick(rng)
				if ps := mo.pool.partners(shared[rng.IntN(len(shared))]); len(ps) > 0 && rng.IntN(2) == 0 {
					nm = ps[rng.IntN(len(ps))]
				}
			}
			inA, inB := ma.has(nm), mb.has(nm)
			w := -1
			if inA && inB {
				w = 1
			} else if !inA && !inB {
				w = 0
			}
			nps = append(nps, nameProbe{nm, w})
			h := sha256.Sum256([]byte(nm))
			p := [2]byte{h[0], h[1]}
			pps = append(pps, prefProbe{hashprefix.Prefix(p), joined(ma, p), joined(mb, p)})
		}

		st, err := hashprefix.NewStorage(textA)
		if err != nil {
			r.Inconclusive("concurrent world: NewStorage failed: " + err.Error())
			return
		}
		var inReset, done atomic.Bool
		var overlapped, probesDone atomic.Int64
		var wg sync.WaitGroup
		start := make(chan struct{})
		for g := 0; g < readers; g++ {
			wg.Add(1)
			go func(g int) {
				defer wg.Done()
				<-start
				var n, ov int64
				for i := g; ; i = (i + readers) % len(nps) {
					if done.Load() && n >= int64(len(nps)) {
						break
					}
					during := inReset.Load()
					np := nps[i]
					got := st.Matches(np.name)
					if np.want == 1 && !got {
						r.Violation("concurrent:common-name-missed", "a name listed both before and after a reset was not matched while the reset was running",
							map[string]any{"round": round, "name": np.name})
					} else if np.want == 0 && got {
						r.Violation("concurrent:unlisted-name-matched", "a name listed neither before nor after a reset was matched while the reset was running",
							map[string]any{"round": round, "name": np.name})
					}
					pp := pps[i]
					hs := st.Hashes([]hashprefix.Prefix{pp.p})
					hs = sortedKeys(setOf(hs))
					if j := strings.Join(hs, ","); j != pp.wantA && j != pp.wantB {
						r.Violation("concurrent:hashes-neither-old-nor-new", "the hashes returned for a prefix during a reset are neither those of the old nor those of the new list",
							map[string]any{"round": round, "prefix": hex.EncodeToString(pp.p[:]), "got": hs, "old_or_new_1": pp.wantA, "old_or_new_2": pp.wantB})
					}
					n++
					if during && inReset.Load() {
						ov++
					}
				}
				probesDone.Add(n)
				overlapped.Add(ov)
			}(g)
		}
		close(start)
		resets := r.N(30, 80)
		for k := 0; k < resets; k++ {
			text := textB
			if k%2 == 1 {
				text = textA
			}
			inReset.Store(true)
			_, err = st.Reset(text)
			inReset.Store(false)
			if err != nil {
				r.Inconclusive("concurrent world: Reset failed: " + err.Error())
				break
			}
			r.Bucket("concurrent_resets", 1)
		}
		done.Store(true)
		wg.Wait()
		r.Bucket("concurrent_lookups", 2*probesDone.Load())
		r.Bucket("concurrent_lookups_during_a_reset", 2*overlapped.Load())
		r.Eval("concurrent|common-name", true)
		r.Eval("concurrent|unlisted-name", true)
		r.Eval("concurrent|prefix-hashes", true)
	}
}

// ---------------------------------------------------------------------------

func TestCheck(t *testing.T) {
	r := vkit.Start(t, "C11", "exploration")
	defer r.Finish()
	r.Rule("cases are (component, input, question type) triples generated from the seed: list texts (300-20000 names under ICANN, wildcard, " +
		"private and unlisted suffixes, with comments, blank lines, duplicates, CRLF, public suffixes listed as such, parents/children of listed " +
		"names, names chosen to share a two-byte SHA-256 prefix) replaced several times per storage; host probes derived from the lists " +
		"(listed, 1-4 labels below, parent, sibling, commented-out, prefix partner, previous version, around a public suffix, random), each asked " +
		"with A, AAAA, HTTPS and several other types; TXT prefix queries with 1-40 labels (listed / unlisted / random prefixes, legacy 8-character, " +
		"repeated, malformed length or characters, names not under a suffix). Components: Storage.Matches/Hashes/Reset, Matcher.MatchByPrefix, " +
		"Filter.FilterRequest (file:// and HTTP refresh), dnssvc handler stack (preservice TXT path, main filtering path with upper-case / FQDN names). " +
		"distinct = structural class (component, label count, public-suffix kind and length, label count of the listed name that matches, near-miss kind, " +
		"question type; for TXT: query shape, model verdict, size of expected answer). non-trivial = the model expects a match / a non-empty answer / a refusal / " +
		"a pass-through, or the input is a near miss (listed name outside the four-label window, listed public suffix, prefix collision, commented-out, stale)")
	r.Assume("lists hold one lower-case domain name per line without surrounding blanks; '#' in the first column starts a comment; a trailing CR is not part of the name")
	r.Assume("hosts reach the filter lower-cased and without the trailing dot (the ratelimit middleware does that; the stack part sends mixed-case FQDNs)")
	r.Assume("'up to four labels' bounds every checked name, the host itself included: a host with more labels is checked through its last four labels only")
	r.Assume("for hosts whose prevailing public-suffix rule is not ICANN-managed (private section, unlisted TLD) the whole name space is checked, as " +
		"documented at hashableSubdomains; inputs on which 'always exclude the ICANN suffix' would decide otherwise are counted in private_space_reading_divergence")
	r.Assume("a legacy 8-character prefix whose discarded last four characters are not hexadecimal is neither required to be refused nor to be answered (counted, not judged)")
	r.Assume("answers are compared as sets: a hash listed twice may be returned twice")

	mo := &monitor{r: r, t: t, pool: buildPool(r)}
	if len(mo.pool.groups) < 100 {
		r.Inconclusive("name pool has too few two-byte prefix collisions")
		return
	}
	mo.directWorld()
	mo.filterWorld()
	mo.staleWorld()
	mo.concurrentWorld()

	r.Require("storage_resets", 10)
	r.Require("stale_rounds", 5)
	r.Require("stale_readers_parked_during_refresh", 40)
	r.Require("stale_reprobes:in-flight-across-refresh", 40)
	r.Require("concurrent_resets", 100)
	r.Require("concurrent_lookups", 30000)
	r.Require("concurrent_lookups_during_a_reset", 200)
	r.Require("filter_refreshes", 12)
	r.Require("filter_regular_refreshes_from_file_with_old_mtime", 8)
	r.Require("filter_regular_refreshes_from_file_with_fresh_mtime", 3)
	r.Require("filter_refresh_content_checks", 20)
	r.Require("storage_matches_expected_true", 500)
	r.Require("storage_near_miss:prefix-collision", 100)
	r.Require("storage_near_miss:stale", 100)
	r.Require("matcher_queries_with_hashes", 500)
	r.Require("matcher_queries_with_several_hashes", 100)
	r.Require("matcher_queries_malformed", 200)
	r.Require("matcher_queries_not-hash-query", 50)
	r.Require("filter_requests", 20000)
	r.Require("filter_expected_matched", 2000)
	r.Require("filter_expected_matched_via_4_labels", 30)
	r.Require("filter_expected_matched_via_1_labels", 5)
	r.Require("filter_near_miss:beyond-4-labels", 50)
	r.Require("filter_near_miss:public-suffix", 50)
	r.Require("filter_near_miss:prefix-collision", 200)
	r.Require("filter_near_miss:stale-after-reset", 100)
	r.Require("filter_near_miss:nonfilterable-qtype", 1000)
	r.Require("stack_txt_answers_with_hashes", 300)
	r.Require("stack_txt_queries_malformed", 150)
	r.Require("stack_txt_pairs", 2000)
	r.Require("stack_txt_hash_queries_non_IN_class", 3000)
	r.Require("stack_txt_hash_queries_class_CH_well-formed", 800)
	r.Require("stack_txt_hash_queries_class_CH_malformed", 100)
	r.Require("stack_txt_hash_queries_class_HS_well-formed", 300)
	r.Require("stack_txt_hash_queries_class_ANY_well-formed", 300)
	r.Require("stack_txt_hash_queries_class_NONE_well-formed", 300)
	r.Require("stack_faulted_listed_requests_rewritten", 500)
	r.Require("stack_faulted_listed_requests:upstream-error", 200)
	r.Require("stack_faulted_listed_requests:debug-request", 200)
	r.Require("stack_clean_requests_after_faulted_listed_request", 500)
	r.Require("matcher_repeated_prefix_queries_with_zero_bucket_listed", 500)
	r.Require("matcher-shared_repeated_prefix_queries_with_zero_bucket_listed", 300)
	r.Require("stack-txt_repeated_prefix_queries_with_zero_bucket_listed", 300)
	r.Require("stack_txt_empty_answers_after_disposed_nonempty_txt", 2000)
	r.Require("stack_txt_queries_not-hash-query", 30)
	r.Require("stack_host_matched", 100)
	r.Require("stack_host_passed", 300)
}
