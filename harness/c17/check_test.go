// Package c17 monitors property C17: queries fail over to fallback upstreams
// and return to the main upstreams when these recover.
//
// The real forward.Handler is driven with scripted stub upstreams (UDP+TCP on
// 127.0.0.1).  Steps are queries and explicit Refresh calls.  Every stub records
// each request it receives; the oracle is a reference state machine written from
// the property statement (active set of main upstreams, failure time of each
// main as an interval of monotonic timestamps).
package c17

import (
	"context"
	"encoding/binary"
	"encoding/json"
	"errors"
	"fmt"
	"io"
	"log/slog"
	"math/rand/v2"
	"net"
	"net/netip"
	"os"
	"runtime"
	"sort"
	"strings"
	"sync"
	"sync/atomic"
	"testing"
	"time"

	"github.com/AdguardTeam/AdGuardDNS/internal/dnsserver"
	"github.com/AdguardTeam/AdGuardDNS/internal/dnsserver/forward"
	dnsprom "github.com/AdguardTeam/AdGuardDNS/internal/dnsserver/prometheus"
	"github.com/AdguardTeam/AdGuardDNS/verif/vkit"
	"github.com/miekg/dns"
)

// upsTimeout is the per-upstream query timeout.  A silent stub costs one
// timeout per exchange.
const upsTimeout = 150 * time.Millisecond

// Request contexts: most queries get a deadline that is clearly longer than the
// upstream timeout but short, so that a tree which spends the whole request
// deadline on a silent upstream stays cheap to check; the long one is far beyond
// anything a loaded machine can consume.
const (
	shortCtx = time.Second
	longCtx  = 10 * time.Second
)

// ---------------------------------------------------------------------------
// stub behaviours

type mode int

const (
	mUp mode = iota
	mUpCase
	mTrunc
	mServfail
	mWrongID
	mWrongName
	mWrongType
	mNoQuestion
	mShort
	mWrongNameTC
	mWrongTypeTC
	mNoQuestionTC
	mSilent
	mClosed
	nModes
)

var modeNames = [...]string{"up", "upcase", "trunc", "servfail", "wrongid", "wrongname", "wrongtype", "noquestion", "short", "wrongname+tc", "wrongtype+tc", "noquestion+tc", "silent", "closed"}

func (m mode) String() string { return modeNames[m] }

func modeOf(s string) mode {
	for i, n := range modeNames {
		if n == s {
			return mode(i)
		}
	}
	panic("unknown mode " + s)
}

// class of a mode when it serves a client query.
const (
	clAnswer   = "answer"   // valid NOERROR reply
	clServfail = "servfail" // valid reply with rcode SERVFAIL
	clGarbage  = "garbage"  // a reply that must not be accepted; not a network error
	clNetErr   = "neterr"   // no reply: refused or timed out
)

func (m mode) class() string {
	switch m {
	case mUp, mUpCase, mTrunc:
		return clAnswer
	case mServfail:
		return clServfail
	case mSilent, mClosed:
		return clNetErr
	default:
		return clGarbage
	}
}

// probeOK: a health probe succeeds iff a valid NOERROR reply comes back.
func (m mode) probeOK() bool { return m.class() == clAnswer }

func swapCase(s string) string {
	b := []byte(s)
	for i, c := range b {
		switch {
		case c >= 'a' && c <= 'z':
			b[i] = c - 32
		case c >= 'A' && c <= 'Z':
			b[i] = c + 32
		}
	}
	return string(b)
}

// buildReply returns the wire reply of a stub in mode m (nil = no reply).
func buildReply(m mode, req *dns.Msg, netw string, ident net.IP, nonce string) []byte {
	if m == mSilent || m == mClosed || len(req.Question) == 0 {
		return nil
	}
	q := req.Question[0]
	resp := new(dns.Msg)
	resp.SetReply(req)
	resp.RecursionAvailable = true
	owner := q.Name
	if m == mUpCase {
		owner = swapCase(q.Name)
		resp.Question[0].Name = owner
	}
	resp.Answer = []dns.RR{&dns.A{
		Hdr: dns.RR_Header{Name: owner, Rrtype: dns.TypeA, Class: dns.ClassINET, Ttl: 60},
		A:   ident,
	}, &dns.TXT{
		// the fixture's nonce: a reply of another instance of this check (a
		// port taken over while a stub is scripted closed) is recognised
		Hdr: dns.RR_Header{Name: owner, Rrtype: dns.TypeTXT, Class: dns.ClassINET, Ttl: 60},
		Txt: []string{nonce},
	}}
	switch m {
	case mTrunc:
		if netw == "udp" {
			// the truncated reply carries a marked identity (third octet +10)
			resp.Truncated = true
			resp.Answer = resp.Answer[:1]
			ip := append(net.IP(nil), ident.To4()...)
			ip[2] += 10
			resp.Answer[0].(*dns.A).A = ip
		}
	case mServfail:
		resp.Rcode = dns.RcodeServerFailure
	case mWrongID:
		resp.Id = req.Id ^ 0x5a5a
	case mWrongName, mWrongNameTC:
		resp.Question[0].Name = "x-" + q.Name
	case mWrongType, mWrongTypeTC:
		if q.Qtype == dns.TypeA {
			resp.Question[0].Qtype = dns.TypeAAAA
		} else {
			resp.Question[0].Qtype = dns.TypeA
		}
	case mNoQuestion, mNoQuestionTC:
		resp.Question = nil
	}
	if m == mWrongNameTC || m == mWrongTypeTC || m == mNoQuestionTC {
		// right ID, TC bit set, question mismatching or missing, on both
		// transports; the answer is recognisable (third octet +20)
		resp.Truncated = true
		ip := append(net.IP(nil), ident.To4()...)
		ip[2] += 20
		resp.Answer[0].(*dns.A).A = ip
	}
	b, err := resp.Pack()
	if err != nil {
		return nil
	}
	if m == mShort {
		// Shorter than any DNS message (12-byte header + 5-byte question), so
		// the verdict cannot depend on how the remainder of the read buffer is
		// interpreted.
		n := 1 + int(req.Id)%16
		b = b[:n]
	}
	return b
}

type rec struct {
	T     time.Time
	Net   string
	Name  string
	Qtype uint16
	ID    uint16
	Mode  mode
	Extra string // "stray" / "dup": the one-shot extra message was sent with this reply
}

type stub struct {
	role  string // "main" or "fb"
	idx   int
	nonce string
	// armed: send ONE extra message with the next valid reply: "stray" = over
	// TCP a message with a foreign ID before the real reply, "dup" = over UDP
	// the reply datagram twice.  Afterwards the stub behaves as scripted.
	armed string
	// tcpOff: no TCP listener (a UDP-only server)
	tcpOff    bool
	flushSeen int
	// probeFail: answer health probes (names with ".hc-") with SERVFAIL
	// whatever the mode; noLog: do not record requests (stress phases).
	probeFail bool
	noLog     bool
	// bigSize: in mode up, the reply over TCP is padded to exactly this many
	// bytes and the reply over UDP is truncated (TC), as a real server does
	bigSize int
	// hold: withhold every reply until holdTarget requests have arrived (or
	// the harness releases them), then send them all at once.
	holdCh      chan struct{}
	holdTarget  int
	holdArrived int
	holdOpen    bool
	ip          net.IP
	port        int
	addr        netip.AddrPort

	mu    sync.Mutex
	mode  mode
	open  bool
	pc    net.PacketConn
	ln    net.Listener
	conns map[net.Conn]struct{}
	log   []rec
	wg    sync.WaitGroup
	// tornDown: the last shut closed accepted TCP connections, i.e. the
	// handler is left with dead pooled connections to this upstream.
	tornDown bool
}

var (
	portMu    sync.Mutex
	usedPorts = map[int]bool{}
)

// newStub binds a stub on a port outside the kernel's ephemeral range, so that
// no other process can be handed the port while the stub is scripted "closed".
// stubAddr is a loopback address private to this process (derived from the
// pid), so that concurrent instances of this check cannot be handed each
// other's ports while a stub is scripted closed.
var stubAddr = func() netip.Addr {
	pid := os.Getpid()
	return netip.AddrFrom4([4]byte{127, byte(64 + (pid>>16)&0x3f), byte(pid >> 8), byte(pid)})
}()

func newStub(role string, idx int, nonce string) (*stub, error) {
	s := &stub{role: role, idx: idx, nonce: nonce}
	if role == "main" {
		s.ip = net.IPv4(10, 17, 1, byte(idx))
	} else {
		s.ip = net.IPv4(10, 17, 2, byte(idx))
	}
	var err error
	for try := 0; try < 300; try++ {
		p := 11000 + rand.IntN(21000)
		portMu.Lock()
		taken := usedPorts[p]
		if !taken {
			usedPorts[p] = true
		}
		portMu.Unlock()
		if taken {
			continue
		}
		s.port = p
		s.addr = netip.AddrPortFrom(stubAddr, uint16(p))
		if err = s.listen(1); err == nil {
			return s, nil
		}
		portMu.Lock()
		delete(usedPorts, p)
		portMu.Unlock()
	}
	return nil, fmt.Errorf("no free port: %w", err)
}

func (s *stub) listen(tries int) error {
	a := s.addr.String()
	var pc net.PacketConn
	var ln net.Listener
	var err error
	for t := 0; t < tries; t++ {
		if t > 0 {
			time.Sleep(10 * time.Millisecond)
		}
		pc, err = net.ListenPacket("udp4", a)
		if err != nil {
			continue
		}
		if s.tcpIsOff() {
			break
		}
		ln, err = net.Listen("tcp4", a)
		if err != nil {
			_ = pc.Close()
			continue
		}
		break
	}
	if err != nil {
		return err
	}
	s.mu.Lock()
	s.pc, s.ln, s.open = pc, ln, true
	s.conns = map[net.Conn]struct{}{}
	s.mu.Unlock()
	s.wg.Add(1)
	go s.serveUDP(pc)
	if ln != nil {
		s.wg.Add(1)
		go s.serveTCP(ln)
	}
	return nil
}

func (s *stub) tcpIsOff() bool { s.mu.Lock(); defer s.mu.Unlock(); return s.tcpOff }

// setTCPOff makes the stub a UDP-only server (TCP port closed) or restores
// the TCP listener.  Called only while no call into the handler is in progress.
func (s *stub) setTCPOff(off bool) error {
	s.mu.Lock()
	if s.tcpOff == off {
		s.mu.Unlock()
		return nil
	}
	s.tcpOff = off
	open, ln := s.open, s.ln
	if off && ln != nil {
		_ = ln.Close()
		for c := range s.conns {
			_ = c.Close()
		}
		s.ln = nil
	}
	s.mu.Unlock()
	if off || !open {
		return nil
	}
	var err error
	for t := 0; t < 40; t++ {
		if ln, err = net.Listen("tcp4", s.addr.String()); err == nil {
			break
		}
		time.Sleep(10 * time.Millisecond)
	}
	if err != nil {
		return err
	}
	s.mu.Lock()
	s.ln = ln
	s.mu.Unlock()
	s.wg.Add(1)
	go s.serveTCP(ln)
	return nil
}

func (s *stub) shut() {
	s.mu.Lock()
	if s.open {
		_ = s.pc.Close()
		if s.ln != nil {
			_ = s.ln.Close()
		}
		s.tornDown = len(s.conns) > 0
		for c := range s.conns {
			_ = c.Close()
		}
		s.open = false
	}
	s.mu.Unlock()
	s.wg.Wait()
}

func (s *stub) release() {
	s.shut()
	portMu.Lock()
	delete(usedPorts, s.port)
	portMu.Unlock()
}

// setMode is called only while no call into the handler is in progress.
func (s *stub) setMode(m mode) error {
	s.mu.Lock()
	was := s.open
	s.mode = m
	s.mu.Unlock()
	if m == mClosed && was {
		s.shut()
	} else if m != mClosed && !was {
		return s.listen(40)
	}
	return nil
}

const flushSuffix = ".flush.c17."

// flush is a barrier: it sends a marker datagram to the stub's UDP socket and
// waits until the stub has seen it; every datagram that was queued before has
// been logged by then.
func (s *stub) flush() bool {
	s.mu.Lock()
	open, target := s.open, s.flushSeen+1
	s.mu.Unlock()
	if !open {
		return true
	}
	c, err := net.Dial("udp4", s.addr.String())
	if err != nil {
		return false
	}
	defer c.Close()
	m := &dns.Msg{MsgHdr: dns.MsgHdr{Id: 1}, Question: []dns.Question{{Name: "m" + flushSuffix, Qtype: dns.TypeA, Qclass: dns.ClassINET}}}
	b, _ := m.Pack()
	if _, err = c.Write(b); err != nil {
		return false
	}
	for k := 0; k < 3000; k++ {
		s.mu.Lock()
		seen := s.flushSeen
		s.mu.Unlock()
		if seen >= target {
			return true
		}
		time.Sleep(time.Millisecond)
	}
	return false
}

func (s *stub) arm(kind string) { s.mu.Lock(); s.armed = kind; s.mu.Unlock() }

func (s *stub) isArmed() bool { s.mu.Lock(); defer s.mu.Unlock(); return s.armed != "" }

func (s *stub) handle(raw []byte, netw string) [][]byte {
	now := time.Now()
	req := new(dns.Msg)
	if err := req.Unpack(raw); err != nil || len(req.Question) == 0 {
		s.mu.Lock()
		s.log = append(s.log, rec{T: now, Net: netw, Name: "<unparsable>", Mode: s.mode})
		s.mu.Unlock()
		return nil
	}
	if netw == "udp" && strings.HasSuffix(req.Question[0].Name, flushSuffix) {
		s.mu.Lock()
		s.flushSeen++
		s.mu.Unlock()
		return nil
	}
	s.mu.Lock()
	m := s.mode
	if s.probeFail && strings.Contains(req.Question[0].Name, ".hc-") {
		m = mServfail
	}
	if s.bigSize > 0 && m == mUp {
		size := s.bigSize
		s.mu.Unlock()
		if netw == "udp" {
			return [][]byte{buildReply(mTrunc, req, netw, s.ip, s.nonce)}
		}
		return [][]byte{padReply(buildReply(mUp, req, netw, s.ip, s.nonce), size)}
	}
	if s.noLog {
		s.mu.Unlock()
		return [][]byte{buildReply(m, req, netw, s.ip, s.nonce)}
	}
	extra := ""
	valid := m == mUp || m == mUpCase || (m == mTrunc && netw == "tcp")
	if valid && ((s.armed == "stray" && netw == "tcp") || (s.armed == "dup" && netw == "udp")) {
		extra, s.armed = s.armed, ""
	}
	s.log = append(s.log, rec{T: now, Net: netw, Name: req.Question[0].Name, Qtype: req.Question[0].Qtype, ID: req.Id, Mode: m, Extra: extra})
	s.mu.Unlock()
	out := buildReply(m, req, netw, s.ip, s.nonce)
	if out == nil {
		return nil
	}
	switch extra {
	case "stray":
		stray := append([]byte(nil), out...)
		binary.BigEndian.PutUint16(stray, req.Id^0x3c3c)
		return [][]byte{stray, out}
	case "dup":
		return [][]byte{out, out}
	}
	return [][]byte{out}
}

func (s *stub) serveUDP(pc net.PacketConn) {
	defer s.wg.Done()
	buf := make([]byte, 65535)
	for {
		n, from, err := pc.ReadFrom(buf)
		if err != nil {
			return
		}
		outs := s.handle(append([]byte(nil), buf[:n]...), "udp")
		if ch := s.holdWait(len(outs)); ch != nil {
			s.wg.Add(1)
			go func(outs [][]byte, from net.Addr) {
				defer s.wg.Done()
				<-ch
				for _, out := range outs {
					_, _ = pc.WriteTo(out, from)
				}
			}(outs, from)
			continue
		}
		for _, out := range outs {
			_, _ = pc.WriteTo(out, from)
		}
	}
}

func (s *stub) serveTCP(ln net.Listener) {
	defer s.wg.Done()
	for {
		c, err := ln.Accept()
		if err != nil {
			return
		}
		s.mu.Lock()
		if !s.open {
			s.mu.Unlock()
			_ = c.Close()
			continue
		}
		s.conns[c] = struct{}{}
		s.mu.Unlock()
		s.wg.Add(1)
		go s.serveConn(c)
	}
}

func (s *stub) serveConn(c net.Conn) {
	defer s.wg.Done()
	defer func() {
		s.mu.Lock()
		delete(s.conns, c)
		s.mu.Unlock()
		_ = c.Close()
	}()
	for {
		var l uint16
		if err := binary.Read(c, binary.BigEndian, &l); err != nil {
			return
		}
		raw := make([]byte, l)
		if _, err := io.ReadFull(c, raw); err != nil {
			return
		}
		var msg []byte
		for _, out := range s.handle(raw, "tcp") {
			msg = binary.BigEndian.AppendUint16(msg, uint16(len(out)))
			msg = append(msg, out...)
		}
		if msg == nil {
			continue
		}
		if ch := s.holdWait(1); ch != nil {
			<-ch
		}
		if _, err := c.Write(msg); err != nil {
			return
		}
	}
}

// holdStart makes the stub withhold its replies until n requests have arrived.
func (s *stub) holdStart(n int) {
	s.mu.Lock()
	s.holdCh, s.holdTarget, s.holdArrived, s.holdOpen = make(chan struct{}), n, 0, false
	s.mu.Unlock()
}

// holdWait is called by the serving loops for a request with nOut replies.
func (s *stub) holdWait(nOut int) chan struct{} {
	s.mu.Lock()
	defer s.mu.Unlock()
	if s.holdCh == nil || nOut == 0 {
		return nil
	}
	s.holdArrived++
	if s.holdArrived >= s.holdTarget && !s.holdOpen {
		s.holdOpen = true
		close(s.holdCh)
	}
	return s.holdCh
}

// holdEnd releases whatever is still withheld; forced tells whether the
// target had not been reached.
func (s *stub) holdEnd() (arrived int, forced bool) {
	s.mu.Lock()
	defer s.mu.Unlock()
	if s.holdCh == nil {
		return 0, false
	}
	if !s.holdOpen {
		s.holdOpen, forced = true, true
		close(s.holdCh)
	}
	arrived = s.holdArrived
	s.holdCh = nil
	return arrived, forced
}

func (s *stub) setBig(size int) { s.mu.Lock(); s.bigSize = size; s.mu.Unlock() }

// padReply appends one TXT record to the additional section of a packed reply
// so that the message is exactly size bytes long.
func padReply(b []byte, size int) []byte {
	m := new(dns.Msg)
	if m.Unpack(b) != nil {
		return b
	}
	const over = 11 // root owner + type + class + ttl + rdlength
	rd := size - len(b) - over
	if rd < 1 {
		return b
	}
	var txt []string
	for rd > 0 {
		n := rd - 1
		if n > 255 {
			n = 255
		}
		txt = append(txt, strings.Repeat("x", n))
		rd -= n + 1
	}
	m.Extra = append(m.Extra, &dns.TXT{Hdr: dns.RR_Header{Name: ".", Rrtype: dns.TypeTXT, Class: dns.ClassINET, Ttl: 1}, Txt: txt})
	out, err := m.Pack()
	if err != nil {
		return b
	}
	return out
}

func (s *stub) setStress(probeFail, noLog bool) {
	s.mu.Lock()
	s.probeFail, s.noLog = probeFail, noLog
	s.mu.Unlock()
}

func (s *stub) takeTornDown() bool {
	s.mu.Lock()
	defer s.mu.Unlock()
	t := s.tornDown
	s.tornDown = false
	return t
}

func (s *stub) logLen() int { s.mu.Lock(); defer s.mu.Unlock(); return len(s.log) }

func (s *stub) logFrom(i int) []rec {
	s.mu.Lock()
	defer s.mu.Unlock()
	return append([]rec(nil), s.log[i:]...)
}

// ---------------------------------------------------------------------------
// supplementary observation: the exported MetricsListener and *forward.Error.
// They can only add constraints (an upstream seen here was tried); nothing is
// required to show up here.

type attempt struct {
	Ups  string
	Name string
}

type listener struct {
	mu  sync.Mutex
	att []attempt
	// prod: the production listener (the one internal/cmd wires into the
	// handler), called through for a share of the schedules
	prod forward.MetricsListener
}

var prodListeners atomic.Int64

// newProdListener returns a production forward metrics listener.  Its metrics
// are registered with promauto on the default registry, so every instance gets
// a namespace of its own.
func newProdListener() forward.MetricsListener {
	return dnsprom.NewForwardMetricsListener(fmt.Sprintf("c17_p%d_n%d", os.Getpid(), prodListeners.Add(1)), 8)
}

func (l *listener) OnForwardRequest(ctx context.Context, ups forward.Upstream, req, resp *dns.Msg, nw forward.Network, start time.Time, err error) {
	if l.prod != nil && ups != nil {
		l.prod.OnForwardRequest(ctx, ups, req, resp, nw, start, err)
	}
	a := attempt{}
	if ups != nil {
		a.Ups = ups.String()
	}
	if req != nil && len(req.Question) > 0 {
		a.Name = req.Question[0].Name
	}
	l.mu.Lock()
	l.att = append(l.att, a)
	l.mu.Unlock()
}

func (l *listener) OnUpstreamStatusChanged(ups forward.Upstream, isMain, isUp bool) {
	if l.prod != nil {
		l.prod.OnUpstreamStatusChanged(ups, isMain, isUp)
	}
}

func (l *listener) byName(name string) []attempt {
	l.mu.Lock()
	defer l.mu.Unlock()
	var out []attempt
	for _, a := range l.att {
		if strings.EqualFold(a.Name, name) {
			out = append(out, a)
		}
	}
	return out
}

// recording response writer
type recRW struct {
	mu   sync.Mutex
	n    int
	resp *dns.Msg
}

func (w *recRW) LocalAddr() net.Addr  { return &net.UDPAddr{IP: net.IPv4(127, 0, 0, 1), Port: 53} }
func (w *recRW) RemoteAddr() net.Addr { return &net.UDPAddr{IP: net.IPv4(127, 0, 0, 1), Port: 40000} }
func (w *recRW) WriteMsg(_ context.Context, _, resp *dns.Msg) error {
	w.mu.Lock()
	defer w.mu.Unlock()
	w.n++
	if resp != nil {
		w.resp = resp.Copy()
	}
	return nil
}

var _ dnsserver.ResponseWriter = (*recRW)(nil)

// ---------------------------------------------------------------------------
// case specification

type stepSpec struct {
	Op     string   `json:"op"`             // "query", "refresh", "init" (health check inside NewHandler)
	Wait   string   `json:"wait,omitempty"` // before the call: "beyond" = sleep until every failed probe is clearly older than the back-off, "part" = until about half of it
	Modes  []string `json:"modes"`          // mode of every stub during the step: mains, then fallbacks
	Name   string   `json:"name,omitempty"`
	Qtype  uint16   `json:"qtype,omitempty"`
	ID     uint16   `json:"id,omitempty"`
	CtxMs  int      `json:"request_deadline_ms,omitempty"` // "query": deadline of the request context (0 = 10 s)
	Ctx    string   `json:"ctx,omitempty"`                 // "refresh": "short" = context deadline 60 ms (shorter than the upstream timeout), "cancel" = cancelled after 50 ms
	Count  int      `json:"count,omitempty"`
	Arm    *armSpec `json:"arm,omitempty"`     // before the step: arm a one-shot extra message on a main
	TCPOff []int    `json:"tcp_off,omitempty"` // mains whose stub has no TCP listener during the step (UDP-only servers)
	Settle bool     `json:"settle,omitempty"`  // after the step: the extra message must have been sent and consumed, else the case is dropped // "burst": number of queries b<k>.<name>; every active main must be chosen at least once
}

type armSpec struct {
	Main int    `json:"main"`
	Kind string `json:"kind"` // "stray" (TCP) or "dup" (UDP)
}

type caseSpec struct {
	Stream    string     `json:"stream"`
	Idx       int        `json:"idx"`
	M         int        `json:"mains"`
	F         int        `json:"fallbacks"`
	BackoffMs int64      `json:"backoff_ms"`
	TimeoutMs int64      `json:"upstream_timeout_ms"`
	Prod      bool       `json:"production_metrics_listener,omitempty"` // prometheus.ForwardMetricsListener behind the recording listener
	Nets      []string   `json:"networks"`                              // "any" (UDP, TCP after truncation), "udp", "tcp": mains, then fallbacks
	Steps     []stepSpec `json:"steps"`
}

var backoffs = []time.Duration{0, 450 * time.Millisecond, 750 * time.Millisecond, time.Hour}

var mainWeights = map[mode]int{mUp: 30, mUpCase: 8, mTrunc: 8, mServfail: 10, mWrongID: 5, mWrongName: 5, mWrongType: 5, mNoQuestion: 4, mShort: 5, mWrongNameTC: 4, mWrongTypeTC: 4, mNoQuestionTC: 3, mSilent: 7, mClosed: 13}
var fbWeights = map[mode]int{mUp: 45, mUpCase: 5, mTrunc: 5, mServfail: 8, mWrongID: 4, mWrongName: 3, mWrongType: 3, mNoQuestion: 2, mShort: 3, mWrongNameTC: 3, mWrongTypeTC: 3, mNoQuestionTC: 2, mSilent: 7, mClosed: 15}
var failingModes = []mode{mServfail, mWrongID, mWrongName, mWrongType, mNoQuestion, mShort, mWrongNameTC, mWrongTypeTC, mNoQuestionTC, mSilent, mClosed, mClosed}

func draw(rng *rand.Rand, w map[mode]int) mode {
	tot := 0
	for m := mode(0); m < nModes; m++ {
		tot += w[m]
	}
	x := rng.IntN(tot)
	for m := mode(0); m < nModes; m++ {
		if x < w[m] {
			return m
		}
		x -= w[m]
	}
	return mUp
}

var qtypes = []uint16{dns.TypeA, dns.TypeAAAA, dns.TypeTXT, dns.TypeMX, dns.TypeHTTPS}

func randCase(rng *rand.Rand, s string) string {
	b := []byte(s)
	for i, c := range b {
		if c >= 'a' && c <= 'z' && rng.IntN(2) == 0 {
			b[i] = c - 32
		}
	}
	return string(b)
}

func genCase(r *vkit.Run, stream string, idx, nSteps int) caseSpec {
	rng := r.Rand(stream, idx)
	cs := caseSpec{Stream: stream, Idx: idx, M: 1 + idx%3, F: (idx / 3) % 3, TimeoutMs: upsTimeout.Milliseconds()}
	cs.Prod = cs.F > 0 && idx%2 == 1
	bo := backoffs[rng.IntN(len(backoffs))]
	cs.BackoffMs = bo.Milliseconds()
	canWait := bo > 0 && bo < time.Minute
	n := cs.M + cs.F
	// networks: a quarter of the cases all-any, a quarter all-tcp, the rest mixed
	for i := 0; i < n; i++ {
		switch (idx / 9) % 4 {
		case 0:
			cs.Nets = append(cs.Nets, "any")
		case 1:
			cs.Nets = append(cs.Nets, "tcp")
		default:
			cs.Nets = append(cs.Nets, []string{"any", "tcp", "tcp", "udp"}[rng.IntN(4)])
		}
	}
	cur := make([]mode, n)
	for i := range cur {
		if rng.IntN(10) < 7 {
			cur[i] = mUp
		} else if i < cs.M {
			cur[i] = draw(rng, mainWeights)
		} else {
			cur[i] = draw(rng, fbWeights)
		}
	}
	qn := 0
	nextCtx := ""
	var tcpOff []int
	add := func(op string, wait string) {
		st := stepSpec{Op: op, TCPOff: tcpOff}
		if op == "refresh" {
			st.Ctx, nextCtx = nextCtx, ""
		}
		if canWait {
			st.Wait = wait
		}
		for _, m := range cur {
			st.Modes = append(st.Modes, m.String())
		}
		if op == "burst" {
			// (1-1/M)^(24M) < 1e-12: a main in rotation is chosen at least once
			st.Count = 24 * cs.M
		}
		if op == "query" {
			st.CtxMs = int(shortCtx.Milliseconds())
			if rng.IntN(25) == 0 {
				st.CtxMs = int(longCtx.Milliseconds())
			}
		}
		if op == "query" || op == "burst" {
			qn++
			st.Name = randCase(rng, fmt.Sprintf("q%d.%s%d.c17.verif.test.", qn, stream, idx))
			st.Qtype = qtypes[rng.IntN(len(qtypes))]
			st.ID = uint16(rng.UintN(65536))
		}
		cs.Steps = append(cs.Steps, st)
	}
	perturbFbs := func(p int) {
		for i := cs.M; i < n; i++ {
			if rng.IntN(100) < p {
				cur[i] = draw(rng, fbWeights)
			}
		}
	}
	tpl := (idx / 36) % 4 // 0: extra-message template + random walk, 1,2: back-off / context templates, 3: pooled-connection template
	if cs.F > 0 && tpl != 0 && rng.IntN(4) == 0 {
		add("init", "")
	}
	if cs.F > 0 {
		// silent mains while they are still in rotation (no Refresh in
		// between): every query that picks one must, after the upstream
		// timeout, be tried once on a fallback
		saved := append([]mode(nil), cur...)
		all := rng.IntN(2) == 0
		ns := 0
		for i := 0; i < cs.M; i++ {
			if all || rng.IntN(2) == 0 || (i == cs.M-1 && ns == 0) {
				cur[i] = mSilent
				ns++
			}
		}
		for i := cs.M; i < n; i++ {
			cur[i] = []mode{mUp, mUp, mUp, mUpCase, mTrunc, mServfail, mClosed, mSilent}[rng.IntN(8)]
		}
		add("query", "")
		add("query", "")
		copy(cur, saved)
	}
	if cs.F == 0 && rng.IntN(2) == 0 {
		// no fallbacks, initial health check enabled, mains failing at
		// construction: they must stay in rotation and serve once they are up
		all := rng.IntN(2) == 0
		down := 0
		for i := 0; i < cs.M; i++ {
			cur[i] = []mode{mUp, mUpCase, mTrunc}[rng.IntN(3)]
			if all || rng.IntN(2) == 0 || (i == cs.M-1 && down == 0) {
				cur[i] = failingModes[rng.IntN(len(failingModes))]
				down++
			}
		}
		add("init", "")
		add("query", "")
		add("query", "")
		for i := 0; i < cs.M; i++ {
			cur[i] = []mode{mUp, mUp, mUpCase, mTrunc}[rng.IntN(4)]
		}
		add("query", "")
		add("burst", "")
		add("refresh", "")
		add("burst", "")
	} else if cs.F == 0 && rng.IntN(2) == 0 {
		add("init", "")
	}
	if tpl == 0 {
		// one extra message once on a pooled connection of a main (TCP: a
		// stray foreign-ID message before the real reply; UDP: the reply
		// twice), then the main behaves perfectly: only the query that reads
		// the extra message may fail, every later one is answered by the main.
		for i := range cur {
			cur[i] = []mode{mUp, mUp, mUpCase}[rng.IntN(3)]
		}
		m := rng.IntN(cs.M)
		// prefer a main whose network makes the effect client-visible
		for i := 0; i < cs.M; i++ {
			if cs.Nets[(m+i)%cs.M] != "any" {
				m = (m + i) % cs.M
				break
			}
		}
		kind := "stray"
		switch cs.Nets[m] {
		case "udp":
			// a UDP-only server: the handler's retry over TCP after the
			// mismatching datagram is refused
			kind = "dup"
			tcpOff = []int{m}
		case "any":
			cur[m] = mTrunc // the TCP connection is used after every truncated UDP reply
		}
		add("query", "")
		add("burst", "")
		cs.Steps[len(cs.Steps)-1].Arm = &armSpec{Main: m, Kind: kind}
		add("burst", "")
		cs.Steps[len(cs.Steps)-1].Settle = true
		add("query", "")
		tcpOff = nil
	}
	if tpl == 3 {
		// every upstream answers (the handler pools its connections), then
		// upstreams die with their accepted connections torn down and the
		// next query comes before any Refresh.
		for i := range cur {
			cur[i] = []mode{mUp, mUp, mUpCase, mTrunc}[rng.IntN(4)]
		}
		for k := 0; k < 2*cs.M+1; k++ {
			add("query", "")
		}
		all := rng.IntN(2) == 0
		killed := 0
		for i := 0; i < cs.M; i++ {
			if all || rng.IntN(2) == 0 || (i == cs.M-1 && killed == 0) {
				cur[i] = mClosed
				killed++
			}
		}
		if cs.F > 0 {
			for k := 0; k < cs.F+2; k++ {
				add("query", "")
			}
			for i := cs.M; i < n; i++ {
				cur[i] = mClosed
			}
			add("query", "")
			add("query", "")
			for i := cs.M; i < n; i++ {
				cur[i] = mUp
			}
			add("query", "")
			add("refresh", "")
			add("query", "")
			add("query", "")
		} else {
			add("query", "")
			add("query", "")
			add("query", "")
			for i := 0; i < cs.M; i++ {
				cur[i] = mUp
			}
			add("query", "")
			add("query", "")
		}
	}
	ctxTpl := tpl == 2 && cs.F > 0 && rng.IntN(3) != 0
	if ctxTpl {
		// a health-check round whose context ends before the probe of a silent
		// main does: the probe failed, the back-off starts.
		for i := 0; i < cs.M; i++ {
			cur[i] = []mode{mUp, mUp, mUpCase, mTrunc}[rng.IntN(4)]
		}
		add("query", "")
		sil := rng.IntN(cs.M)
		for i := 0; i < cs.M; i++ {
			if i == sil || rng.IntN(10) < 6 {
				cur[i] = mSilent
			} else {
				cur[i] = failingModes[rng.IntN(len(failingModes))]
			}
		}
		nextCtx = []string{"short", "cancel"}[rng.IntN(2)]
		add("refresh", "")
		perturbFbs(20)
		add("query", "")
		for i := 0; i < cs.M; i++ {
			if rng.IntN(5) != 0 {
				cur[i] = []mode{mUp, mUpCase, mTrunc}[rng.IntN(3)]
			}
		}
		add("refresh", "") // clearly inside the back-off, generous context
		add("query", "")
		add("query", "")
		for i := 0; i < cs.M; i++ {
			if rng.IntN(5) != 0 {
				cur[i] = mUp
			}
		}
		add("refresh", "beyond")
		add("query", "")
		add("query", "")
	}
	if (tpl == 1 || tpl == 2) && !ctxTpl {
		// template: fail -> detect -> (recover) -> refresh inside back-off ->
		// refresh beyond back-off -> traffic returns; random details.
		for i := 0; i < cs.M; i++ {
			cur[i] = []mode{mUp, mUp, mUpCase, mTrunc}[rng.IntN(4)]
		}
		add("query", "")
		var S []int
		for i := 0; i < cs.M; i++ {
			if rng.IntN(2) == 0 {
				S = append(S, i)
			}
		}
		if len(S) == 0 || rng.IntN(3) == 0 {
			S = S[:0]
			for i := 0; i < cs.M; i++ {
				S = append(S, i)
			}
		}
		for _, i := range S {
			cur[i] = failingModes[rng.IntN(len(failingModes))]
		}
		perturbFbs(25)
		add("query", "")
		add("query", "")
		add("refresh", "")
		perturbFbs(25)
		add("query", "")
		add("query", "")
		if cs.F == 0 {
			// without fallbacks: the mains that were down come back, the
			// others go away; the former must still be in rotation.
			inS := map[int]bool{}
			for _, i := range S {
				inS[i] = true
				cur[i] = mUp
			}
			for i := 0; i < cs.M; i++ {
				if !inS[i] {
					cur[i] = []mode{mClosed, mServfail, mWrongID}[rng.IntN(3)]
				}
			}
			for k := 0; k < 4; k++ {
				add("query", "")
			}
			add("refresh", "")
			add("query", "")
		} else {
			for _, i := range S {
				if rng.IntN(4) != 0 {
					cur[i] = []mode{mUp, mUpCase, mTrunc}[rng.IntN(3)]
				}
			}
			if rng.IntN(2) == 0 {
				add("refresh", "") // inside the back-off period
			} else {
				add("refresh", "part") // still inside, but later
			}
			perturbFbs(25)
			add("query", "")
			add("query", "")
			for _, i := range S {
				if rng.IntN(5) != 0 {
					cur[i] = mUp
				}
			}
			add("refresh", "beyond")
			add("query", "")
			add("query", "")
			add("query", "")
		}
	}
	for len(cs.Steps) < nSteps {
		for i := range cur {
			if rng.IntN(100) < 28 {
				if i < cs.M {
					cur[i] = draw(rng, mainWeights)
				} else {
					cur[i] = draw(rng, fbWeights)
				}
			}
		}
		switch x := rng.IntN(100); {
		case x < 56:
			add("query", "")
		case x < 80:
			// now and then with a context that ends before a silent main's
			// probe does; only when no main can answer, so that the result
			// does not depend on the order in which the mains are probed
			allFail, anySilent := true, false
			for i := 0; i < cs.M; i++ {
				allFail = allFail && !cur[i].probeOK()
				anySilent = anySilent || cur[i] == mSilent
			}
			if cs.F > 0 && allFail && anySilent && rng.IntN(2) == 0 {
				nextCtx = []string{"short", "cancel"}[rng.IntN(2)]
			}
			add("refresh", "")
		case x < 88:
			add("refresh", "part")
		default:
			add("refresh", "beyond")
		}
	}
	return cs
}

// ---------------------------------------------------------------------------
// reference model and the per-query oracle

type outcome struct {
	Kind string `json:"kind"` // answer | servfail | error | none | other
	Role string `json:"role,omitempty"`
	Idx  int    `json:"idx,omitempty"`
}

type scenario struct {
	Main int     `json:"main"` // -1: no main tried
	Fb   int     `json:"fb"`   // -1: no fallback tried
	Out  outcome `json:"outcome"`
	Tag  string  `json:"tag"`
	// NoRecordOK: the main's stub need not have logged the request yet (the
	// handler stopped waiting as soon as it read the extra message)
	NoRecordOK bool `json:"-"`
}

type queryObs struct {
	StubMains  []int   `json:"mains_that_received_the_query"`
	StubFbs    []int   `json:"fallbacks_that_received_the_query"`
	ExtraMains []int   `json:"mains_named_by_listener_or_error"`
	ExtraFbs   []int   `json:"fallbacks_named_by_listener_or_error"`
	FbAttempts int     `json:"fallback_exchanges_seen_by_listener"`
	Out        outcome `json:"outcome"`
	Err        string  `json:"err,omitempty"`
	Resp       string  `json:"resp,omitempty"`
	Foreign    bool    `json:"reply_carries_another_instances_nonce,omitempty"`
}

func union(a, b []int) []int {
	m := map[int]bool{}
	for _, x := range a {
		m[x] = true
	}
	for _, x := range b {
		m[x] = true
	}
	out := []int{}
	for x := range m {
		out = append(out, x)
	}
	sort.Ints(out)
	return out
}

func has(a []int, x int) bool {
	for _, y := range a {
		if y == x {
			return true
		}
	}
	return false
}

func fbOutcome(fm mode, f int, netw string) (outcome, string) {
	if fm == mTrunc && netw == "udp" {
		// a UDP-only upstream cannot retry over TCP: its truncated reply is the reply
		return outcome{Kind: "truncated", Role: "fb", Idx: f}, "fb-truncated-relayed"
	}
	switch fm.class() {
	case clAnswer:
		return outcome{Kind: "answer", Role: "fb", Idx: f}, "fb-answer"
	case clServfail:
		return outcome{Kind: "servfail", Role: "fb", Idx: f}, "fb-servfail-relayed"
	case clGarbage:
		return outcome{Kind: "error"}, "fb-garbage-rejected:" + fm.String()
	default:
		return outcome{Kind: "error"}, "fb-also-down:" + fm.String()
	}
}

// scenarios lists every legitimate course of one query given the active set.
func scenarios(active []bool, mm, fm []mode, nets []string) []scenario {
	mnet, fnet := nets[:len(mm)], nets[len(mm):]
	var out []scenario
	anyActive := false
	withFb := func(main int, prefix string) {
		for f := range fm {
			o, t := fbOutcome(fm[f], f, fnet[f])
			out = append(out, scenario{Main: main, Fb: f, Out: o, Tag: prefix + "->" + t})
		}
	}
	for i, a := range active {
		if !a {
			continue
		}
		anyActive = true
		switch mm[i].class() {
		case clAnswer:
			if mm[i] == mTrunc && mnet[i] == "udp" {
				out = append(out, scenario{Main: i, Fb: -1, Out: outcome{Kind: "truncated", Role: "main", Idx: i}, Tag: "main-truncated-relayed"})
				break
			}
			out = append(out, scenario{Main: i, Fb: -1, Out: outcome{Kind: "answer", Role: "main", Idx: i}, Tag: "main-answer:" + mm[i].String()})
		case clServfail:
			out = append(out, scenario{Main: i, Fb: -1, Out: outcome{Kind: "servfail", Role: "main", Idx: i}, Tag: "main-servfail-relayed"})
		case clGarbage:
			out = append(out, scenario{Main: i, Fb: -1, Out: outcome{Kind: "error"}, Tag: "main-garbage-rejected:" + mm[i].String()})
		default:
			if len(fm) == 0 {
				out = append(out, scenario{Main: i, Fb: -1, Out: outcome{Kind: "error"}, Tag: "main-neterr:" + mm[i].String() + "->no-fallbacks-error"})
			} else {
				withFb(i, "main-neterr:"+mm[i].String())
			}
		}
	}
	if !anyActive {
		if len(fm) == 0 {
			// cannot happen in the model: without fallbacks every main is active
			return out
		}
		withFb(-1, "no-active-main")
	}
	return out
}

func (s scenario) matches(o queryObs, mm, fm []mode) bool {
	mains := union(o.StubMains, o.ExtraMains)
	fbs := union(o.StubFbs, o.ExtraFbs)
	if s.Main < 0 {
		if len(mains) != 0 {
			return false
		}
	} else {
		for _, x := range mains {
			if x != s.Main {
				return false
			}
		}
		if !has(o.StubMains, s.Main) && mm[s.Main] != mClosed && !(s.NoRecordOK && has(o.ExtraMains, s.Main)) {
			return false
		}
	}
	if s.Fb < 0 {
		if len(fbs) != 0 {
			return false
		}
	} else {
		for _, x := range fbs {
			if x != s.Fb {
				return false
			}
		}
		if !has(o.StubFbs, s.Fb) && fm[s.Fb] != mClosed {
			return false
		}
		if o.FbAttempts > 1 {
			return false
		}
	}
	return s.Out == o.Out
}

// judge compares one observed query with the model.  cand holds the active sets
// the query may legitimately have seen (one for sequential steps).
func judge(cand [][]bool, mm, fm []mode, nets []string, o queryObs, extraMain int, extraFb ...bool) (tag, key, what string, exp []scenario, hit scenario) {
	for _, a := range cand {
		exp = append(exp, scenarios(a, mm, fm, nets)...)
	}
	if extraMain >= 0 {
		// this query read the one-shot extra message from that main: its
		// reply is not a matching one, which is a non-network failure
		exp = append(exp, scenario{Main: extraMain, Fb: -1, Out: outcome{Kind: "error"}, Tag: "main-extra-message-consumed", NoRecordOK: true})
		if len(extraFb) > 0 && extraFb[0] {
			// ... and that main is a UDP-only server: the retry over TCP is
			// refused, a network error, so a fallback is tried
			for f := range fm {
				fo, t := fbOutcome(fm[f], f, nets[len(mm)+f])
				exp = append(exp, scenario{Main: extraMain, Fb: f, Out: fo, Tag: "main-extra-message-consumed->" + t, NoRecordOK: true})
			}
		}
	}
	for _, s := range exp {
		if s.matches(o, mm, fm) {
			return s.Tag, "", "", exp, s
		}
	}
	mains := union(o.StubMains, o.ExtraMains)
	fbs := union(o.StubFbs, o.ExtraFbs)
	activeAny := make([]bool, len(mm))
	everyCandNonEmpty := true
	for _, a := range cand {
		ne := false
		for i, x := range a {
			if x {
				activeAny[i] = true
				ne = true
			}
		}
		if !ne {
			everyCandNonEmpty = false
		}
	}
	for _, m := range mains {
		if !activeAny[m] {
			return "", "query:failed-main-used-before-recovery",
				"a main upstream whose health probe failed received a query although no later probe of it has succeeded after the back-off period", exp, scenario{Main: -1, Fb: -1}
		}
	}
	if len(mains) > 1 {
		return "", "query:multiple-mains-tried", "one query was sent to more than one main upstream", exp, scenario{Main: -1, Fb: -1}
	}
	if len(fbs) > 1 || o.FbAttempts > 1 {
		return "", "query:fallback-tried-more-than-once", "one query was tried on fallback upstreams more than once", exp, scenario{Main: -1, Fb: -1}
	}
	closedActive := false
	for i := range mm {
		if activeAny[i] && mm[i] == mClosed {
			closedActive = true
		}
	}
	if everyCandNonEmpty && len(mains) == 0 && !closedActive {
		k := "query:active-mains-bypassed"
		if len(fm) == 0 {
			k += ":no-fallbacks"
		}
		return "", k, "healthy main upstreams exist but the query was not sent to any of them", exp, scenario{Main: -1, Fb: -1}
	}
	mcls := "unknown"
	if len(mains) == 1 {
		mcls = mm[mains[0]].class()
	} else if len(mains) == 0 && everyCandNonEmpty {
		mcls = clNetErr // only a closed main can have been tried unseen
	} else if len(mains) == 0 {
		mcls = "none"
	}
	if len(fbs) > 0 && (mcls == clAnswer || mcls == clServfail || mcls == clGarbage) {
		return "", "query:fallback-without-network-error:" + mcls,
			"the chosen main upstream replied (no network error) and a healthy main exists, yet a fallback was tried", exp, scenario{Main: -1, Fb: -1}
	}
	closedFb := false
	for _, m := range fm {
		if m == mClosed {
			closedFb = true
		}
	}
	if len(fm) > 0 && (mcls == clNetErr || mcls == "none") && len(fbs) == 0 && !closedFb {
		return "", "query:fallback-not-tried", "the main upstream failed with a network error (or none is healthy) but no fallback was tried", exp, scenario{Main: -1, Fb: -1}
	}
	want := map[string]bool{}
	for _, s := range exp {
		if (s.Main < 0 && len(mains) == 0) || (s.Main >= 0 && (has(mains, s.Main) || (len(mains) == 0 && mm[s.Main] == mClosed))) {
			if (s.Fb < 0 && len(fbs) == 0) || (s.Fb >= 0 && (has(fbs, s.Fb) || (len(fbs) == 0 && fm[s.Fb] == mClosed))) {
				want[s.Out.Kind+"-"+s.Out.Role] = true
			}
		}
	}
	var ws []string
	for k := range want {
		ws = append(ws, strings.TrimSuffix(k, "-"))
	}
	sort.Strings(ws)
	got := strings.TrimSuffix(o.Out.Kind+"-"+o.Out.Role, "-")
	return "", "query:result:want-" + strings.Join(ws, "|") + ":got-" + got,
		"the client-visible result is not the one the contacted upstreams' behaviour calls for", exp, scenario{Main: -1, Fb: -1}
}

// identity of the answer: A record 10.17.<1 main|2 fallback>.<idx>.
func identify(resp *dns.Msg) (role string, idx int) {
	for _, rr := range resp.Answer {
		if a, ok := rr.(*dns.A); ok {
			ip := a.A.To4()
			if ip != nil && ip[0] == 10 && ip[1] == 17 {
				if ip[2] == 1 || ip[2] == 11 || ip[2] == 21 {
					return "main", int(ip[3])
				} else if ip[2] == 2 || ip[2] == 12 || ip[2] == 22 {
					return "fb", int(ip[3])
				}
			}
		}
	}
	return "unknown", 0
}

// replyMismatch returns which field of a response handed to the client does
// not match the request ("" if it matches).
func replyMismatch(req, resp *dns.Msg) string {
	if resp.Id != req.Id {
		return "id"
	}
	if len(resp.Question) != 1 {
		return "question-count"
	}
	if !strings.EqualFold(resp.Question[0].Name, req.Question[0].Name) {
		return "name"
	}
	if resp.Question[0].Qtype != req.Question[0].Qtype {
		return "type"
	}
	return ""
}

// ---------------------------------------------------------------------------
// fixture: handler + stubs

type fixture struct {
	mains, fbs []*stub
	byAddr     map[string]*stub
	lst        *listener
	h          *forward.Handler
	hcSuffix   string
	nets       []string
	nonce      string
	timeout    time.Duration
}

func (fx *fixture) all() []*stub { return append(append([]*stub{}, fx.mains...), fx.fbs...) }

func netOf(s string) forward.Network {
	switch s {
	case "tcp":
		return forward.NetworkTCP
	case "udp":
		return forward.NetworkUDP
	}
	return forward.NetworkAny
}

func newFixture(M, F int, nets []string) (*fixture, error) {
	fx := &fixture{byAddr: map[string]*stub{}, lst: &listener{}, nets: nets, timeout: upsTimeout,
		nonce: fmt.Sprintf("c17-%d-%016x", os.Getpid(), rand.Uint64())}
	for i := 0; i < M; i++ {
		s, err := newStub("main", i, fx.nonce)
		if err != nil {
			fx.close()
			return nil, err
		}
		fx.mains = append(fx.mains, s)
		fx.byAddr[s.addr.String()] = s
	}
	for i := 0; i < F; i++ {
		s, err := newStub("fb", i, fx.nonce)
		if err != nil {
			fx.close()
			return nil, err
		}
		fx.fbs = append(fx.fbs, s)
		fx.byAddr[s.addr.String()] = s
	}
	return fx, nil
}

func (fx *fixture) newHandler(tag string, backoff, initDur time.Duration) {
	fx.hcSuffix = ".hc-" + tag + ".c17.verif.test."
	conf := &forward.HandlerConfig{
		Logger:                     slog.New(slog.NewTextHandler(io.Discard, nil)),
		MetricsListener:            fx.lst,
		HealthcheckDomainTmpl:      "${RANDOM}" + strings.TrimSuffix(fx.hcSuffix, "."),
		HealthcheckBackoffDuration: backoff,
		HealthcheckInitDuration:    initDur,
	}
	for i, s := range fx.mains {
		conf.UpstreamsAddresses = append(conf.UpstreamsAddresses, &forward.UpstreamPlainConfig{
			Network: netOf(fx.nets[i]), Address: s.addr, Timeout: fx.timeout})
	}
	for i, s := range fx.fbs {
		conf.FallbackAddresses = append(conf.FallbackAddresses, &forward.UpstreamPlainConfig{
			Network: netOf(fx.nets[len(fx.mains)+i]), Address: s.addr, Timeout: fx.timeout})
	}
	fx.h = forward.NewHandler(conf)
}

func (fx *fixture) close() {
	if fx.h != nil {
		_ = fx.h.Close()
	}
	for _, s := range fx.all() {
		s.release()
	}
}

// settle waits until every request the handler has sent so far is in the
// stubs' logs: a barrier on every UDP socket, then until the logs stop growing
// (requests over TCP).
func (fx *fixture) settle() bool {
	for _, s := range fx.all() {
		if !s.flush() {
			return false
		}
	}
	prev, stable := -1, 0
	for k := 0; k < 60 && stable < 3; k++ {
		n := 0
		for _, s := range fx.all() {
			n += s.logLen()
		}
		if n == prev {
			stable++
		} else {
			stable = 0
		}
		prev = n
		time.Sleep(5 * time.Millisecond)
	}
	return true
}

// explainedBySlowStub reports whether an observation that matches no
// legitimate course becomes legitimate if stubs that did receive the query (in
// a replying mode) were too slow for the handler, i.e. counted as timed out.
// Only such outcomes of a slow call are timing-dependent.
func explainedBySlowStub(cand [][]bool, mm, fm []mode, nets []string, o queryObs, xm int, xfb bool) bool {
	type ref struct {
		main bool
		i    int
	}
	var c []ref
	for _, i := range o.StubMains {
		if mm[i] != mSilent {
			c = append(c, ref{true, i})
		}
	}
	for _, j := range o.StubFbs {
		if fm[j] != mSilent {
			c = append(c, ref{false, j})
		}
	}
	for mask := 1; mask < 1<<len(c); mask++ {
		m2 := append([]mode(nil), mm...)
		f2 := append([]mode(nil), fm...)
		for b, x := range c {
			if mask>>b&1 == 1 {
				if x.main {
					m2[x.i] = mSilent
				} else {
					f2[x.i] = mSilent
				}
			}
		}
		if _, key, _, _, _ := judge(cand, m2, f2, nets, o, xm, xfb); key == "" {
			return true
		}
	}
	return false
}

func (fx *fixture) setModes(ms []mode) error {
	for i, s := range fx.all() {
		if err := s.setMode(ms[i]); err != nil {
			return err
		}
	}
	return nil
}

type qResult struct {
	obs      queryObs
	mismatch string
	c0, c1   time.Time
}

// doQuery sends one query through the handler.
func (fx *fixture) doQuery(name string, qtype, id uint16, ctxDur time.Duration) (req *dns.Msg, rw *recRW, err error, c0, c1 time.Time) {
	req = &dns.Msg{
		MsgHdr:   dns.MsgHdr{Id: id, RecursionDesired: true},
		Question: []dns.Question{{Name: name, Qtype: qtype, Qclass: dns.ClassINET}},
	}
	rw = &recRW{}
	ctx, cancel := context.WithTimeout(context.Background(), ctxDur)
	defer cancel()
	c0 = time.Now()
	err = fx.h.ServeDNS(ctx, rw, req)
	c1 = time.Now()
	return req, rw, err, c0, c1
}

// observe turns the raw material of one query into a queryObs.  recs are the
// stub records carrying the query's name, per stub (mains then fallbacks).
func (fx *fixture) observe(req *dns.Msg, rw *recRW, err error, recs [][]rec) (o queryObs, mismatch string, both, neither bool) {
	M := len(fx.mains)
	for i, rs := range recs {
		if len(rs) == 0 {
			continue
		}
		if i < M {
			o.StubMains = append(o.StubMains, i)
		} else {
			o.StubFbs = append(o.StubFbs, i-M)
		}
	}
	note := func(addr string, viaListener bool) {
		addr = strings.TrimPrefix(strings.TrimPrefix(addr, "udp://"), "tcp://")
		s := fx.byAddr[addr]
		if s == nil {
			return
		}
		if s.role == "main" {
			if !has(o.ExtraMains, s.idx) {
				o.ExtraMains = append(o.ExtraMains, s.idx)
			}
		} else {
			if !has(o.ExtraFbs, s.idx) {
				o.ExtraFbs = append(o.ExtraFbs, s.idx)
			}
			if viaListener {
				o.FbAttempts++
			}
		}
	}
	for _, a := range fx.lst.byName(req.Question[0].Name) {
		note(a.Ups, true)
	}
	var fe *forward.Error
	if err != nil && errors.As(err, &fe) {
		if fe.Main != nil {
			note(fe.Main.String(), false)
		}
		if fe.Fallback != nil {
			note(fe.Fallback.String(), false)
		}
	}
	sort.Ints(o.ExtraMains)
	sort.Ints(o.ExtraFbs)
	rw.mu.Lock()
	n, resp := rw.n, rw.resp
	rw.mu.Unlock()
	if err != nil {
		o.Err = err.Error()
	}
	switch {
	case err != nil:
		o.Out = outcome{Kind: "error"}
		both = n > 0
	case n == 0 || resp == nil:
		o.Out = outcome{Kind: "none"}
		neither = true
	default:
		mismatch = replyMismatch(req, resp)
		if mismatch != "" && resp.Truncated {
			mismatch += "+tc" // a truncated reply is a reply: same rule
		}
		role, idx := identify(resp)
		if role != "unknown" {
			o.Foreign = true
			for _, rr := range resp.Answer {
				if t, ok := rr.(*dns.TXT); ok && len(t.Txt) == 1 && t.Txt[0] == fx.nonce {
					o.Foreign = false
				}
			}
			if resp.Truncated && len(resp.Answer) == 1 {
				o.Foreign = false // the marked truncated UDP reply carries no nonce
			}
		}
		kind := "other"
		switch {
		case resp.Truncated:
			kind = "truncated"
		case resp.Rcode == dns.RcodeSuccess:
			kind = "answer"
		case resp.Rcode == dns.RcodeServerFailure:
			kind = "servfail"
		}
		o.Out = outcome{Kind: kind, Role: role, Idx: idx}
		o.Resp = strings.ReplaceAll(resp.String(), "\n", " | ")
	}
	return o, mismatch, both, neither
}

// ---------------------------------------------------------------------------
// sequential cases

type mainState struct {
	Failed bool      `json:"failed"`
	L, U   time.Time // bounds of the instant of the failed probe
}

type stepTrace struct {
	Step    int        `json:"step"`
	Op      string     `json:"op"`
	StartMs float64    `json:"start_ms"`
	EndMs   float64    `json:"end_ms"`
	Active  []bool     `json:"model_active_after"`
	Note    string     `json:"note,omitempty"`
	Probed  []string   `json:"probe_decisions,omitempty"`
	Obs     *queryObs  `json:"observed,omitempty"`
	Exp     []scenario `json:"legitimate,omitempty"`
}

func parseModes(ss []string) []mode {
	out := make([]mode, len(ss))
	for i, s := range ss {
		out[i] = modeOf(s)
	}
	return out
}

// runCase executes one schedule against the real handler and judges every step.
func runCase(r *vkit.Run, cs caseSpec) {
	var trace []stepTrace
	defer func() {
		if p := recover(); p != nil {
			r.Violation("panic:forward-handler", fmt.Sprintf("panic while running a schedule: %v", p),
				map[string]any{"case": cs, "trace": trace})
		}
	}()
	backoff := time.Duration(cs.BackoffMs) * time.Millisecond
	fx, err := newFixture(cs.M, cs.F, cs.Nets)
	if err == nil && cs.Prod {
		fx.lst.prod = newProdListener()
	}
	if err != nil {
		r.Bucket("abandoned_no_port", 1)
		return
	}
	defer fx.close()
	t0 := time.Now()
	ms := func(t time.Time) float64 { return float64(t.Sub(t0).Microseconds()) / 1000 }

	active := make([]bool, cs.M)
	for i := range active {
		active[i] = true
	}
	state := make([]mainState, cs.M)
	everFailed := make([]bool, cs.M)
	downAtRefresh := make([]bool, cs.M) // F == 0: main was failing during some Refresh
	tags := map[string]bool{}
	pendingDup := make([]bool, cs.M) // a duplicated UDP reply of this main waits in the handler's pooled socket
	extraDone := make([]bool, cs.M)  // the one-shot extra message of this main has been read by a query
	afterExtra := make([]int, cs.M)  // answers of this main after that
	// extraOf returns the main whose one-shot extra message the query with
	// these records has read (-1: none) and keeps the book.
	lateName := "" // the query that read a duplicated datagram: its own datagram may be logged by the stub after the call has returned
	dropLate := func(rs []rec) []rec {
		if lateName == "" {
			return rs
		}
		out := rs[:0]
		for _, rc := range rs {
			if !(rc.Net == "udp" && strings.EqualFold(rc.Name, lateName)) {
				out = append(out, rc)
			}
		}
		return out
	}
	extraOf := func(recs [][]rec, o queryObs, name string) int {
		xm := -1
		for i := 0; i < cs.M; i++ {
			udp := false
			for _, rc := range recs[i] {
				udp = udp || rc.Net == "udp"
			}
			if pendingDup[i] && (udp || has(o.ExtraMains, i)) {
				if !udp {
					lateName = name
				}
				xm, pendingDup[i], extraDone[i] = i, false, true
				r.Bucket("extra_message:duplicate_udp_reply_read_by_next_query", 1)
			}
			for _, rc := range recs[i] {
				switch rc.Extra {
				case "stray":
					xm, extraDone[i] = i, true
					r.Bucket("extra_message:stray_tcp_message_read", 1)
				case "dup":
					pendingDup[i] = true
				}
			}
		}
		return xm
	}
	// afterExtraKey makes the key of a violation precise when the query went
	// to a main whose extra message had been consumed by an EARLIER query.
	afterExtraKey := func(key string, o queryObs, xm int) string {
		for _, m := range union(o.StubMains, o.ExtraMains) {
			if extraDone[m] && m != xm && (strings.HasPrefix(key, "query:result:want-answer-main") || key == "query:fallback-without-network-error:answer") {
				return key + ":after-extra-message-on-pooled-connection"
			}
		}
		return key
	}
	noteAfterExtra := func(o queryObs, xm int) {
		if m := o.Out.Idx; o.Out.Role == "main" && o.Out.Kind == "answer" && m < cs.M && extraDone[m] && m != xm {
			afterExtra[m]++
			r.Bucket("extra_message:later_queries_answered_by_that_main", 1)
			if afterExtra[m] == 3 {
				r.Bucket("extra_message:cases_with_3_later_answers:"+cs.Nets[m], 1)
				r.Bucket("extra_message:cases_with_3_later_answers", 1)
				tags["extra-message-then-main-answers"] = true
			}
		}
	}
	ctxFailed := make([]bool, cs.M) // the last failed probe ended with its round's context
	hcRound := 0                    // health-check rounds of this handler so far (production listener cases)
	initDown := false               // F == 0: some main was failing during the initial health check
	logPos := make([]int, cs.M+cs.F)
	dead := make([]bool, cs.M+cs.F) // the handler holds a pooled TCP connection that the stub tore down
	tag := fmt.Sprintf("%s%d", cs.Stream, cs.Idx)
	completed := 0

	fail := func(key, what string, step int, extra map[string]any) {
		w := map[string]any{"case": cs, "step": step, "trace": trace}
		for k, v := range extra {
			w[k] = v
		}
		r.Violation(key, what, w)
	}
	finish := func() {
		ks := make([]string, 0, len(tags))
		nontrivial := false
		for k := range tags {
			ks = append(ks, k)
			if !strings.HasPrefix(k, "main-answer") && k != "refresh-all-ok" && k != "refresh-noop" && k != "ambiguous" {
				nontrivial = true
			}
		}
		sort.Strings(ks)
		bc := "finite"
		if backoff == 0 {
			bc = "zero"
		} else if backoff >= time.Minute {
			bc = "long"
		}
		class := fmt.Sprintf("M%d/F%d/backoff-%s/%s", cs.M, cs.F, bc, strings.Join(ks, ","))
		r.Eval(class, nontrivial && completed > 0)
		r.Bucket("steps_judged", int64(completed))
		if cs.Idx%23 == 4 {
			r.Sample(map[string]any{"case": cs, "events": ks, "steps_judged": completed})
		}
	}
	defer finish()

	for si, st := range cs.Steps {
		modes := parseModes(st.Modes)
		mm, fm := modes[:cs.M], modes[cs.M:]
		if err = fx.setModes(modes); err != nil {
			r.Bucket("abandoned_rebind_failed", 1)
			return
		}
		for i, s := range fx.mains {
			if err = s.setTCPOff(has(st.TCPOff, i)); err != nil {
				r.Bucket("abandoned_rebind_failed", 1)
				return
			}
		}
		if fx.h == nil && st.Op != "init" {
			fx.newHandler(tag, backoff, 0)
		}
		for i, s := range fx.all() {
			if s.takeTornDown() {
				dead[i] = true
				r.Bucket("dead_pooled_tcp:teardowns", 1)
			}
		}
		if st.Wait != "" {
			// measured from the latest possible instant of the youngest failed probe
			var ref time.Time
			for i := range state {
				if state[i].Failed && state[i].U.After(ref) {
					ref = state[i].U
				}
			}
			target := backoff*3/2 + 30*time.Millisecond
			if st.Wait == "part" {
				target = backoff * 55 / 100
			}
			if !ref.IsZero() {
				if d := target - time.Since(ref); d > 0 {
					time.Sleep(d)
				}
			}
		}
		if st.Arm != nil {
			fx.mains[st.Arm.Main].arm(st.Arm.Kind)
			r.Bucket("extra_message:armed:"+st.Arm.Kind, 1)
		}
		if st.Op == "burst" {
			seen := make([]bool, cs.M)
			b0 := time.Now()
			for k := 0; k < st.Count; k++ {
				name := fmt.Sprintf("b%d.%s", k, st.Name)
				breq, brw, berr, q0, q1 := fx.doQuery(name, st.Qtype, st.ID+uint16(k), longCtx)
				brecs := make([][]rec, cs.M+cs.F)
				nSilent := 0
				for i, s := range fx.all() {
					brecs[i] = s.logFrom(logPos[i])
					logPos[i] += len(brecs[i])
					brecs[i] = dropLate(brecs[i])
					for _, rc := range brecs[i] {
						if !strings.EqualFold(rc.Name, name) {
							r.Bucket("ambiguous_late_record", 1)
							tags["ambiguous"] = true
							return
						}
					}
					if len(brecs[i]) > 0 && modes[i] == mSilent {
						nSilent++
					}
				}
				if q1.Sub(q0) > time.Duration(nSilent)*upsTimeout+upsTimeout*9/10 {
					r.Bucket("ambiguous_slow_call", 1)
					tags["ambiguous"] = true
					return
				}
				o, mismatch, both, _ := fx.observe(breq, brw, berr, brecs)
				if o.Foreign {
					r.Bucket("ambiguous_foreign_reply", 1)
					tags["ambiguous"] = true
					return
				}
				tr := stepTrace{Step: si, Op: "burst-query " + name, StartMs: ms(q0), EndMs: ms(q1), Obs: &o, Active: append([]bool(nil), active...)}
				if mismatch != "" {
					trace = append(trace, tr)
					fail("reply:accepted-mismatch:"+mismatch, "a response whose "+mismatch+" does not match the query was handed to the client", si, nil)
					return
				}
				if both {
					trace = append(trace, tr)
					fail("query:error-and-response", "ServeDNS wrote a response and returned an error", si, nil)
					return
				}
				xm := extraOf(brecs, o, name)
				tg, key, what, exp, _ := judge([][]bool{active}, mm, fm, cs.Nets, o, xm, xm >= 0 && has(st.TCPOff, xm))
				if key != "" {
					key = afterExtraKey(key, o, xm)
					tr.Exp = exp
					trace = append(trace, tr)
					fail(key, what, si, map[string]any{"model_active": active, "main_modes": st.Modes[:cs.M], "fallback_modes": st.Modes[cs.M:], "burst_query": k})
					return
				}
				tags[tg] = true
				r.Bucket("queries", 1)
				countQuery(r, tg)
				noteAfterExtra(o, xm)
				for _, m := range union(o.StubMains, o.ExtraMains) {
					seen[m] = true
					for i := range dead {
						if i == m && len(brecs[i]) > 0 {
							dead[i] = false
						}
					}
				}
			}
			tr := stepTrace{Step: si, Op: "burst", StartMs: ms(b0), EndMs: ms(time.Now()), Active: append([]bool(nil), active...),
				Note: fmt.Sprintf("%d queries; mains chosen at least once: %v", st.Count, seen)}
			trace = append(trace, tr)
			for i := range seen {
				if active[i] && !seen[i] {
					k := "query:active-main-never-chosen"
					if cs.F == 0 {
						k += ":no-fallbacks"
					}
					fail(k, fmt.Sprintf("a main upstream that is in rotation according to the statement received none of %d consecutive queries (chance below 1e-12 for a uniformly random pick)", st.Count),
						si, map[string]any{"main": i, "chosen": seen, "down_at_an_earlier_health_check": downAtRefresh})
					return
				}
			}
			if st.Settle {
				for i, s := range fx.mains {
					if s.isArmed() || pendingDup[i] {
						// the extra message was never sent or never read: nothing to judge
						r.Bucket("extra_message:not_settled", 1)
						tags["ambiguous"] = true
						return
					}
				}
			}
			r.Bucket("bursts_every_active_main_chosen", 1)
			if initDown {
				r.Bucket("nofallback_init_down_then_every_main_served", 1)
				tags["nofb-init-down-all-served"] = true
			}
			completed++
			continue
		}
		var c0, c1 time.Time
		var req *dns.Msg
		var rw *recRW
		var callErr error
		switch st.Op {
		case "init":
			c0 = time.Now()
			fx.newHandler(tag, backoff, 2*time.Second)
			hcRound++
			c1 = time.Now()
		case "refresh":
			var ctx context.Context
			var cancel context.CancelFunc
			var tm *time.Timer
			switch st.Ctx {
			case "short":
				ctx, cancel = context.WithTimeout(context.Background(), 60*time.Millisecond)
			case "cancel":
				ctx, cancel = context.WithCancel(context.Background())
				tm = time.AfterFunc(50*time.Millisecond, cancel)
			default:
				ctx, cancel = context.WithTimeout(context.Background(), 2*time.Second)
			}
			c0 = time.Now()
			if !cs.Prod {
				callErr = fx.h.Refresh(ctx)
			} else {
				// A health-check round is bounded by its probes' timeouts.  Run
				// it under a watchdog; a round that is still blocked on a mutex
				// after 100 probe timeouts never returns.
				hcRound++
				stuck, stack := false, ""
				callErr, stuck, stack = refreshWatched(fx.h, ctx)
				if stuck {
					if tm != nil {
						tm.Stop()
					}
					cancel()
					if stack == "" {
						r.Bucket("ambiguous_refresh_stuck_not_on_a_mutex", 1)
						tags["ambiguous"] = true
						return
					}
					fail("refresh:never-returns:blocked-on-mutex",
						"a health-check round with the production metrics listener did not return within 100 probe timeouts and its goroutine is blocked acquiring a mutex: the active set is never updated again, traffic cannot return to the main upstreams",
						si, map[string]any{"health_check_round_of_this_handler": hcRound, "goroutine": stack})
					return
				}
				if hcRound >= 3 {
					r.Bucket("refreshes_with_production_listener_third_or_later_round", 1)
				}
			}
			c1 = time.Now()
			if tm != nil {
				tm.Stop()
			}
			cancel()
		case "query":
			qctx := longCtx
			if st.CtxMs > 0 {
				qctx = time.Duration(st.CtxMs) * time.Millisecond
			}
			req, rw, callErr, c0, c1 = fx.doQuery(st.Name, st.Qtype, st.ID, qctx)
		}
		// records since the previous step's end (late arrivals included)
		recs := make([][]rec, cs.M+cs.F)
		for i, s := range fx.all() {
			recs[i] = s.logFrom(logPos[i])
			logPos[i] += len(recs[i])
			recs[i] = dropLate(recs[i])
		}
		tr := stepTrace{Step: si, Op: st.Op, StartMs: ms(c0), EndMs: ms(c1)}

		// T1: every record must belong to this step
		foreign := false
		probeName := ""
		for i, rs := range recs {
			for _, rc := range rs {
				if st.Op == "query" {
					if !strings.EqualFold(rc.Name, st.Name) {
						foreign = true
					}
					continue
				}
				if !strings.HasSuffix(strings.ToLower(rc.Name), fx.hcSuffix) || rc.Qtype != dns.TypeA {
					foreign = true
				} else if probeName == "" {
					probeName = rc.Name
				} else if rc.Name != probeName {
					foreign = true
				}
				if i >= cs.M {
					r.Bucket("probes_seen_by_fallbacks", 1)
				}
			}
		}
		if foreign {
			r.Bucket("ambiguous_late_record", 1)
			tags["ambiguous"] = true
			return
		}
		// T2: a spurious timeout of a replying stub makes the call at least one
		// timeout longer than the silent stubs it reached account for.
		nSilent := 0
		for i, rs := range recs {
			if len(rs) > 0 && modes[i] == mSilent {
				nSilent++
			}
		}
		slowQ := false
		if c1.Sub(c0) > time.Duration(nSilent)*upsTimeout+upsTimeout*9/10 {
			if st.Op != "query" {
				r.Bucket("ambiguous_slow_call", 1)
				tags["ambiguous"] = true
				return
			}
			// A slow query is judged by its logical outcome: wait until
			// everything the handler has sent is logged, then look.
			slowQ = true
			if !fx.settle() {
				r.Bucket("ambiguous_slow_call", 1)
				tags["ambiguous"] = true
				return
			}
			for i, s := range fx.all() {
				more := s.logFrom(logPos[i])
				logPos[i] += len(more)
				for _, rc := range dropLate(more) {
					if !strings.EqualFold(rc.Name, st.Name) {
						r.Bucket("ambiguous_late_record", 1)
						tags["ambiguous"] = true
						return
					}
					recs[i] = append(recs[i], rc)
				}
			}
		}
		for i, rs := range recs {
			if len(rs) > 0 && dead[i] {
				dead[i] = false // the upstream is back; the dead connection was replaced
				r.Bucket("dead_pooled_tcp:reconnected", 1)
			}
		}

		switch st.Op {
		case "query":
			o, mismatch, both, neither := fx.observe(req, rw, callErr, recs)
			if o.Foreign {
				r.Bucket("ambiguous_foreign_reply", 1)
				tags["ambiguous"] = true
				return
			}
			tr.Obs = &o
			if mismatch != "" {
				trace = append(trace, tr)
				fail("reply:accepted-mismatch:"+mismatch, "a response whose "+mismatch+" does not match the query was handed to the client", si, nil)
				return
			}
			if both {
				trace = append(trace, tr)
				fail("query:error-and-response", "ServeDNS wrote a response and returned an error", si, nil)
				return
			}
			if neither {
				r.Bucket("queries_neither_error_nor_response", 1)
			}
			xm := extraOf(recs, o, st.Name)
			tg, key, what, exp, hit := judge([][]bool{active}, mm, fm, cs.Nets, o, xm, xm >= 0 && has(st.TCPOff, xm))
			tr.Exp = exp
			tr.Active = append([]bool(nil), active...)
			trace = append(trace, tr)
			if key != "" && slowQ {
				xfb := xm >= 0 && has(st.TCPOff, xm)
				if explainedBySlowStub([][]bool{active}, mm, fm, cs.Nets, o, xm, xfb) {
					// legitimately timing-dependent
					r.Bucket("ambiguous_slow_call", 1)
					tags["ambiguous"] = true
					return
				}
				if st.CtxMs > 0 && time.Duration(st.CtxMs)*time.Millisecond < longCtx {
					// The request deadline itself may have been used up by a
					// stalled process.  Confirm with a deadline that cannot be.
					if r.Violations() > 0 {
						r.Bucket("slow_unexplained_not_confirmed_after_a_violation", 1)
						tags["ambiguous"] = true
						return
					}
					for i := range pendingDup {
						if pendingDup[i] {
							r.Bucket("ambiguous_short_request_deadline", 1)
							tags["ambiguous"] = true
							return
						}
					}
					name2 := "x." + st.Name
					req2, rw2, err2, d0, d1 := fx.doQuery(name2, st.Qtype, st.ID^0x0101, longCtx)
					ok2 := fx.settle()
					recs2 := make([][]rec, cs.M+cs.F)
					for i, s := range fx.all() {
						recs2[i] = dropLate(s.logFrom(logPos[i]))
						logPos[i] = s.logLen()
						for _, rc := range recs2[i] {
							ok2 = ok2 && strings.EqualFold(rc.Name, name2)
						}
					}
					o2, mm2, both2, _ := fx.observe(req2, rw2, err2, recs2)
					_, key2, what2, exp2, _ := judge([][]bool{active}, mm, fm, cs.Nets, o2, -1)
					tr2 := stepTrace{Step: si, Op: "query repeated with a 10 s request deadline", StartMs: ms(d0), EndMs: ms(d1), Obs: &o2, Exp: exp2, Active: append([]bool(nil), active...)}
					trace = append(trace, tr2)
					if !ok2 || o2.Foreign || mm2 != "" || both2 || key2 == "" || explainedBySlowStub([][]bool{active}, mm, fm, cs.Nets, o2, -1, false) {
						r.Bucket("ambiguous_short_request_deadline", 1)
						tags["ambiguous"] = true
						return
					}
					key, what, o = key2, what2+" (first seen with a 1 s request deadline, confirmed with a 10 s one)", o2
					r.Bucket("slow_unexplained_confirmed_with_long_deadline", 1)
				}
				if o.Out.Kind == "error" {
					for _, f := range o.ExtraFbs {
						if fm[f] != mClosed && !has(o.StubFbs, f) {
							key = "query:fallback-exchange-sent-nothing"
							what = "the main upstream failed with a network error, the handler names a fallback, but nothing was ever sent to that (listening) fallback and the client got an error: " +
								"the request's deadline was spent before the fallback exchange began"
						}
					}
				}
			}
			if key == "" && slowQ {
				r.Bucket("slow_queries_judged_by_outcome", 1)
			}
			if key != "" {
				key = afterExtraKey(key, o, xm)
				dp := []int{}
				for i, d := range dead {
					if d {
						dp = append(dp, i)
					}
				}
				if key == "query:failed-main-used-before-recovery" {
					for _, m := range union(o.StubMains, o.ExtraMains) {
						if !active[m] && ctxFailed[m] {
							key += ":probe-ended-with-refresh-context"
							what += " (its last probe got no answer before the context of that health-check round ended)"
							break
						}
					}
				}
				if key == "query:fallback-not-tried" {
					for _, m := range union(o.StubMains, o.ExtraMains) {
						if mm[m] == mClosed && dead[m] {
							key += ":pooled-tcp-connection-died"
							what += " (the handler held a pooled TCP connection to the main upstream, which closed it and stopped listening)"
						}
					}
				}
				fail(key, what, si, map[string]any{"model_active": active, "main_modes": st.Modes[:cs.M], "fallback_modes": st.Modes[cs.M:],
					"stubs_whose_pooled_tcp_connections_were_torn_down": dp})
				return
			}
			tags[tg] = true
			// a closed upstream to which the handler still holds a pooled TCP
			// connection: dead however the OS reports it (EOF, RST, refused)
			if m := hit.Main; m >= 0 && mm[m] == mClosed && dead[m] {
				nClosed := 0
				for i := range mm {
					if active[i] && mm[i] == mClosed {
						nClosed++
					}
				}
				if nClosed == 1 || has(o.ExtraMains, m) {
					dead[m] = false
					if cs.F > 0 {
						r.Bucket("dead_pooled_tcp:main_failover", 1)
						tags["failover-from-dead-pooled-tcp"] = true
					} else {
						r.Bucket("dead_pooled_tcp:main_no_fallbacks_error", 1)
					}
				}
			}
			if f := hit.Fb; f >= 0 && fm[f] == mClosed && dead[cs.M+f] {
				nClosed := 0
				for i := range fm {
					if fm[i] == mClosed {
						nClosed++
					}
				}
				if nClosed == 1 || has(o.ExtraFbs, f) {
					dead[cs.M+f] = false
					r.Bucket("dead_pooled_tcp:fallback_error", 1)
					tags["dead-pooled-tcp-fallback"] = true
				}
			}
			r.Bucket("queries", 1)
			countQuery(r, tg)
			noteAfterExtra(o, xm)
			if o.Out.Role == "main" && o.Out.Kind == "answer" && everFailed[o.Out.Idx] {
				r.Bucket("queries_answered_by_recovered_main", 1)
				tags["served-by-recovered-main"] = true
			}
			if cs.F == 0 {
				for _, m := range union(o.StubMains, o.ExtraMains) {
					if downAtRefresh[m] {
						r.Bucket("nofallback_main_used_after_failing_during_refresh", 1)
						tags["nofb-main-still-in-rotation"] = true
					}
				}
			}
			for i, rs := range recs {
				for _, rc := range rs {
					if rc.Net == "tcp" {
						r.Bucket("tcp_requests_seen", 1)
						_ = i
					}
				}
			}
		case "refresh", "init":
			if cs.F == 0 {
				// no fallbacks: mains are never taken out of rotation
				n := 0
				for _, rs := range recs {
					n += len(rs)
				}
				if n > 0 {
					r.Bucket("nofallback_probes_seen", int64(n))
				}
				for i := range mm {
					if !mm[i].probeOK() {
						downAtRefresh[i] = true
						if st.Op == "init" {
							initDown = true
						}
					}
				}
				if st.Op == "init" {
					r.Bucket("nofallback_init_health_checks", 1)
				}
				tr.Active = append([]bool(nil), active...)
				tr.Note = "no fallbacks: active set unchanged"
				trace = append(trace, tr)
				tags["refresh-noop"] = true
				r.Bucket("refreshes_without_fallbacks", 1)
				break
			}
			allOK := true
			for i := 0; i < cs.M; i++ {
				probed := len(recs[i]) > 0
				decision := "probe"
				if state[i].Failed {
					switch {
					case c1.Sub(state[i].L) < backoff:
						decision = "backoff"
					case c0.Sub(state[i].U) >= backoff:
						decision = "probe"
						r.Bucket("reprobes_after_backoff_elapsed", 1)
						tags["reprobe-after-backoff"] = true
					default:
						// undecidable from the timestamps: accept what was observed
						r.Bucket("ambiguous_backoff_boundary", 1)
						tags["backoff-boundary"] = true
						if mm[i] == mClosed || st.Ctx != "" {
							// (a round whose context ended may have failed this
							// main without sending anything)
							decision = "unknown-closed"
						} else if probed {
							decision = "probe"
						} else {
							decision = "backoff"
						}
					}
				}
				tr.Probed = append(tr.Probed, decision)
				switch decision {
				case "backoff":
					active[i] = false
					allOK = false
					if probed {
						r.Bucket("probes_during_backoff", 1)
						if !mm[i].probeOK() {
							state[i].U = c1 // a failed check may advance the back-off
						}
					} else {
						r.Bucket("backoff_skips_confirmed", 1)
						if ctxFailed[i] {
							r.Bucket("backoff_held_after_context_ended_probe", 1)
							tags["backoff-after-ctx-ended-probe"] = true
						}
					}
					tags["in-backoff"] = true
				case "unknown-closed":
					active[i] = false
					allOK = false
					state[i].U = c1
				case "probe":
					if mm[i] == mClosed && dead[i] {
						dead[i] = false
						r.Bucket("dead_pooled_tcp:probe_failed", 1)
					}
					if !probed && mm[i] != mClosed && st.Ctx == "" {
						trace = append(trace, tr)
						fail("refresh:eligible-main-not-probed", "a health-check round did not probe a main upstream that is not in back-off", si,
							map[string]any{"main": i})
						return
					}
					if mm[i].probeOK() {
						if state[i].Failed {
							r.Bucket("recoveries", 1)
							tags["recovery"] = true
						}
						state[i] = mainState{}
						ctxFailed[i] = false
						active[i] = true
					} else {
						allOK = false
						lo := c0
						if probed {
							lo = recs[i][0].T
						}
						state[i] = mainState{Failed: true, L: lo, U: c1}
						ctxFailed[i] = st.Ctx != ""
						if st.Ctx != "" {
							r.Bucket("probe_failures_in_round_with_"+st.Ctx+"_context", 1)
							tags["probe-fail:ctx-"+st.Ctx] = true
						}
						active[i] = false
						everFailed[i] = true
						r.Bucket("probe_failures", 1)
						r.Bucket("probe_failures:"+mm[i].String(), 1)
						tags["probe-fail:"+mm[i].class()] = true
					}
				}
			}
			anyActive := false
			for _, a := range active {
				anyActive = anyActive || a
			}
			if (callErr != nil) == anyActive && st.Op == "refresh" {
				r.Bucket("refresh_error_result_unexpected", 1)
			}
			if allOK {
				tags["refresh-all-ok"] = true
			}
			if !anyActive {
				tags["all-mains-down"] = true
				r.Bucket("refreshes_leaving_no_active_main", 1)
			}
			r.Bucket("refreshes", 1)
			tr.Active = append([]bool(nil), active...)
			trace = append(trace, tr)
		}
		completed++
		if len(trace) > 40 {
			trace = trace[len(trace)-40:]
		}
	}
	r.Bucket("cases_completed", 1)
}

func countQuery(r *vkit.Run, tg string) {
	switch {
	case strings.HasPrefix(tg, "main-answer:upcase"):
		r.Bucket("queries_main_answer_case_insensitive", 1)
	case strings.HasPrefix(tg, "main-answer:trunc"):
		r.Bucket("queries_main_answer_tcp_after_truncation", 1)
	case strings.HasPrefix(tg, "main-answer"):
		r.Bucket("queries_main_answer", 1)
	case strings.HasPrefix(tg, "main-truncated"):
		r.Bucket("queries_main_truncated_reply_relayed_udp_only", 1)
	case strings.HasPrefix(tg, "main-servfail"):
		r.Bucket("queries_main_servfail_relayed", 1)
	case strings.HasPrefix(tg, "main-garbage-rejected:"):
		r.Bucket("queries_main_garbage_rejected", 1)
		r.Bucket("garbage_rejected:"+strings.TrimPrefix(tg, "main-garbage-rejected:"), 1)
	case strings.HasSuffix(tg, "no-fallbacks-error"):
		r.Bucket("queries_main_neterr_no_fallbacks", 1)
	case strings.HasPrefix(tg, "main-neterr"):
		r.Bucket("queries_failover_after_network_error", 1)
		if strings.HasPrefix(tg, "main-neterr:silent") {
			r.Bucket("queries_silent_main_failover_judged", 1)
			if strings.Contains(tg, "fb-answer") {
				r.Bucket("queries_silent_main_answered_by_fallback", 1)
			}
		}
	case strings.HasPrefix(tg, "no-active-main"):
		r.Bucket("queries_fallback_no_active_main", 1)
	}
	if i := strings.Index(tg, "->fb-"); i >= 0 {
		rest := tg[i+2:]
		switch {
		case strings.HasPrefix(rest, "fb-answer"):
			r.Bucket("fallback_answered", 1)
		case strings.HasPrefix(rest, "fb-servfail"):
			r.Bucket("fallback_servfail_relayed", 1)
		case strings.HasPrefix(rest, "fb-garbage-rejected:"):
			r.Bucket("fallback_garbage_rejected", 1)
			r.Bucket("garbage_rejected:"+strings.TrimPrefix(rest, "fb-garbage-rejected:"), 1)
		case strings.HasPrefix(rest, "fb-also-down"):
			r.Bucket("fallback_also_failed_error", 1)
		}
	}
}

func sequential(r *vkit.Run, only int) {
	n := r.N(288, 4000)
	nSteps := r.N(14, 18)
	workers := 12
	ch := make(chan int)
	var wg sync.WaitGroup
	for w := 0; w < workers; w++ {
		wg.Add(1)
		go func() {
			defer wg.Done()
			for idx := range ch {
				runCase(r, genCase(r, "s", idx, nSteps))
			}
		}()
	}
	if only >= 0 {
		// replay: the handler picks upstreams at random, so repeat the schedule
		for k := 0; k < 25; k++ {
			ch <- only
		}
	} else {
		for idx := 0; idx < n; idx++ {
			ch <- idx
		}
	}
	close(ch)
	wg.Wait()
	r.Extra("sequential_cases", n)
	r.Extra("steps_per_case", nSteps)
}

// ---------------------------------------------------------------------------
// queries concurrent with Refresh (race detector on)

func concurrent(r *vkit.Run, only int) {
	n := r.N(8, 60)
	for idx := 0; idx < n; idx++ {
		if only >= 0 && idx != only {
			continue
		}
		runConcurrent(r, idx)
	}
	r.Extra("concurrent_instances", n)
}

func runConcurrent(r *vkit.Run, idx int) {
	rng := r.Rand("cc", idx)
	M, F := 2+idx%2, 1+idx%2
	rounds := r.N(5, 8)
	const G, perG = 6, 5
	type roundSpec struct {
		Modes []string `json:"modes"`
	}
	var spec []roundSpec
	var panicked atomic.Bool
	defer func() {
		if p := recover(); p != nil {
			r.Violation("panic:forward-handler", fmt.Sprintf("panic in the concurrent phase: %v", p), map[string]any{"instance": idx, "rounds": spec})
		}
	}()
	nets := make([]string, M+F)
	for i := range nets {
		switch idx % 3 {
		case 0:
			nets[i] = "any"
		case 1:
			nets[i] = "tcp"
		default:
			nets[i] = []string{"any", "tcp", "udp"}[rng.IntN(3)]
		}
	}
	fx, err := newFixture(M, F, nets)
	if err != nil {
		r.Bucket("abandoned_no_port", 1)
		return
	}
	defer fx.close()
	tag := fmt.Sprintf("cc%d", idx)
	fx.newHandler(tag, 0, 0) // zero back-off: every round probes every main
	active := make([]bool, M)
	for i := range active {
		active[i] = true
	}
	// replying modes only for mains here (no timeouts while goroutines compete)
	ccMain := []mode{mUp, mUp, mUpCase, mTrunc, mServfail, mWrongID, mWrongName, mWrongNameTC, mNoQuestionTC, mClosed, mClosed}
	ccFb := []mode{mUp, mUp, mUp, mTrunc, mServfail, mClosed, mWrongType, mWrongTypeTC}
	for rd := 0; rd < rounds; rd++ {
		modes := make([]mode, M+F)
		ss := roundSpec{}
		for i := range modes {
			if i < M {
				modes[i] = ccMain[rng.IntN(len(ccMain))]
			} else {
				modes[i] = ccFb[rng.IntN(len(ccFb))]
			}
			ss.Modes = append(ss.Modes, modes[i].String())
		}
		spec = append(spec, ss)
		if err = fx.setModes(modes); err != nil {
			r.Bucket("abandoned_rebind_failed", 1)
			return
		}
		mm, fm := modes[:M], modes[M:]
		torn := make([]bool, M+F)
		for i, s := range fx.all() {
			torn[i] = s.takeTornDown()
		}
		after := make([]bool, M)
		for i := range after {
			after[i] = mm[i].probeOK()
		}
		logPos := make([]int, M+F)
		for i, s := range fx.all() {
			logPos[i] = s.logLen()
		}
		type qr struct {
			name   string
			req    *dns.Msg
			rw     *recRW
			err    error
			c0, c1 time.Time
		}
		results := make([][]qr, G)
		var wg sync.WaitGroup
		for g := 0; g < G; g++ {
			wg.Add(1)
			seed := rng.Uint64()
			go func(g int) {
				defer wg.Done()
				defer func() {
					if p := recover(); p != nil {
						r.Violation("panic:forward-handler", fmt.Sprintf("panic in ServeDNS concurrent with Refresh: %v", p),
							map[string]any{"instance": idx, "rounds": spec})
						panicked.Store(true)
					}
				}()
				x := seed
				for k := 0; k < perG; k++ {
					x = x*6364136223846793005 + 1442695040888963407
					name := fmt.Sprintf("q%d.g%d.r%d.%s.C17.verif.test.", k, g, rd, tag)
					q := qr{name: name}
					q.req, q.rw, q.err, q.c0, q.c1 = fx.doQuery(name, qtypes[int(x>>40)%len(qtypes)], uint16(x>>17), longCtx)
					results[g] = append(results[g], q)
				}
			}(g)
		}
		slow := false
		var refreshEnd time.Time
		wg.Add(1)
		go func() {
			defer wg.Done()
			defer func() {
				if p := recover(); p != nil {
					r.Violation("panic:forward-handler", fmt.Sprintf("panic in Refresh concurrent with queries: %v", p),
						map[string]any{"instance": idx, "rounds": spec})
					panicked.Store(true)
				}
			}()
			for k := 0; k < 3; k++ {
				ctx, cancel := context.WithTimeout(context.Background(), 10*time.Second)
				c0 := time.Now()
				_ = fx.h.Refresh(ctx)
				if time.Since(c0) > upsTimeout*9/10 {
					slow = true
				}
				cancel()
			}
			refreshEnd = time.Now()
		}()
		wg.Wait()
		if panicked.Load() {
			return
		}
		// sequential tail: strictly the new active set
		var tail []qr
		for k := 0; k < 3; k++ {
			name := fmt.Sprintf("t%d.r%d.%s.c17.verif.test.", k, rd, tag)
			q := qr{name: name}
			q.req, q.rw, q.err, q.c0, q.c1 = fx.doQuery(name, dns.TypeA, uint16(rng.UintN(65536)), longCtx)
			tail = append(tail, q)
		}
		recs := make([][]rec, M+F)
		for i, s := range fx.all() {
			recs[i] = s.logFrom(logPos[i])
		}
		// taint: slow refresh or slow query => a timeout may have hit a replying stub
		for _, qs := range append(results, tail) {
			for _, q := range qs {
				if q.c1.Sub(q.c0) > upsTimeout*9/10 {
					slow = true
				}
			}
		}
		if slow {
			r.Bucket("ambiguous_slow_call", 1)
			return
		}
		pick := func(name string) [][]rec {
			out := make([][]rec, M+F)
			for i, rs := range recs {
				for _, rc := range rs {
					if strings.EqualFold(rc.Name, name) {
						out[i] = append(out[i], rc)
					}
				}
			}
			return out
		}
		check := func(q qr, cand [][]bool, phase string) bool {
			o, mismatch, both, _ := fx.observe(q.req, q.rw, q.err, pick(q.name))
			if o.Foreign {
				r.Bucket("ambiguous_foreign_reply", 1)
				return false
			}
			w := map[string]any{"instance": idx, "mains": M, "fallbacks": F, "networks": nets, "round": rd, "rounds": spec, "phase": phase,
				"query": q.name, "observed": o, "active_before": active, "active_after": after,
				"query_started_after_last_refresh_returned": q.c0.After(refreshEnd)}
			if mismatch != "" {
				r.Violation("reply:accepted-mismatch:"+mismatch, "a response whose "+mismatch+" does not match the query was handed to the client", w)
				return false
			}
			if both {
				r.Violation("query:error-and-response", "ServeDNS wrote a response and returned an error", w)
				return false
			}
			tg, key, what, exp, hit := judge(cand, mm, fm, nets, o, -1)
			if key != "" {
				w["legitimate"] = exp
				r.Violation(key, what+" (queries concurrent with Refresh)", w)
				return false
			}
			countQuery(r, tg)
			r.Bucket("concurrent_phase_queries", 1)
			if m := hit.Main; m >= 0 && mm[m] == mClosed && torn[m] && len(fm) > 0 {
				r.Bucket("dead_pooled_tcp:concurrent_main_failover", 1)
			}
			return true
		}
		for _, qs := range results {
			for _, q := range qs {
				if !check(q, [][]bool{active, after}, "concurrent") {
					return
				}
			}
		}
		for _, q := range tail {
			if !check(q, [][]bool{after}, "after-refresh") {
				return
			}
		}
		copy(active, after)
		r.Bucket("concurrent_rounds", 1)
	}
	r.Eval(fmt.Sprintf("concurrent/M%d/F%d", M, F), false)
}

// ---------------------------------------------------------------------------

func TestCheck(t *testing.T) {
	r := vkit.Start(t, "C17", "fault_enumeration")
	defer r.Finish()
	r.Rule("sequential: seeded schedules of queries / Refresh rounds (immediately, after about half the back-off, or clearly beyond it) against the real forward.Handler with M in {1,2,3} mains and " +
		"F in {0,1,2} fallbacks (all nine combinations), back-off in {0, 450ms, 750ms, 1h}, upstream networks all-any / all-tcp / mixed any,tcp,udp; every stub has a scripted behaviour per step out of " +
		"up, upcase (valid reply, question re-cased), trunc (TC over UDP, answer over TCP), servfail, wrongid, wrongname, wrongtype, noquestion, short (<17 bytes), " +
		"silent (timeout), closed (port closed). Half of the cases start with a fail/detect/recover-inside-backoff/recover-beyond-backoff template, a quarter with a template that lets every upstream answer (connections pooled), then closes upstreams together with their accepted connections and queries before any Refresh; the rest is a random walk; half of the F=0 cases begin with mains failing during the initial health check (HealthcheckInitDuration>0), then recovering, then bursts of 24*M queries in which every main must be chosen at least once; garbage also as wrongname+tc / wrongtype+tc / noquestion+tc (right ID, TC set, on both transports); a quarter of the cases start with ONE extra message on a main's pooled connection (TCP: a stray foreign-ID message before the real reply; UDP: the reply datagram twice) followed by two bursts of 24*M queries with different IDs, where only the query that reads the extra message may fail; some Refresh rounds against silent mains get a 60 ms context deadline or are cancelled after 50 ms, followed inside the back-off by recovery of the main, a Refresh and queries. " +
		"distinct = (M, F, back-off class, set of event kinds the oracle matched in the case); non-trivial = the set holds something else than plain main answers " +
		"and all-ok refreshes (a fail-over, a rejected reply, a failed probe, a back-off skip, a recovery ...). " +
		"concurrent: queries from 6 goroutines concurrent with Refresh under the race detector, judged against the union of the active sets before/after")
	r.Assume("the health check is driven only by explicit Refresh calls (no background worker started by the harness)")
	r.Assume("back-off decisions are judged by interval arithmetic on monotonic timestamps taken around each call; undecidable ones follow the observation and are counted in ambiguous_backoff_boundary")
	r.Assume("queries run with a 1 s request deadline (one in 25 with 10 s), upstream timeout 150 ms; a slow QUERY is judged by its logical outcome after a barrier on every stub socket: only an outcome that becomes legitimate when a stub that did receive the query is taken to have been too slow is ambiguous; an unexplained outcome seen with the 1 s deadline is repeated once with 10 s before it is reported")
	r.Assume("a Refresh / burst / concurrent-phase call that lasted at least one upstream timeout longer than the silent stubs it reached can explain may hide a spurious timeout of a replying stub: the rest of that case is dropped (ambiguous_slow_call)")
	r.Assume("stubs listen on a loopback address derived from the pid (127.64+x.y.z) and on ports outside the ephemeral range, and their replies carry a per-fixture nonce: a reply with a foreign nonce drops the case (ambiguous_foreign_reply)")
	r.Assume("a closed stub cannot record requests; that a closed upstream was tried is inferred (or taken from forward.Error / MetricsListener when they name it)")
	r.Assume("a SERVFAIL reply with matching ID/question is a reply of the chosen main upstream: it is relayed and does not trigger the fallback")

	only, onlyCC := -1, -1
	if p := vkit.ReplayPath(); p != "" {
		var doc struct {
			Witness struct {
				Case     *caseSpec `json:"case"`
				Instance *int      `json:"instance"`
			} `json:"witness"`
		}
		if b, err := os.ReadFile(p); err == nil && json.Unmarshal(b, &doc) == nil {
			if doc.Witness.Case != nil {
				only = doc.Witness.Case.Idx
				r.Extra("replay_case", only)
				r.Sample(map[string]any{"replayed_case": genCase(r, "s", only, r.N(14, 18))})
			} else if doc.Witness.Instance != nil {
				r.Sample(map[string]any{"replayed_concurrent_instance": *doc.Witness.Instance})
				onlyCC = *doc.Witness.Instance
				r.Extra("replay_instance", onlyCC)
			}
		}
	}
	if onlyCC < 0 {
		sequential(r, only)
	}
	if only < 0 {
		concurrent(r, onlyCC)
	}
	if only < 0 && onlyCC < 0 {
		flipPhase(r)
		poolBurst(r)
		bigReplies(r)
		binaryBackoffMonitor(r)
	}
	if only >= 0 || onlyCC >= 0 {
		return
	}

	// coverage gates: about a fifth of what the unchanged tree yields in the quick tier
	for b, min := range map[string]int64{
		"cases_completed":                                         150,
		"queries_main_answer":                                     300,
		"queries_main_answer_case_insensitive":                    60,
		"queries_main_answer_tcp_after_truncation":                50,
		"queries_main_servfail_relayed":                           30,
		"queries_main_garbage_rejected":                           80,
		"garbage_rejected:wrongid":                                15,
		"garbage_rejected:wrongname":                              15,
		"garbage_rejected:wrongtype":                              15,
		"garbage_rejected:noquestion":                             10,
		"garbage_rejected:short":                                  10,
		"garbage_rejected:wrongname+tc":                           10,
		"garbage_rejected:wrongtype+tc":                           10,
		"garbage_rejected:noquestion+tc":                          8,
		"probe_failures_in_round_with_short_context":              6,
		"probe_failures_in_round_with_cancel_context":             6,
		"extra_message:cases_with_3_later_answers":                30,
		"extra_message:cases_with_3_later_answers:tcp":            8,
		"extra_message:cases_with_3_later_answers:udp":            3,
		"flip_phase_refresh_rounds":                               2000,
		"flip_phase_queries_answered_by_main":                     2000,
		"flip_phase_queries_answered_by_fallback":                 2000,
		"big_replies_answered_by_main":                            8,
		"binary-backoff_histories_main_stayed_out_during_backoff": 1,
		"binary-backoff_control_histories_main_returned":          1,
		"pool_bursts_judged":                                      2,
		"pool_burst_queries_answered_by_main":                     2000,
		"refreshes_with_production_listener_third_or_later_round": 40,
		"queries_silent_main_failover_judged":                     100,
		"queries_silent_main_answered_by_fallback":                60,
		"backoff_held_after_context_ended_probe":                  8,
		"queries_failover_after_network_error":                    70,
		"queries_fallback_no_active_main":                         120,
		"fallback_also_failed_error":                              40,
		"queries_main_neterr_no_fallbacks":                        25,
		"probe_failures":                                          100,
		"backoff_skips_confirmed":                                 100,
		"reprobes_after_backoff_elapsed":                          60,
		"recoveries":                                              30,
		"queries_answered_by_recovered_main":                      50,
		"nofallback_main_used_after_failing_during_refresh":       100,
		"concurrent_phase_queries":                                300,
		"nofallback_init_down_then_every_main_served":             12,
		"dead_pooled_tcp:main_failover":                           12,
		"dead_pooled_tcp:fallback_error":                          8,
		"dead_pooled_tcp:main_no_fallbacks_error":                 8,
		"queries_main_truncated_reply_relayed_udp_only":           8,
	} {
		r.Require(b, min)
	}
}

// ---------------------------------------------------------------------------
// queries running hot against Refresh rounds that empty / shrink / restore the
// active set.  Every upstream answers every query; only health probes fail, so
// every query must be answered (by a main, or by the fallback while no main is
// active) and ServeDNS must never panic.

func flipPhase(r *vkit.Run) {
	insts := r.N(3, 10)
	rounds := r.N(450, 1500)
	const G = 24
	for inst := 0; inst < insts; inst++ {
		M := 2 + inst%2
		nets := make([]string, M+1)
		for i := range nets {
			nets[i] = []string{"udp", "any"}[(inst+i)%2]
		}
		fx, err := newFixture(M, 1, nets)
		if err != nil {
			r.Bucket("abandoned_no_port", 1)
			continue
		}
		fx.timeout = 2 * time.Second
		func() {
			defer fx.close()
			modes := make([]mode, M+1)
			if err = fx.setModes(modes); err != nil {
				return
			}
			for _, s := range fx.all() {
				s.setStress(false, true)
			}
			fx.newHandler(fmt.Sprintf("flip%d", inst), 0, 0)
			var stop atomic.Bool
			var wg sync.WaitGroup
			var nQ, nMain, nFb, nErrSlow atomic.Int64
			for g := 0; g < G; g++ {
				wg.Add(1)
				go func(g int) {
					defer wg.Done()
					for k := 0; !stop.Load(); k++ {
						name := fmt.Sprintf("q%d.g%d.flip%d.c17.verif.test.", k, g, inst)
						func() {
							defer func() {
								if p := recover(); p != nil {
									r.Violation("panic:serve-dns-concurrent-with-refresh",
										fmt.Sprintf("ServeDNS panicked while health-check rounds were changing the set of active main upstreams: %v", p),
										map[string]any{"instance": inst, "mains": M, "query": name, "goroutines": G})
									r.Bucket("flip_phase_panics", 1)
								}
							}()
							req, rw, qerr, c0, c1 := fx.doQuery(name, dns.TypeA, uint16(k*31+g), longCtx)
							nQ.Add(1)
							rw.mu.Lock()
							n, resp := rw.n, rw.resp
							rw.mu.Unlock()
							switch {
							case qerr != nil && c1.Sub(c0) > fx.timeout*9/10:
								nErrSlow.Add(1) // an upstream may have been starved: timing-dependent
							case qerr != nil || n == 0 || resp == nil:
								r.Violation("flip:query-not-answered", "every upstream answers every query, yet a query concurrent with health-check rounds got an error or no response",
									map[string]any{"instance": inst, "query": name, "err": fmt.Sprint(qerr), "responses_written": n})
							default:
								if mmf := replyMismatch(req, resp); mmf != "" {
									r.Violation("reply:accepted-mismatch:"+mmf, "a response whose "+mmf+" does not match the query was handed to the client", map[string]any{"instance": inst, "query": name})
								}
								if role, _ := identify(resp); role == "main" {
									nMain.Add(1)
								} else if role == "fb" {
									nFb.Add(1)
								}
							}
						}()
					}
				}(g)
			}
			commits := 0
			func() {
				defer func() {
					if p := recover(); p != nil {
						r.Violation("panic:refresh-concurrent-with-queries", fmt.Sprintf("Refresh panicked: %v", p), map[string]any{"instance": inst})
					}
				}()
				for k := 0; k < rounds; k++ {
					// all mains fail their probes (active set -> empty), or all
					// but the first (-> one), then all pass again
					from := 0
					if k%3 == 2 {
						from = 1
					}
					for i, s := range fx.mains {
						s.setStress(i >= from, true)
					}
					ctx, cancel := context.WithTimeout(context.Background(), longCtx)
					_ = fx.h.Refresh(ctx)
					cancel()
					for _, s := range fx.mains {
						s.setStress(false, true)
					}
					ctx, cancel = context.WithTimeout(context.Background(), longCtx)
					_ = fx.h.Refresh(ctx)
					cancel()
					commits += 2
				}
			}()
			stop.Store(true)
			wg.Wait()
			r.Bucket("flip_phase_refresh_rounds", int64(commits))
			r.Bucket("flip_phase_queries", nQ.Load())
			r.Bucket("flip_phase_queries_answered_by_main", nMain.Load())
			r.Bucket("flip_phase_queries_answered_by_fallback", nFb.Load())
			r.Bucket("flip_phase_slow_errors_ignored", nErrSlow.Load())
			r.Eval(fmt.Sprintf("flip/M%d", M), false)
		}()
	}
	r.Extra("flip_instances", insts)
}

// ---------------------------------------------------------------------------
// more exchanges in flight to one healthy main upstream than its connection
// pool can hold idle: the stub withholds all replies and releases them at once.
// Every query must be answered by the main.

func poolBurst(r *vkit.Run) {
	const N = 1100
	variants := []struct {
		net    string
		F      int
		tcpOff bool
	}{{"tcp", 1, false}, {"udp", 1, true}, {"tcp", 0, false}}
	for vi, v := range variants {
		nets := []string{v.net}
		for i := 0; i < v.F; i++ {
			nets = append(nets, "any")
		}
		fx, err := newFixture(1, v.F, nets)
		if err != nil {
			r.Bucket("abandoned_no_port", 1)
			continue
		}
		fx.timeout = 8 * time.Second
		func() {
			defer fx.close()
			main := fx.mains[0]
			if err = main.setTCPOff(v.tcpOff); err != nil {
				return
			}
			if err = fx.setModes(make([]mode, 1+v.F)); err != nil {
				return
			}
			if uc, ok := main.pc.(*net.UDPConn); ok {
				_ = uc.SetReadBuffer(4 << 20)
			}
			for _, s := range fx.all() {
				s.setStress(false, true)
			}
			fx.newHandler(fmt.Sprintf("burst%d", vi), 0, 0)
			main.holdStart(N)
			type res struct {
				err    string
				role   string
				kind   string
				dur    time.Duration
				panick string
			}
			out := make([]res, N)
			var wg sync.WaitGroup
			for i := 0; i < N; i++ {
				wg.Add(1)
				go func(i int) {
					defer wg.Done()
					defer func() {
						if p := recover(); p != nil {
							out[i].panick = fmt.Sprint(p)
						}
					}()
					name := fmt.Sprintf("q%d.burst%d.c17.verif.test.", i, vi)
					req, rw, qerr, c0, c1 := fx.doQuery(name, dns.TypeA, uint16(i), 2*longCtx)
					out[i].dur = c1.Sub(c0)
					rw.mu.Lock()
					n, resp := rw.n, rw.resp
					rw.mu.Unlock()
					switch {
					case qerr != nil:
						out[i].err, out[i].kind = qerr.Error(), "error"
					case n == 0 || resp == nil:
						out[i].kind = "none"
					default:
						if mmf := replyMismatch(req, resp); mmf != "" {
							out[i].kind = "mismatch:" + mmf
						} else {
							out[i].role, _ = identify(resp)
							out[i].kind = "answer"
						}
					}
				}(i)
			}
			done := make(chan struct{})
			go func() { wg.Wait(); close(done) }()
			select {
			case <-done:
			case <-time.After(6 * time.Second):
			}
			arrived, forced := main.holdEnd()
			<-done
			slow := forced
			byKind := map[string]int{}
			var samples []string
			for _, o := range out {
				if o.dur > fx.timeout*9/10 {
					slow = true
				}
				k := o.kind
				if o.kind == "answer" {
					k = "answer-" + o.role
				}
				if o.panick != "" {
					k = "panic"
				}
				byKind[k]++
				if k != "answer-main" && len(samples) < 3 {
					samples = append(samples, k+": "+o.err+o.panick)
				}
			}
			r.Bucket("pool_burst_requests_held_by_main", int64(arrived))
			if slow {
				// the requests did not all reach the stub in time, or a call ran
				// into the upstream timeout: timing-dependent
				r.Bucket("ambiguous_pool_burst", 1)
				return
			}
			r.Bucket("pool_burst_queries_answered_by_main", int64(byKind["answer-main"]))
			r.Bucket("pool_bursts_judged", 1)
			r.Eval(fmt.Sprintf("pool-burst/%s/F%d", v.net, v.F), false)
			if byKind["answer-main"] != N {
				r.Violation("pool-burst:reply-of-healthy-main-not-delivered:"+v.net,
					fmt.Sprintf("%d queries were in flight to one healthy main upstream (more than its connection pool keeps idle); the upstream answered every one of them, but not every client was answered by it", N),
					map[string]any{"network": v.net, "fallbacks": v.F, "main_has_tcp": !v.tcpOff, "requests_seen_by_main": arrived, "outcomes": byKind, "samples": samples})
			}
		}()
	}
}

// ---------------------------------------------------------------------------
// watchdog for health-check rounds

var refreshHung atomic.Bool // a stuck round has been seen: later ones are given up sooner

func goroutineID() string {
	b := make([]byte, 64)
	b = b[:runtime.Stack(b, false)]
	f := strings.Fields(string(b))
	if len(f) >= 2 {
		return f[1]
	}
	return ""
}

// goroutineBlock returns the block of goroutine id in a dump of all goroutines.
func goroutineBlock(id string) string {
	buf := make([]byte, 8<<20)
	buf = buf[:runtime.Stack(buf, true)]
	for _, blk := range strings.Split(string(buf), "\n\n") {
		if strings.HasPrefix(blk, "goroutine "+id+" [") {
			return blk
		}
	}
	return ""
}

// refreshWatched runs h.Refresh and reports stuck when it has not returned
// within 100 upstream timeouts; stack is then the goroutine's stack if (in two
// dumps half a second apart) it is blocked acquiring a mutex, "" otherwise.
func refreshWatched(h *forward.Handler, ctx context.Context) (err error, stuck bool, stack string) {
	type res struct {
		err error
		p   any
	}
	done := make(chan res, 1)
	gid := make(chan string, 1)
	go func() {
		gid <- goroutineID()
		defer func() {
			if p := recover(); p != nil {
				done <- res{p: p}
			}
		}()
		done <- res{err: h.Refresh(ctx)}
	}()
	id := <-gid
	bound := 100 * upsTimeout
	if refreshHung.Load() {
		bound = 10 * upsTimeout
	}
	select {
	case x := <-done:
		if x.p != nil {
			panic(x.p)
		}
		return x.err, false, ""
	case <-time.After(bound):
	}
	onMutex := func(blk string) bool {
		head, _, _ := strings.Cut(blk, "\n")
		return strings.Contains(head, "Mutex.Lock") || strings.Contains(head, "semacquire")
	}
	b1 := goroutineBlock(id)
	select {
	case x := <-done:
		if x.p != nil {
			panic(x.p)
		}
		return x.err, false, ""
	case <-time.After(500 * time.Millisecond):
	}
	b2 := goroutineBlock(id)
	if !onMutex(b1) || !onMutex(b2) || !strings.Contains(b2, "Refresh") {
		return nil, true, ""
	}
	refreshHung.Store(true)
	lines := strings.Split(b2, "\n")
	if len(lines) > 24 {
		lines = lines[:24]
	}
	return nil, true, strings.Join(lines, "\n")
}

// ---------------------------------------------------------------------------
// large valid replies of a healthy main upstream over TCP (tcp:// and, after a
// truncated UDP reply, the default network): the client must get that reply.

func bigReplies(r *vkit.Run) {
	sizes := []int{12000, 16384, 16385, 30000, 60000}
	for ni, netw := range []string{"tcp", "any"} {
		fx, err := newFixture(1, 1, []string{netw, "any"})
		if err != nil {
			r.Bucket("abandoned_no_port", 1)
			continue
		}
		fx.timeout = 2 * time.Second
		func() {
			defer fx.close()
			defer func() {
				if p := recover(); p != nil {
					r.Violation("panic:forward-handler", fmt.Sprintf("panic while relaying a large reply: %v", p), map[string]any{"network": netw})
				}
			}()
			if err = fx.setModes(make([]mode, 2)); err != nil {
				return
			}
			fx.newHandler(fmt.Sprintf("big%d", ni), 0, 0)
			for _, size := range sizes {
				fx.mains[0].setBig(size)
				name := fmt.Sprintf("s%d.big%d.c17.verif.test.", size, ni)
				req, rw, qerr, c0, c1 := fx.doQuery(name, dns.TypeTXT, uint16(size), longCtx)
				fx.mains[0].setBig(0)
				if c1.Sub(c0) > fx.timeout*9/10 {
					r.Bucket("ambiguous_slow_call", 1)
					continue
				}
				rw.mu.Lock()
				n, resp := rw.n, rw.resp
				rw.mu.Unlock()
				w := map[string]any{"network": netw, "reply_size": size, "err": fmt.Sprint(qerr), "responses_written": n}
				key := ""
				switch {
				case qerr != nil || n == 0 || resp == nil:
					key = "big-reply:valid-reply-of-main-not-delivered:" + netw
				case replyMismatch(req, resp) != "":
					key = "reply:accepted-mismatch:" + replyMismatch(req, resp)
				default:
					role, _ := identify(resp)
					resp.Compress = false
					w["answered_by"], w["delivered_size"] = role, resp.Len()
					if role != "main" || resp.Truncated || resp.Len() != size {
						key = "big-reply:valid-reply-of-main-not-delivered:" + netw
					}
				}
				if key != "" {
					r.Violation(key, "a healthy main upstream sent a valid large reply over TCP, but the client did not get that reply", w)
					continue
				}
				r.Bucket("big_replies_answered_by_main", 1)
				r.Bucket(fmt.Sprintf("big_replies_answered_by_main:%d", size), 1)
			}
			r.Eval("big-replies/"+netw, false)
		}()
	}
}
