package c17

import (
	"encoding/json"
	"fmt"
	"os"
	"os/exec"
	"path/filepath"
	"time"

	"github.com/AdguardTeam/AdGuardDNS/verif/vkit"
)

// Health-check back-off of the configuration file on the real binary.
//
// The other phases build forward.HandlerConfig (including the back-off)
// themselves; the conversion of the upstream.healthcheck section of the file
// (internal/cmd) runs only in the real process.  This phase runs the binary of
// the tree under test (the C20 bench, as a child `go test` of package c20,
// harness/c20/hcbin_test.go) on config.dist.yaml with healthcheck.interval 1 s
// and backoff_duration B in {60 s, 1 s} and drives one history: a client query
// (answered by a main stub upstream); both main stubs go silent; after a probe
// was swallowed and 2.5 s more, three client queries (answered, no main stub
// sees them: both main upstreams are out of rotation); the main stubs answer
// again; for 6 s one client query every 300 ms.  The observers are the stub
// upstreams, which record who received each labelled client query.  Oracle:
//
//	B = 60 s: no client query may reach a main stub in the 6 s after recovery
//	          (the whole script is over within 30 s of the first failure; a
//	          slower run is not evaluated)
//	B = 1 s : control — the main stubs do receive client queries again within
//	          the window, i.e. the observers can see a premature return.

type hcQuery struct {
	Name      string `json:"name"`
	AtMS      int64  `json:"sent_ms_after_recovery"`
	Answered  bool   `json:"answered"`
	MainSawIt bool   `json:"received_by_a_main_upstream"`
}

type hcCase struct {
	BackoffS     int       `json:"backoff_duration_s"`
	IntervalS    int       `json:"interval_s"`
	Verdict      string    `json:"process_verdict"`
	Class        string    `json:"process_class,omitempty"`
	FirstByMain  bool      `json:"first_query_received_by_main"`
	ProbesDown   [2]int    `json:"probes_swallowed_by_main_stubs_while_down"`
	DownAnswered int       `json:"queries_answered_while_main_down_after_failed_probes"`
	DownMainSaw  int       `json:"of_these_received_by_a_main_upstream"`
	After        []hcQuery `json:"queries_after_recovery"`
	Note         string    `json:"note,omitempty"`
	ElapsedMS    int64     `json:"script_ms"`
}

type hcReport struct {
	Error string   `json:"error,omitempty"`
	Cases []hcCase `json:"cases"`
}

func binaryBackoffMonitor(r *vkit.Run) {
	scratch := os.Getenv("VERIF_SCRATCH")
	if scratch == "" {
		scratch = os.TempDir()
	}
	dir, err := os.MkdirTemp(scratch, "c17bin-")
	if err != nil {
		r.Inconclusive("binary-backoff: " + err.Error())
		return
	}
	defer os.RemoveAll(dir)
	out := filepath.Join(dir, "hc.json")
	args := []string{"test", "-tags", "verif", "-count=1", "-run", "^TestBinaryHealthcheck$", "-timeout=600s"}
	if mf := os.Getenv("VERIF_MODFILE"); mf != "" {
		args = append(args, "-modfile="+mf)
	}
	args = append(args, "./c20")
	cmd := exec.Command("go", args...)
	cmd.Dir = ".." // the harness module
	cmd.Env = append(os.Environ(), "C20_HC_OUT="+out)
	t0 := time.Now()
	cout, cerr := cmd.CombinedOutput()
	r.Extra("binary-backoff_wall_s", time.Since(t0).Seconds())
	b, rerr := os.ReadFile(out)
	rep := hcReport{}
	if rerr != nil || json.Unmarshal(b, &rep) != nil {
		r.Sample(map[string]any{"binary-backoff_child_output": binTail(string(cout), 1500), "err": fmt.Sprint(cerr)})
		r.Inconclusive("binary-backoff: the child run produced no report")
		return
	}
	if rep.Error != "" {
		r.Sample(map[string]any{"binary-backoff_error": rep.Error})
		r.Inconclusive("binary-backoff: " + binTail(rep.Error, 300))
		return
	}
	for _, c := range rep.Cases {
		r.Bucket("binary-backoff_configurations_run", 1)
		class := fmt.Sprintf("binary-backoff:interval=%ds:backoff=%ds", c.IntervalS, c.BackoffS)
		if c.Verdict != "accepted" {
			// Whether the file is accepted and served is C20's question.
			r.Bucket("binary-backoff_configurations_not_served:"+c.Verdict+":"+c.Class, 1)
			r.Eval(class, false)
			continue
		}
		answered, mainSaw := 0, 0
		var firstMain *hcQuery
		for i := range c.After {
			if c.After[i].Answered {
				answered++
			}
			if c.After[i].MainSawIt {
				mainSaw++
				if firstMain == nil {
					firstMain = &c.After[i]
				}
			}
		}
		r.Bucket("binary-backoff_client_queries_after_recovery", int64(len(c.After)))
		// reach: the history got to "both main upstreams out of rotation".
		out := c.FirstByMain && c.ProbesDown[0]+c.ProbesDown[1] > 0 && c.DownAnswered == 3 && c.DownMainSaw == 0
		switch {
		case !out || c.ElapsedMS > 30000 || len(c.After) < 5:
			r.Eval(class, false)
			r.Bucket("binary-backoff_histories_not_decisive", 1)
		case c.BackoffS >= 60 && mainSaw > 0:
			r.Eval(class, true)
			r.Violation("binary-backoff:main-upstream-used-before-configured-backoff-elapsed",
				fmt.Sprintf("upstream.healthcheck.backoff_duration=%ds, interval=%ds: %d ms after the main upstreams answered again (less than %d ms after their probe failed) a client query was sent to a main upstream",
					c.BackoffS, c.IntervalS, firstMain.AtMS, c.ElapsedMS),
				map[string]any{"history": c})
		case c.BackoffS >= 60 && answered == len(c.After):
			r.Eval(class, true)
			r.Bucket("binary-backoff_histories_main_stayed_out_during_backoff", 1)
			r.Bucket("binary-backoff_queries_answered_by_fallback_during_backoff", int64(answered))
		case c.BackoffS <= 1 && mainSaw > 0:
			r.Eval(class, true)
			r.Bucket("binary-backoff_control_histories_main_returned", 1)
		default:
			r.Eval(class, false)
		}
	}
	if len(rep.Cases) > 0 {
		c := rep.Cases[0]
		if len(c.After) > 4 {
			c.After = c.After[:4]
		}
		r.Sample(map[string]any{"binary-backoff_first_history": c})
	}
}

func binTail(s string, n int) string {
	if len(s) <= n {
		return s
	}
	return s[len(s)-n:]
}
