package c20

import (
	"bytes"
	"context"
	"crypto/tls"
	"encoding/base64"
	"encoding/binary"
	"encoding/hex"
	"fmt"
	"io"
	"net"
	"net/http"
	"strings"
	"sync/atomic"
	"time"

	"github.com/ameshkov/dnscrypt/v2"
	"github.com/ameshkov/dnsstamps"
	"github.com/miekg/dns"
	"github.com/quic-go/quic-go"
	"github.com/quic-go/quic-go/http3"
)

// The traffic script.  Every query belongs to a group = (transport, client
// class); the oracle is evaluated per group.

const (
	srcAllowlisted = "127.0.0.1" // inside ratelimit.allowlist.list of config.dist.yaml
	srcLimited4    = "127.0.1.1" // loopback, outside 127.0.0.0/24
	srcLimited6    = "::1"

	firstWait    = 3 * time.Second
	retryWait    = 8 * time.Second
	optionalWait = 400 * time.Millisecond
	dialWait     = 5 * time.Second
)

var msgID atomic.Uint32

func newQuery(name string, qtype uint16) *dns.Msg {
	m := new(dns.Msg)
	m.SetQuestion(dns.Fqdn(name), qtype)
	m.Id = uint16(msgID.Add(1))
	m.RecursionDesired = true
	return m
}

type query struct {
	Name  string
	Qtype uint16
	EDNS  uint16
}

func (q query) msg() *dns.Msg {
	m := newQuery(q.Name, q.Qtype)
	if q.EDNS > 0 {
		m.SetEdns0(q.EDNS, false)
	}
	return m
}

func (q query) String() string { return dns.TypeToString[q.Qtype] + " " + q.Name }

// groupResult is the observation for one group of queries.
type groupResult struct {
	Group    string   `json:"group"`
	Server   string   `json:"server"`
	Addr     string   `json:"addr"`
	Client   string   `json:"client"`
	Sent     int      `json:"sent"`
	Answered int      `json:"answered"`
	Retried  int      `json:"retried"`
	Require  string   `json:"require"` // all | none
	Lost     []string `json:"lost,omitempty"`
	Err      string   `json:"err,omitempty"`
	Rcodes   string   `json:"rcodes,omitempty"`
	MS       int64    `json:"ms"`

	// Effective-value probe only.
	DDRNotServed        bool   `json:"ddr_not_served,omitempty"`
	SizeBelowConfigured bool   `json:"size_below_configured,omitempty"`
	Probe               string `json:"probe,omitempty"`
}

func (g *groupResult) ok() bool {
	switch g.Require {
	case "all":
		return g.Answered == g.Sent
	}
	return true
}

// exchanger sends a batch of queries and reports which were answered.
type exchanger func(qs []query, wait time.Duration) (answered []bool, rcodes []int, err error)

// runGroup sends the batch, then retries every unanswered query alone (a burst
// may legitimately overflow a socket buffer; a query that is never answered is
// what matters).  To bound the cost of a totally silent server the retries stop
// after the first query that stays unanswered.
func runGroup(g *groupResult, ex exchanger, qs []query, hopeless func() bool) {
	g.Sent = len(qs)
	t0 := time.Now()
	defer func() { g.MS = time.Since(t0).Milliseconds() }()
	wait := firstWait
	if g.Require != "all" {
		wait = optionalWait
	}
	answered, rcodes, err := ex(qs, wait)
	if err != nil {
		g.Err = err.Error()
	}
	if answered == nil {
		answered = make([]bool, len(qs))
		rcodes = make([]int, len(qs))
	}
	gaveUp := false
	for i := range qs {
		if answered[i] {
			continue
		}
		if !gaveUp && g.Require == "all" && !hopeless() {
			for try := 0; try < 1 && !answered[i]; try++ {
				g.Retried++
				a, rc, rerr := ex(qs[i:i+1], retryWait)
				if rerr != nil {
					g.Err = rerr.Error()
				}
				if a != nil && a[0] {
					answered[i] = true
					rcodes[i] = rc[0]
				}
			}
		}
		if !answered[i] {
			gaveUp = true
			if len(g.Lost) < 4 {
				g.Lost = append(g.Lost, fmt.Sprintf("#%d %s", i, qs[i]))
			}
		}
	}
	rc := map[int]int{}
	for i, a := range answered {
		if a {
			g.Answered++
			rc[rcodes[i]]++
		}
	}
	var parts []string
	for code, n := range rc {
		parts = append(parts, fmt.Sprintf("%s:%d", dns.RcodeToString[code], n))
	}
	g.Rcodes = strings.Join(parts, ",")
}

func localAddr(network, src string) net.Addr {
	ip := net.ParseIP(src)
	if strings.HasPrefix(network, "udp") {
		return &net.UDPAddr{IP: ip}
	}
	return &net.TCPAddr{IP: ip}
}

func matchResp(qs []query, msgs []*dns.Msg, answered []bool, rcodes []int, resp *dns.Msg) {
	for i, m := range msgs {
		if !answered[i] && m.Id == resp.Id && len(resp.Question) == 1 &&
			strings.EqualFold(resp.Question[0].Name, m.Question[0].Name) && resp.Question[0].Qtype == qs[i].Qtype {
			answered[i] = true
			rcodes[i] = resp.Rcode

			return
		}
	}
}

func allTrue(bs []bool) bool {
	for _, b := range bs {
		if !b {
			return false
		}
	}
	return true
}

func udpExchanger(src, dst string) exchanger {
	return func(qs []query, wait time.Duration) ([]bool, []int, error) {
		d := net.Dialer{LocalAddr: localAddr("udp", src), Timeout: dialWait}
		c, err := d.Dial("udp", dst)
		if err != nil {
			return nil, nil, err
		}
		defer c.Close()
		msgs := make([]*dns.Msg, len(qs))
		for i, q := range qs {
			msgs[i] = q.msg()
			b, perr := msgs[i].Pack()
			if perr != nil {
				return nil, nil, perr
			}
			if _, err = c.Write(b); err != nil {
				return nil, nil, err
			}
		}
		answered, rcodes := make([]bool, len(qs)), make([]int, len(qs))
		_ = c.SetReadDeadline(time.Now().Add(wait))
		buf := make([]byte, 65535)
		for !allTrue(answered) {
			n, rerr := c.Read(buf)
			if rerr != nil {
				if ne, ok := rerr.(net.Error); ok && ne.Timeout() {
					return answered, rcodes, nil
				}
				return answered, rcodes, rerr
			}
			resp := new(dns.Msg)
			if resp.Unpack(buf[:n]) != nil {
				continue
			}
			matchResp(qs, msgs, answered, rcodes, resp)
		}
		return answered, rcodes, nil
	}
}

// streamExchanger speaks DNS over a TCP or TLS stream; all queries are written
// before the first answer is read (pipelining, RFC 7766).
func streamExchanger(src, dst string, tlsConf *tls.Config) exchanger {
	return func(qs []query, wait time.Duration) ([]bool, []int, error) {
		d := net.Dialer{LocalAddr: localAddr("tcp", src), Timeout: dialWait}
		var c net.Conn
		var err error
		if tlsConf != nil {
			c, err = tls.DialWithDialer(&d, "tcp", dst, tlsConf)
		} else {
			c, err = d.Dial("tcp", dst)
		}
		if err != nil {
			return nil, nil, err
		}
		defer c.Close()
		msgs := make([]*dns.Msg, len(qs))
		var out bytes.Buffer
		for i, q := range qs {
			msgs[i] = q.msg()
			b, perr := msgs[i].Pack()
			if perr != nil {
				return nil, nil, perr
			}
			_ = binary.Write(&out, binary.BigEndian, uint16(len(b)))
			out.Write(b)
		}
		_ = c.SetDeadline(time.Now().Add(wait))
		if _, err = c.Write(out.Bytes()); err != nil {
			return nil, nil, err
		}
		answered, rcodes := make([]bool, len(qs)), make([]int, len(qs))
		for !allTrue(answered) {
			var l uint16
			if rerr := binary.Read(c, binary.BigEndian, &l); rerr != nil {
				return answered, rcodes, streamErr(rerr)
			}
			buf := make([]byte, l)
			if _, rerr := io.ReadFull(c, buf); rerr != nil {
				return answered, rcodes, streamErr(rerr)
			}
			resp := new(dns.Msg)
			if resp.Unpack(buf) != nil {
				continue
			}
			matchResp(qs, msgs, answered, rcodes, resp)
		}
		return answered, rcodes, nil
	}
}

func streamErr(err error) error {
	if ne, ok := err.(net.Error); ok && ne.Timeout() {
		return nil
	}
	return err
}

func clientTLS(protos ...string) *tls.Config {
	return &tls.Config{InsecureSkipVerify: true, ServerName: tlsSNI, NextProtos: protos} //nolint:gosec
}

func dohExchanger(dst string, post bool) exchanger {
	return func(qs []query, wait time.Duration) ([]bool, []int, error) {
		tr := &http.Transport{TLSClientConfig: clientTLS(), ForceAttemptHTTP2: true}
		defer tr.CloseIdleConnections()
		cl := &http.Client{Transport: tr, Timeout: wait}
		return httpQueries(cl, dst, post, qs)
	}
}

func doh3Exchanger(dst string) exchanger {
	return func(qs []query, wait time.Duration) ([]bool, []int, error) {
		tr := &http3.Transport{TLSClientConfig: clientTLS()}
		defer tr.Close()
		cl := &http.Client{Transport: tr, Timeout: wait}
		return httpQueries(cl, dst, false, qs)
	}
}

func httpQueries(cl *http.Client, dst string, post bool, qs []query) ([]bool, []int, error) {
	answered, rcodes := make([]bool, len(qs)), make([]int, len(qs))
	var lastErr error
	for i, q := range qs {
		m := q.msg()
		m.Id = 0
		b, err := m.Pack()
		if err != nil {
			return nil, nil, err
		}
		var resp *http.Response
		if post {
			resp, err = cl.Post("https://"+dst+"/dns-query", "application/dns-message", bytes.NewReader(b))
		} else {
			resp, err = cl.Get("https://" + dst + "/dns-query?dns=" + base64.RawURLEncoding.EncodeToString(b))
		}
		if err != nil {
			lastErr = err
			continue
		}
		body, _ := io.ReadAll(resp.Body)
		_ = resp.Body.Close()
		if resp.StatusCode != http.StatusOK {
			lastErr = fmt.Errorf("http status %d", resp.StatusCode)
			continue
		}
		r := new(dns.Msg)
		if err = r.Unpack(body); err != nil {
			lastErr = err
			continue
		}
		answered[i], rcodes[i] = true, r.Rcode
	}
	return answered, rcodes, lastErr
}

func doqExchanger(dst string) exchanger {
	return func(qs []query, wait time.Duration) ([]bool, []int, error) {
		ctx, cancel := context.WithTimeout(context.Background(), wait)
		defer cancel()
		conn, err := quic.DialAddr(ctx, dst, clientTLS("doq"), &quic.Config{})
		if err != nil {
			return nil, nil, err
		}
		defer func() { _ = conn.CloseWithError(0, "") }()
		answered, rcodes := make([]bool, len(qs)), make([]int, len(qs))
		var lastErr error
		for i, q := range qs {
			m := q.msg()
			m.Id = 0
			b, perr := m.Pack()
			if perr != nil {
				return nil, nil, perr
			}
			st, serr := conn.OpenStreamSync(ctx)
			if serr != nil {
				lastErr = serr
				break
			}
			_ = st.SetDeadline(time.Now().Add(wait))
			buf := make([]byte, 2+len(b))
			binary.BigEndian.PutUint16(buf, uint16(len(b)))
			copy(buf[2:], b)
			if _, serr = st.Write(buf); serr != nil {
				lastErr = serr
				continue
			}
			_ = st.Close()
			rb, rerr := io.ReadAll(st)
			if len(rb) < 2 {
				if rerr != nil {
					lastErr = rerr
				}
				continue
			}
			r := new(dns.Msg)
			if uerr := r.Unpack(rb[2:]); uerr != nil {
				lastErr = uerr
				continue
			}
			answered[i], rcodes[i] = true, r.Rcode
		}
		return answered, rcodes, lastErr
	}
}

func dnscryptExchanger(dst, provider, publicKeyHex string) exchanger {
	return func(qs []query, wait time.Duration) ([]bool, []int, error) {
		pk, err := hex.DecodeString(publicKeyHex)
		if err != nil {
			return nil, nil, err
		}
		cl := &dnscrypt.Client{Net: "udp", Timeout: wait}
		ri, err := cl.DialStamp(dnsstamps.ServerStamp{
			ServerAddrStr: dst, ServerPk: pk, ProviderName: provider, Proto: dnsstamps.StampProtoTypeDNSCrypt,
		})
		if err != nil {
			return nil, nil, err
		}
		answered, rcodes := make([]bool, len(qs)), make([]int, len(qs))
		var lastErr error
		for i, q := range qs {
			r, eerr := cl.Exchange(q.msg(), ri)
			if eerr != nil {
				lastErr = eerr
				continue
			}
			answered[i], rcodes[i] = true, r.Rcode
		}
		return answered, rcodes, lastErr
	}
}

// scriptParams says what the mutated configuration implies for the script.
type scriptParams struct {
	Tag          string // unique per child, part of the names
	RateTouched  bool   // a rate-limit parameter was mutated: only the first query of a limited client is required
	ConnTouched  bool   // connection_limit.stop/resume set to 0 or 1: stream transports are not required
	TimeTouched  bool   // a duration was set to 1ns: a timeout is the configured behaviour, no answer is required
	DNSCheckOK   bool   // check.kv.type is "cache": the DNS-check name must be answered
	DNSCheckAll  bool   // backend-matrix case: DNS-check names are sent, and must be answered, whatever the store (an error of the store is reported, the query is still answered)
	KVFault      string // fault mode of the key-value backend
	DDRExpected  bool   // ddr.enabled with public records: the DDR name must get a NOERROR answer with SVCB records
	ProfileDev   bool   // send queries from the linked IP of the stub backend's profile device
	ProviderName string
	ProviderPK   string

	// CfgUDPSize is dns.max_udp_response_size as written in the file under
	// test; SizeProbe is false when a mutated field legitimately limits large
	// datagrams (socket buffer sizes, 1ns durations).
	CfgUDPSize int64
	SizeProbe  bool
}

// runTraffic runs the fixed script against every server of the configuration.
func runTraffic(servers []liveServer, sp scriptParams, hopeless func() bool) (groups []groupResult, queries int) {
	name := func(s string) string { return s + "." + sp.Tag + ".c20.example." }
	failed := false
	for _, s := range servers {
		for _, addr := range s.Addrs {
			is6 := strings.HasPrefix(addr, "[")
			add := func(group, client, require string, ex exchanger, qs []query) {
				// The verdict is decided by the first failing group; the rest
				// of the script is skipped once one has failed.
				if failed {
					return
				}
				stream := strings.Contains(group, "tcp") || strings.HasPrefix(group, "dot") || group == "doh-get" || group == "doh-post"
				if sp.TimeTouched || (sp.ConnTouched && stream) {
					require = "none"
				}
				g := groupResult{Group: group, Server: s.Name, Addr: addr, Client: client, Require: require}
				runGroup(&g, ex, qs, hopeless)
				queries += g.Sent + g.Retried
				groups = append(groups, g)
				if !g.ok() || hopeless() {
					failed = true
				}
			}
			switch s.Proto {
			case "dns":
				if !is6 {
					// allow-listed client
					base := []query{
						{name("a1"), dns.TypeA, 0}, {name("a1"), dns.TypeAAAA, 0}, {name("t1"), dns.TypeTXT, 0},
						{ddrName, dns.TypeSVCB, 0}, {blockedHost, dns.TypeA, 0},
					}
					if sp.DNSCheckOK {
						base = append(base, query{dnsCheckName, dns.TypeA, 0})
					}
					add("dns-udp", "allowlisted", "all", udpExchanger(srcAllowlisted, addr), base)
					if sp.DDRExpected && !sp.TimeTouched && !failed {
						g := groupResult{Group: "ddr", Server: s.Name, Addr: addr, Client: "allowlisted", Require: "all", Sent: 1}
						var resp *dns.Msg
						for _, w := range []time.Duration{firstWait, retryWait} {
							if resp, _ = udpOne(srcAllowlisted, addr, query{ddrName, dns.TypeSVCB, 1232}, w); resp != nil {
								break
							}
							g.Retried++
						}
						if resp != nil {
							g.Answered = 1
							g.Rcodes = dns.RcodeToString[resp.Rcode]
							g.Probe = fmt.Sprintf("DDR %s SVCB: rcode=%s answers=%d", ddrName, g.Rcodes, len(resp.Answer))
							g.DDRNotServed = resp.Rcode != dns.RcodeSuccess || len(resp.Answer) == 0
						} else {
							g.Lost = []string{"#0 SVCB " + ddrName}
						}
						queries += 1 + g.Retried
						groups = append(groups, g)
						if !g.ok() || g.DDRNotServed {
							failed = true
						}
					}
					if sp.ProfileDev {
						add("dns-udp", "profile-device", "all", udpExchanger(srcProfileDev, addr), []query{
							{name("pd1"), dns.TypeA, 0}, {name("pd2"), dns.TypeAAAA, 0}, {name("pd3"), dns.TypeTXT, 0},
						})
						add("dns-tcp", "profile-device", "all", streamExchanger(srcProfileDev, addr, nil), []query{{name("pd4"), dns.TypeA, 0}})
					}
					if sp.DNSCheckAll {
						g := "dnscheck"
						if sp.KVFault != "" {
							g = "dnscheck-failing-backend"
						}
						add(g, "allowlisted", "all", udpExchanger(srcAllowlisted, addr), []query{
							{"c20a" + sp.Tag + "-" + dnsCheckSuffix, dns.TypeA, 0}, {"c20b" + sp.Tag + "-" + dnsCheckSuffix, dns.TypeAAAA, 0},
						})
						add(g, "allowlisted-tcp", "all", streamExchanger(srcAllowlisted, addr, nil), []query{
							{"c20c" + sp.Tag + "-" + dnsCheckSuffix, dns.TypeA, 0},
						})
					}
					add("dns-udp-any", "allowlisted", "none", udpExchanger(srcAllowlisted, addr), []query{{name("a1"), dns.TypeANY, 0}})
					var burst []query
					for i := 0; i < 50; i++ {
						burst = append(burst, query{name(fmt.Sprintf("b%d", i%25)), dns.TypeA, 0})
					}
					add("dns-udp-burst", "allowlisted", "all", udpExchanger(srcAllowlisted, addr), burst)
					add("dns-udp-big", "allowlisted", "all", udpExchanger(srcAllowlisted, addr), []query{{bigHost, dns.TypeTXT, 4096}})
					if sp.SizeProbe && !failed {
						for _, pr := range []struct {
							host   string
							chunks int
							edns   uint16
						}{{midHost, midTXTChunks, 1232}, {bigHost, bigTXTChunks, 4096}} {
							g := sizeProbe(addr, s.Name, pr.host, pr.chunks, pr.edns, sp.CfgUDPSize, hopeless)
							queries += g.Sent + g.Retried
							groups = append(groups, g)
							if !g.ok() || g.SizeBelowConfigured || hopeless() {
								failed = true
								break
							}
						}
					}
					add("dns-tcp", "allowlisted", "all", streamExchanger(srcAllowlisted, addr, nil), []query{
						{name("a2"), dns.TypeA, 0}, {name("a2"), dns.TypeAAAA, 0}, {name("t2"), dns.TypeTXT, 0}, {bigHost, dns.TypeTXT, 0},
					})
					var pipe []query
					for i := 0; i < 30; i++ {
						pipe = append(pipe, query{name(fmt.Sprintf("p%d", i%20)), dns.TypeA, 0})
					}
					add("dns-tcp-pipeline", "allowlisted", "all", streamExchanger(srcAllowlisted, addr, nil), pipe)
					// rate-limited client, IPv4
					req := "all"
					if sp.RateTouched {
						req = "none"
					}
					add("dns-udp-first", "limited-v4", "all", udpExchanger(srcLimited4, addr), []query{{name("n1"), dns.TypeA, 0}})
					add("dns-udp", "limited-v4", req, udpExchanger(srcLimited4, addr), []query{
						{name("n2"), dns.TypeA, 0}, {name("n3"), dns.TypeAAAA, 0}, {name("n4"), dns.TypeTXT, 0},
					})
					add("dns-tcp", "limited-v4", req, streamExchanger(srcLimited4, addr, nil), []query{
						{name("n5"), dns.TypeA, 0}, {bigHost, dns.TypeTXT, 0},
					})
				} else {
					req := "all"
					if sp.RateTouched {
						req = "none"
					}
					add("dns-udp-first", "limited-v6", "all", udpExchanger(srcLimited6, addr), []query{{name("s1"), dns.TypeA, 0}})
					add("dns-udp", "limited-v6", req, udpExchanger(srcLimited6, addr), []query{
						{name("s2"), dns.TypeAAAA, 0}, {name("s3"), dns.TypeTXT, 0},
					})
					add("dns-tcp", "limited-v6", req, streamExchanger(srcLimited6, addr, nil), []query{
						{name("s4"), dns.TypeA, 0}, {bigHost, dns.TypeTXT, 0},
					})
				}
			case "tls":
				src := srcAllowlisted
				if is6 {
					src = srcLimited6
				}
				add("dot", "tls", "all", streamExchanger(src, addr, clientTLS()), []query{
					{name("d1"), dns.TypeA, 0}, {name("d1"), dns.TypeAAAA, 0}, {bigHost, dns.TypeTXT, 0},
				})
				var pipe []query
				for i := 0; i < 20; i++ {
					pipe = append(pipe, query{name(fmt.Sprintf("dp%d", i)), dns.TypeA, 0})
				}
				add("dot-pipeline", "tls", "all", streamExchanger(src, addr, clientTLS()), pipe)
			case "https":
				add("doh-get", "h2", "all", dohExchanger(addr, false), []query{{name("h1"), dns.TypeA, 0}, {name("h2"), dns.TypeTXT, 0}})
				add("doh-post", "h2", "all", dohExchanger(addr, true), []query{{name("h3"), dns.TypeAAAA, 0}})
				add("doh3-get", "h3", "all", doh3Exchanger(addr), []query{{name("h4"), dns.TypeA, 0}})
			case "quic":
				add("doq", "quic", "all", doqExchanger(addr), []query{{name("q1"), dns.TypeA, 0}, {name("q2"), dns.TypeAAAA, 0}})
			case "dnscrypt":
				add("dnscrypt-udp", "dnscrypt", "all", dnscryptExchanger(addr, sp.ProviderName, sp.ProviderPK),
					[]query{{name("c1"), dns.TypeA, 0}})
			}
		}
	}
	return groups, queries
}

// liveServer is one server of the mutated configuration.
type liveServer struct {
	Name  string
	Proto string
	Addrs []string
}

// expectedTXTSize is the size on the wire of the answer the stub upstream
// gives for a chunked name, as the server under test would send it over UDP
// (compressed, with an OPT record).
func expectedTXTSize(host string, chunks int, edns uint16) int {
	m := new(dns.Msg)
	m.SetQuestion(host, dns.TypeTXT)
	m.Response = true
	for i := 0; i < chunks; i++ {
		m.Answer = append(m.Answer, &dns.TXT{
			Hdr: dns.RR_Header{Name: host, Rrtype: dns.TypeTXT, Class: dns.ClassINET, Ttl: 300},
			Txt: []string{strings.Repeat("x", 200)},
		})
	}
	m.SetEdns0(edns, false)
	m.Compress = true
	return m.Len()
}

const sizeMargin = 64

// sizeProbe is the effective-value probe of dns.max_udp_response_size: a UDP
// query whose complete answer fits both the advertised EDNS buffer and the
// configured maximum must come back complete.  It is evaluated only when the
// value written in the file leaves the margin; otherwise the group only
// records what came back.
func sizeProbe(addr, server, host string, chunks int, edns uint16, cfg int64, hopeless func() bool) (g groupResult) {
	need := expectedTXTSize(host, chunks, edns) + sizeMargin
	g = groupResult{Group: fmt.Sprintf("dns-udp-size-%d", edns), Server: server, Addr: addr, Client: "allowlisted", Require: "all", Sent: 1}
	t0 := time.Now()
	defer func() { g.MS = time.Since(t0).Milliseconds() }()
	applies := cfg >= int64(need) && int(edns) >= need
	if !applies {
		g.Require = "none"
	}
	var last *dns.Msg
	for try, wait := range []time.Duration{firstWait, retryWait} {
		if try > 0 {
			if !applies || hopeless() {
				break
			}
			g.Retried++
		}
		resp, err := udpOne(srcAllowlisted, addr, query{host, dns.TypeTXT, edns}, wait)
		if err != nil {
			g.Err = err.Error()
		}
		if resp == nil {
			continue
		}
		last = resp
		if !resp.Truncated && len(resp.Answer) == chunks {
			break
		}
	}
	if last == nil {
		g.Lost = []string{"#0 TXT " + host}
		return g
	}
	g.Answered = 1
	g.Rcodes = dns.RcodeToString[last.Rcode]
	g.Probe = fmt.Sprintf("edns=%d configured_max=%d needed<=%d got: tc=%v answers=%d/%d size=%d", edns, cfg, need, last.Truncated, len(last.Answer), chunks, last.Len())
	if applies && last.Rcode == dns.RcodeSuccess && (last.Truncated || len(last.Answer) != chunks) {
		g.SizeBelowConfigured = true
	}
	return g
}

// udpOne sends one query from a fresh socket and returns the matching response.
func udpOne(src, dst string, q query, wait time.Duration) (*dns.Msg, error) {
	d := net.Dialer{LocalAddr: localAddr("udp", src), Timeout: dialWait}
	c, err := d.Dial("udp", dst)
	if err != nil {
		return nil, err
	}
	defer c.Close()
	m := q.msg()
	b, err := m.Pack()
	if err != nil {
		return nil, err
	}
	if _, err = c.Write(b); err != nil {
		return nil, err
	}
	_ = c.SetReadDeadline(time.Now().Add(wait))
	buf := make([]byte, 65535)
	for {
		n, rerr := c.Read(buf)
		if rerr != nil {
			if ne, ok := rerr.(net.Error); ok && ne.Timeout() {
				return nil, nil
			}
			return nil, rerr
		}
		resp := new(dns.Msg)
		if resp.Unpack(buf[:n]) != nil || resp.Id != m.Id {
			continue
		}
		return resp, nil
	}
}
