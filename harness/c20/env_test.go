package c20

import (
	"context"
	"crypto/ecdsa"
	"crypto/elliptic"
	"crypto/rand"
	"crypto/x509"
	"crypto/x509/pkix"
	"encoding/json"
	"encoding/pem"
	"fmt"
	"math/big"
	"net"
	"net/http"
	"os"
	"os/exec"
	"path/filepath"
	"strconv"
	"strings"
	"sync"
	"sync/atomic"
	"time"

	"github.com/AdguardTeam/AdGuardDNS/internal/backendpb"
	"github.com/miekg/dns"
	"google.golang.org/grpc"
	"google.golang.org/grpc/codes"
	"google.golang.org/grpc/metadata"
	"google.golang.org/grpc/status"
	"google.golang.org/protobuf/types/known/durationpb"
	"google.golang.org/protobuf/types/known/emptypb"
	"gopkg.in/yaml.v2"
)

// ---- building the real binary ---------------------------------------------------

func repoDir() string {
	if d := os.Getenv("VERIF_REPO"); d != "" {
		return d
	}
	return "/repo"
}

// cleanGoEnv is the environment for `go build` inside the repository: the
// harness' own GOFLAGS=-mod=mod / GOWORK=off must not leak into it.
func cleanGoEnv() []string {
	var env []string
	for _, kv := range os.Environ() {
		k := kv[:strings.IndexByte(kv, '=')]
		switch k {
		case "GOFLAGS", "GOWORK", "GOPROXY", "GOSUMDB", "GOTOOLCHAIN", "GORACE", "GOOS", "GOARCH", "CGO_ENABLED":
			continue
		}
		if strings.HasPrefix(k, "VERIF_") {
			continue
		}
		env = append(env, kv)
	}
	return append(env, "GOPROXY=off", "GOSUMDB=off", "GOTOOLCHAIN=local")
}

func buildBinary(scratch string) (bin string, out []byte, err error) {
	bin = filepath.Join(scratch, "adguard-dns")
	cmd := exec.Command("go", "build", "-o", bin, ".")
	cmd.Dir = repoDir()
	cmd.Env = cleanGoEnv()
	out, err = cmd.CombinedOutput()
	return bin, out, err
}

// ---- shared fixtures ------------------------------------------------------------------

type fixtures struct {
	dir      string
	certPath string
	keyPath  string
	pages    map[string]string // logical name -> path
	ticket1  string
	ticket2  string
	dnscrypt string
	index    string

	httpAddr  string
	grpcAddr  string
	grpcKVErr string // same services, but the key-value service always fails
	redisAddr *net.TCPAddr
	probe6    string
	upstreams []string // host:port of the stub upstreams (main ×2, fallback ×2)

	upstreamQueries atomic.Int64
	closers         []func()

	// pipe gates the stub upstreams for the queries of the pipeline script
	// (pipebin_test.go); nil in the configuration check.
	pipe *pipeGate
	// hc scripts the main stub upstreams of the health-check script
	// (hcbin_test.go); nil otherwise.
	hc *hcGate
}

const (
	blockedHost    = "blocked.c20.example."
	bigHost        = "big.c20.example."
	midHost        = "mid.c20.example."
	midTXTChunks   = 4 // × 200 bytes: about 900 bytes on the wire
	filterListID   = "adguard_dns_filter"
	dnsCheckName   = "c20probe-dnscheck.adguard-dns.com."
	dnsCheckSuffix = "dnscheck.adguard-dns.com."
	ddrName        = "_dns.resolver.arpa."
	tlsSNI         = "dns.example.com"
	bigTXTChunks   = 14 // × 200 bytes
)

func (fx *fixtures) close() {
	for _, c := range fx.closers {
		c()
	}
}

func writeFile(p string, b []byte) error { return os.WriteFile(p, b, 0o644) }

func newFixtures(dir string, distInline map[string]interface{}) (fx *fixtures, err error) {
	fx = &fixtures{dir: dir, pages: map[string]string{}}
	if err = os.MkdirAll(dir, 0o755); err != nil {
		return nil, err
	}
	// TLS certificate.
	priv, err := ecdsa.GenerateKey(elliptic.P256(), rand.Reader)
	if err != nil {
		return nil, err
	}
	tmpl := &x509.Certificate{
		SerialNumber: big.NewInt(20),
		Subject:      pkix.Name{CommonName: tlsSNI},
		NotBefore:    time.Now().Add(-time.Hour),
		NotAfter:     time.Now().Add(240 * time.Hour),
		KeyUsage:     x509.KeyUsageDigitalSignature,
		ExtKeyUsage:  []x509.ExtKeyUsage{x509.ExtKeyUsageServerAuth},
		DNSNames:     []string{tlsSNI, "*.dns.example.com", "*.d.dns.example.com", "localhost"},
		IPAddresses:  []net.IP{net.ParseIP("127.0.0.1"), net.ParseIP("::1")},
	}
	der, err := x509.CreateCertificate(rand.Reader, tmpl, tmpl, &priv.PublicKey, priv)
	if err != nil {
		return nil, err
	}
	keyDER, err := x509.MarshalECPrivateKey(priv)
	if err != nil {
		return nil, err
	}
	fx.certPath, fx.keyPath = filepath.Join(dir, "cert.crt"), filepath.Join(dir, "cert.key")
	if err = writeFile(fx.certPath, pem.EncodeToMemory(&pem.Block{Type: "CERTIFICATE", Bytes: der})); err != nil {
		return nil, err
	}
	if err = writeFile(fx.keyPath, pem.EncodeToMemory(&pem.Block{Type: "EC PRIVATE KEY", Bytes: keyDER})); err != nil {
		return nil, err
	}
	for _, n := range []string{"block_page_adult.html", "block_page_general.html", "block_page_sb.html", "error_404.html", "error_500.html"} {
		p := filepath.Join(dir, n)
		if err = writeFile(p, []byte("<html><body>"+n+"</body></html>\n")); err != nil {
			return nil, err
		}
		fx.pages[n] = p
	}
	fx.ticket1, fx.ticket2 = filepath.Join(dir, "tls_key_1"), filepath.Join(dir, "tls_key_2")
	for i, p := range []string{fx.ticket1, fx.ticket2} {
		b := make([]byte, 48)
		for j := range b {
			b[j] = byte(i*101 + j*7 + 1)
		}
		if err = writeFile(p, b); err != nil {
			return nil, err
		}
	}
	// DNSCrypt file configuration: the distributed inline example as a file.
	dc := yaml.MapSlice{}
	for _, k := range []string{"provider_name", "public_key", "private_key", "resolver_secret", "resolver_public", "es_version", "certificate_ttl"} {
		if v, ok := distInline[k]; ok {
			dc = append(dc, yaml.MapItem{Key: k, Value: v})
		}
	}
	b, err := yaml.Marshal(dc)
	if err != nil {
		return nil, err
	}
	fx.dnscrypt = filepath.Join(dir, "dnscrypt.yml")
	if err = writeFile(fx.dnscrypt, b); err != nil {
		return nil, err
	}

	// HTTP: lists, Consul allow-list, linked-IP target.
	hl, err := net.Listen("tcp4", "127.0.0.1:0")
	if err != nil {
		return nil, err
	}
	fx.httpAddr = hl.Addr().String()
	mux := http.NewServeMux()
	text := func(body string) http.HandlerFunc {
		return func(w http.ResponseWriter, _ *http.Request) {
			w.Header().Set("Content-Type", "text/plain")
			_, _ = w.Write([]byte(body))
		}
	}
	mux.HandleFunc("/allow", func(w http.ResponseWriter, _ *http.Request) {
		w.Header().Set("Content-Type", "application/json")
		_, _ = w.Write([]byte("[]"))
	})
	mux.HandleFunc("/filters/"+filterListID+".txt", text("! C20 list\n||"+strings.TrimSuffix(blockedHost, ".")+"^\n"))
	// Two lists that rewrite the same name differently (rule-list order
	// script, rulebin_test.go); no filtering group of the base file uses them.
	mux.HandleFunc("/filters/"+orderListZ+".txt", text("! first\n|"+strings.TrimSuffix(orderHost, ".")+"^$dnsrewrite=NOERROR;A;"+orderAnswerZ+"\n"))
	mux.HandleFunc("/filters/"+orderListA+".txt", text("! second\n|"+strings.TrimSuffix(orderHost, ".")+"^$dnsrewrite=NOERROR;A;"+orderAnswerA+"\n"))
	mux.HandleFunc("/adult.txt", text("adult.c20.example\n"))
	mux.HandleFunc("/newreg.txt", text("newreg.c20.example\n"))
	mux.HandleFunc("/sb.txt", text("danger.c20.example\n"))
	mux.HandleFunc("/general_ss.txt", text("|www.search.c20.example^$dnsrewrite=NOERROR;CNAME;safe.search.c20.example\n"))
	mux.HandleFunc("/youtube_ss.txt", text("|www.tube.c20.example^$dnsrewrite=NOERROR;CNAME;restrict.tube.c20.example\n"))
	mux.HandleFunc("/services.json", func(w http.ResponseWriter, _ *http.Request) {
		w.Header().Set("Content-Type", "application/json")
		_, _ = w.Write([]byte(`{"blocked_services":[{"id":"c20svc","rules":["||svc.c20.example^"]}]}`))
	})
	mux.HandleFunc("/", func(w http.ResponseWriter, _ *http.Request) { w.WriteHeader(http.StatusOK) })
	hs := &http.Server{Handler: mux}
	go func() { _ = hs.Serve(hl) }()
	fx.closers = append(fx.closers, func() { _ = hs.Close() })

	idx := map[string]interface{}{"filters": []map[string]string{{
		"filterKey": filterListID, "downloadUrl": "http://" + fx.httpAddr + "/filters/" + filterListID + ".txt",
	}, {
		"filterKey": orderListZ, "downloadUrl": "http://" + fx.httpAddr + "/filters/" + orderListZ + ".txt",
	}, {
		"filterKey": orderListA, "downloadUrl": "http://" + fx.httpAddr + "/filters/" + orderListA + ".txt",
	}}}
	ib, _ := json.Marshal(idx)
	fx.index = filepath.Join(dir, "filters.json")
	if err = writeFile(fx.index, ib); err != nil {
		return nil, err
	}

	// gRPC backend: profiles, billing statistics, rate-limit settings, remote KV.
	gl, err := net.Listen("tcp4", "127.0.0.1:0")
	if err != nil {
		return nil, err
	}
	fx.grpcAddr = gl.Addr().String()
	gs := grpc.NewServer()
	backendpb.RegisterDNSServiceServer(gs, &grpcDNS{})
	backendpb.RegisterRateLimitServiceServer(gs, &grpcRL{})
	backendpb.RegisterRemoteKVServiceServer(gs, &grpcKV{m: map[string][]byte{}})
	go func() { _ = gs.Serve(gl) }()
	fx.closers = append(fx.closers, gs.Stop)
	gl2, err := net.Listen("tcp4", "127.0.0.1:0")
	if err != nil {
		return nil, err
	}
	fx.grpcKVErr = gl2.Addr().String()
	gs2 := grpc.NewServer()
	backendpb.RegisterDNSServiceServer(gs2, &grpcDNS{})
	backendpb.RegisterRateLimitServiceServer(gs2, &grpcRL{})
	backendpb.RegisterRemoteKVServiceServer(gs2, &grpcKVFail{})
	go func() { _ = gs2.Serve(gl2) }()
	fx.closers = append(fx.closers, gs2.Stop)

	// "Redis": accepts and closes.
	rl, err := net.Listen("tcp4", "127.0.0.1:0")
	if err != nil {
		return nil, err
	}
	fx.redisAddr = rl.Addr().(*net.TCPAddr)
	go acceptAndClose(rl)
	fx.closers = append(fx.closers, func() { _ = rl.Close() })

	// IPv6 connectivity probe.
	p6, err := net.Listen("tcp6", "[::1]:0")
	if err != nil {
		return nil, fmt.Errorf("ipv6 loopback is required: %w", err)
	}
	fx.probe6 = p6.Addr().String()
	go acceptAndClose(p6)
	fx.closers = append(fx.closers, func() { _ = p6.Close() })

	// DNS upstreams (UDP+TCP on one port each); the first also is the IPv4
	// connectivity probe.
	for i := 0; i < 4; i++ {
		addr, stop, uerr := fx.startUpstream()
		if uerr != nil {
			return nil, uerr
		}
		fx.upstreams = append(fx.upstreams, addr)
		fx.closers = append(fx.closers, stop)
	}
	return fx, nil
}

func acceptAndClose(l net.Listener) {
	for {
		c, err := l.Accept()
		if err != nil {
			return
		}
		_ = c.Close()
	}
}

func (fx *fixtures) startUpstream() (addr string, stop func(), err error) {
	var pc net.PacketConn
	var tl net.Listener
	for try := 0; try < 50; try++ {
		pc, err = net.ListenPacket("udp4", "127.0.0.1:0")
		if err != nil {
			return "", nil, err
		}
		tl, err = net.Listen("tcp4", pc.LocalAddr().String())
		if err == nil {
			break
		}
		_ = pc.Close()
	}
	if err != nil {
		return "", nil, err
	}
	h := dns.HandlerFunc(fx.answer)
	us := &dns.Server{PacketConn: pc, Handler: h}
	ts := &dns.Server{Listener: tl, Handler: h}
	go func() { _ = us.ActivateAndServe() }()
	go func() { _ = ts.ActivateAndServe() }()
	return pc.LocalAddr().String(), func() { _ = us.Shutdown(); _ = ts.Shutdown() }, nil
}

// answer is the scripted upstream: fixed records per question type, a large
// TXT answer for bigHost.
func (fx *fixtures) answer(w dns.ResponseWriter, req *dns.Msg) {
	fx.upstreamQueries.Add(1)
	if g := fx.hc; g != nil && len(req.Question) == 1 {
		if g.observe(w.LocalAddr().String(), req.Question[0].Name) {
			return
		}
	}
	if g := fx.pipe; g != nil && len(req.Question) == 1 {
		g.hold(req.Question[0].Name)
	}
	m := new(dns.Msg)
	m.SetReply(req)
	m.RecursionAvailable = true
	if len(req.Question) != 1 {
		m.Rcode = dns.RcodeFormatError
		_ = w.WriteMsg(m)
		return
	}
	q := req.Question[0]
	hdr := func(t uint16) dns.RR_Header {
		return dns.RR_Header{Name: q.Name, Rrtype: t, Class: dns.ClassINET, Ttl: 300}
	}
	a := &dns.A{Hdr: hdr(dns.TypeA), A: net.IPv4(192, 0, 2, 1).To4()}
	aaaa := &dns.AAAA{Hdr: hdr(dns.TypeAAAA), AAAA: net.ParseIP("2001:db8::1")}
	txt := &dns.TXT{Hdr: hdr(dns.TypeTXT), Txt: []string{"v=c20"}}
	switch q.Qtype {
	case dns.TypeA:
		m.Answer = append(m.Answer, a)
	case dns.TypeAAAA:
		m.Answer = append(m.Answer, aaaa)
	case dns.TypeTXT:
		if n := txtChunks(q.Name); n > 0 {
			for i := 0; i < n; i++ {
				m.Answer = append(m.Answer, &dns.TXT{Hdr: hdr(dns.TypeTXT), Txt: []string{strings.Repeat(string(rune('a'+i)), 200)}})
			}
		} else {
			m.Answer = append(m.Answer, txt)
		}
	case dns.TypeANY:
		m.Answer = append(m.Answer, a, aaaa, txt)
	}
	if _, isUDP := w.RemoteAddr().(*net.UDPAddr); isUDP {
		size := 512
		if o := req.IsEdns0(); o != nil && int(o.UDPSize()) > size {
			size = int(o.UDPSize())
		}
		m.Truncate(size)
	}
	_ = w.WriteMsg(m)
}

// txtChunks is the number of 200-byte TXT records the stub answers with.
func txtChunks(name string) int {
	switch {
	case strings.EqualFold(name, bigHost):
		return bigTXTChunks
	case strings.EqualFold(name, midHost):
		return midTXTChunks
	}
	return 0
}

// ---- gRPC stubs ---------------------------------------------------------------------------

type grpcDNS struct {
	backendpb.UnimplementedDNSServiceServer
}

// The profile the stub backend knows: one device recognised by its linked IP
// (a loopback address the script can send from), with a custom rate limit for
// that address.  It is delivered by full synchronisations only; an incremental
// one (sync_time set, i.e. after a restart from the profile cache) gets nothing,
// as from a backend where nothing has changed.
const (
	stubProfileID = "c20prof1"
	stubDeviceID  = "c20dev01"
	srcProfileDev = "127.0.2.1"
)

func (*grpcDNS) GetDNSProfiles(req *backendpb.DNSProfilesRequest, s grpc.ServerStreamingServer[backendpb.DNSProfile]) error {
	s.SetTrailer(metadata.Pairs("sync_time", strconv.FormatInt(time.Now().UnixMilli(), 10)))
	if st := req.GetSyncTime(); st != nil && !st.AsTime().IsZero() && st.AsTime().Unix() > 0 {
		return nil
	}
	return s.Send(&backendpb.DNSProfile{
		DnsId:            stubProfileID,
		FilteringEnabled: true,
		QueryLogEnabled:  true,
		SafeBrowsing:     &backendpb.SafeBrowsingSettings{},
		Parental:         &backendpb.ParentalSettings{},
		RuleLists:        &backendpb.RuleListsSettings{},
		Devices: []*backendpb.DeviceSettings{{
			Id:               stubDeviceID,
			Name:             "c20 device",
			FilteringEnabled: true,
			LinkedIp:         net.ParseIP(srcProfileDev).To4(),
		}},
		FilteredResponseTtl: durationpb.New(10 * time.Second),
		RateLimit: &backendpb.RateLimitSettings{
			Enabled:    true,
			Rps:        1000,
			ClientCidr: []*backendpb.CidrRange{{Address: net.ParseIP("127.0.2.0").To4(), Prefix: 24}},
		},
	})
}

func (*grpcDNS) SaveDevicesBillingStat(s grpc.ClientStreamingServer[backendpb.DeviceBillingStat, emptypb.Empty]) error {
	for {
		if _, err := s.Recv(); err != nil {
			break
		}
	}
	return s.SendAndClose(&emptypb.Empty{})
}

type grpcRL struct {
	backendpb.UnimplementedRateLimitServiceServer
}

func (*grpcRL) GetRateLimitSettings(context.Context, *backendpb.RateLimitSettingsRequest) (*backendpb.RateLimitSettingsResponse, error) {
	return &backendpb.RateLimitSettingsResponse{}, nil
}

type grpcKV struct {
	backendpb.UnimplementedRemoteKVServiceServer
	mu sync.Mutex
	m  map[string][]byte
}

func (k *grpcKV) Get(_ context.Context, r *backendpb.RemoteKVGetRequest) (*backendpb.RemoteKVGetResponse, error) {
	k.mu.Lock()
	defer k.mu.Unlock()
	if v, ok := k.m[r.GetKey()]; ok {
		return &backendpb.RemoteKVGetResponse{Value: &backendpb.RemoteKVGetResponse_Data{Data: v}}, nil
	}
	return &backendpb.RemoteKVGetResponse{Value: &backendpb.RemoteKVGetResponse_Empty{}}, nil
}

func (k *grpcKV) Set(_ context.Context, r *backendpb.RemoteKVSetRequest) (*backendpb.RemoteKVSetResponse, error) {
	k.mu.Lock()
	defer k.mu.Unlock()
	if len(k.m) > 10000 {
		k.m = map[string][]byte{}
	}
	k.m[r.GetKey()] = r.GetData()
	return &backendpb.RemoteKVSetResponse{}, nil
}

// grpcKVFail is the always-error mode of the key-value backend.
type grpcKVFail struct {
	backendpb.UnimplementedRemoteKVServiceServer
}

func (*grpcKVFail) Get(context.Context, *backendpb.RemoteKVGetRequest) (*backendpb.RemoteKVGetResponse, error) {
	return nil, status.Error(codes.Unavailable, "c20: key-value backend is failing")
}

func (*grpcKVFail) Set(context.Context, *backendpb.RemoteKVSetRequest) (*backendpb.RemoteKVSetResponse, error) {
	return nil, status.Error(codes.Unavailable, "c20: key-value backend is failing")
}

// ---- ports ---------------------------------------------------------------------------------

const (
	portLo    = 12000
	portHi    = 31900
	blockSize = 24
)

type portAlloc struct {
	mu   sync.Mutex
	next int
}

func newPortAlloc() *portAlloc {
	n := (portHi - portLo) / blockSize
	return &portAlloc{next: (os.Getpid() * 37) % n}
}

func portFree(p int) bool {
	a := "127.0.0.1:" + strconv.Itoa(p)
	l, err := net.Listen("tcp4", a)
	if err != nil {
		return false
	}
	_ = l.Close()
	u, err := net.ListenPacket("udp4", a)
	if err != nil {
		return false
	}
	_ = u.Close()
	return true
}

// block returns the first port of a block of blockSize ports that were all free
// a moment ago.
func (pa *portAlloc) block() int {
	n := (portHi - portLo) / blockSize
	for tries := 0; tries < 4*n; tries++ {
		pa.mu.Lock()
		b := portLo + (pa.next%n)*blockSize
		pa.next++
		pa.mu.Unlock()
		ok := true
		for p := b; p < b+blockSize; p++ {
			if !portFree(p) {
				ok = false
				break
			}
		}
		if ok {
			return b
		}
	}
	return 0
}

// ---- localisation of config.dist.yaml ------------------------------------------------

// srvInfo describes one DNS server of the generated configuration, for the
// traffic script.
type srvInfo struct {
	Path  cfgPath
	Name  string
	Addrs []string
}

type localised struct {
	Tree      interface{}
	Servers   []srvInfo
	DebugPort int
	PortsUsed int
}

func loadDist() (yaml.MapSlice, error) {
	b, err := os.ReadFile(filepath.Join(repoDir(), "config.dist.yaml"))
	if err != nil {
		return nil, err
	}
	var root yaml.MapSlice
	if err = yaml.Unmarshal(b, &root); err != nil {
		return nil, err
	}
	return root, nil
}

// distInline extracts the example inline DNSCrypt configuration.
func distInline(root yaml.MapSlice) map[string]interface{} {
	out := map[string]interface{}{}
	walkLeaves(root, nil, func(p cfgPath, v interface{}) {
		if len(p) >= 2 && p[len(p)-2].Key == "inline" {
			out[p.lastKey()] = v
		}
	})
	return out
}

// localise returns the base configuration for one child: every section and key
// of config.dist.yaml, with addresses and paths pointing at this run's stubs,
// files and the given port block.  interface_listeners (SO_BINDTODEVICE on
// eth0) is the documented omission; the plain-DNS server that used
// bind_interfaces binds the IPv4 and IPv6 loopback instead.
func localise(dist yaml.MapSlice, fx *fixtures, portBase int) (*localised, error) {
	root := deepCopy(dist).(yaml.MapSlice)
	port := portBase
	nextPort := func() int { p := port; port++; return p }
	loc := &localised{}

	root = mapDel(root, "interface_listeners")

	fixCerts := func(v interface{}) {
		l, _ := v.([]interface{})
		for i, c := range l {
			m, ok := c.(yaml.MapSlice)
			if !ok {
				continue
			}
			m = mapSet(m, "certificate", fx.certPath)
			m = mapSet(m, "key", fx.keyPath)
			l[i] = m
		}
	}
	fixBind := func(v interface{}) {
		l, _ := v.([]interface{})
		for i, b := range l {
			m, ok := b.(yaml.MapSlice)
			if !ok {
				continue
			}
			m = mapSet(m, "address", fmt.Sprintf("127.0.0.1:%d", nextPort()))
			if cs, has := mapGet(m, "certificates"); has {
				fixCerts(cs)
			}
			l[i] = m
		}
	}

	// upstream
	if v, ok := mapGet(root, "upstream"); ok {
		up := v.(yaml.MapSlice)
		n := 0
		fixServers := func(v interface{}) {
			l, _ := v.([]interface{})
			for i, s := range l {
				m := s.(yaml.MapSlice)
				old, _ := mapGet(m, "address")
				scheme := ""
				if os := fmt.Sprint(old); strings.Contains(os, "://") {
					scheme = os[:strings.Index(os, "://")+3]
				}
				m = mapSet(m, "address", scheme+fx.upstreams[n%len(fx.upstreams)])
				n++
				l[i] = m
			}
		}
		if s, has := mapGet(up, "servers"); has {
			fixServers(s)
		}
		if fb, has := mapGet(up, "fallback"); has {
			if s, has2 := mapGet(fb.(yaml.MapSlice), "servers"); has2 {
				fixServers(s)
			}
		}
	}
	// web
	if v, ok := mapGet(root, "web"); ok {
		web := v.(yaml.MapSlice)
		for i, it := range web {
			k := fmt.Sprint(it.Key)
			switch k {
			case "linked_ip", "adult_blocking", "general_blocking", "safe_browsing":
				m := it.Value.(yaml.MapSlice)
				if b, has := mapGet(m, "bind"); has {
					fixBind(b)
				}
				if bp, has := mapGet(m, "block_page"); has {
					m = mapSet(m, "block_page", fx.pages[filepath.Base(fmt.Sprint(bp))])
				}
				web[i].Value = m
			case "non_doh_bind":
				fixBind(it.Value)
			case "error_404", "error_500":
				web[i].Value = fx.pages[filepath.Base(fmt.Sprint(it.Value))]
			case "root_redirect_url":
				web[i].Value = "http://" + fx.httpAddr + "/"
			}
		}
	}
	// connectivity check
	if v, ok := mapGet(root, "connectivity_check"); ok {
		m := v.(yaml.MapSlice)
		m = mapSet(m, "probe_ipv4", fx.upstreams[0])
		m = mapSet(m, "probe_ipv6", fx.probe6)
		root = mapSet(root, "connectivity_check", m)
	}
	// server groups
	if v, ok := mapGet(root, "server_groups"); ok {
		for gi, g := range v.([]interface{}) {
			gm := g.(yaml.MapSlice)
			if t, has := mapGet(gm, "tls"); has {
				tm := t.(yaml.MapSlice)
				if cs, has2 := mapGet(tm, "certificates"); has2 {
					fixCerts(cs)
				}
				if _, has2 := mapGet(tm, "session_keys"); has2 {
					tm = mapSet(tm, "session_keys", []interface{}{fx.ticket1, fx.ticket2})
				}
				gm = mapSet(gm, "tls", tm)
			}
			srvs, _ := mapGet(gm, "servers")
			sl, _ := srvs.([]interface{})
			for si, s := range sl {
				sm := s.(yaml.MapSlice)
				name, _ := mapGet(sm, "name")
				info := srvInfo{
					Path: cfgPath{key("server_groups"), idx(gi), key("servers"), idx(si)},
					Name: fmt.Sprint(name),
				}
				if _, has := mapGet(sm, "bind_interfaces"); has {
					p := nextPort()
					addrs := []interface{}{fmt.Sprintf("127.0.0.1:%d", p), fmt.Sprintf("[::1]:%d", p)}
					sm = mapReplace(sm, "bind_interfaces", "bind_addresses", addrs)
				} else if ba, has := mapGet(sm, "bind_addresses"); has {
					l := ba.([]interface{})
					for i := range l {
						l[i] = fmt.Sprintf("127.0.0.1:%d", nextPort())
					}
				}
				if ba, has := mapGet(sm, "bind_addresses"); has {
					for _, a := range ba.([]interface{}) {
						info.Addrs = append(info.Addrs, fmt.Sprint(a))
					}
				}
				if dc, has := mapGet(sm, "dnscrypt"); has {
					dm := dc.(yaml.MapSlice)
					if _, has2 := mapGet(dm, "config_path"); has2 {
						dm = mapSet(dm, "config_path", fx.dnscrypt)
						sm = mapSet(sm, "dnscrypt", dm)
					}
				}
				sl[si] = sm
				loc.Servers = append(loc.Servers, info)
			}
			v.([]interface{})[gi] = gm
		}
	}
	loc.DebugPort = nextPort()
	loc.PortsUsed = port - portBase
	if loc.PortsUsed > blockSize {
		return nil, fmt.Errorf("configuration needs %d ports, block has %d", loc.PortsUsed, blockSize)
	}
	loc.Tree = root
	return loc, nil
}

// childEnv is the complete environment of one child (nothing is inherited).
func childEnv(fx *fixtures, dir string, debugPort int, ms []mutation) []string {
	h := "http://" + fx.httpAddr
	g := "grpc://" + fx.grpcAddr
	kv := g
	switch kvFault(ms) {
	case "unreachable":
		kv = "grpc://127.0.0.1:1"
	case "always-error":
		kv = "grpc://" + fx.grpcKVErr
	}
	geo := filepath.Join(repoDir(), "internal", "geoip", "testdata")
	return []string{
		"PATH=/usr/bin:/bin",
		"CONFIG_PATH=" + filepath.Join(dir, "config.yaml"),
		"FILTER_INDEX_URL=file://" + fx.index,
		"FILTER_CACHE_PATH=" + filepath.Join(dir, "filters"),
		"GEOIP_ASN_PATH=" + filepath.Join(geo, "GeoIP2-ISP-Test.mmdb"),
		"GEOIP_COUNTRY_PATH=" + filepath.Join(geo, "GeoIP2-City-Test.mmdb"),
		"QUERYLOG_PATH=" + filepath.Join(dir, "querylog.jsonl"),
		"PROFILES_CACHE_PATH=" + filepath.Join(dir, "profilecache.pb"),
		"LISTEN_ADDR=127.0.0.1",
		"LISTEN_PORT=" + strconv.Itoa(debugPort),
		"DNSCHECK_CACHE_KV_SIZE=100",
		"CONSUL_ALLOWLIST_URL=" + h + "/allow",
		"ADULT_BLOCKING_URL=" + h + "/adult.txt",
		"NEW_REG_DOMAINS_URL=" + h + "/newreg.txt",
		"SAFE_BROWSING_URL=" + h + "/sb.txt",
		"BLOCKED_SERVICE_INDEX_URL=" + h + "/services.json",
		"GENERAL_SAFE_SEARCH_URL=" + h + "/general_ss.txt",
		"YOUTUBE_SAFE_SEARCH_URL=" + h + "/youtube_ss.txt",
		"LINKED_IP_TARGET_URL=" + h + "/linkip-target",
		"PROFILES_URL=" + g,
		"BILLSTAT_URL=" + g,
		"BACKEND_RATELIMIT_URL=" + g,
		"DNSCHECK_REMOTEKV_URL=" + kv,
		"REDIS_ADDR=127.0.0.1",
		"REDIS_PORT=" + strconv.Itoa(fx.redisAddr.Port),
		"SENTRY_DSN=stderr",
		"VERBOSE=0",
		"LOG_TIMESTAMP=1",
	}
}
