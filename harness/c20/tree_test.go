package c20

import (
	"fmt"
	"regexp"
	"strconv"
	"strings"

	"gopkg.in/yaml.v2"
)

// ---- ordered YAML tree ------------------------------------------------------
//
// The configuration is handled as a yaml.v2 tree (yaml.MapSlice / []interface{}
// / scalars), never as the repository's own structs: the mutated files are what
// an operator could write, independent of how the code under test parses them.

// pathElem is either a map key (string) or a list index (int).
type pathElem struct {
	Key string
	Idx int
	Is  bool // true: index
}

type cfgPath []pathElem

func (p cfgPath) String() string {
	var b strings.Builder
	for i, e := range p {
		switch {
		case e.Is:
			fmt.Fprintf(&b, "[%d]", e.Idx)
		case strings.ContainsAny(e.Key, ".*/ "):
			fmt.Fprintf(&b, "[%s]", e.Key)
		default:
			if i > 0 {
				b.WriteByte('.')
			}
			b.WriteString(e.Key)
		}
	}
	return b.String()
}

// generic returns the path with list indices and record names wild-carded; it
// is the "section" form used for coverage accounting.
func (p cfgPath) generic() string {
	var b strings.Builder
	for i, e := range p {
		switch {
		case e.Is:
			b.WriteString("[*]")
		case strings.ContainsAny(e.Key, ".*/ "):
			b.WriteString("[*]")
		default:
			if i > 0 {
				b.WriteByte('.')
			}
			b.WriteString(e.Key)
		}
	}
	return b.String()
}

func (p cfgPath) section() string {
	if len(p) == 0 {
		return ""
	}
	return p[0].Key
}

// lastKey returns the innermost map key of the path.
func (p cfgPath) lastKey() string {
	for i := len(p) - 1; i >= 0; i-- {
		if !p[i].Is {
			return p[i].Key
		}
	}
	return ""
}

func (p cfgPath) child(e pathElem) cfgPath {
	q := make(cfgPath, len(p)+1)
	copy(q, p)
	q[len(p)] = e
	return q
}

func key(k string) pathElem { return pathElem{Key: k} }
func idx(i int) pathElem    { return pathElem{Idx: i, Is: true} }

func deepCopy(v interface{}) interface{} {
	switch t := v.(type) {
	case yaml.MapSlice:
		out := make(yaml.MapSlice, len(t))
		for i, it := range t {
			out[i] = yaml.MapItem{Key: it.Key, Value: deepCopy(it.Value)}
		}
		return out
	case []interface{}:
		out := make([]interface{}, len(t))
		for i, it := range t {
			out[i] = deepCopy(it)
		}
		return out
	default:
		return v
	}
}

func mapGet(m yaml.MapSlice, k string) (interface{}, bool) {
	for _, it := range m {
		if ks, ok := it.Key.(string); ok && ks == k {
			return it.Value, true
		}
	}
	return nil, false
}

func mapSet(m yaml.MapSlice, k string, v interface{}) yaml.MapSlice {
	for i, it := range m {
		if ks, ok := it.Key.(string); ok && ks == k {
			m[i].Value = v
			return m
		}
	}
	return append(m, yaml.MapItem{Key: k, Value: v})
}

func mapDel(m yaml.MapSlice, k string) yaml.MapSlice {
	out := m[:0:0]
	for _, it := range m {
		if ks, ok := it.Key.(string); ok && ks == k {
			continue
		}
		out = append(out, it)
	}
	return out
}

// mapRename replaces key k by (nk, v) at the same position.
func mapReplace(m yaml.MapSlice, k, nk string, v interface{}) yaml.MapSlice {
	for i, it := range m {
		if ks, ok := it.Key.(string); ok && ks == k {
			m[i] = yaml.MapItem{Key: nk, Value: v}
		}
	}
	return m
}

func treeGet(root interface{}, p cfgPath) (interface{}, bool) {
	cur := root
	for _, e := range p {
		if e.Is {
			l, ok := cur.([]interface{})
			if !ok || e.Idx >= len(l) {
				return nil, false
			}
			cur = l[e.Idx]
			continue
		}
		m, ok := cur.(yaml.MapSlice)
		if !ok {
			return nil, false
		}
		v, ok := mapGet(m, e.Key)
		if !ok {
			return nil, false
		}
		cur = v
	}
	return cur, true
}

// treeEdit returns a copy of the sub-tree v with the element at p replaced by
// nv, or removed when del is true.
func treeEdit(v interface{}, p cfgPath, nv interface{}, del bool) interface{} {
	if len(p) == 0 {
		return nv
	}
	e := p[0]
	if e.Is {
		l := v.([]interface{})
		out := make([]interface{}, 0, len(l))
		for i, it := range l {
			if i == e.Idx {
				if len(p) == 1 && del {
					continue
				}
				out = append(out, treeEdit(it, p[1:], nv, del))
			} else {
				out = append(out, it)
			}
		}
		return out
	}
	m := v.(yaml.MapSlice)
	out := make(yaml.MapSlice, 0, len(m))
	for _, it := range m {
		if ks, ok := it.Key.(string); ok && ks == e.Key {
			if len(p) == 1 && del {
				continue
			}
			out = append(out, yaml.MapItem{Key: it.Key, Value: treeEdit(it.Value, p[1:], nv, del)})
		} else {
			out = append(out, it)
		}
	}
	return out
}

// walkLeaves calls f for every scalar of the tree.
func walkLeaves(v interface{}, p cfgPath, f func(p cfgPath, v interface{})) {
	switch t := v.(type) {
	case yaml.MapSlice:
		for _, it := range t {
			walkLeaves(it.Value, p.child(key(fmt.Sprint(it.Key))), f)
		}
	case []interface{}:
		for i, it := range t {
			walkLeaves(it, p.child(idx(i)), f)
		}
	default:
		f(p, v)
	}
}

// ---- mutation catalogue -------------------------------------------------------

// mutValue is one replacement value for a field.
type mutValue struct {
	Class   string      // stable class of the value: "0", "-1", "1", "large", "max", "missing", "bound", "bound+1", enum/id value
	Value   interface{} // YAML scalar to write
	Missing bool        // remove the key instead
}

// field is one mutable scalar of the base configuration.
type field struct {
	Path   cfgPath
	Kind   string // int, duration, size, enum, id
	Base   interface{}
	Values []mutValue
}

var (
	reDuration = regexp.MustCompile(`^-?(\d+(\.\d+)?(ns|us|µs|ms|s|m|h))+$`)
	reSize     = regexp.MustCompile(`^\d+\s*(B|KB|MB|GB|TB)$`)
)

// enumDomain lists the documented values of the enum-typed properties
// (doc/configuration.md), keyed by generic path.
var enumDomain = map[string][]interface{}{
	"cache.type":                           {"simple", "ecs"},
	"ratelimit.allowlist.type":             {"consul", "backend"},
	"check.kv.type":                        {"backend", "cache", "consul", "redis"},
	"server_groups[*].servers[*].protocol": {"dns", "dnscrypt", "https", "quic", "tls"},
	"server_groups[*].servers[*].dnscrypt.inline.es_version": {1, 2},
}

// idPaths are the cross-referenced identifiers.
var idPaths = map[string]bool{
	"server_groups[*].filtering_group":      true,
	"filtering_groups[*].id":                true,
	"filtering_groups[*].rule_lists.ids[*]": true,
}

// sizeKeys are size-typed properties whose example value is a bare number.
var sizeKeys = map[string]bool{"network.so_sndbuf": true, "network.so_rcvbuf": true}

const (
	largeInt      = 1 << 20
	largeDuration = "87600h"
	maxDuration   = "2562047h47m16.854775807s" // math.MaxInt64 ns
	largeSize     = "1GB"
)

// classify decides whether a scalar of the base configuration is mutated and
// with which values.  ok is false for scalars outside the property's quantifier
// (names, addresses, paths, booleans, free text).
func classify(p cfgPath, v interface{}, ids map[string][]string) (f field, ok bool) {
	g := p.generic()
	f = field{Path: p, Base: v}
	missing := mutValue{Class: "missing", Missing: true}
	last := p.lastKey()
	if dom, isEnum := enumDomain[g]; isEnum {
		f.Kind = "enum"
		for _, d := range dom {
			if fmt.Sprint(d) != fmt.Sprint(v) {
				f.Values = append(f.Values, mutValue{Class: fmt.Sprint(d), Value: d})
			}
		}
		if _, isInt := v.(int); isInt {
			f.Values = append(f.Values, mutValue{Class: "0", Value: 0}, mutValue{Class: "-1", Value: -1},
				mutValue{Class: "bound+1", Value: 3})
		} else {
			f.Values = append(f.Values, mutValue{Class: "bogus", Value: "bogus"}, mutValue{Class: "empty", Value: ""})
		}
		f.Values = append(f.Values, missing)
		return f, true
	}
	if idPaths[g] {
		f.Kind = "id"
		for _, other := range ids[g] {
			if other != fmt.Sprint(v) {
				f.Values = append(f.Values, mutValue{Class: "other:" + other, Value: other})
			}
		}
		f.Values = append(f.Values, mutValue{Class: "bogus", Value: "bogus_c20_id"}, mutValue{Class: "empty", Value: ""}, missing)
		return f, true
	}
	switch t := v.(type) {
	case int:
		if sizeKeys[g] {
			f.Kind = "size"
			f.Values = []mutValue{{Class: "-1", Value: -1}, {Class: "1", Value: "1B"}, {Class: "large", Value: "1MB"},
				{Class: "bound", Value: 2147483647}, {Class: "bound+1", Value: 2147483648}, {Class: "round+", Value: "2GB"}, missing}
			if t != 0 {
				f.Values = append(f.Values, mutValue{Class: "0", Value: 0})
			}
			return f, true
		}
		f.Kind = "int"
		f.Values = []mutValue{{Class: "0", Value: 0}, {Class: "-1", Value: -1}, {Class: "1", Value: 1},
			{Class: "large", Value: largeInt}, missing}
		switch {
		case last == "subnet_key_len" && strings.Contains(g, "ipv4"):
			f.Values = append(f.Values, mutValue{Class: "bound", Value: 32}, mutValue{Class: "bound+1", Value: 33})
		case last == "subnet_key_len" && strings.Contains(g, "ipv6"):
			f.Values = append(f.Values, mutValue{Class: "bound", Value: 128}, mutValue{Class: "bound+1", Value: 129})
		case strings.HasSuffix(last, "_port"):
			f.Values = append(f.Values, mutValue{Class: "bound", Value: 65535}, mutValue{Class: "bound+1", Value: 65536})
		}
		// Count-like properties that size a per-request or per-connection
		// allocation also get a truly huge value (no real allocation can
		// succeed; the question is whether it is rejected or panics).
		switch g {
		case "ratelimit.ipv4.count", "ratelimit.ipv6.count", "ratelimit.tcp.max_pipeline_count",
			"interface_listeners.channel_buffer_size":
			f.Values = append(f.Values, mutValue{Class: "2^62", Value: 1 << 62})
		}
		// drop values equal to the base
		f.Values = dropBase(f.Values, v)
		return f, true
	case string:
		switch {
		case reDuration.MatchString(t):
			f.Kind = "duration"
			f.Values = []mutValue{{Class: "0", Value: "0s"}, {Class: "-1", Value: "-1s"}, {Class: "1", Value: "1ns"},
				{Class: "large", Value: largeDuration}, {Class: "max", Value: maxDuration}, missing}
			if g == "check.kv.ttl" {
				// documented: consul 10s..1d, redis >= 1ms, backend > 0.
				f.Values = append(f.Values, mutValue{Class: "consul-min", Value: "10s"}, mutValue{Class: "consul-min-1", Value: "9999ms"},
					mutValue{Class: "consul-max", Value: "24h"}, mutValue{Class: "consul-max+1", Value: "24h0m0.001s"})
			}
			if g == "dns.tcp_idle_timeout" {
				// dnsserver.MaxTCPIdleTimeout = 65535 * 100ms (RFC 7828).
				f.Values = append(f.Values, mutValue{Class: "bound", Value: "6553500ms"}, mutValue{Class: "bound+1", Value: "6553501ms"},
					mutValue{Class: "bound-spelled", Value: "1h49m13.5s"}, mutValue{Class: "round+", Value: "1h50m"})
			}
			return f, true
		case reSize.MatchString(t):
			f.Kind = "size"
			f.Values = []mutValue{{Class: "0", Value: 0}, {Class: "-1", Value: -1}, {Class: "1", Value: "1B"},
				{Class: "large", Value: largeSize}, missing}
			if g == "dns.max_udp_response_size" {
				// dns.MaxMsgSize = 65535; 64KB = 65536 B is the round value just
				// above it.  4KB is a typical EDNS buffer size.
				f.Values = append(f.Values, mutValue{Class: "bound", Value: "65535B"}, mutValue{Class: "bound+1", Value: "65536B"},
					mutValue{Class: "round+", Value: "64KB"}, mutValue{Class: "4KB", Value: "4KB"}, mutValue{Class: "bound-1", Value: "65534B"})
			}
			return f, true
		}
	}
	return f, false
}

func dropBase(vs []mutValue, base interface{}) []mutValue {
	out := vs[:0:0]
	for _, v := range vs {
		if !v.Missing && fmt.Sprint(v.Value) == fmt.Sprint(base) {
			continue
		}
		out = append(out, v)
	}
	return out
}

// collectIDs gathers the existing values of the cross-referenced identifiers.
func collectIDs(root interface{}) map[string][]string {
	ids := map[string][]string{}
	seen := map[string]bool{}
	walkLeaves(root, nil, func(p cfgPath, v interface{}) {
		g := p.generic()
		if g == "filtering_groups[*].id" {
			s := fmt.Sprint(v)
			if !seen[s] {
				seen[s] = true
				ids["filtering_groups[*].id"] = append(ids["filtering_groups[*].id"], s)
				ids["server_groups[*].filtering_group"] = append(ids["server_groups[*].filtering_group"], s)
			}
		}
	})
	return ids
}

// catalogue lists every mutable field of the (localised) base configuration.
func catalogue(root interface{}) (fields []field, skipped []string) {
	ids := collectIDs(root)
	walkLeaves(root, nil, func(p cfgPath, v interface{}) {
		f, ok := classify(p, v, ids)
		if ok {
			fields = append(fields, f)
			return
		}
		switch v.(type) {
		case int, float64:
			skipped = append(skipped, p.String())
		}
	})
	return fields, skipped
}

// mutation is one (field, value) choice.
type mutation struct {
	Path  cfgPath
	Kind  string
	Value mutValue
}

func (m mutation) String() string {
	return m.Path.String() + "=" + m.Value.Class
}

func (m mutation) render() string {
	if m.Kind == "struct" || m.Kind == "list" || m.Kind == "fault" || m.Kind == "history" {
		return m.Path.String() + ": <" + m.Value.Class + ">"
	}
	if m.Value.Missing {
		return m.Path.String() + ": <removed>"
	}
	return m.Path.String() + ": " + fmt.Sprint(m.Value.Value)
}

func applyMutations(root interface{}, ms []mutation, freePort int) interface{} {
	out := root
	for _, m := range ms {
		if m.Kind == "struct" {
			out = structApply(out, m, freePort)
			continue
		}
		if m.Kind == "fault" || m.Kind == "history" {
			continue // environment / run history, not the file
		}
		if m.Kind == "list" && m.Value.Class == "list-one" {
			if cur, ok := treeGet(out, m.Path); ok {
				if l, isList := cur.([]interface{}); isList && len(l) > 0 {
					out = treeEdit(out, m.Path, []interface{}{deepCopy(l[0])}, false)
				}
			}
			continue
		}
		out = treeEdit(out, m.Path, m.Value.Value, m.Value.Missing)
	}
	return out
}

func caseKey(ms []mutation) string {
	parts := make([]string, len(ms))
	for i, m := range ms {
		parts[i] = m.String()
	}
	return strings.Join(parts, "+")
}

func atoiDefault(s string, d int) int {
	if n, err := strconv.Atoi(s); err == nil {
		return n
	}
	return d
}

// constraintPairs are the documented cross-field constraints
// (doc/configuration.md) whose value combinations are enumerated completely:
// cache type vs sizes, stop vs resume, KV type vs TTL bounds, DDR ports.
var constraintPairs = [][2]string{
	{"cache.type", "cache.ecs_size"},
	{"cache.type", "cache.size"},
	{"ratelimit.connection_limit.stop", "ratelimit.connection_limit.resume"},
	{"check.kv.type", "check.kv.ttl"},
	{"server_groups[*].ddr.public_records[*].https_port", "server_groups[*].ddr.public_records[*].tls_port"},
	{"server_groups[*].ddr.public_records[*].https_port", "server_groups[*].ddr.public_records[*].quic_port"},
}

func sameParent(a, b cfgPath) bool {
	if len(a) != len(b) {
		return false
	}
	for i := 0; i < len(a)-1; i++ {
		if a[i] != b[i] {
			return false
		}
	}
	return true
}

// constraintCases enumerates the value combinations of the constraint pairs.
// For an enum only its other documented values are used; ports are limited to
// {0, 1, bound}.
func constraintCases(fields []field) (out [][]mutation) {
	pick := func(f field) []mutValue {
		var vs []mutValue
		for _, v := range f.Values {
			switch {
			case f.Kind == "enum":
				for _, d := range enumDomain[f.Path.generic()] {
					if !v.Missing && fmt.Sprint(d) == fmt.Sprint(v.Value) {
						vs = append(vs, v)
					}
				}
			case strings.HasSuffix(f.Path.lastKey(), "_port"):
				if v.Class == "0" || v.Class == "1" || v.Class == "bound" {
					vs = append(vs, v)
				}
			default:
				vs = append(vs, v)
			}
		}
		return vs
	}
	for _, cp := range constraintPairs {
		for _, fa := range fields {
			if fa.Path.generic() != cp[0] {
				continue
			}
			for _, fb := range fields {
				if fb.Path.generic() != cp[1] || !sameParent(fa.Path, fb.Path) {
					continue
				}
				for _, va := range pick(fa) {
					for _, vb := range pick(fb) {
						out = append(out, []mutation{{Path: fa.Path, Kind: fa.Kind, Value: va}, {Path: fb.Path, Kind: fb.Kind, Value: vb}})
					}
				}
			}
			break
		}
	}
	return out
}

// documentedBound lists the properties that have an upper bound stated in the
// documentation or implied by the type of the quantity (address-family prefix
// length, 16-bit port, dns.MaxMsgSize, RFC 7828 idle timeout, 32-bit socket
// buffer size): the bound itself must be accepted, anything beyond rejected.
func documentedBound(p cfgPath) bool {
	g := p.generic()
	switch {
	case g == "ratelimit.ipv4.subnet_key_len", g == "ratelimit.ipv6.subnet_key_len",
		g == "dns.tcp_idle_timeout", g == "dns.max_udp_response_size",
		g == "network.so_sndbuf", g == "network.so_rcvbuf":
		return true
	}
	return strings.HasSuffix(p.lastKey(), "_port")
}

var reSizeValue = regexp.MustCompile(`^(\d+)\s*(B|KB|MB|GB|TB)?$`)

// sizeBytes interprets a size scalar as written in the YAML file.
func sizeBytes(v interface{}) (n int64, ok bool) {
	m := reSizeValue.FindStringSubmatch(strings.TrimSpace(fmt.Sprint(v)))
	if m == nil {
		return 0, false
	}
	x, err := strconv.ParseInt(m[1], 10, 64)
	if err != nil {
		return 0, false
	}
	mult := map[string]int64{"": 1, "B": 1, "KB": 1 << 10, "MB": 1 << 20, "GB": 1 << 30, "TB": 1 << 40}
	x *= mult[m[2]]
	return x, true
}

// sectionFields lists every mapping- or sequence-valued node of the base
// configuration at depth 1 and 2: the "missing section" operator removes each
// of them, or writes it as `key: null`.
func sectionFields(root interface{}) (out []field) {
	top, ok := root.(yaml.MapSlice)
	if !ok {
		return nil
	}
	isSection := func(v interface{}) bool {
		switch v.(type) {
		case yaml.MapSlice, []interface{}:
			return true
		}
		return false
	}
	vals := []mutValue{{Class: "section-missing", Missing: true}, {Class: "section-null", Value: nil}}
	for _, it := range top {
		if !isSection(it.Value) {
			continue
		}
		p1 := cfgPath{key(fmt.Sprint(it.Key))}
		out = append(out, field{Path: p1, Kind: "section", Values: vals})
		if m, isMap := it.Value.(yaml.MapSlice); isMap {
			for _, it2 := range m {
				if isSection(it2.Value) {
					out = append(out, field{Path: p1.child(key(fmt.Sprint(it2.Key))), Kind: "section", Values: vals})
				}
			}
		}
	}
	return out
}

// spellings returns the non-canonical spellings of one documented enum value:
// letter-case variants, surrounding spaces and near-miss spellings.
func spellings(d string) (out []mutValue) {
	add := func(class, v string) {
		if v != d && v != "" {
			out = append(out, mutValue{Class: class + ":" + d, Value: v})
		}
	}
	add("case-title", strings.ToUpper(d[:1])+d[1:])
	add("case-upper", strings.ToUpper(d))
	add("space", " "+d+" ")
	add("space-after", d+" ")
	add("typo-short", d[:len(d)-1])
	add("typo-long", d+d[len(d)-1:])
	return out
}

// enumSpellingFields is the spelling operator for the string-valued enums: one
// pseudo-field per enum property whose values are the non-canonical spellings
// of its documented values.  For the per-server protocol only the spellings of
// the server's own protocol are used.
func enumSpellingFields(fields []field) (out []field) {
	for _, f := range fields {
		if f.Kind != "enum" {
			continue
		}
		base, isStr := f.Base.(string)
		if !isStr {
			continue
		}
		sf := field{Path: f.Path, Kind: "enum", Base: f.Base}
		for _, d := range enumDomain[f.Path.generic()] {
			ds := fmt.Sprint(d)
			if f.Path.lastKey() == "protocol" && ds != base {
				continue
			}
			sf.Values = append(sf.Values, spellings(ds)...)
		}
		out = append(out, sf)
	}
	return out
}

// enumDependentCases combines every spelling of an enum with the zero / missing
// (and, for the KV TTL, just-out-of-range) values of the properties whose
// constraints depend on it (constraintPairs).
func enumDependentCases(spell, fields []field) (out [][]mutation) {
	for _, cp := range constraintPairs {
		for _, sf := range spell {
			if sf.Path.generic() != cp[0] {
				continue
			}
			for _, fb := range fields {
				if fb.Path.generic() != cp[1] || !sameParent(sf.Path, fb.Path) {
					continue
				}
				for _, va := range sf.Values {
					for _, vb := range fb.Values {
						switch vb.Class {
						case "0", "-1", "missing", "consul-min-1", "consul-max+1":
							out = append(out, []mutation{{Path: sf.Path, Kind: sf.Kind, Value: va}, {Path: fb.Path, Kind: fb.Kind, Value: vb}})
						}
					}
				}
			}
		}
	}
	return out
}

// ---- structural operator on server groups ------------------------------------------

// structVariants: which servers a group keeps and what happens to its tls
// section.
var structVariants = []struct {
	Class string
	Keep  []string
	TLS   string // removed | null
}{
	{"plain-only-tls-removed", []string{"dns"}, "removed"},
	{"plain-only-tls-null", []string{"dns"}, "null"},
	{"dnscrypt-only-tls-removed", []string{"dnscrypt"}, "removed"},
	{"plain-and-dnscrypt-tls-removed", []string{"dns", "dnscrypt"}, "removed"},
}

// structuralFields lists the structural cases: every existing group reduced
// (the others untouched), an added group in each reduced form (the base groups
// keep their TLS servers), and every group including an added one reduced to
// plain DNS without any tls section.
func structuralFields(root interface{}) (out []field) {
	groups, _ := treeGet(root, cfgPath{key("server_groups")})
	gl, _ := groups.([]interface{})
	mk := func(p cfgPath, prefix string) field {
		f := field{Path: p, Kind: "struct"}
		for _, v := range structVariants {
			f.Values = append(f.Values, mutValue{Class: "struct:" + prefix + v.Class})
		}
		return f
	}
	for gi := range gl {
		out = append(out, mk(cfgPath{key("server_groups"), idx(gi)}, ""))
	}
	out = append(out, mk(cfgPath{key("server_groups"), idx(len(gl))}, "added-group-"))
	out = append(out, field{Path: cfgPath{key("server_groups")}, Kind: "struct", Values: []mutValue{
		{Class: "struct:all-groups-plain-only-tls-removed"},
		{Class: "struct:all-groups-and-added-group-plain-only-tls-removed"},
	}})
	return out
}

// reduceGroup keeps only the servers with the given protocols and removes or
// nulls the tls section.
func reduceGroup(g yaml.MapSlice, keep []string, tlsMode string) yaml.MapSlice {
	g = deepCopy(g).(yaml.MapSlice)
	srvs, _ := mapGet(g, "servers")
	var kept []interface{}
	for _, sv := range srvs.([]interface{}) {
		p, _ := mapGet(sv.(yaml.MapSlice), "protocol")
		for _, k := range keep {
			if fmt.Sprint(p) == k {
				kept = append(kept, sv)
			}
		}
	}
	g = mapSet(g, "servers", kept)
	if tlsMode == "null" {
		g = mapSet(g, "tls", nil)
	} else {
		g = mapDel(g, "tls")
	}
	return g
}

// addedGroup is a copy of the first group under new names, with its plain-DNS
// and DNSCrypt servers on fresh ports (the TLS servers are dropped by every
// variant anyway).
func addedGroup(g yaml.MapSlice, freePort int) yaml.MapSlice {
	g = deepCopy(g).(yaml.MapSlice)
	g = mapSet(g, "name", "c20_added_group")
	srvs, _ := mapGet(g, "servers")
	var out []interface{}
	for _, sv := range srvs.([]interface{}) {
		m := sv.(yaml.MapSlice)
		p, _ := mapGet(m, "protocol")
		if ps := fmt.Sprint(p); ps != "dns" && ps != "dnscrypt" {
			continue
		}
		n, _ := mapGet(m, "name")
		m = mapSet(m, "name", fmt.Sprint(n)+"_added")
		ba, _ := mapGet(m, "bind_addresses")
		var addrs []interface{}
		port := freePort
		freePort++
		for _, a := range ba.([]interface{}) {
			as := fmt.Sprint(a)
			addrs = append(addrs, fmt.Sprintf("%s:%d", as[:strings.LastIndex(as, ":")], port))
		}
		m = mapSet(m, "bind_addresses", addrs)
		out = append(out, m)
	}
	return mapSet(g, "servers", out)
}

func structApply(root interface{}, m mutation, freePort int) interface{} {
	top := deepCopy(root).(yaml.MapSlice)
	groups, _ := mapGet(top, "server_groups")
	gl, _ := groups.([]interface{})
	if len(gl) == 0 {
		return top
	}
	cls := strings.TrimPrefix(m.Value.Class, "struct:")
	variant := func(name string) (keep []string, tlsMode string) {
		for _, v := range structVariants {
			if v.Class == name {
				return v.Keep, v.TLS
			}
		}
		return []string{"dns"}, "removed"
	}
	switch {
	case cls == "all-groups-plain-only-tls-removed", cls == "all-groups-and-added-group-plain-only-tls-removed":
		if strings.Contains(cls, "added") {
			gl = append(gl, addedGroup(gl[0].(yaml.MapSlice), freePort))
		}
		for i := range gl {
			gl[i] = reduceGroup(gl[i].(yaml.MapSlice), []string{"dns"}, "removed")
		}
	case strings.HasPrefix(cls, "added-group-"):
		keep, tlsMode := variant(strings.TrimPrefix(cls, "added-group-"))
		gl = append(gl, reduceGroup(addedGroup(gl[0].(yaml.MapSlice), freePort), keep, tlsMode))
	default:
		keep, tlsMode := variant(cls)
		gi := m.Path[len(m.Path)-1].Idx
		if gi < len(gl) {
			gl[gi] = reduceGroup(gl[gi].(yaml.MapSlice), keep, tlsMode)
		}
	}
	return mapSet(top, "server_groups", gl)
}

// ---- list operator -------------------------------------------------------------------------

// walkLists calls f for every sequence node of the tree.
func walkLists(v interface{}, p cfgPath, f func(p cfgPath, l []interface{})) {
	switch t := v.(type) {
	case yaml.MapSlice:
		for _, it := range t {
			walkLists(it.Value, p.child(key(fmt.Sprint(it.Key))), f)
		}
	case []interface{}:
		f(p, t)
		for i, it := range t {
			walkLists(it, p.child(idx(i)), f)
		}
	}
}

// listFields is the list operator: every list-valued property emptied,
// removed, or cut to its first element.  (Removal of the lists at depth 1 and 2
// is already covered by the section operator.)
func listFields(root interface{}) (out []field) {
	walkLists(root, nil, func(p cfgPath, l []interface{}) {
		f := field{Path: p, Kind: "list"}
		f.Values = append(f.Values, mutValue{Class: "list-empty", Value: []interface{}{}})
		if len(p) > 2 {
			f.Values = append(f.Values, mutValue{Class: "list-removed", Missing: true})
		}
		if len(l) > 1 {
			f.Values = append(f.Values, mutValue{Class: "list-one"})
		}
		out = append(out, f)
	})
	return out
}

// listAllCases applies one list operation to every occurrence of the same
// property at once (all bind lists, all certificate lists, the session keys of
// every group, ...).  Only occurrences that do not contain one another are
// combined.
func listAllCases(lists []field) (out [][]mutation) {
	byGeneric := map[string][]field{}
	var order []string
	for _, f := range lists {
		g := f.Path.generic()
		if len(byGeneric[g]) == 0 {
			order = append(order, g)
		}
		byGeneric[g] = append(byGeneric[g], f)
	}
	for _, g := range order {
		fs := byGeneric[g]
		for _, cls := range []string{"list-empty", "list-removed", "list-one"} {
			var ms []mutation
			for _, f := range fs {
				for _, v := range f.Values {
					if v.Class == cls {
						ms = append(ms, mutation{Path: f.Path, Kind: f.Kind, Value: v})
					}
				}
			}
			// A single occurrence is the single case; but the property that is
			// shared by all server groups is always listed, so that "every
			// group at once" is exercised even with one group.
			if len(ms) >= 2 || (len(ms) == 1 && strings.HasPrefix(g, "server_groups[*].tls.")) {
				out = append(out, ms)
			}
		}
	}
	return out
}

// ---- backend matrix ----------------------------------------------------------------------------

// kvFault returns the fault mode of the key-value backend in ms.
func kvFault(ms []mutation) string {
	for _, m := range ms {
		if m.Kind == "fault" {
			return m.Value.Class
		}
	}
	return ""
}

// backendMatrixCases enumerates profiles on/off x check.kv.type x
// ratelimit.allowlist.type, and for the backend key-value store the fault
// modes of its endpoint (healthy, unreachable, always answering an error).
func backendMatrixCases(root interface{}) (out [][]mutation) {
	var profPaths []cfgPath
	walkLeaves(root, nil, func(p cfgPath, v interface{}) {
		if p.generic() == "server_groups[*].profiles_enabled" {
			profPaths = append(profPaths, p)
		}
	})
	kvPath := cfgPath{key("check"), key("kv"), key("type")}
	alPath := cfgPath{key("ratelimit"), key("allowlist"), key("type")}
	baseKV, _ := treeGet(root, kvPath)
	baseAL, _ := treeGet(root, alPath)
	envPath := cfgPath{key("env"), key("DNSCHECK_REMOTEKV_URL")}
	for _, prof := range []bool{true, false} {
		for _, kvT := range enumDomain["check.kv.type"] {
			for _, alT := range enumDomain["ratelimit.allowlist.type"] {
				faults := []string{""}
				if fmt.Sprint(kvT) == "backend" {
					faults = []string{"", "unreachable", "always-error"}
				}
				for _, fault := range faults {
					var ms []mutation
					if !prof {
						for _, p := range profPaths {
							ms = append(ms, mutation{Path: p, Kind: "bool", Value: mutValue{Class: "false", Value: false}})
						}
					}
					if fmt.Sprint(kvT) != fmt.Sprint(baseKV) {
						ms = append(ms, mutation{Path: kvPath, Kind: "enum", Value: mutValue{Class: fmt.Sprint(kvT), Value: kvT}})
					}
					if fmt.Sprint(alT) != fmt.Sprint(baseAL) {
						ms = append(ms, mutation{Path: alPath, Kind: "enum", Value: mutValue{Class: fmt.Sprint(alT), Value: alT}})
					}
					if fault != "" {
						ms = append(ms, mutation{Path: envPath, Kind: "fault", Value: mutValue{Class: fault}})
					}
					if len(ms) > 0 {
						out = append(out, ms)
					}
				}
			}
		}
	}
	return out
}

// ---- restart from the profile cache ----------------------------------------------------------

// restartCases: the base file, and the base with another accepted response size
// estimate, run with the history "start, full profile sync, stop, start again
// on the same profile cache".
func restartCases(fields []field) (out [][]mutation) {
	hist := mutation{Path: cfgPath{key("run"), key("history")}, Kind: "history", Value: mutValue{Class: "restart-from-profile-cache"}}
	out = append(out, []mutation{hist})
	for _, f := range fields {
		if f.Path.generic() != "ratelimit.response_size_estimate" {
			continue
		}
		for _, v := range f.Values {
			// Not 1B: with a one-byte estimate every response counts as dozens
			// of requests and the profile's own limit drops the script's
			// queries by design.
			if v.Class == "large" {
				out = append(out, []mutation{{Path: f.Path, Kind: f.Kind, Value: v}, hist})
			}
		}
	}
	return out
}

func restartHistory(ms []mutation) bool {
	for _, m := range ms {
		if m.Kind == "history" {
			return true
		}
	}
	return false
}

// ---- address of the wrong family ----------------------------------------------------------

// addrFamilyFields: the first element of every per-family address list (DDR
// hints, DNS-check answers) replaced by an address of the other family.
// Address-typed fields are outside the property's quantifier; the operator is
// cheap and the DDR query of the script observes the effect.
func addrFamilyFields(root interface{}) (out []field) {
	walkLists(root, nil, func(p cfgPath, l []interface{}) {
		if len(l) == 0 {
			return
		}
		var v string
		switch k := p.lastKey(); {
		case k == "ipv4_hints", p.generic() == "check.ipv4":
			v = "2001:db8::20"
		case k == "ipv6_hints", p.generic() == "check.ipv6":
			v = "192.0.2.20"
		default:
			return
		}
		out = append(out, field{Path: p.child(idx(0)), Kind: "addr", Values: []mutValue{{Class: "wrong-family", Value: v}}})
	})
	return out
}
