package c20

import (
	"encoding/json"
	"fmt"
	"os"
	"path/filepath"
	"strings"
	"sync"
	"testing"
	"time"

	"github.com/AdguardTeam/AdGuardDNS/verif/vkit"
	"github.com/miekg/dns"
)

// Health-check back-off as configured in the file, observed on the real binary
// (property C17; run by harness/c17 as a child `go test`, which owns the
// oracle and the evidence).
//
// History driven per configuration (upstream.healthcheck.interval 1 s,
// backoff_duration B):
//
//  1. one client query, answered (which stub answered is recorded);
//  2. the two MAIN stub upstreams stop answering anything; the script waits
//     until one of them has swallowed a probe (a name that does not carry
//     the script's label; the probes of one round share one deadline, so the
//     second upstream may fail its probe without a packet) and for 2.5 s more
//     (probe timeout 1 s), then sends 3 client queries: that they are
//     answered without a main stub seeing them shows that BOTH main
//     upstreams are out of rotation;
//  3. the main stubs answer again; for 6 s one client query every 300 ms; the
//     stubs record which of them saw each name.
//
// What is recorded is WHO RECEIVED each labelled client query; judging it
// against B is the caller's business.

const hcLabel = "c17hc"

type hcGate struct {
	mu         sync.Mutex
	mains      map[string]int // listen address -> index
	down       bool
	probesDown map[int]int
	seenBy     map[string]map[int]bool // lower-case client name -> main indexes that received it
	probesUp   int
}

// observe is called for every query at every stub; it reports whether the
// query must be dropped.
func (g *hcGate) observe(local, name string) (drop bool) {
	g.mu.Lock()
	defer g.mu.Unlock()
	i, isMain := g.mains[local]
	if !isMain {
		return false
	}
	name = strings.ToLower(name)
	if strings.Contains(name, "."+hcLabel+".") {
		if g.seenBy[name] == nil {
			g.seenBy[name] = map[int]bool{}
		}
		g.seenBy[name][i] = true
	} else if g.down {
		g.probesDown[i]++
	} else {
		g.probesUp++
	}
	return g.down
}

func (g *hcGate) set(down bool) { g.mu.Lock(); g.down = down; g.mu.Unlock() }

func (g *hcGate) probes() (a, b int) {
	g.mu.Lock()
	defer g.mu.Unlock()
	return g.probesDown[0], g.probesDown[1]
}

func (g *hcGate) mainSaw(name string) bool {
	g.mu.Lock()
	defer g.mu.Unlock()
	return len(g.seenBy[strings.ToLower(name)]) > 0
}

type hcQuery struct {
	Name      string `json:"name"`
	AtMS      int64  `json:"sent_ms_after_recovery"`
	Answered  bool   `json:"answered"`
	MainSawIt bool   `json:"received_by_a_main_upstream"`
}

type hcCase struct {
	BackoffS     int       `json:"backoff_duration_s"`
	IntervalS    int       `json:"interval_s"`
	Verdict      string    `json:"process_verdict"`
	Class        string    `json:"process_class,omitempty"`
	FirstByMain  bool      `json:"first_query_received_by_main"`
	ProbesDown   [2]int    `json:"probes_swallowed_by_main_stubs_while_down"`
	DownAnswered int       `json:"queries_answered_while_main_down_after_failed_probes"`
	DownMainSaw  int       `json:"of_these_received_by_a_main_upstream"`
	After        []hcQuery `json:"queries_after_recovery"`
	Note         string    `json:"note,omitempty"`
	ElapsedMS    int64     `json:"script_ms"`
}

func TestBinaryHealthcheck(t *testing.T) {
	outPath := os.Getenv("C20_HC_OUT")
	if outPath == "" {
		t.Skip("run by harness/c17")
	}
	type report struct {
		Error string   `json:"error,omitempty"`
		Cases []hcCase `json:"cases"`
	}
	rep := report{}
	defer func() {
		b, _ := json.MarshalIndent(rep, "", " ")
		_ = os.WriteFile(outPath, b, 0o644)
	}()
	r := vkit.Start(t, "C17-binary", "exploration") // never finished: no evidence of its own
	scratch := filepath.Join(filepath.Dir(outPath), "c17bin")
	_ = os.MkdirAll(scratch, 0o755)
	defer os.RemoveAll(scratch)
	bin, out, err := buildBinary(scratch)
	if err != nil {
		rep.Error = "the binary of the tree under test does not build: " + err.Error() + "\n" + tail(string(out), 1500)
		return
	}
	dist, err := loadDist()
	if err != nil {
		rep.Error = "config.dist.yaml unreadable: " + err.Error()
		return
	}
	inline := distInline(dist)
	fx, err := newFixtures(filepath.Join(scratch, "shared"), inline)
	if err != nil {
		rep.Error = "fixtures: " + err.Error()
		return
	}
	defer fx.close()
	h := &harness{r: r, bin: bin, scratch: scratch, fx: fx, dist: dist, ports: newPortAlloc(),
		provider: fmt.Sprint(inline["provider_name"]), providerPK: fmt.Sprint(inline["public_key"])}
	if h.baseLoc, err = localise(dist, fx, 1); err != nil {
		rep.Error = "localise: " + err.Error()
		return
	}

	for ci, backoff := range []int{60, 1} {
		gate := &hcGate{mains: map[string]int{fx.upstreams[0]: 0, fx.upstreams[1]: 1}, probesDown: map[int]int{}, seenBy: map[string]map[int]bool{}}
		fx.hc = gate
		hc := hcCase{BackoffS: backoff, IntervalS: 1}
		h.script = func(_ interface{}, servers []liveServer, tag string, hopeless func() bool) interface{} {
			t0 := time.Now()
			defer func() { hc.ElapsedMS = time.Since(t0).Milliseconds() }()
			addr := ""
			for _, s := range servers {
				for _, a := range s.Addrs {
					if s.Proto == "dns" && !strings.HasPrefix(a, "[") && addr == "" {
						addr = a
					}
				}
			}
			if addr == "" {
				hc.Note = "no plain-DNS IPv4 address"
				return nil
			}
			n := 0
			ask := func(phase string) (name string, answered bool) {
				n++
				name = fmt.Sprintf("%s%d-%d.%s.%s.example.", phase, ci, n, tag, hcLabel)
				resp, _ := udpOne(srcAllowlisted, addr, query{name, dns.TypeA, 0}, 8*time.Second)
				return name, resp != nil && resp.Rcode == dns.RcodeSuccess
			}
			name, ok := ask("first")
			hc.FirstByMain = ok && gate.mainSaw(name)
			gate.set(true)
			deadline := time.Now().Add(15 * time.Second)
			for time.Now().Before(deadline) && !hopeless() {
				if a, b := gate.probes(); a+b > 0 {
					break
				}
				time.Sleep(50 * time.Millisecond)
			}
			a, b := gate.probes()
			hc.ProbesDown = [2]int{a, b}
			if a+b == 0 {
				hc.Note = "no main stub received a probe while down"
				gate.set(false)
				return nil
			}
			time.Sleep(2500 * time.Millisecond)
			for i := 0; i < 3 && !hopeless(); i++ {
				nm, answered := ask("down")
				if answered {
					hc.DownAnswered++
				}
				if gate.mainSaw(nm) {
					hc.DownMainSaw++
				}
			}
			gate.set(false)
			tUp := time.Now()
			for time.Since(tUp) < 6*time.Second && !hopeless() {
				at := time.Since(tUp).Milliseconds()
				nm, answered := ask("up")
				hc.After = append(hc.After, hcQuery{Name: nm, AtMS: at, Answered: answered, MainSawIt: gate.mainSaw(nm)})
				time.Sleep(300 * time.Millisecond)
			}
			return nil
		}
		ms := []mutation{
			{Path: cfgPath{key("upstream"), key("healthcheck"), key("interval")}, Kind: "duration", Value: mutValue{Class: "1s", Value: "1s"}},
			{Path: cfgPath{key("upstream"), key("healthcheck"), key("backoff_duration")}, Kind: "duration", Value: mutValue{Class: fmt.Sprint(backoff, "s"), Value: fmt.Sprintf("%ds", backoff)}},
		}
		o := h.runOnce(ms, "hc")
		hc.Verdict, hc.Class = o.Verdict, o.Class
		rep.Cases = append(rep.Cases, hc)
	}
}
