package c20

import (
	"encoding/json"
	"fmt"
	"os"
	"path/filepath"
	"strings"
	"sync"
	"testing"
	"time"

	"github.com/AdguardTeam/AdGuardDNS/verif/vkit"
	"github.com/miekg/dns"
)

// Pipeline limit as configured in the file, observed on the real binary
// (property C18; run by harness/c18 as a child `go test`, which owns the
// oracle and the evidence).
//
// Observation point: the stub upstreams.  One client connection writes a
// burst of B queries with distinct, never cached names under one label; the
// stub holds every such query and records how many DISTINCT names of that
// label it holds at the same time.  Every held name is a query of that one
// connection inside the server's handler, so
//
//	peak distinct names held at once <= queries of the connection processed at once.
//
// The stub releases a label at once when it has seen more names than the
// announced limit (the evidence is complete), otherwise after holdFor.
//
// The inequality needs the server to wait for every held query: a handler that
// gives up (dns.handle_timeout, which starts BEFORE the pipeline slot is
// acquired, or an upstream timeout) frees its slot while the stub still holds
// the name.  The script therefore raises dns.handle_timeout to 30 s and every
// upstream timeout to 10 s; a whole burst takes ceil(B/n) x holdFor < 4 s.

const (
	pipeLabel   = "c18pipe"
	pipeHoldFor = 500 * time.Millisecond
)

type pipeGate struct {
	mu     sync.Mutex
	labels map[string]*pipeLabelState
}

type pipeLabelState struct {
	limit    int
	held     map[string]struct{}
	peak     int
	seen     map[string]struct{}
	released chan struct{}
	closed   bool
}

// announce registers the label of one burst before it is sent.
func (g *pipeGate) announce(label string, limit int) {
	g.mu.Lock()
	defer g.mu.Unlock()
	g.labels[label] = &pipeLabelState{limit: limit, held: map[string]struct{}{}, seen: map[string]struct{}{}, released: make(chan struct{})}
}

func (g *pipeGate) result(label string) (peak, seen int) {
	g.mu.Lock()
	defer g.mu.Unlock()
	if st := g.labels[label]; st != nil {
		return st.peak, len(st.seen)
	}
	return 0, 0
}

// pipeLabelOf returns the burst label of a name like
// "q7.<label>.c18pipe.example.".
func pipeLabelOf(name string) (string, bool) {
	parts := strings.Split(strings.ToLower(name), ".")
	for i := 1; i < len(parts); i++ {
		if parts[i] == pipeLabel {
			return parts[i-1], true
		}
	}
	return "", false
}

func (g *pipeGate) hold(name string) {
	label, ok := pipeLabelOf(name)
	if !ok {
		return
	}
	name = strings.ToLower(name)
	g.mu.Lock()
	st := g.labels[label]
	if st == nil {
		g.mu.Unlock()
		return
	}
	if _, dup := st.held[name]; dup {
		// A second copy of a name that is already held (a retry over another
		// network): it is the same query of the connection.
		ch := st.released
		g.mu.Unlock()
		select {
		case <-ch:
		case <-time.After(pipeHoldFor):
		}
		return
	}
	st.held[name] = struct{}{}
	st.seen[name] = struct{}{}
	if len(st.held) > st.peak {
		st.peak = len(st.held)
	}
	if len(st.held) > st.limit && !st.closed {
		st.closed = true
		close(st.released)
	}
	ch := st.released
	g.mu.Unlock()
	select {
	case <-ch:
	case <-time.After(pipeHoldFor):
	}
	g.mu.Lock()
	delete(st.held, name)
	g.mu.Unlock()
}

// pipeObs is what one burst showed.
type pipeObs struct {
	Server   string `json:"server"`
	Proto    string `json:"proto"`
	Addr     string `json:"addr"`
	Burst    int    `json:"burst"`
	Answered int    `json:"answered"`
	Peak     int    `json:"peak_distinct_queries_held_by_upstream"`
	Seen     int    `json:"distinct_queries_seen_by_upstream"`
	Err      string `json:"transport_error,omitempty"`
	MS       int64  `json:"elapsed_ms"`
}

// pipeCase is one configuration of the matrix with its observations.
type pipeCase struct {
	TCPEnabled  bool      `json:"ratelimit_tcp_enabled"`
	QUICEnabled bool      `json:"ratelimit_quic_enabled"`
	Limit       int       `json:"ratelimit_tcp_max_pipeline_count"`
	Verdict     string    `json:"process_verdict"`
	Class       string    `json:"process_class,omitempty"`
	What        string    `json:"process_what,omitempty"`
	Bursts      []pipeObs `json:"bursts"`
	Config      string    `json:"configuration_file,omitempty"`
}

func TestBinaryPipeline(t *testing.T) {
	outPath := os.Getenv("C20_PIPE_OUT")
	if outPath == "" {
		t.Skip("run by harness/c18")
	}
	type report struct {
		Error string     `json:"error,omitempty"`
		Cases []pipeCase `json:"cases"`
	}
	rep := report{}
	defer func() {
		b, _ := json.MarshalIndent(rep, "", " ")
		_ = os.WriteFile(outPath, b, 0o644)
	}()

	r := vkit.Start(t, "C18-binary", "exploration") // never finished: no evidence of its own
	scratch := filepath.Join(filepath.Dir(outPath), "c18bin")
	_ = os.MkdirAll(scratch, 0o755)
	defer os.RemoveAll(scratch)
	bin, out, err := buildBinary(scratch)
	if err != nil {
		rep.Error = "the binary of the tree under test does not build: " + err.Error() + "\n" + tail(string(out), 1500)
		return
	}
	dist, err := loadDist()
	if err != nil {
		rep.Error = "config.dist.yaml unreadable: " + err.Error()
		return
	}
	inline := distInline(dist)
	fx, err := newFixtures(filepath.Join(scratch, "shared"), inline)
	if err != nil {
		rep.Error = "fixtures: " + err.Error()
		return
	}
	defer fx.close()
	gate := &pipeGate{labels: map[string]*pipeLabelState{}}
	fx.pipe = gate
	h := &harness{r: r, bin: bin, scratch: scratch, fx: fx, dist: dist, ports: newPortAlloc(),
		provider: fmt.Sprint(inline["provider_name"]), providerPK: fmt.Sprint(inline["public_key"])}
	if h.baseLoc, err = localise(dist, fx, 1); err != nil {
		rep.Error = "localise: " + err.Error()
		return
	}

	limits := []int{2}
	if r.Thorough() {
		limits = []int{1, 2, 5}
	}
	flags := [][2]bool{{true, true}, {true, false}, {false, true}, {false, false}}
	seq := 0
	for _, limit := range limits {
		for _, fl := range flags {
			limit, fl := limit, fl
			pc := pipeCase{TCPEnabled: fl[0], QUICEnabled: fl[1], Limit: limit}
			h.script = func(_ interface{}, servers []liveServer, tag string, hopeless func() bool) interface{} {
				var obs []pipeObs
				for _, s := range servers {
					if s.Proto != "dns" && s.Proto != "tls" {
						continue
					}
					for _, addr := range s.Addrs {
						if hopeless() {
							return obs
						}
						is6 := strings.HasPrefix(addr, "[")
						src := srcAllowlisted
						if is6 {
							if s.Proto == "dns" {
								continue
							}
							src = srcLimited6
						}
						seq++
						label := fmt.Sprintf("b%d%s", seq, tag)
						burst := limit + 6
						gate.announce(label, limit)
						var qs []query
						for i := 0; i < burst; i++ {
							qs = append(qs, query{fmt.Sprintf("q%d.%s.%s.example.", i, label, pipeLabel), dns.TypeA, 0})
						}
						var ex exchanger
						if s.Proto == "tls" {
							ex = streamExchanger(src, addr, clientTLS())
						} else {
							ex = streamExchanger(src, addr, nil)
						}
						tb := time.Now()
						answered, _, xerr := ex(qs, 15*time.Second)
						o := pipeObs{Server: s.Name, Proto: s.Proto, Addr: addr, Burst: burst, MS: time.Since(tb).Milliseconds()}
						for _, a := range answered {
							if a {
								o.Answered++
							}
						}
						if xerr != nil {
							o.Err = xerr.Error()
						}
						o.Peak, o.Seen = gate.result(label)
						obs = append(obs, o)
					}
				}
				return obs
			}
			ms := []mutation{
				{Path: cfgPath{key("ratelimit"), key("tcp"), key("enabled")}, Kind: "bool", Value: mutValue{Class: fmt.Sprint(fl[0]), Value: fl[0]}},
				{Path: cfgPath{key("ratelimit"), key("quic"), key("enabled")}, Kind: "bool", Value: mutValue{Class: fmt.Sprint(fl[1]), Value: fl[1]}},
				{Path: cfgPath{key("ratelimit"), key("tcp"), key("max_pipeline_count")}, Kind: "int", Value: mutValue{Class: fmt.Sprint(limit), Value: limit}},
			}
			ms = append(ms, mutation{Path: cfgPath{key("dns"), key("handle_timeout")}, Kind: "duration", Value: mutValue{Class: "30s", Value: "30s"}})
			for _, p := range []cfgPath{
				{key("upstream"), key("servers"), idx(0), key("timeout")},
				{key("upstream"), key("servers"), idx(1), key("timeout")},
				{key("upstream"), key("fallback"), key("servers"), idx(0), key("timeout")},
				{key("upstream"), key("fallback"), key("servers"), idx(1), key("timeout")},
			} {
				ms = append(ms, mutation{Path: p, Kind: "duration", Value: mutValue{Class: "10s", Value: "10s"}})
			}
			o := h.runOnce(ms, "pipe")
			pc.Config = o.Config
			pc.Verdict, pc.Class, pc.What = o.Verdict, o.Class, o.What
			if l, ok := o.Custom.([]pipeObs); ok {
				pc.Bursts = l
			}
			rep.Cases = append(rep.Cases, pc)
		}
	}
}
