package c20

import (
	"bufio"
	"crypto/tls"
	"encoding/base64"
	"encoding/binary"
	"fmt"
	"io"
	"net"
	"net/http"
	"strings"
	"sync"
	"time"

	"github.com/miekg/dns"
	"gopkg.in/yaml.v2"
)

// Connection-limit serviceability script.
//
// Reference model, written from doc/configuration.md ("Stream connection
// limit" and the note in "Recommended values"): all stream listeners share one
// count of active connections; a socket that is in the process of accepting
// counts as active; when the count reaches `stop` no listener accepts until
// the count has fallen to `resume` or below, and then accepting starts again
// (for every listener) until `stop` is reached.
//
//	L = stream listeners under the limiter (plain-DNS TCP, DoT, DoH over TCP
//	    and DNSCrypt TCP, one per bind address),
//	K = those the script can talk to (all but DNSCrypt).
//
// With stop >= L every listener holds one slot at start (count = L).  The first
// stop-L+K connections opened round-robin over the K listeners are therefore all
// accepted (count = stop, the K listeners now wait, the L-K DNSCrypt listeners
// keep their slots).  One more connection per listener then sits in the kernel
// backlog.  Closing established connections one at a time until
// keep = resume-(L-K) of them are left brings the count to `resume`: accepting
// resumes with F = stop-resume free slots.  A listener that gets a slot accepts
// its backlog connection (which keeps the slot, the script leaves it open) and
// goes back to accepting, which takes a second slot; so in the worst order
// every served listener uses two slots and at least G = min(K, ceil(F/2))
// distinct listeners must accept their backlog connection and answer its
// query.  The connections that stay open guarantee that no later close changes
// the count.

type limitParams struct {
	Enabled      bool
	Stop, Resume int
	L, K         int
}

// limiterParams reads the thresholds and the listeners from the file under
// test.
func limiterParams(tree interface{}, servers []liveServer) (lp limitParams) {
	get := func(k string) interface{} {
		v, _ := treeGet(tree, cfgPath{key("ratelimit"), key("connection_limit"), key(k)})
		return v
	}
	if b, ok := get("enabled").(bool); ok {
		lp.Enabled = b
	}
	if n, ok := get("stop").(int); ok {
		lp.Stop = n
	}
	if n, ok := get("resume").(int); ok {
		lp.Resume = n
	}
	for _, s := range servers {
		switch s.Proto {
		case "dns", "tls", "https":
			lp.L += len(s.Addrs)
			lp.K += len(s.Addrs)
		case "dnscrypt":
			lp.L += len(s.Addrs)
		}
	}
	return lp
}

// streamsOptional: the thresholds are at or below what the documentation calls
// the minimum ("resume should be greater than the number of bound addresses"):
// once the count has reached `stop` it can only fall to the number of
// listening sockets, which is above `resume`, so a listener may stay parked by
// design.  The ordinary stream groups are then not required; the dedicated
// script, which controls the count itself, is the oracle.
func (lp limitParams) streamsOptional() bool {
	return lp.Enabled && lp.Stop <= lp.L+3 && lp.Resume < lp.L
}

// applicable: the reference model gives a guarantee.
func (lp limitParams) applicable() (keep, guaranteed int, ok bool) {
	if !lp.Enabled || lp.K < 2 || lp.Stop < lp.L || lp.Stop > 4*lp.L+4 || lp.Resume > lp.Stop {
		return 0, 0, false
	}
	keep = lp.Resume - (lp.L - lp.K)
	fill := lp.Stop - lp.L + lp.K
	if keep < 0 || keep > fill {
		return 0, 0, false
	}
	guaranteed = (lp.Stop - lp.Resume + 1) / 2
	if guaranteed > lp.K {
		guaranteed = lp.K
	}
	return keep, guaranteed, guaranteed >= 1
}

type limitConn struct {
	listener int
	c        net.Conn
	answered chan struct{}
	mu       sync.Mutex
	err      error
}

func (lc *limitConn) isAnswered() bool {
	select {
	case <-lc.answered:
		return true
	default:
		return false
	}
}

func (lc *limitConn) waitAnswered(d time.Duration) bool {
	select {
	case <-lc.answered:
		return true
	case <-time.After(d):
		return false
	}
}

type limitListenerInfo struct {
	Name  string
	Proto string
	Addr  string
}

// openLimitConn connects (the TCP handshake is completed by the kernel even
// when the server does not accept) and, in the background, sends one query
// and waits for its answer.  The connection stays open until closed by the
// script.
func openLimitConn(idx int, li limitListenerInfo, qname string) (*limitConn, error) {
	src := srcAllowlisted
	if strings.HasPrefix(li.Addr, "[") {
		src = srcLimited6
	}
	d := net.Dialer{LocalAddr: localAddr("tcp", src), Timeout: dialWait}
	c, err := d.Dial("tcp", li.Addr)
	if err != nil {
		return nil, err
	}
	lc := &limitConn{listener: idx, c: c, answered: make(chan struct{})}
	go func() {
		fail := func(e error) {
			lc.mu.Lock()
			lc.err = e
			lc.mu.Unlock()
		}
		_ = c.SetDeadline(time.Now().Add(60 * time.Second))
		m := newQuery(qname, dns.TypeA)
		var rw io.ReadWriter = c
		if li.Proto != "dns" {
			protos := []string(nil)
			if li.Proto == "https" {
				protos = []string{"http/1.1"}
			}
			tc := tls.Client(c, clientTLS(protos...))
			if herr := tc.Handshake(); herr != nil {
				fail(herr)
				return
			}
			rw = tc
		}
		if li.Proto == "https" {
			m.Id = 0
			b, _ := m.Pack()
			req := "GET /dns-query?dns=" + base64.RawURLEncoding.EncodeToString(b) + " HTTP/1.1\r\nHost: " + tlsSNI +
				"\r\nAccept: application/dns-message\r\n\r\n"
			if _, werr := io.WriteString(rw, req); werr != nil {
				fail(werr)
				return
			}
			resp, rerr := http.ReadResponse(bufio.NewReader(rw), nil)
			if rerr != nil {
				fail(rerr)
				return
			}
			body, _ := io.ReadAll(resp.Body)
			_ = resp.Body.Close()
			r := new(dns.Msg)
			if resp.StatusCode != http.StatusOK || r.Unpack(body) != nil {
				fail(fmt.Errorf("doh status %d", resp.StatusCode))
				return
			}
			close(lc.answered)
			return
		}
		b, _ := m.Pack()
		buf := make([]byte, 2+len(b))
		binary.BigEndian.PutUint16(buf, uint16(len(b)))
		copy(buf[2:], b)
		if _, werr := rw.Write(buf); werr != nil {
			fail(werr)
			return
		}
		var l uint16
		if rerr := binary.Read(rw, binary.BigEndian, &l); rerr != nil {
			fail(rerr)
			return
		}
		rb := make([]byte, l)
		if _, rerr := io.ReadFull(rw, rb); rerr != nil {
			fail(rerr)
			return
		}
		r := new(dns.Msg)
		if r.Unpack(rb) != nil || r.Id != m.Id {
			fail(fmt.Errorf("bad response"))
			return
		}
		close(lc.answered)
	}()
	return lc, nil
}

// limitResult is the observation of the script.
type limitResult struct {
	Ran        bool     `json:"ran"`
	Stop       int      `json:"stop"`
	Resume     int      `json:"resume"`
	L          int      `json:"stream_listeners"`
	K          int      `json:"listeners_used"`
	Fill       int      `json:"connections_established"`
	FillLost   []string `json:"fill_unanswered,omitempty"`
	EarlyServe []string `json:"backlog_answered_before_any_close,omitempty"`
	Kept       int      `json:"kept_open"`
	Closed     int      `json:"closed"`
	Guaranteed int      `json:"listeners_guaranteed"`
	Served     []string `json:"listeners_served_after_resume"`
	Starved    []string `json:"listeners_starved"`
	Violation  string   `json:"violation,omitempty"`
	Ambiguous  string   `json:"ambiguous,omitempty"`
	MS         int64    `json:"ms"`
}

// runConnLimitScript must run against a freshly started process, before any
// other stream connection is made.
func runConnLimitScript(servers []liveServer, lp limitParams, tag string, hopeless func() bool) (res limitResult) {
	keep, guaranteed, ok := lp.applicable()
	res = limitResult{Stop: lp.Stop, Resume: lp.Resume, L: lp.L, K: lp.K, Kept: keep, Guaranteed: guaranteed}
	if !ok {
		return res
	}
	res.Ran = true
	t0 := time.Now()
	defer func() { res.MS = time.Since(t0).Milliseconds() }()
	var lis []limitListenerInfo
	for _, s := range servers {
		if s.Proto == "dns" || s.Proto == "tls" || s.Proto == "https" {
			for _, a := range s.Addrs {
				lis = append(lis, limitListenerInfo{Name: s.Name + "@" + a[:strings.LastIndex(a, ":")], Proto: s.Proto, Addr: a})
			}
		}
	}
	var all []*limitConn
	defer func() {
		for _, c := range all {
			_ = c.c.Close()
		}
	}()
	n := 0
	open := func(i int) *limitConn {
		n++
		c, err := openLimitConn(i, lis[i], fmt.Sprintf("cl%d.%s.c20.example.", n, tag))
		if err != nil {
			res.Ambiguous = "dial " + lis[i].Name + ": " + err.Error()
			return nil
		}
		all = append(all, c)
		return c
	}
	// 1. Fill: stop-L+K connections, round-robin; the model says all accepted.
	fill := lp.Stop - lp.L + lp.K
	var established []*limitConn
	for j := 0; j < fill; j++ {
		c := open(j % len(lis))
		if c == nil {
			return res
		}
		if !c.waitAnswered(firstWait) && !(hopeless() || c.waitAnswered(retryWait)) {
			res.FillLost = append(res.FillLost, lis[c.listener].Name)
			res.Violation = "listener-starved-below-stop"
			return res
		}
		established = append(established, c)
	}
	res.Fill = len(established)
	// 2. One more connection per listener: the count is at stop, they wait in
	// the backlog.
	var pending []*limitConn
	for i := range lis {
		c := open(i)
		if c == nil {
			return res
		}
		pending = append(pending, c)
	}
	time.Sleep(150 * time.Millisecond)
	for _, c := range pending {
		if c.isAnswered() {
			res.EarlyServe = append(res.EarlyServe, lis[c.listener].Name)
		}
	}
	if len(res.EarlyServe) > 0 {
		// The limiter let more than `stop` connections in; the model does not
		// describe what follows.
		res.Violation = "accepted-above-stop"
		return res
	}
	// 3. Close one at a time until `keep` are left: the count falls to resume.
	for len(established) > keep {
		c := established[len(established)-1]
		established = established[:len(established)-1]
		_ = c.c.Close()
		res.Closed++
		time.Sleep(40 * time.Millisecond)
	}
	// 4. At least `guaranteed` listeners must now serve their backlog
	// connection.
	served := func() (names, starved []string) {
		for _, c := range pending {
			if c.isAnswered() {
				names = append(names, lis[c.listener].Name)
			} else {
				starved = append(starved, lis[c.listener].Name)
			}
		}
		return names, starved
	}
	deadline := time.Now().Add(firstWait + retryWait)
	for time.Now().Before(deadline) {
		if s, _ := served(); len(s) >= guaranteed {
			break
		}
		if hopeless() {
			break
		}
		time.Sleep(25 * time.Millisecond)
	}
	res.Served, res.Starved = served()
	if len(res.Served) < guaranteed {
		res.Violation = "listener-starved-below-resume"
	}
	return res
}

// connLimitCases are the dedicated threshold pairs: the small values asked
// for, and values derived from the number of listeners of the base file so
// that the model's guarantee covers every listener (stop-resume >= K) as well
// as only some of them.
func connLimitCases(base interface{}, servers []liveServer) (out [][]mutation) {
	lp := limiterParams(base, servers)
	L, K := lp.L, lp.K
	type pair struct{ stop, resume int }
	var pairs []pair
	seen := map[pair]bool{}
	add := func(s, r int) {
		p := pair{s, r}
		if s < 2 || r < 0 || r > s || seen[p] {
			return
		}
		seen[p] = true
		pairs = append(pairs, p)
	}
	for _, s := range []int{3, 4, 6} {
		for _, r := range []int{0, 1, s - 2} {
			add(s, r)
		}
	}
	add(L, L-K)       // every slot freed at once, all K listeners must resume
	add(L, L-K+2)     // only two slots
	add(L+2, L-K+1)   // some extra connections first
	add(L+2, L)       // stop-resume = 2
	add(2*L, L)       // resume at the documented minimum
	add(2*L, 2*L-2)   // narrow hysteresis
	add(2*L+1, L+1)   // recommended shape: resume above the number of listeners
	add(2*L+1, 2*L-1) // the same, narrow
	add(L+2*K, L-K)   // stop-resume >= 2K: every listener is guaranteed
	add(2*L+2*K, L+1) // the same with resume above the number of listeners
	stopPath := cfgPath{key("ratelimit"), key("connection_limit"), key("stop")}
	resumePath := cfgPath{key("ratelimit"), key("connection_limit"), key("resume")}
	for _, p := range pairs {
		out = append(out, []mutation{
			{Path: stopPath, Kind: "int", Value: mutValue{Class: fmt.Sprint(p.stop), Value: p.stop}},
			{Path: resumePath, Kind: "int", Value: mutValue{Class: fmt.Sprint(p.resume), Value: p.resume}},
		})
	}
	return out
}

var _ = yaml.MapSlice{}
