// Package c20 monitors property C20: a configuration that passes validation
// cannot make request handling fail.
//
// The real binary is built from the tree under test and run as a child process
// with mutated copies of config.dist.yaml in a hermetic loopback environment;
// the oracle looks only at the process boundary: exit status, output, sockets.
package c20

import (
	"encoding/json"
	"fmt"
	"net"
	"os"
	"os/exec"
	"path/filepath"
	"regexp"
	"runtime"
	"sort"
	"strconv"
	"strings"
	"sync"
	"syscall"
	"testing"
	"time"

	"github.com/AdguardTeam/AdGuardDNS/verif/vkit"
	"github.com/miekg/dns"
	"gopkg.in/yaml.v2"
)

// ---- one child run ------------------------------------------------------------------

type harness struct {
	r       *vkit.Run
	bin     string
	scratch string
	fx      *fixtures
	dist    yaml.MapSlice
	ports   *portAlloc
	baseLoc *localised // localised with port base 0, for catalogue / paths only
	seq     struct {
		sync.Mutex
		n int
	}
	provider, providerPK string

	// script, when set, replaces the connection-limit script and the traffic
	// script of an accepted configuration (pipebin_test.go).
	script func(tree interface{}, servers []liveServer, tag string, hopeless func() bool) interface{}
}

// observation is what one execution of one configuration showed.
type observation struct {
	Verdict       string        `json:"verdict"` // rejected | accepted | violation | ambiguous
	Class         string        `json:"class,omitempty"`
	What          string        `json:"what,omitempty"`
	Exit          int           `json:"exit_code"`
	Signal        string        `json:"signal,omitempty"`
	Message       string        `json:"message,omitempty"`
	NamedBy       string        `json:"named_by,omitempty"`
	Groups        []groupResult `json:"groups,omitempty"`
	BadLines      []string      `json:"bad_output_lines,omitempty"`
	Queries       int           `json:"queries"`
	Answered      int           `json:"answered"`
	Probes        []string      `json:"size_probes,omitempty"`
	FaultDNSCheck int           `json:"dnscheck_queries_under_failing_backend,omitempty"`
	DDRProbes     int           `json:"ddr_probes,omitempty"`
	Restart       *restartInfo  `json:"restart,omitempty"`
	ConnLimit     *limitResult  `json:"connection_limit_script,omitempty"`
	Custom        interface{}   `json:"custom_script,omitempty"`
	StartMS       int64         `json:"start_ms"`
	TrafficMS     int64         `json:"traffic_ms"`
	StopMS        int64         `json:"stop_ms"`
	Config        string        `json:"-"`
	Output        string        `json:"-"`
	PortRetry     int           `json:"port_retries,omitempty"`
}

const (
	startupWatchdog  = 120 * time.Second
	shutdownWatchdog = 60 * time.Second
)

var (
	reBadLine    = regexp.MustCompile(`(?i)panic|recovered|runtime error|nil pointer|fatal error|SIGSEGV`)
	reRuntimeErr = regexp.MustCompile(`(?i)runtime error|nil pointer dereference|SIGSEGV|fatal error:|signal SIG|unexpected signal`)
	reCheckFrame = regexp.MustCompile(`golibs/errors\.(Check|Must)[\[(]`)
	reYAMLLine   = regexp.MustCompile(`line (\d+):`)
	reCollision  = regexp.MustCompile(`address already in use`)
	reNoSpace    = regexp.MustCompile(`no space left on device`)
)

// outSink receives the child's stdout+stderr.  It scans every line as it
// arrives and keeps only the head and the tail of the stream, so that a child
// that logs without bound (refresh loops under 1ns intervals) cannot exhaust
// memory or disk.
type outSink struct {
	mu        sync.Mutex
	head      []byte
	tail      []byte
	total     int64
	line      []byte
	bad       []string
	collision bool
}

const (
	sinkHead = 96 << 10
	sinkTail = 96 << 10
)

func (o *outSink) Write(p []byte) (int, error) {
	o.mu.Lock()
	defer o.mu.Unlock()
	o.total += int64(len(p))
	if room := sinkHead - len(o.head); room > 0 {
		n := len(p)
		if n > room {
			n = room
		}
		o.head = append(o.head, p[:n]...)
		o.keepTail(p[n:])
	} else {
		o.keepTail(p)
	}
	for _, c := range p {
		if c != '\n' {
			if len(o.line) < 2048 {
				o.line = append(o.line, c)
			}
			continue
		}
		o.scanLine()
	}
	return len(p), nil
}

func (o *outSink) keepTail(p []byte) {
	if len(p) == 0 {
		return
	}
	o.tail = append(o.tail, p...)
	if len(o.tail) > 2*sinkTail {
		o.tail = append(o.tail[:0], o.tail[len(o.tail)-sinkTail:]...)
	}
}

func (o *outSink) scanLine() {
	l := o.line
	o.line = o.line[:0]
	if reBadLine.Match(l) && len(o.bad) < 8 {
		o.bad = append(o.bad, tail(string(l), 400))
	}
	if !o.collision && reCollision.Match(l) {
		o.collision = true
	}
}

// snapshot returns the kept output and the scan results.
func (o *outSink) snapshot() (out string, bad []string, collision bool) {
	o.mu.Lock()
	defer o.mu.Unlock()
	if len(o.line) > 0 {
		o.scanLine()
	}
	t := o.tail
	if len(t) > sinkTail {
		t = t[len(t)-sinkTail:]
	}
	out = string(o.head)
	if len(t) > 0 {
		if o.total > int64(len(o.head)+len(t)) {
			out += fmt.Sprintf("\n… [%d bytes of output dropped] …\n", o.total-int64(len(o.head)+len(t)))
		}
		out += string(t)
	}
	return out, append([]string(nil), o.bad...), o.collision
}

func (o *outSink) hasBad() bool {
	o.mu.Lock()
	defer o.mu.Unlock()
	return len(o.bad) > 0
}

func (h *harness) nextDir(tag string) (string, int) {
	h.seq.Lock()
	h.seq.n++
	n := h.seq.n
	h.seq.Unlock()
	d := filepath.Join(h.scratch, fmt.Sprintf("run-%05d-%s", n, tag))
	_ = os.MkdirAll(d, 0o755)
	return d, n
}

func tail(s string, n int) string {
	if len(s) <= n {
		return s
	}
	return "…" + s[len(s)-n:]
}

// liveServers reads the servers of the (mutated) configuration tree.
func liveServers(tree interface{}, _ *localised) []liveServer {
	var out []liveServer
	groups, _ := treeGet(tree, cfgPath{key("server_groups")})
	gl, _ := groups.([]interface{})
	for _, g := range gl {
		gm, ok := g.(yaml.MapSlice)
		if !ok {
			continue
		}
		srvs, _ := mapGet(gm, "servers")
		sl, _ := srvs.([]interface{})
		for _, sv := range sl {
			m, isMap := sv.(yaml.MapSlice)
			if !isMap {
				continue
			}
			n, _ := mapGet(m, "name")
			p, _ := mapGet(m, "protocol")
			ls := liveServer{Name: fmt.Sprint(n), Proto: fmt.Sprint(p)}
			if ba, has := mapGet(m, "bind_addresses"); has {
				if l, isList := ba.([]interface{}); isList {
					for _, a := range l {
						ls.Addrs = append(ls.Addrs, fmt.Sprint(a))
					}
				}
			}
			out = append(out, ls)
		}
	}
	return out
}

func rateTouched(ms []mutation) bool {
	for _, m := range ms {
		g := m.Path.generic()
		if strings.HasPrefix(g, "ratelimit.ipv4.") || strings.HasPrefix(g, "ratelimit.ipv6.") ||
			strings.HasPrefix(g, "ratelimit.backoff_") || g == "ratelimit.response_size_estimate" {
			return true
		}
	}
	return false
}

// ddrExpected: the first server group has DDR enabled and public records, so
// (doc/configuration.md) DDR queries of unrecognised clients are processed and
// answered from those records.
func ddrExpected(tree interface{}) bool {
	en, _ := treeGet(tree, cfgPath{key("server_groups"), idx(0), key("ddr"), key("enabled")})
	pr, _ := treeGet(tree, cfgPath{key("server_groups"), idx(0), key("ddr"), key("public_records")})
	m, isMap := pr.(yaml.MapSlice)
	if b, ok := en.(bool); !ok || !b || !isMap || len(m) == 0 {
		return false
	}
	// every record must keep at least one port
	for _, it := range m {
		rec, ok := it.Value.(yaml.MapSlice)
		if !ok {
			return false
		}
		ports := 0
		for _, k := range []string{"https_port", "tls_port", "quic_port"} {
			if v, has := mapGet(rec, k); has {
				if n, isInt := v.(int); isInt && n > 0 {
					ports++
				}
			}
		}
		if ports == 0 {
			return false
		}
	}
	return true
}

// backendMatrix: the case belongs to the backend matrix (it mutates the
// profiles switch, or has a fault of the key-value backend).
func backendMatrix(ms []mutation) bool {
	for _, m := range ms {
		if m.Kind == "bool" || m.Kind == "fault" {
			return true
		}
	}
	return false
}

// timeTouched: a duration was set to one nanosecond.  Operations bounded by it
// time out by design, so answers are not required (crashes still count).
func timeTouched(ms []mutation) bool {
	for _, m := range ms {
		if m.Kind == "duration" && m.Value.Class == "1" {
			return true
		}
	}
	return false
}

// bufTouched: a socket buffer size was mutated; the kernel may then drop large
// datagrams, which is the configured effect.
func bufTouched(ms []mutation) bool {
	for _, m := range ms {
		if g := m.Path.generic(); g == "network.so_sndbuf" || g == "network.so_rcvbuf" {
			return true
		}
	}
	return false
}

// connTouched: the stream-connection limit was set to 0 or 1.  The
// documentation states that listening sockets count as active connections and
// that the thresholds should exceed the number of bound addresses, so stream
// transports may legitimately stall.
func connTouched(ms []mutation) bool {
	for _, m := range ms {
		g := m.Path.generic()
		if (g == "ratelimit.connection_limit.stop" || g == "ratelimit.connection_limit.resume") &&
			(m.Value.Class == "0" || m.Value.Class == "1") {
			return true
		}
	}
	return false
}

// boundExpectation adds the expectation for single mutations of a property with
// a documented upper bound: the bound itself is a legal value and must be
// accepted; a value beyond it must be rejected.
func boundExpectation(o *observation, ms []mutation) {
	if len(ms) != 1 || !documentedBound(ms[0].Path) {
		return
	}
	switch cls := ms[0].Value.Class; {
	case (cls == "bound" || cls == "bound-spelled" || cls == "bound-1") && o.Verdict == "rejected" && o.Class == "":
		o.Verdict, o.Class = "violation", "documented-bound-rejected"
		o.What = "the documented maximum itself was rejected: " + tail(o.Message, 200)
	case (cls == "bound+1" || cls == "round+") && o.Verdict == "accepted":
		o.Verdict, o.Class = "violation", "beyond-documented-bound-accepted"
		o.What = "a value beyond the documented maximum was accepted and served"
	}
}

// restartInfo is what was observed around the restart.
type restartInfo struct {
	CacheFileBytes     int64  `json:"profile_cache_bytes_before_restart"`
	FirstLifeAnswered  bool   `json:"device_query_answered_in_first_life"`
	DeviceLoggedBefore int    `json:"device_queries_logged_in_first_life"`
	DeviceQueriesAfter int    `json:"device_queries_sent_after_restart"`
	DeviceLoggedAfter  int    `json:"device_queries_logged_after_restart"`
	FirstLifeExit      int    `json:"first_life_exit_code"`
	Note               string `json:"note,omitempty"`
}

// countQueryLog counts the query-log records that carry the device ID, i.e. the
// queries for which the device was recognised.
func countQueryLog(path, deviceID string) int {
	b, err := os.ReadFile(path)
	if err != nil {
		return 0
	}
	return strings.Count(string(b), `"i":"`+deviceID+`"`)
}

// firstLife runs the process once up to the point where the profile cache
// exists and stops it.  stop is true when the observation is already decided
// (the first life itself failed).
func (h *harness) firstLife(obs *observation, dir string, loc *localised, ms []mutation) (stop bool) {
	ri := &restartInfo{}
	obs.Restart = ri
	sink := &outSink{}
	cmd := exec.Command(h.bin)
	cmd.Dir = dir
	cmd.Env = childEnv(h.fx, dir, loc.DebugPort, ms)
	cmd.Stdout, cmd.Stderr = sink, sink
	if err := cmd.Start(); err != nil {
		obs.Verdict, obs.Class, obs.What = "ambiguous", "exec", err.Error()
		return true
	}
	done := make(chan struct{})
	go func() { _ = cmd.Wait(); close(done) }()
	exited := func() bool {
		select {
		case <-done:
			return true
		default:
			return false
		}
	}
	t0 := time.Now()
	dbg := "127.0.0.1:" + strconv.Itoa(loc.DebugPort)
	ready := false
	for !ready && !exited() && time.Since(t0) < startupWatchdog {
		if c, err := net.DialTimeout("tcp4", dbg, 200*time.Millisecond); err == nil {
			_ = c.Close()
			ready = true
			break
		}
		time.Sleep(15 * time.Millisecond)
	}
	fail := func(class, what string) bool {
		if !exited() {
			_ = cmd.Process.Kill()
			<-done
		}
		out, bad, collision := sink.snapshot()
		obs.Output, obs.BadLines = out, bad
		if collision {
			obs.Verdict, obs.Class, obs.What = "ambiguous", "first-life-port-collision", what
			return true
		}
		obs.Verdict, obs.Class, obs.What = "ambiguous", class, what
		return true
	}
	if !ready {
		return fail("first-life-not-started", "the first start did not reach the listening state")
	}
	// The cache file is written by the initial (full) synchronisation.
	cache := filepath.Join(dir, "profilecache.pb")
	for time.Since(t0) < 20*time.Second {
		if fi, err := os.Stat(cache); err == nil && fi.Size() > 0 {
			ri.CacheFileBytes = fi.Size()
			break
		}
		time.Sleep(25 * time.Millisecond)
	}
	if ri.CacheFileBytes == 0 {
		return fail("first-life-no-profile-cache", "no profile cache file after the first start")
	}
	var addr string
	for _, s := range liveServers(applyMutations(loc.Tree, ms, 0), loc) {
		if s.Proto == "dns" && len(s.Addrs) > 0 {
			addr = s.Addrs[0]
			break
		}
	}
	if addr != "" {
		resp, _ := udpOne(srcProfileDev, addr, query{"first-life.c20.example.", dns.TypeA, 0}, firstWait)
		ri.FirstLifeAnswered = resp != nil
	}
	_ = cmd.Process.Signal(syscall.SIGTERM)
	select {
	case <-done:
	case <-time.After(shutdownWatchdog):
		return fail("first-life-shutdown-watchdog", "the first life did not stop")
	}
	ri.FirstLifeExit = cmd.ProcessState.ExitCode()
	ri.DeviceLoggedBefore = countQueryLog(filepath.Join(dir, "querylog.jsonl"), stubDeviceID)
	out, bad, _ := sink.snapshot()
	if len(bad) > 0 || ri.FirstLifeExit != 0 {
		// A panic or unclean exit already in the first life is a violation of
		// the ordinary kind.
		obs.Output, obs.BadLines, obs.Exit = out, bad, ri.FirstLifeExit
		obs.Verdict, obs.Class = "violation", "request-panic"
		obs.What = "panic / recovered line or non-zero exit in the first life of a restart case"
		if len(bad) == 0 {
			obs.Class = "unclean-exit"
		}
		return true
	}
	return false
}

// runOnce executes the configuration obtained from the base by ms.
func (h *harness) runOnce(ms []mutation, tag string) (obs *observation) {
	obs = &observation{}
	for attempt := 0; attempt < 4; attempt++ {
		o, collided := h.attempt(ms, tag)
		o.PortRetry = attempt
		if !collided {
			boundExpectation(o, ms)
			if o.Verdict != "accepted" && reNoSpace.MatchString(o.Output) {
				// The machine ran out of disk; nothing can be concluded.
				o.Verdict, o.Class, o.What = "ambiguous", "disk-full", "no space left on device in the child's output"
			}
			return o
		}
		obs = o
		h.r.Bucket("port_collision_retries", 1)
	}
	obs.Verdict, obs.Class, obs.What = "ambiguous", "port-collisions", "four attempts in a row hit a busy port"
	return obs
}

func (h *harness) attempt(ms []mutation, tag string) (obs *observation, collided bool) {
	obs = &observation{}
	base := h.ports.block()
	if base == 0 {
		obs.Verdict, obs.Class = "ambiguous", "no-free-ports"
		return obs, false
	}
	loc, err := localise(h.dist, h.fx, base)
	if err != nil {
		obs.Verdict, obs.Class, obs.What = "ambiguous", "localise", err.Error()
		return obs, false
	}
	tree := applyMutations(loc.Tree, ms, base+loc.PortsUsed)
	cfg, err := yaml.Marshal(tree)
	if err != nil {
		obs.Verdict, obs.Class, obs.What = "ambiguous", "marshal", err.Error()
		return obs, false
	}
	obs.Config = string(cfg)
	dir, n := h.nextDir(tag)
	defer func() {
		if os.Getenv("C20_KEEP") == "" {
			_ = os.RemoveAll(dir)
		}
	}()
	if err = writeFile(filepath.Join(dir, "config.yaml"), cfg); err != nil {
		obs.Verdict, obs.Class, obs.What = "ambiguous", "write", err.Error()
		return obs, false
	}
	if restartHistory(ms) {
		// First life of the process: start, let the full profile
		// synchronisation write the cache file, answer one query of the
		// profile's device, stop.  The observed run below is the second life,
		// on the same cache and query-log paths.
		if stop := h.firstLife(obs, dir, loc, ms); stop {
			return obs, false
		}
	}
	sink := &outSink{}
	cmd := exec.Command(h.bin)
	cmd.Dir = dir
	cmd.Env = childEnv(h.fx, dir, loc.DebugPort, ms)
	cmd.Stdout, cmd.Stderr = sink, sink
	t0 := time.Now()
	if err = cmd.Start(); err != nil {
		obs.Verdict, obs.Class, obs.What = "ambiguous", "exec", err.Error()
		return obs, false
	}
	done := make(chan struct{})
	var waitErr error
	go func() { waitErr = cmd.Wait(); close(done) }()
	exited := func() bool {
		select {
		case <-done:
			return true
		default:
			return false
		}
	}
	collision := false
	finish := func() {
		obs.Output, obs.BadLines, collision = sink.snapshot()
		if os.Getenv("C20_KEEP") != "" {
			_ = writeFile(filepath.Join(dir, "out.log"), []byte(obs.Output))
		}
		obs.Exit = cmd.ProcessState.ExitCode()
		if ws, ok := cmd.ProcessState.Sys().(syscall.WaitStatus); ok && ws.Signaled() {
			obs.Signal = ws.Signal().String()
		}
		_ = waitErr
	}

	// Wait until the process listens on its debug port (started last) or exits.
	ready := false
	dbg := "127.0.0.1:" + strconv.Itoa(loc.DebugPort)
	for !ready && !exited() {
		if time.Since(t0) > startupWatchdog {
			_ = cmd.Process.Kill()
			<-done
			finish()
			obs.Verdict, obs.Class, obs.What = "ambiguous", "startup-watchdog", "neither listening nor exited"
			return obs, false
		}
		c, derr := net.DialTimeout("tcp4", dbg, 200*time.Millisecond)
		if derr == nil {
			_ = c.Close()
			ready = true
			break
		}
		select {
		case <-done:
		case <-time.After(15 * time.Millisecond):
		}
	}
	obs.StartMS = time.Since(t0).Milliseconds()
	if !ready {
		<-done
		finish()
		if collision {
			return obs, true
		}
		h.classifyEarlyExit(obs, ms)
		return obs, false
	}

	// Accepted: the process serves.  Run the script.
	sp := scriptParams{
		Tag:          fmt.Sprintf("r%d", n),
		RateTouched:  rateTouched(ms),
		ProviderName: h.provider,
		ProviderPK:   h.providerPK,
	}
	if v, ok := treeGet(tree, cfgPath{key("check"), key("kv"), key("type")}); ok && fmt.Sprint(v) == "cache" {
		sp.DNSCheckOK = true
	}
	sp.DDRExpected = ddrExpected(tree)
	sp.ProfileDev = restartHistory(ms)
	sp.KVFault = kvFault(ms)
	sp.DNSCheckAll = backendMatrix(ms)
	tTraffic := time.Now()
	if v, ok := treeGet(tree, cfgPath{key("dns"), key("max_udp_response_size")}); ok {
		sp.CfgUDPSize, _ = sizeBytes(v)
	}
	sp.SizeProbe = !timeTouched(ms) && !bufTouched(ms)
	sp.TimeTouched = timeTouched(ms)
	servers := liveServers(tree, loc)
	lp := limiterParams(tree, servers)
	sp.ConnTouched = connTouched(ms) || lp.streamsOptional()
	// hopeless: the process died or printed a panic; waiting for more answers
	// cannot change the verdict.
	hopeless := func() bool { return exited() || sink.hasBad() }
	if h.script != nil {
		obs.Custom = h.script(tree, servers, sp.Tag, hopeless)
	} else if _, _, applies := lp.applicable(); applies && !sp.TimeTouched {
		// Let every listener reach its first Accept before the count matters.
		time.Sleep(100 * time.Millisecond)
		cl := runConnLimitScript(servers, lp, sp.Tag, hopeless)
		obs.ConnLimit = &cl
		time.Sleep(100 * time.Millisecond)
	}
	if h.script == nil && (obs.ConnLimit == nil || obs.ConnLimit.Violation == "") {
		obs.Groups, obs.Queries = runTraffic(servers, sp, hopeless)
	}
	obs.TrafficMS = time.Since(tTraffic).Milliseconds()
	tStop := time.Now()
	defer func() { obs.StopMS = time.Since(tStop).Milliseconds() }()
	for _, g := range obs.Groups {
		obs.Answered += g.Answered
		if g.Group == "dnscheck-failing-backend" {
			obs.FaultDNSCheck += g.Sent
		}
		if g.Group == "ddr" && g.Answered > 0 {
			obs.DDRProbes++
			continue
		}
		if g.Probe != "" && g.Require == "all" {
			obs.Probes = append(obs.Probes, g.Probe)
		}
	}
	diedDuringTraffic := exited()
	termTimedOut := false
	if !diedDuringTraffic {
		_ = cmd.Process.Signal(syscall.SIGTERM)
		select {
		case <-done:
		case <-time.After(shutdownWatchdog):
			termTimedOut = true
			_ = cmd.Process.Signal(syscall.SIGQUIT)
			select {
			case <-done:
			case <-time.After(10 * time.Second):
				_ = cmd.Process.Kill()
				<-done
			}
		}
	}
	finish()
	if collision {
		return obs, true
	}
	if obs.Restart != nil {
		obs.Restart.DeviceLoggedAfter = countQueryLog(filepath.Join(dir, "querylog.jsonl"), stubDeviceID) - obs.Restart.DeviceLoggedBefore
		for _, g := range obs.Groups {
			if g.Client == "profile-device" {
				obs.Restart.DeviceQueriesAfter += g.Sent
			}
		}
	}
	h.classifyAccepted(obs, diedDuringTraffic, termTimedOut, sp.TimeTouched)
	return obs, false
}

// panicMessage extracts the text of the terminating panic, or the last lines.
func panicMessage(out string) (msg string, hasTrace bool) {
	i := strings.Index("\n"+out, "\npanic: ")
	if i < 0 {
		lines := strings.Split(strings.TrimSpace(out), "\n")
		if len(lines) > 12 {
			lines = lines[len(lines)-12:]
		}
		return strings.Join(lines, "\n"), strings.Contains(out, "\ngoroutine ")
	}
	rest := out[i:]
	if j := strings.Index(rest, "\ngoroutine "); j >= 0 {
		return strings.TrimSpace(rest[:j]), true
	}
	return strings.TrimSpace(rest), false
}

func isWordChar(c byte) bool {
	return (c >= 'a' && c <= 'z') || (c >= '0' && c <= '9') || c == '_'
}

// participants lists, per property, the other properties of a documented
// cross-field constraint (doc/configuration.md); a rejection may name any of
// them.
var participants = map[string][]string{
	"stop":          {"resume"},
	"resume":        {"stop"},
	"type":          {"ecs_size", "ttl"},
	"ecs_size":      {"type"},
	"ttl":           {"type"},
	"https_port":    {"tls_port", "doh_path", "ports"},
	"tls_port":      {"https_port", "ports"},
	"quic_port":     {"ports"},
	"id":            {"filtering_group"},
	"ids":           {"rule_lists", "filter list id"},
	"protocol":      {"dnscrypt", "tls", "bind_interfaces"},
	"server_groups": {"tls", "servers", "dnscrypt"},
	// documented: the tls object is required iff a server of the group uses an
	// encrypted protocol.
	"servers": {"tls"},
}

// namesProperty reports whether the rejection message identifies one of the
// mutated properties.
func namesProperty(msg string, ms []mutation, cfg string) (how string, ok bool) {
	lm := strings.ToLower(msg)
	// hasWord: name appears as a whole token (also with '_' written as ' ').
	hasWord := func(name string) bool {
		for _, n := range []string{strings.ToLower(name), strings.ReplaceAll(strings.ToLower(name), "_", " ")} {
			for from := 0; ; {
				i := strings.Index(lm[from:], n)
				if i < 0 {
					break
				}
				i += from
				j := i + len(n)
				if (i == 0 || !isWordChar(lm[i-1])) && (j == len(lm) || !isWordChar(lm[j])) {
					return true
				}
				from = i + 1
			}
		}
		return false
	}
	for _, m := range ms {
		if k := m.Path.lastKey(); hasWord(k) {
			return "key:" + k, true
		}
	}
	for _, m := range ms {
		for _, p := range participants[m.Path.lastKey()] {
			if hasWord(p) {
				return "participant:" + p, true
			}
		}
		if m.Kind == "id" && !m.Value.Missing {
			if s := fmt.Sprint(m.Value.Value); s != "" && strings.Contains(msg, s) {
				return "value:" + s, true
			}
		}
	}
	// A parser error that gives the line of the property in the file.
	lines := strings.Split(cfg, "\n")
	for _, sm := range reYAMLLine.FindAllStringSubmatch(msg, -1) {
		n := atoiDefault(sm[1], 0)
		if n < 1 || n > len(lines) {
			continue
		}
		l := strings.TrimLeft(lines[n-1], " -")
		for _, m := range ms {
			if strings.HasPrefix(l, m.Path.lastKey()+":") {
				return "line:" + sm[1], true
			}
		}
	}
	return "", false
}

func (h *harness) classifyEarlyExit(obs *observation, ms []mutation) {
	msg, hasTrace := panicMessage(obs.Output)
	obs.Message = tail(msg, 1500)
	switch {
	case obs.Signal != "":
		obs.Verdict, obs.Class, obs.What = "violation", "startup-crash", "killed by signal "+obs.Signal+" during start-up"
	case obs.Exit == 0:
		obs.Verdict, obs.Class, obs.What = "violation", "startup-exit0", "exited with status 0 without serving"
	case reRuntimeErr.MatchString(obs.Output):
		obs.Verdict, obs.Class, obs.What = "violation", "startup-panic", "start-up ended in a Go runtime error instead of a configuration error"
	case hasTrace && !reCheckFrame.MatchString(obs.Output):
		obs.Verdict, obs.Class, obs.What = "violation", "startup-panic", "start-up panicked outside the configuration-error path (after validation passed)"
	default:
		how, ok := namesProperty(msg, ms, obs.Config)
		if ok && len(ms) > 0 {
			h.r.Bucket("rejection_paths_checked", 1)
			if wrong, sibling := pathContradicted(msg, ms, h.baseLoc.Tree); wrong {
				obs.Verdict, obs.Class = "violation", "rejected-misnamed"
				obs.What = "configuration rejected, but the reported path names the sibling section " + sibling + ", which is valid in the file"
				return
			}
		}
		if ok || len(ms) == 0 {
			obs.Verdict, obs.NamedBy = "rejected", how
			return
		}
		if isLimitEffect(msg, ms) {
			obs.Verdict, obs.Class = "rejected", "limit-effect"
			obs.NamedBy = "a start-up operation hit a tiny positive timeout / size limit and reported it"
			return
		}
		obs.Verdict, obs.Class, obs.What = "violation", "rejected-unnamed", "configuration rejected, but the message does not name the offending property"
	}
}

var (
	reIdentSeg = regexp.MustCompile(`^[a-z][a-z0-9_]*$`)
	reIndexSeg = regexp.MustCompile(`^at index (\d+)$`)
)

// pathContradicted compares the path that a rejection message gives (its
// colon-separated identifier segments, e.g. "ratelimit: ipv6: subnet_key_len:")
// with the path of the mutated property.  The message contradicts the path
// when, at the level reached so far, it names a key that exists in the base
// file next to the expected component but is a different one (a sibling
// section), or a different list index, and that key is not a documented
// cross-field participant.  With several mutations the message only has to be
// consistent with one of them.
func pathContradicted(msg string, ms []mutation, base interface{}) (wrong bool, sibling string) {
	line := strings.TrimPrefix(strings.SplitN(msg, "\n", 2)[0], "panic: ")
	line = strings.TrimSuffix(line, " [recovered]")
	var segs []string
	for _, sg := range strings.Split(line, ": ") {
		segs = append(segs, strings.TrimSpace(sg))
	}
	for _, m := range ms {
		if m.Kind == "fault" || m.Kind == "history" {
			continue
		}
		bad := contradicts(segs, m, base)
		if bad == "" {
			return false, ""
		}
		sibling = bad
	}
	return sibling != "", sibling
}

func contradicts(segs []string, m mutation, base interface{}) (sibling string) {
	p := m.Path
	pos := 0 // next expected component
	allowed := map[string]bool{}
	for _, a := range participants[p.lastKey()] {
		allowed[a] = true
	}
	// skipNonIdent: record names and similar components never appear as path
	// segments of a message.
	skip := func() {
		for pos < len(p) && !p[pos].Is && !reIdentSeg.MatchString(p[pos].Key) {
			pos++
		}
	}
	for _, sg := range segs {
		skip()
		if pos >= len(p) {
			return ""
		}
		if im := reIndexSeg.FindStringSubmatch(sg); im != nil {
			if p[pos].Is {
				if atoiDefault(im[1], -1) != p[pos].Idx && m.Kind != "id" {
					return "index " + im[1]
				}
				pos++
			}
			continue
		}
		if !reIdentSeg.MatchString(sg) {
			continue
		}
		// Does the segment name the expected component or a later one?
		matched := false
		for q := pos; q < len(p); q++ {
			if !p[q].Is && p[q].Key == sg {
				pos = q + 1
				matched = true
				break
			}
		}
		if matched || p[pos].Is || allowed[sg] {
			continue
		}
		// A sibling of the expected component in the base file?
		parent, ok := treeGet(base, p[:pos])
		if !ok {
			continue
		}
		if pm, isMap := parent.(yaml.MapSlice); isMap {
			if _, exists := mapGet(pm, sg); exists {
				return sg
			}
		}
	}
	return ""
}

// isLimitEffect: a positive but tiny limit (1ns, 1B) made a start-up I/O
// operation fail; the process reported that error and exited.  The limit did
// what it says; this is not a validation defect.
func isLimitEffect(msg string, ms []mutation) bool {
	timeout := strings.Contains(msg, "deadline exceeded") || strings.Contains(msg, "timeout") || strings.Contains(msg, "timed out")
	size := strings.Contains(msg, "cannot read more than") || strings.Contains(msg, "too large") || strings.Contains(msg, "exceeds")
	for _, m := range ms {
		if m.Value.Class != "1" {
			continue
		}
		if (m.Kind == "duration" && timeout) || (m.Kind == "size" && size) {
			return true
		}
	}
	return false
}

func (h *harness) classifyAccepted(obs *observation, died, termTimedOut, timeTouched bool) {
	var failed, sizeBelow, ddrBad *groupResult
	for i := range obs.Groups {
		if obs.Groups[i].DDRNotServed && ddrBad == nil {
			ddrBad = &obs.Groups[i]
		}
		if !obs.Groups[i].ok() && failed == nil {
			failed = &obs.Groups[i]
		}
		if obs.Groups[i].SizeBelowConfigured && sizeBelow == nil {
			sizeBelow = &obs.Groups[i]
		}
	}
	grp := func(g *groupResult) string { return g.Group + "/" + g.Client }
	switch {
	case died:
		obs.Verdict, obs.Class = "violation", "request-crash"
		obs.What = "the process died while handling the traffic script"
	case len(obs.BadLines) > 0:
		obs.Verdict, obs.Class = "violation", "request-panic"
		obs.What = "panic / recovered / runtime error line in the output of a serving process"
	case failed != nil && failed.Answered == 0:
		obs.Verdict, obs.Class = "violation", "silence:"+grp(failed)
		obs.What = "no query of the group was ever answered (unserviceable limit)"
	case failed != nil:
		obs.Verdict, obs.Class = "violation", "unanswered:"+grp(failed)
		obs.What = "a query that the configured limits allow was never answered"
	case obs.ConnLimit != nil && obs.ConnLimit.Violation != "":
		obs.Verdict, obs.Class = "violation", obs.ConnLimit.Violation
		cl := obs.ConnLimit
		obs.What = fmt.Sprintf("stop=%d resume=%d, %d stream listeners: after the count fell to resume with %d connections kept open, at least %d listeners must serve their waiting connection; served %v, starved %v (fill unanswered %v, served above stop %v)",
			cl.Stop, cl.Resume, cl.L, cl.Kept, cl.Guaranteed, cl.Served, cl.Starved, cl.FillLost, cl.EarlyServe)
	case obs.ConnLimit != nil && obs.ConnLimit.Ambiguous != "":
		obs.Verdict, obs.Class, obs.What = "ambiguous", "connlimit-script", obs.ConnLimit.Ambiguous
	case ddrBad != nil:
		obs.Verdict, obs.Class = "violation", "ddr-not-served"
		obs.What = "DDR is enabled with public records, but the DDR query is not answered from them: " + ddrBad.Probe
	case sizeBelow != nil:
		obs.Verdict, obs.Class = "violation", "effective-udp-size-below-configured"
		obs.What = "a UDP answer that fits the advertised EDNS buffer and the configured dns.max_udp_response_size came back truncated: " + sizeBelow.Probe
	case termTimedOut:
		obs.Verdict, obs.Class = "ambiguous", "shutdown-watchdog"
		obs.What = "no exit after SIGTERM within the watchdog"
	case obs.Signal == "" && obs.Exit != 0 && timeTouched:
		// A service whose start or stop was bounded by the 1ns duration
		// reported its failure through the exit status.
		obs.Verdict, obs.Class = "accepted", "limit-effect-exit-status"
	case obs.Exit != 0 || obs.Signal != "":
		obs.Verdict, obs.Class = "violation", "unclean-exit"
		obs.What = fmt.Sprintf("exit status %d %s after SIGTERM", obs.Exit, obs.Signal)
	default:
		obs.Verdict = "accepted"
	}
}

// ---- cases -------------------------------------------------------------------------------

type caseSpec struct {
	Stream string
	Idx    int
	Muts   []mutation
}

type caseResult struct {
	Spec   caseSpec
	Obs    *observation
	Second *observation // confirmation run, only after a violation
}

// runCase executes one case and, if it shows a violation, a second time.
func (h *harness) runCase(c caseSpec) caseResult {
	cr := caseResult{Spec: c, Obs: h.runOnce(c.Muts, c.Stream)}
	if cr.Obs.Verdict == "violation" {
		cr.Second = h.runOnce(c.Muts, c.Stream+"-confirm")
		cr.Second.Output, cr.Second.Config = tail(cr.Second.Output, 2000), ""
	} else if cr.Obs.Verdict != "ambiguous" {
		// Nothing more is needed of a decided, non-violating case.
		cr.Obs.Output, cr.Obs.Config, cr.Obs.Groups = tail(cr.Obs.Output, 1000), "", nil
	}
	return cr
}

func witness(c caseSpec, first, second *observation) map[string]interface{} {
	var muts []string
	for _, m := range c.Muts {
		muts = append(muts, m.render())
	}
	w := map[string]interface{}{
		"stream": c.Stream, "case_index": c.Idx, "case": caseKey(c.Muts), "mutations": muts,
		"observed":      first,
		"output_tail":   tail(first.Output, 3000),
		"expected":      "exactly one of: rejected with a configuration error naming the property; or accepted, every allowed query answered, no panic, clean exit on SIGTERM",
		"replay":        "C20_ONLY='" + onlySpec(c.Muts) + "' VERIF_VERBOSE=1 /verif/check C20 quick",
		"config_diff":   muts,
		"confirmed_run": second,
	}
	for _, m := range c.Muts {
		if m.Kind == "struct" {
			w["config_under_test"] = first.Config
		}
	}
	return w
}

func onlySpec(ms []mutation) string {
	parts := make([]string, len(ms))
	for i, m := range ms {
		parts[i] = m.Path.String() + "=" + m.Value.Class
	}
	return strings.Join(parts, "+")
}

func (h *harness) runAll(cases []caseSpec, par int) []caseResult {
	res := make([]caseResult, len(cases))
	var wg sync.WaitGroup
	ch := make(chan int)
	for w := 0; w < par; w++ {
		wg.Add(1)
		go func() {
			defer wg.Done()
			for i := range ch {
				res[i] = h.runCase(cases[i])
			}
		}()
	}
	for i := range cases {
		ch <- i
	}
	close(ch)
	wg.Wait()
	return res
}

// findings remembers the confirmed violating mutation sets, smallest first, so
// that larger combinations containing one are attributed to it.
type findings struct {
	sets []map[string]bool
	keys []string
}

func (f *findings) add(ms []mutation, key string) {
	set := map[string]bool{}
	for _, m := range ms {
		set[m.String()] = true
	}
	f.sets = append(f.sets, set)
	f.keys = append(f.keys, key)
}

func (f *findings) explains(ms []mutation) (key string, ok bool) {
	have := map[string]bool{}
	for _, m := range ms {
		have[m.String()] = true
	}
	for i, set := range f.sets {
		if len(set) >= len(ms) {
			continue
		}
		all := true
		for k := range set {
			if !have[k] {
				all = false
				break
			}
		}
		if all {
			return f.keys[i], true
		}
	}
	return "", false
}

// account records one decided case in the evidence and returns the confirmed
// violation class, if any.
func (h *harness) account(cr caseResult, found *findings) (class string) {
	r := h.r
	c, obs := cr.Spec, cr.Obs
	ck := caseKey(c.Muts)
	sec := "none"
	if len(c.Muts) > 0 {
		sec = c.Muts[0].Path.section()
	}
	r.Bucket("queries_sent", int64(obs.Queries))
	r.Bucket("queries_answered", int64(obs.Answered))
	r.Bucket("effective_size_probes_applied", int64(len(obs.Probes)))
	r.Bucket("dnscheck_queries_under_failing_backend", int64(obs.FaultDNSCheck))
	r.Bucket("ddr_probes_answered", int64(obs.DDRProbes))
	if ri := obs.Restart; ri != nil && obs.Verdict != "ambiguous" {
		r.Bucket("restart_cases_decided", 1)
		if ri.CacheFileBytes > 0 {
			r.Bucket("restarts_with_profile_cache", 1)
		}
		r.Bucket("profile_device_queries_after_restart", int64(ri.DeviceQueriesAfter))
		r.Bucket("profile_device_queries_logged_with_device_after_restart", int64(ri.DeviceLoggedAfter))
	}
	if (c.Stream == "list" || c.Stream == "list-all") && obs.Verdict != "ambiguous" {
		r.Bucket("list_cases_decided", 1)
	}
	if c.Stream == "backend-matrix" && obs.Verdict != "ambiguous" {
		r.Bucket("backend_matrix_cases_decided", 1)
	}
	if c.Stream == "structural" && obs.Verdict != "ambiguous" {
		r.Bucket("structural_cases_decided", 1)
		r.Bucket("structural:"+obs.Verdict, 1)
	}
	if (c.Stream == "enum-spelling" || c.Stream == "enum-dependent") && obs.Verdict != "ambiguous" {
		r.Bucket("enum_spelling_cases_decided", 1)
	}
	if cl := obs.ConnLimit; cl != nil && cl.Ran {
		r.Bucket("connlimit_scripts_run", 1)
		r.Bucket("connlimit_listeners_served_after_resume", int64(len(cl.Served)))
		r.Bucket("connlimit_connections_established", int64(cl.Fill))
	}
	if lp := os.Getenv("C20_LIST"); lp != "" {
		h.seq.Lock()
		if f, ferr := os.OpenFile(lp, os.O_APPEND|os.O_CREATE|os.O_WRONLY, 0o644); ferr == nil {
			fmt.Fprintf(f, "%s\t%s\t%s\t%s\t%d/%d/%dms\t%s\n", ck, obs.Verdict, obs.Class, obs.NamedBy, obs.StartMS, obs.TrafficMS, obs.StopMS,
				strings.ReplaceAll(tail(obs.Message, 300), "\n", " | "))
			_ = f.Close()
		}
		h.seq.Unlock()
	}
	switch obs.Verdict {
	case "accepted":
		r.Bucket("accepted", 1)
		r.Bucket("section:"+sec+":accepted", 1)
		if obs.Class != "" {
			r.Bucket("accepted:"+obs.Class, 1)
		}
		r.Eval(ck, obs.Answered > 0)
	case "rejected":
		r.Bucket("rejected", 1)
		r.Bucket("section:"+sec+":rejected", 1)
		if strings.HasPrefix(obs.NamedBy, "line:") {
			r.Bucket("rejected_by_parser_with_line", 1)
		}
		if obs.Class == "limit-effect" {
			r.Bucket("rejected_limit_effect", 1)
		}
		r.Eval(ck, true)
	case "ambiguous":
		r.Bucket("ambiguous", 1)
		r.Bucket("ambiguous:"+obs.Class, 1)
		r.Eval(ck, false)
		r.Sample(map[string]interface{}{"ambiguous": ck, "class": obs.Class, "what": obs.What, "output_tail": tail(obs.Output, 600)})
	case "violation":
		// Confirmed on a second, separate execution before reporting.
		second := cr.Second
		r.Bucket("queries_sent", int64(second.Queries))
		r.Bucket("queries_answered", int64(second.Answered))
		if second.Verdict != "violation" || second.Class != obs.Class {
			r.Bucket("unconfirmed", 1)
			r.Eval(ck, false)
			r.Sample(map[string]interface{}{"unconfirmed": ck, "first": obs.Class, "second_verdict": second.Verdict, "second_class": second.Class,
				"output_tail": tail(obs.Output, 600)})
			return ""
		}
		r.Bucket("violating_cases", 1)
		r.Bucket("section:"+sec+":violating", 1)
		r.Eval(ck, true)
		// A combination that contains a smaller combination (or a single
		// mutation) already found violating is that finding again.
		if key, ok := found.explains(c.Muts); ok {
			r.Bucket("combinations_explained_by_smaller_finding", 1)
			r.Violation(key, "seen again inside a combination", nil)
			return obs.Class
		}
		found.add(c.Muts, ck+":"+obs.Class)
		r.Violation(ck+":"+obs.Class, obs.What, witness(c, obs, second))
		return obs.Class
	}
	return ""
}

// ---- the check ---------------------------------------------------------------------------------

func parseOnly(spec string, fields []field) ([]mutation, error) {
	var ms []mutation
	for _, part := range strings.Split(spec, "+") {
		eq := strings.LastIndex(part, "=")
		if eq < 0 {
			return nil, fmt.Errorf("bad C20_ONLY element %q", part)
		}
		p, cls := part[:eq], part[eq+1:]
		found := false
		for _, f := range fields {
			if f.Path.String() != p {
				continue
			}
			for _, v := range f.Values {
				if v.Class == cls && !found {
					ms = append(ms, mutation{Path: f.Path, Kind: f.Kind, Value: v})
					found = true
				}
			}
			if n, aerr := strconv.Atoi(cls); !found && aerr == nil && f.Kind == "int" {
				ms = append(ms, mutation{Path: f.Path, Kind: f.Kind, Value: mutValue{Class: cls, Value: n}})
				found = true
			}
		}
		if !found {
			return nil, fmt.Errorf("no field/value %q", part)
		}
	}
	return ms, nil
}

func TestCheck(t *testing.T) {
	r := vkit.Start(t, "C20", "exploration")
	defer r.Finish()
	r.Rule("cases = mutated copies of config.dist.yaml run by the real binary: every single-field mutation of every numeric / duration / size / enum / " +
		"cross-referenced-id scalar to {0, -1, 1, documented bound, bound+1, large, type maximum (durations), removed, other enum values / ids, bogus}, " +
		"every mapping/sequence node at depth 1 and 2 removed or written as null, every string enum written in non-canonical spellings (letter case, surrounding spaces, near misses) alone and with the zero / missing values of the properties that depend on it, plus every value combination of the documented cross-field constraints (cache type/sizes, stop/resume, KV type/TTL, DDR ports) and seeded random pairs (and triples in the thorough tier) within one section, two thirds of their values drawn from those accepted alone; class key = the list of (yaml path = value class); " +
		"non-trivial = the child reached a decisive observation: rejected with its message examined, or accepted and at least one query answered")
	r.Assume("a YAML type error that gives the line number of the mutated property counts as naming it")
	r.Assume("a duration of 1ns / a size of 1B is a legal positive value: a start-up operation that reports hitting that limit, and queries that time out under a 1ns duration, are the configured behaviour, not violations (panics and crashes still are)")
	r.Assume("queries of the rate-limited loopback clients are required only while the configured limits allow them; when a rate-limit parameter is mutated only the first query of a fresh client is required")
	r.Assume("connection_limit.stop/resume of 0 or 1 is below the documented minimum (more than the number of bound addresses): stream transports are then not required to answer")
	r.Assume("effective-value probe: a UDP answer of known size must be complete when both the advertised EDNS buffer and dns.max_udp_response_size as written in the file exceed it by 64 bytes; skipped when socket buffer sizes or 1ns durations are mutated")
	r.Assume("restart cases: the stub backend delivers its profile (one device recognised by linked IP 127.0.2.1, custom rate limit) on full synchronisations only; the second life of the process must have got it from the profile cache, which is checked by the device ID in the query-log records written after the restart")
	r.Assume("a rejection message that gives a path must be consistent with the mutated property: naming a sibling key of the base file at the level reached (ipv4 for an ipv6 mutation) or another list index is rejected-misnamed, unless that key is a documented cross-field participant")
	r.Assume("a failing key-value backend is a fault of the environment: the configuration is still accepted, the DNS-check query must still be answered and nothing may panic")
	r.Assume("connection limit: sockets that are accepting count as active (documented); when stop <= listeners+3 and resume < listeners the ordinary stream groups are not required, and the dedicated script (which keeps its connections open and so controls the count) requires min(listeners used, stop-resume) listeners to serve after the count has fallen to resume")
	r.Assume("an unanswered query is retried alone (3 s, then 8 s) and every violation is confirmed by a second, separate execution of the same file")

	scratch := os.Getenv("VERIF_SCRATCH")
	if scratch == "" {
		scratch = t.TempDir()
	}
	scratch = filepath.Join(scratch, "c20")
	_ = os.MkdirAll(scratch, 0o755)

	t0 := time.Now()
	bin, out, err := buildBinary(scratch)
	if err != nil {
		r.Sample(map[string]interface{}{"build_output": tail(string(out), 2000)})
		r.Inconclusive("the binary of the tree under test does not build: " + err.Error())
		return
	}
	r.Extra("build_s", time.Since(t0).Seconds())

	dist, err := loadDist()
	if err != nil {
		r.Inconclusive("config.dist.yaml unreadable: " + err.Error())
		return
	}
	inline := distInline(dist)
	fx, err := newFixtures(filepath.Join(scratch, "shared"), inline)
	if err != nil {
		r.Inconclusive("fixtures: " + err.Error())
		return
	}
	defer fx.close()
	h := &harness{r: r, bin: bin, scratch: scratch, fx: fx, dist: dist, ports: newPortAlloc(),
		provider: fmt.Sprint(inline["provider_name"]), providerPK: fmt.Sprint(inline["public_key"])}
	h.baseLoc, err = localise(dist, fx, 1)
	if err != nil {
		r.Inconclusive("localise: " + err.Error())
		return
	}
	fields, skipped := catalogue(h.baseLoc.Tree)
	spellFs := enumSpellingFields(fields)
	spellFs = append(spellFs, structuralFields(h.baseLoc.Tree)...) // for C20_ONLY / replay look-up
	spellFs = append(spellFs, listFields(h.baseLoc.Tree)...)
	spellFs = append(spellFs, addrFamilyFields(h.baseLoc.Tree)...)
	for _, ms := range append(backendMatrixCases(h.baseLoc.Tree), restartCases(fields)...) {
		for _, m := range ms {
			if m.Kind == "bool" || m.Kind == "fault" || m.Kind == "history" {
				spellFs = append(spellFs, field{Path: m.Path, Kind: m.Kind, Values: []mutValue{m.Value}})
			}
		}
	}
	sectionFs := sectionFields(h.baseLoc.Tree)
	r.Bucket("sections_removed_or_nulled", int64(len(sectionFs)))
	r.Extra("numeric_scalars_not_mutated", skipped)
	r.Bucket("fields", int64(len(fields)))
	sections := map[string]bool{}
	for _, f := range fields {
		sections[f.Path.section()] = true
		r.Bucket("fields:"+f.Kind, 1)
	}
	r.Bucket("sections_with_mutated_fields", int64(len(sections)))

	par := runtime.NumCPU()
	if par > 16 {
		par = 16
	}
	if p := atoiDefault(os.Getenv("C20_PAR"), 0); p > 0 {
		par = p
	}

	// The unmodified base must be accepted and pass the whole script; otherwise
	// nothing below means anything.
	baseObs := h.runOnce(nil, "base")
	var baseGroups []string
	for _, g := range baseObs.Groups {
		baseGroups = append(baseGroups, fmt.Sprintf("%s/%s@%s %d/%d", g.Group, g.Client, g.Server, g.Answered, g.Sent))
	}
	r.Sample(map[string]interface{}{"case": "base", "verdict": baseObs.Verdict, "start_ms": baseObs.StartMS, "groups_answered_of_sent": baseGroups})
	switch baseObs.Verdict {
	case "accepted":
		r.Bucket("base_ok", 1)
		r.Bucket("queries_sent", int64(baseObs.Queries))
		r.Bucket("queries_answered", int64(baseObs.Answered))
	case "violation":
		if strings.HasPrefix(baseObs.Class, "startup") || baseObs.Class == "rejected-unnamed" {
			r.Sample(map[string]interface{}{"base_output": tail(baseObs.Output, 3000)})
			r.Inconclusive("the localised config.dist.yaml does not start: " + baseObs.Class + ": " + tail(baseObs.Message, 300))
			return
		}
		second := h.runOnce(nil, "base-confirm")
		if second.Verdict == "violation" && second.Class == baseObs.Class {
			r.Violation("base:"+baseObs.Class, "the unmodified example configuration fails the traffic script: "+baseObs.What,
				witness(caseSpec{Stream: "base"}, baseObs, second))
			r.Eval("base", true)
			return
		}
		r.Inconclusive("the base configuration failed once (" + baseObs.Class + ") and passed once")
		return
	default:
		r.Sample(map[string]interface{}{"base_output": tail(baseObs.Output, 3000)})
		r.Inconclusive("the localised config.dist.yaml is not accepted: " + baseObs.Verdict + " " + baseObs.Class + ": " + tail(baseObs.Message, 300))
		return
	}
	if os.Getenv("C20_DUMP") != "" {
		fmt.Println("=== base config ===\n" + baseObs.Config + "=== base output ===\n" + baseObs.Output)
	}

	// Debug / replay: only the given case.
	only := os.Getenv("C20_ONLY")
	if rp := vkit.ReplayPath(); rp != "" && only == "" {
		if b, rerr := os.ReadFile(rp); rerr == nil {
			var doc struct {
				Witness struct {
					Case string `json:"case"`
				} `json:"witness"`
			}
			if json.Unmarshal(b, &doc) == nil {
				only = doc.Witness.Case
			}
		}
	}
	if only != "" {
		ms, perr := parseOnly(only, append(append(append([]field(nil), fields...), sectionFs...), spellFs...))
		if perr != nil {
			r.Inconclusive(perr.Error())
			return
		}
		cr := h.runCase(caseSpec{Stream: "only", Muts: ms})
		b, _ := json.MarshalIndent(cr.Obs, "", " ")
		fmt.Printf("=== %s ===\n%s\n=== output ===\n%s\n", caseKey(ms), b, tail(cr.Obs.Output, 6000))
		h.account(cr, &findings{})
		r.Sample(map[string]interface{}{"only": caseKey(ms), "verdict": cr.Obs.Verdict, "class": cr.Obs.Class})
		r.Eval("only-second", true)
		r.Eval("only-third", true)
		return
	}

	// Tier 1: every single-field mutation, and every missing / null section.
	var singles []caseSpec
	for _, f := range fields {
		for _, v := range f.Values {
			singles = append(singles, caseSpec{Stream: "single", Idx: len(singles), Muts: []mutation{{Path: f.Path, Kind: f.Kind, Value: v}}})
		}
	}
	for _, f := range sectionFs {
		for _, v := range f.Values {
			singles = append(singles, caseSpec{Stream: "section", Idx: len(singles), Muts: []mutation{{Path: f.Path, Kind: f.Kind, Value: v}}})
		}
	}
	structFs := structuralFields(h.baseLoc.Tree)
	nStruct := 0
	for _, f := range structFs {
		for _, v := range f.Values {
			nStruct++
			singles = append(singles, caseSpec{Stream: "structural", Idx: len(singles), Muts: []mutation{{Path: f.Path, Kind: f.Kind, Value: v}}})
		}
	}
	r.Bucket("cases_structural_server_groups", int64(nStruct))
	for _, f := range addrFamilyFields(h.baseLoc.Tree) {
		singles = append(singles, caseSpec{Stream: "addr-family", Idx: len(singles), Muts: []mutation{{Path: f.Path, Kind: f.Kind, Value: f.Values[0]}}})
		r.Bucket("cases_addr_family", 1)
	}
	listFs := listFields(h.baseLoc.Tree)
	nList := 0
	for _, f := range listFs {
		for _, v := range f.Values {
			nList++
			singles = append(singles, caseSpec{Stream: "list", Idx: len(singles), Muts: []mutation{{Path: f.Path, Kind: f.Kind, Value: v}}})
		}
	}
	r.Bucket("cases_list", int64(nList))
	nSpell := 0
	for _, f := range enumSpellingFields(fields) {
		for _, v := range f.Values {
			nSpell++
			singles = append(singles, caseSpec{Stream: "enum-spelling", Idx: len(singles), Muts: []mutation{{Path: f.Path, Kind: f.Kind, Value: v}}})
		}
	}
	r.Bucket("cases_enum_spelling", int64(nSpell))
	if lim := atoiDefault(os.Getenv("C20_LIMIT"), 0); lim > 0 && lim < len(singles) {
		singles = singles[:lim]
	}
	r.Bucket("cases_single", int64(len(singles)))
	found := &findings{}
	acceptedAlone := map[string][]mutValue{} // field path -> values accepted as single mutations
	results := h.runAll(singles, par)
	sampled := 0
	for _, cr := range results {
		if cr.Obs.Verdict == "accepted" {
			m := cr.Spec.Muts[0]
			acceptedAlone[m.Path.String()] = append(acceptedAlone[m.Path.String()], m.Value)
		}
		h.account(cr, found)
		if (cr.Obs.Verdict == "accepted" || cr.Obs.Verdict == "rejected") && cr.Spec.Idx%97 == 11 && sampled < 3 {
			sampled++
			r.Sample(map[string]interface{}{"case": caseKey(cr.Spec.Muts), "verdict": cr.Obs.Verdict, "named_by": cr.Obs.NamedBy,
				"message": tail(cr.Obs.Message, 300), "queries": cr.Obs.Queries, "answered": cr.Obs.Answered})
		}
	}
	r.Exhaustive(false)

	// Tier 2: seeded combinations within one section.
	bySection := map[string][]field{}
	var secNames []string
	for _, f := range fields {
		s := f.Path.section()
		if len(bySection[s]) == 0 {
			secNames = append(secNames, s)
		}
		bySection[s] = append(bySection[s], f)
	}
	sort.Strings(secNames)
	var weighted []string
	for _, s := range secNames {
		if len(bySection[s]) >= 2 {
			for range bySection[s] {
				weighted = append(weighted, s)
			}
		}
	}
	var combos []caseSpec
	gen := func(stream string, n, arity int) {
		for i := 0; i < n; i++ {
			rng := r.Rand(stream, i)
			fs := bySection[weighted[rng.IntN(len(weighted))]]
			if len(fs) < arity {
				continue
			}
			perm := rng.Perm(len(fs))[:arity]
			sort.Ints(perm)
			var ms []mutation
			for _, fi := range perm {
				f := fs[fi]
				vs := f.Values
				// Two thirds of the draws use values that were accepted alone, so
				// that combinations reach the request path instead of stopping at
				// the first invalid field.
				if acc := acceptedAlone[f.Path.String()]; len(acc) > 0 && rng.IntN(3) != 0 {
					vs = acc
				}
				ms = append(ms, mutation{Path: f.Path, Kind: f.Kind, Value: vs[rng.IntN(len(vs))]})
			}
			combos = append(combos, caseSpec{Stream: stream, Idx: i, Muts: ms})
		}
	}
	for i, ms := range constraintCases(fields) {
		combos = append(combos, caseSpec{Stream: "constraint", Idx: i, Muts: ms})
	}
	r.Bucket("cases_constraint", int64(len(combos)))
	clCases := connLimitCases(h.baseLoc.Tree, liveServers(h.baseLoc.Tree, h.baseLoc))
	for i, ms := range clCases {
		combos = append(combos, caseSpec{Stream: "connlimit", Idx: i, Muts: ms})
	}
	r.Bucket("cases_connlimit", int64(len(clCases)))
	for i, ms := range listAllCases(listFs) {
		combos = append(combos, caseSpec{Stream: "list-all", Idx: i, Muts: ms})
		r.Bucket("cases_list_all_occurrences", 1)
	}
	for i, ms := range backendMatrixCases(h.baseLoc.Tree) {
		combos = append(combos, caseSpec{Stream: "backend-matrix", Idx: i, Muts: ms})
		r.Bucket("cases_backend_matrix", 1)
	}
	for i, ms := range restartCases(fields) {
		combos = append(combos, caseSpec{Stream: "restart", Idx: i, Muts: ms})
		r.Bucket("cases_restart", 1)
	}
	depCases := enumDependentCases(spellFs, fields)
	for i, ms := range depCases {
		combos = append(combos, caseSpec{Stream: "enum-dependent", Idx: i, Muts: ms})
	}
	r.Bucket("cases_enum_spelling_with_dependent", int64(len(depCases)))
	gen("pair", r.N(150, 6000), 2)
	gen("triple", r.N(0, 3000), 3)
	r.Bucket("cases_combination", int64(len(combos)))
	for _, cr := range h.runAll(combos, par) {
		h.account(cr, found)
	}

	r.Extra("parallel_children", par)
	r.Extra("upstream_queries_seen_by_stub", fx.upstreamQueries.Load())
	r.Require("base_ok", 1)
	r.Require("fields", 40)
	r.Require("sections_removed_or_nulled", 20)
	r.Require("sections_with_mutated_fields", 10)
	r.Require("accepted", 80)
	r.Require("rejected", 80)
	r.Require("queries_answered", 10000)
	r.Require("effective_size_probes_applied", 100)
	r.Require("connlimit_scripts_run", 6)
	r.Require("rejection_paths_checked", 200)
	r.Require("cases_addr_family", 4)
	r.Require("ddr_probes_answered", 100)
	r.Require("cases_restart", 2)
	r.Require("restarts_with_profile_cache", 2)
	r.Require("profile_device_queries_after_restart", 8)
	r.Require("profile_device_queries_logged_with_device_after_restart", 6)
	r.Require("cases_list", 60)
	r.Require("cases_list_all_occurrences", 10)
	r.Require("list_cases_decided", 70)
	r.Require("cases_backend_matrix", 20)
	r.Require("backend_matrix_cases_decided", 20)
	r.Require("dnscheck_queries_under_failing_backend", 12)
	r.Require("cases_structural_server_groups", 8)
	r.Require("structural_cases_decided", 8)
	r.Require("cases_enum_spelling", 40)
	r.Require("cases_enum_spelling_with_dependent", 40)
	r.Require("enum_spelling_cases_decided", 80)
	if n := r.BucketGet("ambiguous"); n > 5 {
		r.Inconclusive(fmt.Sprintf("%d executions ended without a decisive observation (watchdogs / port collisions)", n))
	}
}
