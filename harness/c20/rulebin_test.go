package c20

import (
	"encoding/json"
	"fmt"
	"os"
	"path/filepath"
	"strings"
	"testing"
	"time"

	"github.com/AdguardTeam/AdGuardDNS/verif/vkit"
	"github.com/miekg/dns"
)

// Order of the rule lists of a filtering group as written in the file, observed
// on the real binary (property C02; run by harness/c02 as a child `go test`,
// which owns the oracle and the evidence).
//
// The filter index of the bench carries two extra lists that rewrite
// orderHost to different addresses; their IDs are chosen so that the
// alphabetical order differs from either configured order being "natural".
// Each case writes filtering_groups[0].rule_lists.ids as a permutation and asks
// for orderHost over plain DNS; what is recorded is the set of A records of
// the answer.

const (
	orderListZ   = "c02_zz_list"
	orderListA   = "c02_aa_list"
	orderHost    = "order.c02bin.example."
	orderAnswerZ = "192.0.2.111"
	orderAnswerA = "192.0.2.222"
)

type orderCase struct {
	IDs      []string `json:"rule_lists_ids"`
	Verdict  string   `json:"process_verdict"`
	Class    string   `json:"process_class,omitempty"`
	Answered bool     `json:"answered"`
	Rcode    int      `json:"rcode"`
	A        []string `json:"a_records"`
	Blocked  bool     `json:"base_list_still_blocks_its_host"`
	Note     string   `json:"note,omitempty"`
}

func TestBinaryRuleListOrder(t *testing.T) {
	outPath := os.Getenv("C20_ORDER_OUT")
	if outPath == "" {
		t.Skip("run by harness/c02")
	}
	rep := struct {
		Error   string            `json:"error,omitempty"`
		Answers map[string]string `json:"answer_of_list"`
		Cases   []orderCase       `json:"cases"`
	}{Answers: map[string]string{orderListZ: orderAnswerZ, orderListA: orderAnswerA}}
	defer func() {
		b, _ := json.MarshalIndent(rep, "", " ")
		_ = os.WriteFile(outPath, b, 0o644)
	}()
	r := vkit.Start(t, "C02-binary", "exploration") // never finished: no evidence of its own
	scratch := filepath.Join(filepath.Dir(outPath), "c02bin")
	_ = os.MkdirAll(scratch, 0o755)
	defer os.RemoveAll(scratch)
	bin, out, err := buildBinary(scratch)
	if err != nil {
		rep.Error = "the binary of the tree under test does not build: " + err.Error() + "\n" + tail(string(out), 1500)
		return
	}
	dist, err := loadDist()
	if err != nil {
		rep.Error = "config.dist.yaml unreadable: " + err.Error()
		return
	}
	inline := distInline(dist)
	fx, err := newFixtures(filepath.Join(scratch, "shared"), inline)
	if err != nil {
		rep.Error = "fixtures: " + err.Error()
		return
	}
	defer fx.close()
	h := &harness{r: r, bin: bin, scratch: scratch, fx: fx, dist: dist, ports: newPortAlloc(),
		provider: fmt.Sprint(inline["provider_name"]), providerPK: fmt.Sprint(inline["public_key"])}
	if h.baseLoc, err = localise(dist, fx, 1); err != nil {
		rep.Error = "localise: " + err.Error()
		return
	}
	orders := [][]string{
		{filterListID, orderListZ, orderListA},
		{filterListID, orderListA, orderListZ},
		{orderListZ, filterListID, orderListA},
		{orderListA, orderListZ, filterListID},
	}
	for _, ids := range orders {
		ids := ids
		oc := orderCase{IDs: ids}
		h.script = func(_ interface{}, servers []liveServer, tag string, hopeless func() bool) interface{} {
			addr := ""
			for _, s := range servers {
				for _, a := range s.Addrs {
					if s.Proto == "dns" && !strings.HasPrefix(a, "[") && addr == "" {
						addr = a
					}
				}
			}
			if addr == "" {
				oc.Note = "no plain-DNS IPv4 address"
				return nil
			}
			resp, _ := udpOne(srcAllowlisted, addr, query{orderHost, dns.TypeA, 0}, 8*time.Second)
			if resp != nil {
				oc.Answered, oc.Rcode = true, resp.Rcode
				for _, rr := range resp.Answer {
					if a, ok := rr.(*dns.A); ok {
						oc.A = append(oc.A, a.A.String())
					}
				}
			}
			// the base list must still do its work (the group really is the
			// one serving this address)
			if b, _ := udpOne(srcAllowlisted, addr, query{blockedHost, dns.TypeA, 0}, 8*time.Second); b != nil {
				oc.Blocked = len(b.Answer) == 0 || func() bool {
					for _, rr := range b.Answer {
						if a, ok := rr.(*dns.A); ok && a.A.String() == "192.0.2.1" {
							return false // the stub upstream's record: not blocked
						}
					}
					return true
				}()
			}
			return nil
		}
		l := make([]interface{}, len(ids))
		for i, id := range ids {
			l[i] = id
		}
		ms := []mutation{{Path: cfgPath{key("filtering_groups"), idx(0), key("rule_lists"), key("ids")}, Kind: "ids", Value: mutValue{Class: strings.Join(ids, ">"), Value: l}}}
		o := h.runOnce(ms, "order")
		oc.Verdict, oc.Class = o.Verdict, o.Class
		rep.Cases = append(rep.Cases, oc)
	}
}
