package c14

// Part 2b: many pending clean-ups racing ONE synchronisation that makes their
// index entries valid again (the synchronisation lands inside the clean-ups,
// not before or after them), and part 6: CreateAutoDevice in flight while an
// incremental synchronisation changes the same profile.

import (
	"context"
	"fmt"
	"net/netip"
	"os"
	"runtime"
	"sync"
	"sync/atomic"

	"github.com/AdguardTeam/AdGuardDNS/internal/agd"
	"github.com/AdguardTeam/AdGuardDNS/internal/profiledb"
	"github.com/AdguardTeam/AdGuardDNS/internal/verifhook"
	"github.com/AdguardTeam/AdGuardDNS/verif/vkit"
)

const stressDevs = 64

func stressRoundsQuick() int {
	if s := os.Getenv("C14_STRESS_ROUNDS"); s != "" {
		n := 0
		fmt.Sscan(s, &n)
		return n
	}
	return 60
}

func stressPools() *pools {
	pl := &pools{prof: []agd.ProfileID{"sp0", "sp1"}}
	for i := 0; i < stressDevs; i++ {
		pl.dev = append(pl.dev, agd.DeviceID(fmt.Sprintf("s%d", i)))
		pl.linked = append(pl.linked, netip.AddrFrom4([4]byte{10, 6, 0, byte(i + 1)}))
		pl.ded = append(pl.ded, netip.AddrFrom4([4]byte{192, 0, 2, byte(100 + i)}))
		pl.hid = append(pl.hid, agd.HumanIDLower(fmt.Sprintf("sh%d", i)))
	}
	return pl
}

// cleanupStress: all devices of a profile are detached, every stale key is
// looked up once so that its clean-up is pending (parked in the hook), then
// one synchronisation re-attaches the devices while the clean-ups are let go:
// some have passed whatever they check before taking the write lock when the
// synchronisation takes it.  At quiescence every lookup must be that of the
// synchronised data.
func cleanupStress(r *vkit.Run) {
	rounds := r.N(stressRoundsQuick(), 1500)
	pl := stressPools()
	for round := 0; round < rounds; round++ {
		rng := r.Rand("cleanup-stress", round)
		var clock atomic.Int64
		var mu sync.Mutex
		var starts []int64
		hc := newHookCtl()
		hc.onRelease = func(string) {
			t := clock.Add(1)
			mu.Lock()
			starts = append(starts, t)
			mu.Unlock()
		}
		hc.setPark(true)
		verifhook.Set(hc.cb)
		q := &quiesce{h: hc, baseline: stableGoroutines()}
		w := newWorld(basePast, false, pl)
		st := &scriptedStorage{w: w}
		db, err := newDB(st, "none", ivlNever)
		if err != nil {
			r.Inconclusive("profiledb.New: " + err.Error())
			verifhook.Set(nil)
			return
		}
		m := newModel()
		sync1 := func() bool {
			if err = db.Refresh(context.Background()); err != nil {
				r.Violation("refresh:error", "synchronisation failed: "+err.Error(), map[string]any{"part": "cleanup-stress", "round": round})
				return false
			}
			m.apply(st.last, st.lastFu)
			return true
		}
		w.addProfile("sp0", false)
		w.addProfile("sp1", false)
		for i, id := range pl.dev {
			w.addDevice(id, "sp0", pl.linked[i], []netip.Addr{pl.ded[i]}, pl.hid[i])
		}
		ok := sync1()
		// detach
		type old struct {
			linked netip.Addr
			ded    []netip.Addr
			hid    agd.HumanIDLower
		}
		olds := map[agd.DeviceID]old{}
		if ok {
			for _, id := range pl.dev {
				d := w.devs[id]
				olds[id] = old{d.Linked, d.Ded, d.Hid}
				w.detach(id)
			}
			ok = sync1()
		}
		if !ok {
			verifhook.Set(nil)
			continue
		}
		// re-attach: same keys, seeded profile; the response is built now so
		// that the storage call of the racing synchronisation returns at once
		target := agd.ProfileID("sp0")
		if rng.IntN(2) == 0 {
			target = "sp1"
		}
		for _, id := range pl.dev {
			o := olds[id]
			w.addDevice(id, target, o.linked, o.ded, o.hid)
		}
		reqEpoch, _ := decodeToken(st.last.SyncTime)
		st.prebuilt = w.response(reqEpoch, false, nil)
		natural := round%2 == 0
		hc.setPark(!natural)
		// one lookup per stale key: each spawns its clean-up(s)
		lookups := func() {
			for i, id := range pl.dev {
				_, _, _ = doLookup(db, lkey{K: kDev, Dev: id})
				if rng.IntN(2) == 0 {
					_, _, _ = doLookup(db, lkey{K: kLinked, IP: pl.linked[i]})
				}
				if rng.IntN(2) == 0 {
					_, _, _ = doLookup(db, lkey{K: kDed, IP: pl.ded[i]})
				}
				if rng.IntN(2) == 0 {
					_, _, _ = doLookup(db, lkey{K: kHuman, Prof: "sp0", Hid: pl.hid[i]})
				}
			}
		}
		var okSync bool
		var tResp, tRet int64
		pending, inFlight, first := 0, 0, 0
		if natural {
			// the clean-ups run as they are spawned; the synchronisation
			// follows the last lookup at once
			lookups()
			inFlight = q.alive()
			okSync = sync1()
			pending = int(hc.hitsOf(ownPoint[kDev]) + hc.hitsOf(ownPoint[kLinked]) + hc.hitsOf(ownPoint[kDed]) + hc.hitsOf(ownPoint[kHuman]))
		} else {
			// the clean-ups park in the hook and are all let go inside the
			// storage call of the synchronisation, which then returns after
			// a seeded short spin
			lookups()
			if !q.settle() {
				r.Bucket("quiesce_timeouts", 1)
				verifhook.Set(nil)
				continue
			}
			pending = hc.nParked()
			spin := rng.IntN(400)
			st.onResponse = func() {
				tResp = clock.Add(1)
				for _, g := range hc.takeAll() {
					close(g.ch)
				}
				for i := 0; i < spin; i++ {
					runtime.Gosched()
				}
			}
			okSync = sync1()
			tRet = clock.Add(1)
			st.onResponse = nil
			first = spin
		}
		r.Bucket("stress_cleanups_pending", int64(pending))
		if !q.settle() {
			r.Bucket("quiesce_timeouts", 1)
			verifhook.Set(nil)
			continue
		}
		verifhook.Set(nil)
		if !okSync {
			continue
		}
		overlapped := inFlight
		mu.Lock()
		for _, t := range starts {
			if t > tResp && t < tRet {
				overlapped++
			}
		}
		mu.Unlock()
		r.Bucket("stress_cleanups_in_flight_during_sync", int64(overlapped))
		if natural {
			r.Bucket("stress_cleanups_in_flight_during_sync:natural_schedule", int64(overlapped))
		} else {
			r.Bucket("stress_cleanups_in_flight_during_sync:released_inside_sync", int64(overlapped))
		}
		r.Bucket("stress_rounds", 1)
		if natural {
			r.Bucket("stress_rounds_natural", 1)
		} else {
			r.Bucket("stress_rounds_parked", 1)
		}
		hc.setPark(false)
		bad := 0
		for pass := 0; pass < 2 && bad == 0; pass++ {
			for i, id := range pl.dev {
				for _, k := range []lkey{{K: kDev, Dev: id}, {K: kLinked, IP: pl.linked[i]}, {K: kDed, IP: pl.ded[i]},
					{K: kHuman, Prof: target, Hid: pl.hid[i]}, {K: kHuman, Prof: "sp0", Hid: pl.hid[i]}, {K: kHuman, Prof: "sp1", Hid: pl.hid[i]}} {
					p, d, e := doLookup(db, k)
					a := normalise(p, d, e)
					exp := m.expect(k)
					r.Bucket("stress_lookups", 1)
					if cls := judge(k, exp, a); cls != "" {
						bad++
						r.Bucket("stress_mismatches", 1)
						if bad == 1 {
							r.Bucket(fmt.Sprintf("stress_rounds_with_mismatch:natural=%v", natural), 1)
						}
						r.Violation("cleanup-overlapping-sync:"+kindName[k.K]+":"+cls,
							fmt.Sprintf("%d clean-ups were pending when a synchronisation re-attached their devices and ran concurrently with it (%d started while it was in flight); "+
								"afterwards, at quiescence, lookup %s answers %s, the synchronised data say %s: a clean-up that had validated its entry before the synchronisation deleted it after the synchronisation "+
								"(the re-validation and the delete must happen under the same write lock)",
								pending, overlapped, k, a.short(), exp.short()),
							map[string]any{"part": "cleanup-stress", "round": round, "key": k.String(), "observed": a, "expected": exp.short(),
								"pending_cleanups": pending, "started_during_sync": overlapped, "natural_schedule": natural, "spin": first, "target_profile": target})
					}
				}
			}
			q.settle()
		}
		r.Eval(fmt.Sprintf("cleanup-stress/%d", round), overlapped > 0)
	}
}

// takeAll removes and returns all parked goroutines without releasing them.
func (h *hookCtl) takeAll() (all []*parkedG) {
	h.mu.Lock()
	defer h.mu.Unlock()
	all = h.parked
	h.parked = nil
	return all
}

// ---------------------------------------------------------------------------

type createResult struct {
	p   *agd.Profile
	d   *agd.Device
	err error
}

// createAuto: CreateAutoDevice for an auto-devices profile is in flight (the
// scripted backend call blocks) while an incremental synchronisation delivers
// a change of the same profile; afterwards every lookup must still be that of
// the latest synchronised data.  The created device itself may be served
// before a synchronisation has delivered it (that is the point of the call),
// or not.
func createAuto(r *vkit.Run) {
	changes := []string{"none", "detach-device", "delete-profile", "delete-profile-keep-list", "move-device", "change-linked-ip", "change-human-id", "touch-profile", "detach-and-touch-other"}
	reps := r.N(3, 20)
	x, y := poolLinked[0], poolLinked[1]
	dx := poolDed[0]
	ci := 0
	for _, change := range changes {
		for _, atEntry := range []bool{true, false} {
			for rep := 0; rep < reps; rep++ {
				ci++
				rng := r.Rand("create-auto", ci)
				hc := newHookCtl()
				verifhook.Set(hc.cb)
				q := &quiesce{h: hc, baseline: stableGoroutines()}
				w := newWorld(basePast, false, seqPools)
				st := &scriptedStorage{w: w, rng: r.Rand("create-auto-order", ci)}
				db, err := newDB(st, "none", ivlNever)
				if err != nil {
					r.Inconclusive("profiledb.New: " + err.Error())
					verifhook.Set(nil)
					return
				}
				m := newModel()
				var events []string
				var created agd.DeviceID
				name := fmt.Sprintf("create-auto/%s/created-at-entry=%v", change, atEntry)
				violated := false
				check := func(when string) {
					if !q.settle() {
						r.Bucket("quiesce_timeouts", 1)
						return
					}
					for pass := 0; pass < 2; pass++ {
						for _, k := range seqUniverse() {
							p, d, e := doLookup(db, k)
							a := normalise(p, d, e)
							exp := m.expect(k)
							r.Bucket("create_auto_lookups", 1)
							cls := judge(k, exp, a)
							if cls == "" {
								continue
							}
							// the created device, not yet delivered by a synchronisation
							if created != "" && !exp.Found && a.Found && a.Dev == string(created) && a.Prof == "p0" &&
								(k.K == kDev && k.Dev == created || k.K == kHuman && k.Prof == "p0" && k.Hid == "new-dev") {
								r.Bucket("create_auto_created_device_served_before_sync", 1)
								continue
							}
							violated = true
							r.Violation("create-auto-device:"+kindName[k.K]+":"+cls,
								fmt.Sprintf("%s, %s: lookup %s answers %s, the latest synchronised data say %s (a CreateAutoDevice call was in flight while an incremental synchronisation changed its profile; the call must not write back what it read before the synchronisation)",
									name, when, k, a.short(), exp.short()),
								map[string]any{"case": name, "rep": rep, "history": events, "key": k.String(), "observed": a, "expected": exp.short()})
						}
						q.settle()
					}
				}
				refresh := func(what string) bool {
					logStart := len(w.log)
					_ = logStart
					if err = db.Refresh(context.Background()); err != nil {
						r.Violation("refresh:error", "synchronisation failed: "+err.Error(), map[string]any{"case": name})
						return false
					}
					m.apply(st.last, st.lastFu)
					events = append(events, what+": SYNC "+describeResp(st.last, st.lastFu))
					return true
				}
				// set-up
				w.addProfile("p0", true)
				w.addProfile("p1", rng.IntN(2) == 0)
				w.addDevice("d0", "p0", x, []netip.Addr{dx}, "h0")
				w.addDevice("d1", "p0", y, nil, "h1")
				w.addDevice("d2", "p1", netip.Addr{}, nil, "h0")
				okc := refresh("set-up")
				if okc && rng.IntN(2) == 0 {
					w.touchP("p0")
					okc = refresh("incremental before the call")
				}
				if !okc {
					verifhook.Set(nil)
					continue
				}
				check("before the call")
				// the call, blocked in the backend
				cc := &createCtl{entered: make(chan struct{}, 1), proceed: make(chan struct{}), atEntry: atEntry}
				st.mu.Lock()
				st.create = cc
				st.mu.Unlock()
				resCh := make(chan createResult, 1)
				q.baseline++
				go func() {
					p, d, e := db.CreateAutoDevice(context.Background(), "p0", "New-Dev", agd.DeviceTypeAndroid)
					resCh <- createResult{p, d, e}
				}()
				<-cc.entered
				events = append(events, fmt.Sprintf("CreateAutoDevice(p0, New-Dev) is in the backend call (device created at entry: %v)", atEntry))
				logStart := len(w.log)
				switch change {
				case "detach-device":
					w.detach("d0")
				case "delete-profile":
					w.deleteProfile("p0", false)
				case "delete-profile-keep-list":
					w.deleteProfile("p0", true)
				case "move-device":
					w.move("d0", "p1")
				case "change-linked-ip":
					w.setLinked("d0", poolLinked[2])
				case "change-human-id":
					w.setHid("d1", "h2")
				case "touch-profile":
					w.touchP("p0")
				case "detach-and-touch-other":
					w.detach("d1")
					w.touchP("p1")
				}
				for _, l := range w.log[logStart:] {
					events = append(events, "world: "+l)
				}
				if change != "none" {
					if !refresh("while the call is in flight") {
						close(cc.proceed)
						<-resCh
						q.baseline--
						verifhook.Set(nil)
						continue
					}
					r.Bucket("create_auto_device_overlapping_sync", 1)
					check("while the call is in flight")
				}
				close(cc.proceed)
				res := <-resCh
				q.baseline--
				created = cc.created
				events = append(events, fmt.Sprintf("CreateAutoDevice returned err=%v created=%q", res.err, created))
				if res.err == nil {
					r.Bucket("create_auto_device_ok", 1)
					if res.p == nil || res.d == nil || res.p.ID != "p0" || res.d.ID != created || res.d.HumanIDLower != "new-dev" {
						violated = true
						r.Violation("create-auto-device:bad-result", "CreateAutoDevice returned a profile/device that is not the requested profile and the device the backend created",
							map[string]any{"case": name, "history": events})
					}
				} else {
					r.Bucket("create_auto_device_error", 1)
				}
				if !violated {
					check("after the call returned")
				}
				if !violated {
					w.touchP("p1")
					if refresh("next incremental") {
						check("after the next synchronisation")
					}
				}
				verifhook.Set(nil)
				q.settle()
				r.Bucket("create_auto_cases", 1)
				r.Eval(name, change != "none")
				if ci == 7 {
					r.Sample(map[string]any{"part": "create-auto-device", "case": name, "history": events})
				}
			}
		}
	}
	_ = profiledb.ErrDeviceNotFound
}
