package c14

import (
	"os"
	"testing"

	"github.com/AdguardTeam/AdGuardDNS/verif/vkit"
)

func TestCheck(t *testing.T) {
	r := vkit.Start(t, "C14", "exploration")
	defer r.Finish()
	r.Rule("sequential: seeded histories of 5-8 synchronisations over small key pools (8 device ids, 6 linked IPs, 6 dedicated IPs, 4 human ids, 5 profiles) " +
		"with 1-3 changes between synchronisations (attach / detach / re-attach / move device, set or swap linked IPs, dedicated IPs, human ids, delete / add / touch profile, restart from cache), " +
		"each run in three clean-up orders (every clean-up runs before the next synchronisation / after it / seeded per hook point), plus 10 directed scenarios x both orders; " +
		"after every synchronisation all four lookups are issued for every key of the pools and never-existing ones; " +
		"distinct = (clean-up order, full-only flag, multiset of change kinds); non-trivial = at least one background clean-up was triggered in the history. " +
		"concurrent: rounds of 6 lookup goroutines against a synchroniser, decided per key by interval rule + porcupine. " +
		"fields: every variant of every profile/device setting through store+load (distinct = combination of variants). " +
		"atomic: SIGKILL of a child that stores two different caches alternately (random times and strace-injected at rename/write/fsync)")
	r.Assume("a synchronisation response carries every changed profile together with all its devices (backend protocol shape); two live devices never own the same key")
	r.Assume("keys of devices that a deleted profile still lists are not handed out again; a profile flagged deleted is 'not found' (consumers drop Profile.Deleted)")
	r.Assume("CreateAutoDevice is not exercised")
	r.Assume("runtime.NumGoroutine()-baseline counts the unfinished clean-up goroutines (the harness starts no goroutine of its own during sequential histories)")

	dir := scratchDir(t)
	if os.Getenv("C14_ONLY") == "" || os.Getenv("C14_ONLY") == "seq" {
		sequential(r, dir)
	}
	if os.Getenv("C14_ONLY") == "" || os.Getenv("C14_ONLY") == "fields" {
		fieldFidelity(r, dir)
	}
}

func TestMain(m *testing.M) {
	code := m.Run()
	if os.Getenv("C14_DEBUG") != "" {
		println("settle calls", settleCalls, "total ms", settleNanos/1e6)
	}
	os.Exit(code)
}
