package c14

import (
	"fmt"
	"os"
	"testing"

	"github.com/AdguardTeam/AdGuardDNS/verif/vkit"
)

func TestCheck(t *testing.T) {
	r := vkit.Start(t, "C14", "exploration")
	defer r.Finish()
	r.Rule("sequential: seeded histories of 5-8 synchronisations over small key pools (8 device ids, 6 linked IPs, 6 dedicated IPs, 4 human ids, 5 profiles) " +
		"with 1-3 changes between synchronisations (attach / detach / re-attach / move device, set or swap linked IPs, dedicated IPs, human ids, delete / add / touch profile, restart from cache), " +
		"each run in three clean-up orders (every clean-up runs before the next synchronisation / after it / seeded per hook point), plus 10 directed scenarios x both orders; " +
		"after every synchronisation all four lookups are issued for every key of the pools and never-existing ones; " +
		"distinct = (clean-up order, full-only flag, multiset of change kinds); non-trivial = at least one background clean-up was triggered in the history. " +
		"every refresh's request sync time is checked against the protocol (zero or the sync time of the last successful response; an incremental refresh must carry the latter), one seeded synchronisation failure in a third of the histories, 5 directed failed-full-sync scenarios; the access settings (Config() and IsBlocked probes) of every looked-up profile are compared with the synchronised variant, 4 directed scenarios change only subnets / only ASNs / only name rules in incremental syncs. concurrent: rounds of 6 lookup goroutines against a synchroniser, decided per key by interval rule + porcupine. " +
		"fields: every variant of every profile/device setting through store+load (distinct = combination of variants). " +
		"atomic: write failures (RLIMIT_FSIZE/EFBIG at 8 limits x 2 initial versions, strace-injected ENOSPC at the N-th write) in a child storing over an existing good cache; SIGKILL of a child that stores two different caches alternately (random times and strace-injected at rename/write/fsync)")
	r.Assume("a synchronisation response carries every changed profile together with all its devices (backend protocol shape); two live devices never own the same key")
	r.Assume("keys of devices that a deleted profile still lists are not handed out again; a profile flagged deleted is 'not found' (consumers drop Profile.Deleted)")
	r.Assume("a device returned by CreateAutoDevice may or may not be served before a synchronisation has delivered it")
	r.Assume("runtime.NumGoroutine()-baseline counts the unfinished clean-up goroutines (the harness starts no goroutine of its own during sequential histories)")

	dir := scratchDir(t)
	if os.Getenv("C14_ONLY") == "" || os.Getenv("C14_ONLY") == "seq" {
		sequential(r, dir)
		naturalOrder(r)
	}
	if os.Getenv("C14_ONLY") == "" || os.Getenv("C14_ONLY") == "stress" {
		cleanupStress(r)
		createAuto(r)
		overlappingRefreshes(r)
	}
	if os.Getenv("C14_ONLY") == "" || os.Getenv("C14_ONLY") == "fields" {
		fieldFidelity(r, dir)
		corruptCacheRestart(r, dir)
	}
	if os.Getenv("C14_ONLY") == "" || os.Getenv("C14_ONLY") == "conc" {
		concurrent(r)
	}
	if os.Getenv("C14_ONLY") == "" || os.Getenv("C14_ONLY") == "atomic" {
		atomicReplace(r, dir)
	}
	if os.Getenv("C14_ONLY") == "" {
		for _, pt := range ownPoint {
			r.Require("hook_hits:"+pt, 100)
			r.Require("cleanup_order:"+pt+":ran_before_next_sync", 50)
			r.Require("cleanup_order:"+pt+":ran_after_next_sync", 50)
		}
		r.Require("key_changed_owner", 100)
		r.Require("syncs_full", 100)
		r.Require("syncs_incremental", 500)
		r.Require("restart_checks", 100)
		r.Require("restart_found_compared", 1000)
		r.Require("restarts_continued", 20)
		r.Require("restart_field_cases", 80)
		r.Require("corrupt_cache_restart_cases", 30)
		r.Require("corrupt_cache_refresh_incremental", 30)
		r.Require("field_variants_seen", 50)
		r.Require("restart_ip_form_lookups", 100)
		r.Require("conc_rounds", 8)
		r.Require("handover_rounds", 3)
		r.Require("handover_syncs", 300)
		for _, kn := range kindName {
			r.Require("handover_lookups_overlapping_sync:"+kn, 100)
		}
		r.Require("conc_lookups_overlapping_sync", 100)
		r.Require("porcupine_ok", 30)
		r.Require("natural_order_lookups", 1000)
		r.Require("stress_rounds", 50)
		r.Require("stress_cleanups_in_flight_during_sync:natural_schedule", 300)
		r.Require("stress_cleanups_in_flight_during_sync:released_inside_sync", 300)
		r.Require("create_auto_device_overlapping_sync", 40)
		r.Require("create_auto_device_ok", 30)
		r.Require("overlapping_refresh_cases", 15)
		r.Require("sync_requests_checked", 1000)
		r.Require("syncs_failed_full", 8)
		r.Require("sync_requests_incremental_after_failed_full", 10)
		r.Require("incremental_after_failed_full_with_deletion", 4)
		r.Require("access_settings_compared", 200)
		r.Require("access_settings_probed", 50)
		r.Require("access_change_in_incremental_sync:subnets-only", 4)
		r.Require("access_change_in_incremental_sync:asns-only", 4)
		r.Require("access_change_in_incremental_sync:names-only", 4)
		r.Require("failed_store_cases", 10)
		r.Require("failed_stores_observed", 12)
		r.Require("failed_store_successful_stores", 4)
		r.Require("atomic_kills", 12)
		r.Require("atomic_kills:random", 8)
		if r.BucketGet("strace_usable") > 0 {
			r.Require("atomic_kills:strace", 3)
		}
	}
	orders := map[string]map[string]int64{}
	for _, pt := range ownPoint {
		orders[pt] = map[string]int64{
			"clean-up ran before the next synchronisation":    r.BucketGet("cleanup_order:" + pt + ":ran_before_next_sync"),
			"clean-up ran after the next synchronisation":     r.BucketGet("cleanup_order:" + pt + ":ran_after_next_sync"),
			"after it, without blocking hooks (GOMAXPROCS 1)": r.BucketGet("natural_order:" + pt + ":ran_after_next_sync"),
		}
	}
	r.Extra("interleavings_produced", orders)
	r.Extra("key_scheme", "cleanup-deletes-new-owner:<index> = found-expected/not-found-observed with a clean-up of that index observed parked across the synchronisation that re-assigned the key; "+
		"lookup:<index>:<class> sequential mismatch; concurrent[-final]:<index>:<class>; restart:field:<path> per setting; restart:lookup:<index>:<class>; atomic-replace:*")
	if n := r.BucketGet("model_ambiguous"); n > 0 {
		r.Inconclusive(fmt.Sprintf("the generator produced %d keys with two live owners", n))
	}
	if n := r.BucketGet("quiesce_timeouts"); n > 0 {
		r.Inconclusive(fmt.Sprintf("%d time-outs while waiting for clean-up goroutines to park or finish", n))
	}
}

func TestMain(m *testing.M) {
	code := m.Run()
	if os.Getenv("C14_DEBUG") != "" {
		println("settle calls", settleCalls, "total ms", settleNanos/1e6)
	}
	os.Exit(code)
}
