package c14

// Part 4c: restart from a cache file in which ONE profile record has become
// undecodable by restart time (the time zone of its pause schedule is no
// longer known to the system) while the others are fine.  Whatever the
// database makes of such a file, after its first refresh against a backend
// that follows the protocol every lookup must reflect the latest synchronised
// data: a record it could not load must be fetched again.

import (
	"bytes"
	"context"
	"fmt"
	"net/netip"
	"os"
	"path/filepath"

	"github.com/AdguardTeam/AdGuardDNS/internal/agd"
	"github.com/AdguardTeam/AdGuardDNS/internal/verifhook"
	"github.com/AdguardTeam/AdGuardDNS/verif/vkit"
)

func corruptCacheRestart(r *vkit.Run, dir string) {
	const goodZone, badZone = "Europe/Brussels", "Europe/Brusselz"
	ci := 0
	for _, nProf := range []int{2, 3, 4} {
		for victim := 0; victim < nProf; victim++ {
			for _, future := range []bool{true, false} {
				for _, changeOther := range []bool{false, true} {
					ci++
					rng := r.Rand("corrupt-cache", ci)
					name := fmt.Sprintf("corrupt-cache/profiles=%d/victim=%d/cache-younger-than-full-sync-interval=%v/other-profile-changes=%v", nProf, victim, future, changeOther)
					base := basePast
					if future {
						base = baseFuture
					}
					hc := newHookCtl()
					verifhook.Set(hc.cb)
					q := &quiesce{h: hc, baseline: stableGoroutines()}
					w := newWorld(base, false, seqPools)
					st := &scriptedStorage{w: w, rng: r.Rand("corrupt-cache-order", ci)}
					cache := filepath.Join(dir, fmt.Sprintf("corrupt-%d.pb", ci))
					_ = os.Remove(cache)
					var events []string
					fail := func(key, what string, extra map[string]any) {
						wm := map[string]any{"case": name, "history": events}
						for k, v := range extra {
							wm[k] = v
						}
						r.Violation(key, what, wm)
					}
					done := func() {
						verifhook.Set(nil)
						q.settle()
						_ = os.Remove(cache)
					}
					db, err := newDBRetry(st, cache, ivlNever, ivlNever)
					if err != nil {
						r.Inconclusive("profiledb.New: " + err.Error())
						done()
						return
					}
					// every profile has devices with all kinds of keys; only
					// the victim's pause schedule uses the zone
					for i := 0; i < nProf; i++ {
						id := poolProf[i]
						w.addProfile(id, false)
						w.profs[id].SchedSel = 1 + 3 // Asia/Kolkata
						if i == victim {
							w.profs[id].SchedSel = 1 + 2 // Europe/Brussels
						}
						d1, d2 := poolDev[2*i], poolDev[2*i+1]
						w.addDevice(d1, id, poolLinked[i], []netip.Addr{poolDed[i]}, poolHid[0])
						w.addDevice(d2, id, netip.Addr{}, nil, poolHid[1])
					}
					if err = db.Refresh(context.Background()); err != nil || !st.lastFu {
						fail("refresh:error", fmt.Sprintf("initial full synchronisation: err=%v full=%v", err, st.lastFu), nil)
						done()
						continue
					}
					m := newModel()
					m.apply(st.last, true)
					events = append(events, "FULL SYNC (cache written): "+describeResp(st.last, true))
					// the record becomes undecodable
					raw, rerr := os.ReadFile(cache)
					if rerr != nil || bytes.Count(raw, []byte(goodZone)) != 1 {
						r.Bucket("corrupt_cache_cannot_patch", 1)
						done()
						continue
					}
					raw = bytes.Replace(raw, []byte(goodZone), []byte(badZone), 1)
					if err = os.WriteFile(cache, raw, 0o600); err != nil {
						r.Inconclusive("cannot rewrite the cache file: " + err.Error())
						done()
						return
					}
					events = append(events, fmt.Sprintf("cache file: time zone %q of profile %s replaced by the unknown %q", goodZone, poolProf[victim], badZone))
					db2, err := newDBRetry(st, cache, ivlNever, ivlNever)
					if err != nil {
						r.Inconclusive("profiledb.New (restart): " + err.Error())
						done()
						return
					}
					events = append(events, "RESTART from the cache file")
					// before the first refresh: the cache content or nothing, never something else
					loaded, notLoaded := 0, 0
					for _, k := range seqUniverse() {
						p, d, e := doLookup(db2, k)
						a := normalise(p, d, e)
						exp := m.expect(k)
						r.Bucket("corrupt_cache_lookups", 1)
						if cls := judge(k, exp, a); cls != "" && (a.Found || a.BadErr) {
							fail("restart:corrupt-cache-record:"+kindName[k.K]+":"+cls+"-before-refresh",
								fmt.Sprintf("%s: before its first refresh the restarted database answers %s for %s; the cache held %s", name, a.short(), k, exp.short()), map[string]any{"key": k.String()})
						}
						if exp.Found && a.Found {
							loaded++
						} else if exp.Found {
							notLoaded++
						}
					}
					r.Bucket(fmt.Sprintf("corrupt_cache_restart:loaded_some=%v/missed_some=%v", loaded > 0, notLoaded > 0), 1)
					// refreshes; the victim profile never changes on the backend
					bad := false
					for i := 0; i < 3 && !bad; i++ {
						if changeOther || i > 0 {
							other := poolProf[(victim+1)%nProf]
							if rng.IntN(2) == 0 {
								w.touchP(other)
							} else {
								w.setLinked(poolDev[2*((victim+1)%nProf)], poolLinked[5])
							}
						}
						if err = db2.Refresh(context.Background()); err != nil {
							fail("refresh:error", "refresh after the restart failed: "+err.Error(), nil)
							break
						}
						m.apply(st.last, st.lastFu)
						events = append(events, fmt.Sprintf("refresh %d after the restart: %s", i+1, describeResp(st.last, st.lastFu)))
						if st.lastFu {
							r.Bucket("corrupt_cache_refresh_full", 1)
						} else {
							r.Bucket("corrupt_cache_refresh_incremental", 1)
						}
						q.settle()
						for _, k := range seqUniverse() {
							p, d, e := doLookup(db2, k)
							a := normalise(p, d, e)
							exp := m.expect(k)
							r.Bucket("corrupt_cache_lookups", 1)
							if cls := judge(k, exp, a); cls != "" {
								bad = true
								fail("restart:corrupt-cache-record:"+kindName[k.K]+":"+cls,
									fmt.Sprintf("%s: after refresh %d following the restart, lookup %s answers %s, the latest synchronised data say %s "+
										"(a cache record that could not be loaded must be fetched again: a partially loaded cache must not keep its sync time)", name, i+1, k, a.short(), exp.short()),
									map[string]any{"key": k.String(), "observed": a, "expected": exp.short()})
							}
						}
						q.settle()
					}
					r.Bucket("corrupt_cache_restart_cases", 1)
					r.Eval(name, true)
					if ci == 3 {
						r.Sample(map[string]any{"part": "corrupt-cache-restart", "case": name, "history": events})
					}
					done()
				}
			}
		}
	}
	_ = agd.ProfileID("")
}
