package c14

// Part 7: two overlapping Refresh calls (periodic worker and debug API share
// one database).  The scripted storage holds the response of the FIRST
// request (older snapshot) until the SECOND request (newer snapshot) has
// completed, if the database lets the second one through at all; afterwards
// every lookup must reflect the newer snapshot.

import (
	"context"
	"fmt"
	"net/netip"
	"time"

	"github.com/AdguardTeam/AdGuardDNS/internal/verifhook"
	"github.com/AdguardTeam/AdGuardDNS/verif/vkit"
)

func overlappingRefreshes(r *vkit.Run) {
	x, y := poolLinked[0], poolLinked[1]
	dx, dy := poolDed[0], poolDed[1]
	changes := []struct {
		name string
		ops  func(w *world)
	}{
		{"detach-device", func(w *world) { w.detach("d0") }},
		{"delete-profile", func(w *world) { w.deleteProfile("p0", false) }},
		{"move-device", func(w *world) { w.move("d0", "p1") }},
		{"change-linked-ip", func(w *world) { w.setLinked("d0", poolLinked[2]) }},
		{"hand-linked-ip-over", func(w *world) { w.swapLinked("d0", "d1") }},
		{"hand-dedicated-ip-over", func(w *world) { w.swapDed("d0", "d1") }},
		{"change-human-id", func(w *world) { w.setHid("d0", "h2") }},
		{"touch-profile", func(w *world) { w.touchP("p0") }},
		{"attach-device", func(w *world) { w.addDevice("d3", "p0", poolLinked[3], nil, "h1") }},
	}
	ci := 0
	for _, ch := range changes {
		for _, firstTouches := range []string{"same-profile", "other-profile"} {
			ci++
			name := fmt.Sprintf("overlapping-refresh/%s/first-response-covers-%s", ch.name, firstTouches)
			hc := newHookCtl()
			verifhook.Set(hc.cb)
			q := &quiesce{h: hc, baseline: stableGoroutines()}
			w := newWorld(basePast, false, seqPools)
			st := &scriptedStorage{w: w, rng: r.Rand("overlap-order", ci)}
			r1Built := make(chan struct{}, 1)
			r2Arrived := make(chan struct{}, 1)
			release1 := make(chan struct{})
			first := 0
			st.afterUnlock = func(n int) {
				switch {
				case first != 0 && n == first:
					r1Built <- struct{}{}
					<-release1
				case first != 0 && n == first+1:
					r2Arrived <- struct{}{}
				}
			}
			db, err := newDB(st, "none", ivlNever)
			if err != nil {
				r.Inconclusive("profiledb.New: " + err.Error())
				verifhook.Set(nil)
				return
			}
			var events []string
			m := newModel()
			w.addProfile("p0", false)
			w.addProfile("p1", false)
			w.addDevice("d0", "p0", x, []netip.Addr{dx}, "h0")
			w.addDevice("d1", "p0", y, []netip.Addr{dy}, "h1")
			w.addDevice("d2", "p1", netip.Addr{}, nil, "h0")
			if err = db.Refresh(context.Background()); err != nil {
				r.Violation("refresh:error", "synchronisation failed: "+err.Error(), map[string]any{"case": name})
				verifhook.Set(nil)
				continue
			}
			m.apply(st.last, st.lastFu)
			events = append(events, "FULL SYNC "+describeResp(st.last, true))
			// something for the first (older) response to carry
			if firstTouches == "same-profile" {
				w.touchP("p0")
			} else {
				w.touchP("p1")
			}
			st.mu.Lock()
			first = st.calls + 1
			st.mu.Unlock()
			done1, done2 := make(chan error, 1), make(chan error, 1)
			go func() { done1 <- db.Refresh(context.Background()) }()
			<-r1Built
			events = append(events, "refresh 1: the backend has built its response (older snapshot) and holds it")
			logStart := len(w.log)
			ch.ops(w)
			for _, l := range w.log[logStart:] {
				events = append(events, "world: "+l)
			}
			go func() { done2 <- db.Refresh(context.Background()) }()
			overlapped := false
			select {
			case <-r2Arrived:
				// the database lets a second refresh reach the backend while
				// the first is in flight: let it complete first
				overlapped = true
				select {
				case e2 := <-done2:
					done2 <- e2
					events = append(events, "refresh 2 (newer snapshot) reached the backend and completed while refresh 1 was held")
				case <-time.After(20 * time.Second):
					events = append(events, "refresh 2 reached the backend but did not complete while refresh 1 was held")
				}
			case <-time.After(150 * time.Millisecond):
				// refreshes are serialised by the database: nothing to hold
				events = append(events, "refresh 2 did not reach the backend while refresh 1 was in flight (refreshes are serialised)")
			}
			close(release1)
			e1, e2 := <-done1, <-done2
			if e1 != nil || e2 != nil {
				r.Violation("refresh:error", fmt.Sprintf("overlapping refreshes failed: %v / %v", e1, e2), map[string]any{"case": name, "history": events})
				verifhook.Set(nil)
				continue
			}
			if overlapped {
				r.Bucket("overlapping_refresh_second_completed_first", 1)
			} else {
				r.Bucket("overlapping_refresh_serialised_by_database", 1)
			}
			// the model: the responses in the order in which the backend produced them
			st.mu.Lock()
			served := append([]servedResp(nil), st.served[first-1:]...)
			st.mu.Unlock()
			for i, sr := range served {
				m.apply(sr.resp, sr.full)
				events = append(events, fmt.Sprintf("backend response %d: %s", i+1, describeResp(sr.resp, sr.full)))
			}
			check := func(when string) (bad bool) {
				if !q.settle() {
					r.Bucket("quiesce_timeouts", 1)
					return true
				}
				for _, k := range seqUniverse() {
					p, d, e := doLookup(db, k)
					a := normalise(p, d, e)
					exp := m.expect(k)
					r.Bucket("overlapping_refresh_lookups", 1)
					if cls := judge(k, exp, a); cls != "" {
						bad = true
						r.Violation("overlapping-refresh:"+kindName[k.K]+":"+cls,
							fmt.Sprintf("%s, %s: lookup %s answers %s, the newer of the two synchronised snapshots says %s (the response fetched first was applied after a newer one: fetching and applying must be serialised together, or an older response must be discarded)",
								name, when, k, a.short(), exp.short()),
							map[string]any{"case": name, "history": events, "key": k.String(), "observed": a, "expected": exp.short(), "second_refresh_overtook": overlapped})
					}
				}
				q.settle()
				return bad
			}
			if !check("after both refreshes completed") {
				w.touchP("p1")
				if err = db.Refresh(context.Background()); err == nil {
					m.apply(st.last, st.lastFu)
					check("after the next refresh")
				}
			}
			verifhook.Set(nil)
			q.settle()
			r.Bucket("overlapping_refresh_cases", 1)
			r.Eval(name, true)
			if ci == 5 {
				r.Sample(map[string]any{"part": "overlapping-refresh", "case": name, "history": events})
			}
		}
	}
}
