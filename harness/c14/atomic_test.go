package c14

// Part 5: atomic replacement of the cache file.  A child process (re-exec of
// this test binary) stores two different caches alternately through the real
// database; the parent kills it with SIGKILL at seeded random times and, under
// strace, at the N-th rename / write / fsync; after every kill the file must
// load as exactly one of the two complete versions.

import (
	"bufio"
	"context"
	"fmt"
	"net/netip"
	"os"
	"os/exec"
	"os/signal"
	"path/filepath"
	"runtime"
	"strings"
	"syscall"
	"testing"
	"time"

	"github.com/AdguardTeam/AdGuardDNS/internal/agd"
	"github.com/AdguardTeam/AdGuardDNS/internal/profiledb"
	"github.com/AdguardTeam/AdGuardDNS/verif/vkit"
)

// versionResp builds cache version "A" (small) or "B" (large).  Both own the
// shared keys (device s0, linked IP 10.7.0.1, dedicated IP 192.0.2.250,
// human id shared in profile vs) with different records.
func versionResp(tag string) *profiledb.StorageProfilesResponse {
	resp := &profiledb.StorageProfilesResponse{}
	np, nd := 3, 2
	epoch := 11
	if tag == "B" {
		np, nd = 60, 5
		epoch = 12
	}
	resp.SyncTime = encodeToken(basePast, epoch)
	dn := 0
	for i := 0; i < np; i++ {
		wp := &wProf{ID: agd.ProfileID(fmt.Sprintf("%s%d", strings.ToLower(tag), i)), Ver: epoch*100 + i}
		var devs []*wDev
		for j := 0; j < nd; j++ {
			d := &wDev{
				ID: agd.DeviceID(fmt.Sprintf("%sd%d", strings.ToLower(tag), dn)), Prof: wp.ID, Ver: epoch,
				Linked: netip.AddrFrom4([4]byte{10, byte(epoch), byte(dn >> 8), byte(dn)}),
				Ded:    []netip.Addr{netip.AddrFrom4([4]byte{172, byte(epoch), byte(dn >> 8), byte(dn)})},
			}
			if j == 0 {
				d.Hid = agd.HumanIDLower(fmt.Sprintf("hum-%d", i))
			}
			dn++
			devs = append(devs, d)
			wp.Devs = append(wp.Devs, d.ID)
		}
		resp.Profiles = append(resp.Profiles, mkProfile(wp))
		for _, d := range devs {
			rec := mkDevice(d)
			if tag == "B" {
				rec.Name = agd.DeviceName(string(rec.Name) + strings.Repeat("-padding", 12))
			}
			resp.Devices = append(resp.Devices, rec)
		}
	}
	vs := &wProf{ID: "vs", Ver: epoch, Devs: []agd.DeviceID{"s0"}}
	resp.Profiles = append(resp.Profiles, mkProfile(vs))
	resp.Devices = append(resp.Devices, mkDevice(&wDev{
		ID: "s0", Prof: "vs", Ver: epoch, Linked: mustAddr("10.7.0.1"), Ded: []netip.Addr{mustAddr("192.0.2.250")}, Hid: "shared",
	}))
	return resp
}

func versionKeys() (keys []lkey) {
	seen := map[string]bool{}
	for _, tag := range []string{"A", "B"} {
		resp := versionResp(tag)
		prof := map[agd.DeviceID]agd.ProfileID{}
		for _, p := range resp.Profiles {
			for _, d := range p.DeviceIDs {
				prof[d] = p.ID
			}
		}
		for _, d := range resp.Devices {
			ks := []lkey{{K: kDev, Dev: d.ID}, {K: kLinked, IP: d.LinkedIP}}
			for _, ip := range d.DedicatedIPs {
				ks = append(ks, lkey{K: kDed, IP: ip})
			}
			if d.HumanIDLower != "" {
				ks = append(ks, lkey{K: kHuman, Prof: prof[d.ID], Hid: d.HumanIDLower})
			}
			for _, k := range ks {
				if !seen[k.String()] {
					seen[k.String()] = true
					keys = append(keys, k)
				}
			}
		}
	}
	return keys
}

// altStorage answers A, B, A, B, …
type altStorage struct {
	n    int
	last string
}

func (s *altStorage) CreateAutoDevice(context.Context, *profiledb.StorageCreateAutoDeviceRequest) (*profiledb.StorageCreateAutoDeviceResponse, error) {
	return nil, errStorage
}

func (s *altStorage) Profiles(context.Context, *profiledb.StorageProfilesRequest) (*profiledb.StorageProfilesResponse, error) {
	s.last = "AB"[s.n%2 : s.n%2+1]
	s.n++
	return versionResp(s.last), nil
}

// TestChild is the storing child; it does nothing unless the role is set.
func TestChild(t *testing.T) {
	if os.Getenv("VERIF_C14_ROLE") == "faulty" {
		faultyChild()
	}
	if os.Getenv("VERIF_C14_ROLE") != "storer" {
		t.Skip("child role not set")
	}
	cache := os.Getenv("VERIF_C14_CACHE")
	maxIter := 1 << 30
	if s := os.Getenv("VERIF_C14_MAXITER"); s != "" {
		fmt.Sscan(s, &maxIter)
	}
	st := &altStorage{n: 1} // the parent has stored A; start with B
	db, err := newDB(st, cache, 0)
	if err != nil {
		fmt.Println("child-error", err)
		os.Exit(3)
	}
	for i := 0; i < maxIter; i++ {
		if err = db.Refresh(context.Background()); err != nil {
			fmt.Println("child-error", err)
			os.Exit(3)
		}
		fmt.Printf("stored %d %s\n", i, st.last)
	}
	os.Exit(0)
}

// faultyChild stores B, A, B, … (or A, B, …) over an existing good cache while
// writes to the cache temp file fail: either because RLIMIT_FSIZE is smaller
// than the file (SIGXFSZ ignored, write returns a short count and then EFBIG)
// or because the parent runs it under strace with an injected ENOSPC.  All
// its syscalls happen on one locked OS thread so that strace's per-thread
// "when=N" is a position in the store sequence.  It reports what every
// Refresh returned.
func faultyChild() {
	runtime.LockOSThread()
	cache := os.Getenv("VERIF_C14_CACHE")
	iters := 4
	if s := os.Getenv("VERIF_C14_MAXITER"); s != "" {
		fmt.Sscan(s, &iters)
	}
	if s := os.Getenv("VERIF_C14_FSIZE"); s != "" {
		var lim uint64
		fmt.Sscan(s, &lim)
		signal.Ignore(syscall.SIGXFSZ)
		if err := syscall.Setrlimit(syscall.RLIMIT_FSIZE, &syscall.Rlimit{Cur: lim, Max: lim}); err != nil {
			fmt.Println("child-error setrlimit", err)
			os.Exit(3)
		}
	}
	first := 0
	lastGood := os.Getenv("VERIF_C14_INITIAL")
	if lastGood == "A" {
		first = 1
	}
	st := &altStorage{n: first}
	db, err := newDB(st, cache, 0)
	if err != nil {
		fmt.Println("child-error", err)
		os.Exit(3)
	}
	failed, ok := 0, 0
	for i := 0; i < iters; i++ {
		if err = db.Refresh(context.Background()); err != nil {
			failed++
			fmt.Printf("store-failed %d %s %v\n", i, st.last, err)
		} else {
			ok++
			lastGood = st.last
			fmt.Printf("stored %d %s\n", i, st.last)
		}
	}
	fmt.Printf("summary failed=%d ok=%d last_good=%s\n", failed, ok, lastGood)
	os.Exit(0)
}

func loadAll(db profiledb.Interface, keys []lkey) map[lkey]lookupResult {
	out := map[lkey]lookupResult{}
	for _, k := range keys {
		p, d, err := doLookup(db, k)
		out[k] = lookupResult{p: p, d: d, err: err, a: normalise(p, d, err)}
	}
	return out
}

// sameAs reports whether got equals the reference version: same answers and
// equal exported fields of every record.
func sameAs(got, ref map[lkey]lookupResult) (ok bool, firstDiff string) {
	for k, rv := range ref {
		g := got[k]
		if g.a.Found != rv.a.Found || g.a.short() != rv.a.short() {
			return false, fmt.Sprintf("%s: %s vs %s", k, g.a.short(), rv.a.short())
		}
		if g.a.Found {
			c := &cmpCtx{opaque: map[string]bool{}}
			c.compareValues("Profile", reflectOf(rv.p), reflectOf(g.p))
			c.compareValues("Device", reflectOf(rv.d), reflectOf(g.d))
			if len(c.diffs) > 0 {
				return false, fmt.Sprintf("%s: field %s", k, c.diffs[0].Path)
			}
		}
	}
	return true, ""
}

func straceUsable(dir string) bool {
	if _, err := exec.LookPath("strace"); err != nil {
		return false
	}
	probe := filepath.Join(dir, "strace-probe")
	_ = os.WriteFile(probe, []byte("x"), 0o600)
	defer os.Remove(probe)
	defer os.Remove(probe + ".2")
	cmd := exec.Command("strace", "-f", "-qq", "-o", "/dev/null", "-e", "trace=rename,renameat,renameat2",
		"-e", "inject=rename,renameat,renameat2:signal=SIGKILL:when=1", "mv", probe, probe+".2")
	_ = cmd.Run()
	// the rename must have been prevented by the injected SIGKILL
	_, err1 := os.Stat(probe)
	_, err2 := os.Stat(probe + ".2")
	return err1 == nil && err2 != nil
}

func atomicReplace(r *vkit.Run, dir string) {
	keys := versionKeys()
	// reference: what a complete cache file of each version loads as (so that a
	// setting lost by store/load, which has its own key, is not mistaken for a
	// torn file)
	refs := map[string]map[lkey]lookupResult{}
	refBytes := map[string][]byte{}
	_ = os.MkdirAll(filepath.Join(dir, "atomic-ref"), 0o755)
	for _, tag := range []string{"A", "B"} {
		refCache := filepath.Join(dir, "atomic-ref", tag+".pb")
		_ = os.Remove(refCache)
		db, err := newDB(&fixedStorage{resp: versionResp(tag)}, refCache, 0)
		if err != nil {
			r.Inconclusive("profiledb.New: " + err.Error())
			return
		}
		if err = db.Refresh(context.Background()); err != nil {
			r.Inconclusive("reference refresh: " + err.Error())
			return
		}
		db2, err := newDB(&failingStorage{}, refCache, ivlNever)
		if err != nil {
			r.Inconclusive("profiledb.New: " + err.Error())
			return
		}
		refs[tag] = loadAll(db2, keys)
		refBytes[tag], _ = os.ReadFile(refCache)
	}
	if ok, _ := sameAs(refs["A"], refs["B"]); ok || !refs["A"][lkey{K: kDev, Dev: "s0"}].a.Found {
		r.Inconclusive("the two cache versions are not distinguishable")
		return
	}
	adir := filepath.Join(dir, "atomic")
	_ = os.MkdirAll(adir, 0o755)
	cache := filepath.Join(adir, "profiles.pb")
	useStrace := straceUsable(adir)
	if os.Getenv("C14_SKIP_FAILED_STORES") == "" {
		failedStores(r, adir, cache, keys, refs, refBytes, useStrace)
	}
	if os.Getenv("C14_SKIP_KILLS") != "" {
		return
	}

	type plan struct {
		method string // "random" or the injected syscall
		when   int
	}
	var plans []plan
	nRandom := r.N(20, 200)
	for i := 0; i < nRandom; i++ {
		plans = append(plans, plan{"random", i})
	}
	if useStrace {
		for _, sc := range []string{"renameat", "fsync", "write"} {
			n := r.N(4, 30)
			for w := 1; w <= n; w++ {
				plans = append(plans, plan{sc, w})
			}
		}
		r.Bucket("strace_usable", 1)
	} else {
		r.Bucket("strace_unusable", 1)
	}

	for pi, pl := range plans {
		rng := r.Rand("atomic", pi)
		t0 := time.Now()
		// a complete version A is in place before the child starts
		_ = os.RemoveAll(adir)
		_ = os.MkdirAll(adir, 0o755)
		dbA, err := newDB(&fixedStorage{resp: versionResp("A")}, cache, 0)
		if err == nil {
			err = dbA.Refresh(context.Background())
		}
		if err != nil {
			r.Inconclusive("cannot pre-store version A: " + fmt.Sprint(err))
			return
		}
		args := []string{"-test.run=^TestChild$", "-test.timeout=120s"}
		var cmd *exec.Cmd
		if pl.method == "random" {
			cmd = exec.Command(os.Args[0], args...)
		} else {
			inj := pl.method
			if inj == "renameat" {
				inj = "rename,renameat,renameat2"
			}
			sargs := []string{"-f", "-qq", "-o", "/dev/null", "-e", "trace=rename,renameat,renameat2,write,fsync",
				"-e", fmt.Sprintf("inject=%s:signal=SIGKILL:when=%d", inj, pl.when), os.Args[0]}
			cmd = exec.Command("strace", append(sargs, args...)...)
		}
		cmd.Env = append(childEnv(), "VERIF_C14_ROLE=storer", "VERIF_C14_CACHE="+cache, "VERIF_C14_MAXITER=60")
		cmd.Stderr = nil
		out, err := cmd.StdoutPipe()
		if err != nil {
			r.Inconclusive("pipe: " + err.Error())
			return
		}
		event := fmt.Sprintf("plan %d: method=%s when=%d", pi, pl.method, pl.when)
		if err = cmd.Start(); err != nil {
			r.Inconclusive("cannot start child: " + err.Error())
			return
		}
		lines := make(chan string, 256)
		go func() {
			sc := bufio.NewScanner(out)
			for sc.Scan() {
				select {
				case lines <- sc.Text():
				default:
				}
			}
			close(lines)
		}()
		stored := 0
		lastStored := ""
		childErr := ""
		killedByParent := false
		waitFor := 1 + rng.IntN(5)
		deadline := time.After(90 * time.Second)
	loop:
		for {
			select {
			case l, ok := <-lines:
				if !ok {
					break loop
				}
				if strings.HasPrefix(l, "stored ") {
					stored++
					lastStored = l
					if pl.method == "random" && stored == waitFor {
						// seeded delay into the next store, then SIGKILL
						time.Sleep(time.Duration(rng.IntN(25000)) * time.Microsecond)
						_ = cmd.Process.Signal(syscall.SIGKILL)
						killedByParent = true
					}
				} else if strings.HasPrefix(l, "child-error") {
					childErr = l
				}
			case <-deadline:
				_ = cmd.Process.Signal(syscall.SIGKILL)
				r.Bucket("atomic_child_watchdog", 1)
				break loop
			}
		}
		t1 := time.Now()
		werr := cmd.Wait()
		t2 := time.Now()
		for range lines {
		}
		exit := fmt.Sprint(werr)
		if childErr != "" {
			r.Violation("atomic-replace:store-error", "the storing child reported an error: "+childErr, map[string]any{"plan": event})
			continue
		}
		died := werr != nil && (killedByParent || strings.Contains(exit, "killed") || strings.Contains(exit, "137"))
		if !died {
			// the injected syscall count was never reached: nothing to check
			r.Bucket("atomic_child_not_killed:"+pl.method, 1)
			continue
		}
		// the file must load as exactly one complete version
		raw, rerr := os.ReadFile(cache)
		dbK, err := newDB(&failingStorage{}, cache, ivlNever)
		if err != nil {
			r.Inconclusive("profiledb.New after kill: " + err.Error())
			return
		}
		got := loadAll(dbK, keys)
		okA, diffA := sameAs(got, refs["A"])
		okB, diffB := sameAs(got, refs["B"])
		tmp := 0
		if ents, e := os.ReadDir(adir); e == nil {
			for _, en := range ents {
				if en.Name() != filepath.Base(cache) {
					tmp++
				}
			}
		}
		w := map[string]any{"plan": event, "stores_completed_before_kill": stored, "last_line": lastStored, "exit": exit,
			"file_size": len(raw), "read_error": fmt.Sprint(rerr), "differs_from_A": diffA, "differs_from_B": diffB, "temp_files_left": tmp}
		switch {
		case okA == okB:
			r.Violation("atomic-replace:file-is-neither-version",
				fmt.Sprintf("after SIGKILL during a store (%s) the cache file loads as neither of the two complete versions (size %d)", event, len(raw)), w)
		case okA:
			r.Bucket("atomic_kill:"+pl.method+":file=A", 1)
		default:
			r.Bucket("atomic_kill:"+pl.method+":file=B", 1)
		}
		r.Bucket("atomic_kills", 1)
		if os.Getenv("C14_DEBUG") != "" {
			fmt.Println(event, "run", t1.Sub(t0), "wait", t2.Sub(t1), "check", time.Since(t2), "stored", stored)
		}
		r.Bucket("atomic_kills:"+pl.method, 1)
		if pl.method != "random" {
			r.Bucket("atomic_kills:strace", 1)
		}
		if tmp > 0 {
			r.Bucket("atomic_kills_leaving_temp_file", 1)
		}
		r.Eval(fmt.Sprintf("atomic/%s/stored%d/tmp%v", pl.method, stored%2, tmp > 0), true)
		if pi == 3 || (pl.method == "fsync" && pl.when == 2) {
			r.Sample(map[string]any{"part": "atomic", "case": w})
		}
	}
}

// childEnv is the environment of a child: the race runtime must not sleep a
// second at exit.
func childEnv(extra ...string) []string {
	env := []string{}
	for _, e := range os.Environ() {
		if strings.HasPrefix(e, "GORACE=") {
			e += " atexit_sleep_ms=0"
		}
		env = append(env, e)
	}
	return append(env, extra...)
}

// failedStores is the fault-injection family of part 5: the write(2) of the
// cache temp file FAILS (EFBIG through RLIMIT_FSIZE, ENOSPC injected by
// strace) while an older complete cache exists.  Whatever Store reports, the
// cache file must be one of the two complete versions, namely the one of the
// last store that reported success, and a database restarted from it must
// answer as that version.
func failedStores(r *vkit.Run, adir, cache string, keys []lkey, refs map[string]map[lkey]lookupResult, refBytes map[string][]byte, useStrace bool) {
	type plan struct {
		method  string // "rlimit" | "enospc"
		param   int64
		initial string
	}
	szA, szB := int64(len(refBytes["A"])), int64(len(refBytes["B"]))
	if szA == 0 || szB < 4*szA {
		r.Inconclusive("reference cache files are missing or too similar in size")
		return
	}
	var plans []plan
	limits := []int64{0, 1, 512, szA - 1, szA + 16, 4096, szB / 2, szB - 1}
	if r.Thorough() {
		for i := int64(1); i < 24; i++ {
			limits = append(limits, szB*i/24+i)
		}
	}
	for _, l := range limits {
		for _, init := range []string{"A", "B"} {
			plans = append(plans, plan{"rlimit", l, init})
		}
	}
	if useStrace {
		for n := int64(1); n <= int64(r.N(6, 10)); n++ {
			plans = append(plans, plan{"enospc", n, "AB"[n%2 : n%2+1]})
		}
	}
	for pi, pl := range plans {
		_ = os.RemoveAll(adir)
		_ = os.MkdirAll(adir, 0o755)
		dbI, err := newDB(&fixedStorage{resp: versionResp(pl.initial)}, cache, 0)
		if err == nil {
			err = dbI.Refresh(context.Background())
		}
		if err != nil {
			r.Inconclusive("cannot pre-store the initial version: " + fmt.Sprint(err))
			return
		}
		args := []string{"-test.run=^TestChild$", "-test.timeout=120s"}
		env := childEnv("VERIF_C14_ROLE=faulty", "VERIF_C14_CACHE="+cache, "VERIF_C14_INITIAL="+pl.initial, "VERIF_C14_MAXITER=4")
		event := fmt.Sprintf("failed-store plan %d: method=%s param=%d initial=%s", pi, pl.method, pl.param, pl.initial)
		ctx, cancel := context.WithTimeout(context.Background(), 120*time.Second)
		var cmd *exec.Cmd
		if pl.method == "rlimit" {
			cmd = exec.CommandContext(ctx, os.Args[0], args...)
			env = append(env, fmt.Sprintf("VERIF_C14_FSIZE=%d", pl.param))
		} else {
			sargs := []string{"-f", "-qq", "-o", "/dev/null", "-e", "trace=write",
				"-e", fmt.Sprintf("inject=write:error=ENOSPC:when=%d", pl.param), os.Args[0]}
			cmd = exec.CommandContext(ctx, "strace", append(sargs, args...)...)
		}
		cmd.Env = env
		outB, runErr := cmd.Output()
		cancel()
		lines := strings.Split(string(outB), "\n")
		failed, okStores := 0, 0
		lastGood, summary := "", ""
		var report []string
		for _, l := range lines {
			switch {
			case strings.HasPrefix(l, "store-failed "):
				failed++
				report = append(report, trunc(l))
			case strings.HasPrefix(l, "stored "):
				okStores++
				report = append(report, l)
			case strings.HasPrefix(l, "summary "):
				summary = l
				fmt.Sscanf(l, "summary failed=%d ok=%d last_good=%s", &failed, &okStores, &lastGood)
			case strings.HasPrefix(l, "child-error"):
				report = append(report, l)
			}
		}
		if summary == "" {
			// the child did not finish (or its summary write was the injected one)
			r.Bucket("failed_store_child_without_summary", 1)
			r.Bucket("failed_store_child_without_summary:"+pl.method, 1)
			if os.Getenv("C14_DEBUG") != "" {
				fmt.Println(event, "no summary:", runErr, string(outB))
			}
			continue
		}
		r.Bucket("failed_store_cases", 1)
		r.Bucket("failed_store_cases:"+pl.method, 1)
		r.Bucket("failed_stores_observed", int64(failed))
		r.Bucket("failed_stores_observed:"+pl.method, int64(failed))
		r.Bucket("failed_store_successful_stores", int64(okStores))
		raw, rerr := os.ReadFile(cache)
		dbK, err := newDB(&failingStorage{}, cache, ivlNever)
		if err != nil {
			r.Inconclusive("profiledb.New after failed stores: " + err.Error())
			return
		}
		got := loadAll(dbK, keys)
		okA, diffA := sameAs(got, refs["A"])
		okB, diffB := sameAs(got, refs["B"])
		is := ""
		switch {
		case okA && !okB && int64(len(raw)) == szA:
			is = "A"
		case okB && !okA && int64(len(raw)) == szB:
			is = "B"
		}
		if is != "" {
			if string(raw) == string(refBytes[is]) {
				r.Bucket("failed_store_file_bytes_equal_reference", 1)
			} else {
				r.Bucket("failed_store_file_bytes_differ_but_load_equal", 1)
			}
		}
		w := map[string]any{"plan": event, "child_report": report, "summary": summary, "file_size": len(raw), "read_error": fmt.Sprint(rerr),
			"size_of_A": szA, "size_of_B": szB, "differs_from_A": diffA, "differs_from_B": diffB, "exit": fmt.Sprint(runErr)}
		switch {
		case is == "" && failed > 0:
			r.Violation("atomic-replace:failed-store-replaced-cache-with-partial-file",
				fmt.Sprintf("a store whose write failed (%s; Refresh returned an error %d time(s)) left a cache file of %d bytes that is neither complete version (A=%d, B=%d bytes); a restarted database does not answer as the last good cache. A failed write must not be followed by the atomic replace (do not CloseAtomicallyReplace after a Write error; Cleanup instead)",
					event, failed, len(raw), szA, szB), w)
		case is == "":
			r.Violation("atomic-replace:file-is-neither-version", fmt.Sprintf("after %s the cache file (%d bytes) loads as neither complete version", event, len(raw)), w)
		case lastGood != "" && is != lastGood:
			r.Violation("atomic-replace:cache-is-not-last-successful-store",
				fmt.Sprintf("after %s the cache file is complete version %s, but the last store that reported success was %s", event, is, lastGood), w)
		default:
			r.Bucket("failed_store_file_is_last_good:"+is, 1)
		}
		r.Eval(fmt.Sprintf("failed-store/%s/init%s/failed%d/ok%d", pl.method, pl.initial, failed, okStores), failed > 0)
		if pi == 5 {
			r.Sample(map[string]any{"part": "failed-store", "case": w})
		}
	}
}
