package c14

// Part 3: lookups from several goroutines while synchronisations run, under
// the race detector.  Decided per key: a lookup may see any state that was
// current at some instant of its call interval (interval rule over a logical
// clock), cross-checked with porcupine against a register model.

import (
	"context"
	"fmt"
	"net/netip"
	"runtime"
	"sync"
	"sync/atomic"
	"time"

	"github.com/AdguardTeam/AdGuardDNS/internal/agd"
	"github.com/AdguardTeam/AdGuardDNS/internal/verifhook"
	"github.com/AdguardTeam/AdGuardDNS/verif/vkit"
	"github.com/anishathalye/porcupine"
)

func concPools() *pools {
	pl := &pools{}
	for i := 0; i < 4; i++ {
		pl.prof = append(pl.prof, agd.ProfileID(fmt.Sprintf("cp%d", i)))
	}
	for i := 0; i < 20; i++ {
		pl.dev = append(pl.dev, agd.DeviceID(fmt.Sprintf("c%d", i)))
		pl.linked = append(pl.linked, netip.AddrFrom4([4]byte{10, 5, 0, byte(i + 1)}))
		pl.ded = append(pl.ded, netip.AddrFrom4([4]byte{192, 0, 2, byte(100 + i)}))
	}
	for i := 0; i < 10; i++ {
		pl.hid = append(pl.hid, agd.HumanIDLower(fmt.Sprintf("ch%d", i)))
	}
	return pl
}

type concOp struct {
	k    lkey
	call int64
	ret  int64
	a    answer
}

type concSync struct {
	call, ret int64
}

func concurrent(r *vkit.Run) {
	rounds := r.N(20, 150)
	const workers = 6
	perWorker := r.N(1500, 2500)
	pl := concPools()
	keys := pl.universe()
	for round := 0; round < rounds; round++ {
		rng := r.Rand("conc", round)
		allFull := round%3 == 2
		// Incremental rounds never hand a key to a second owner: a clean-up
		// of a stale entry may then run at any time without effect, so the
		// (separately keyed) clean-up defect of part 2 cannot leak into this
		// part by natural scheduling.  Full-only rounds have no stale entries
		// and reuse keys freely.
		w := newWorld(basePast, !allFull, pl)
		st := &scriptedStorage{w: w, rng: r.Rand("conc-order", round)}
		ivl := ivlNever
		if allFull {
			ivl = 0
		}
		hc := newHookCtl()
		verifhook.Set(func(point string) {
			hc.cb(point)
			for i := 0; i < int(hc.hitsOf(point)%4); i++ {
				runtime.Gosched()
			}
		})
		q := &quiesce{h: hc, baseline: stableGoroutines()}
		db, err := newDB(st, "none", ivl)
		if err != nil {
			r.Inconclusive("profiledb.New: " + err.Error())
			return
		}
		nSyncs := 6 + rng.IntN(3)
		var clock, done atomic.Int64
		total := int64(workers * perWorker)
		// states[j]: expectation of every key after j synchronisations
		states := []map[lkey]expectation{{}}
		m := newModel()
		for _, k := range keys {
			states[0][k] = m.expect(k)
		}
		var syncs []concSync
		ops := make([][]concOp, workers)
		var wg sync.WaitGroup
		for wi := 0; wi < workers; wi++ {
			wg.Add(1)
			wr := r.Rand(fmt.Sprintf("conc-worker-%d", wi), round)
			go func(wi int) {
				defer wg.Done()
				local := make([]concOp, 0, perWorker)
				for i := 0; i < perWorker; i++ {
					k := keys[wr.IntN(len(keys))]
					c := clock.Add(1)
					p, d, e := doLookup(db, k)
					rt := clock.Add(1)
					local = append(local, concOp{k: k, call: c, ret: rt, a: normalise(p, d, e)})
					done.Add(1)
				}
				ops[wi] = local
			}(wi)
		}
		var opClasses []string
		refreshFailed := false
		for j := 1; j <= nSyncs; j++ {
			// pace by progress of the lookups, not by time
			for done.Load() < total*int64(j-1)/int64(nSyncs+1) {
				time.Sleep(20 * time.Microsecond)
			}
			if j == 1 {
				w.populate(rng)
			} else {
				n := 1 + rng.IntN(3)
				for i := 0; i < n; i++ {
					opClasses = append(opClasses, w.randomOp(rng))
				}
			}
			c := clock.Add(1)
			err = db.Refresh(context.Background())
			rt := clock.Add(1)
			if err != nil {
				r.Violation("refresh:error", "synchronisation failed: "+err.Error(), map[string]any{"round": round})
				refreshFailed = true
				break
			}
			syncs = append(syncs, concSync{c, rt})
			m.apply(st.last, st.lastFu)
			snap := map[lkey]expectation{}
			for _, k := range keys {
				snap[k] = m.expect(k)
				if snap[k].Ambiguous {
					r.Bucket("model_ambiguous", 1)
				}
			}
			states = append(states, snap)
			if st.lastFu {
				r.Bucket("conc_syncs_full", 1)
			} else {
				r.Bucket("conc_syncs_incremental", 1)
			}
		}
		wg.Wait()
		verifhook.Set(nil)
		if !q.settle() {
			r.Bucket("quiesce_timeouts", 1)
			continue
		}
		if refreshFailed {
			continue
		}
		for pt, n := range hc.allHits() {
			r.Bucket("conc_hook_hits:"+pt, n)
		}
		witness := func(extra map[string]any) map[string]any {
			wm := map[string]any{"round": round, "all_full": allFull, "world_log": w.log, "syncs": syncs}
			for k, v := range extra {
				wm[k] = v
			}
			return wm
		}
		// interval rule
		perKey := map[lkey][]concOp{}
		bad := map[lkey]bool{}
		for _, l := range ops {
			for _, o := range l {
				perKey[o.k] = append(perKey[o.k], o)
				lo, hi := 0, 0
				for _, s := range syncs {
					if s.ret < o.call {
						lo++
					}
					if s.call < o.ret {
						hi++
					}
				}
				ok := false
				for j := lo; j <= hi && !ok; j++ {
					ok = judge(o.k, states[j][o.k], o.a) == ""
				}
				if lo == hi {
					r.Bucket("conc_lookups_between_syncs", 1)
				} else {
					r.Bucket("conc_lookups_overlapping_sync", 1)
				}
				if !ok {
					cls := judge(o.k, states[hi][o.k], o.a)
					var exp []string
					for j := lo; j <= hi; j++ {
						exp = append(exp, fmt.Sprintf("after %d syncs: %s", j, states[j][o.k].short()))
					}
					bad[o.k] = true
					r.Violation(concKey("concurrent:", o.k, cls),
						fmt.Sprintf("concurrent lookup %s answered %s, which is not the answer of any state current during the call", o.k, o.a.short()),
						witness(map[string]any{"key": o.k.String(), "observed": o.a, "call": o.call, "return": o.ret, "allowed_states": exp}))
				}
			}
		}
		// porcupine, per key, for keys whose answer changes over the states
		for _, k := range keys {
			changes := 0
			for j := 1; j < len(states); j++ {
				if states[j][k].short() != states[j-1][k].short() {
					changes++
				}
			}
			if changes == 0 || len(perKey[k]) == 0 {
				continue
			}
			var hist []porcupine.Operation
			for j, s := range syncs {
				hist = append(hist, porcupine.Operation{ClientId: workers, Input: j + 1, Call: s.call, Output: nil, Return: s.ret})
			}
			byWorker := 0
			for wi, l := range ops {
				for _, o := range l {
					if o.k == k {
						hist = append(hist, porcupine.Operation{ClientId: wi, Input: -1, Call: o.call, Output: o.a, Return: o.ret})
						byWorker++
					}
				}
			}
			mdl := porcupine.Model{
				Init: func() any { return 0 },
				Step: func(state, in, out any) (bool, any) {
					if j := in.(int); j >= 0 {
						return true, j
					}
					return judge(k, states[state.(int)][k], out.(answer)) == "", state
				},
			}
			res := porcupine.CheckOperationsTimeout(mdl, hist, 20*time.Second)
			switch res {
			case porcupine.Ok:
				r.Bucket("porcupine_ok", 1)
			case porcupine.Illegal:
				if bad[k] {
					// already reported, with its precise class, by the interval rule
					r.Bucket("porcupine_illegal_explained_by_interval_rule", 1)
					break
				}
				r.Violation("concurrent:"+kindName[k.K]+":not-linearizable",
					fmt.Sprintf("the concurrent lookups of %s are not explained by any order consistent with the synchronisations", k),
					witness(map[string]any{"key": k.String(), "reads": byWorker}))
			default:
				r.Bucket("porcupine_unknown", 1)
			}
		}
		// quiescent point: strict
		for _, k := range keys {
			p, d, e := doLookup(db, k)
			a := normalise(p, d, e)
			r.Bucket("conc_final_lookups", 1)
			if cls := judge(k, states[len(states)-1][k], a); cls != "" {
				r.Violation(concKey("concurrent-final:", k, cls),
					fmt.Sprintf("after all synchronisations and clean-ups finished, lookup %s answered %s, the latest data say %s", k, a.short(), states[len(states)-1][k].short()),
					witness(map[string]any{"key": k.String(), "observed": a}))
			}
		}
		q.settle()
		r.Bucket("conc_rounds", 1)
		r.Eval(fmt.Sprintf("concurrent/full=%v/%d", allFull, round), false)
		if round == 1 {
			r.Sample(map[string]any{"part": "concurrent", "round": round, "syncs": len(syncs), "lookups": total, "world_log": firstN(w.log, 25)})
		}
	}
}

// concKey: the read-side human-id defect has one key in every part.
func concKey(prefix string, k lkey, cls string) string {
	if cls == "answer-from-other-profile" {
		return "lookup:human-id:answer-from-other-profile"
	}
	return prefix + kindName[k.K] + ":" + cls
}
