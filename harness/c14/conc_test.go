package c14

// Part 3: lookups from several goroutines while synchronisations run, under
// the race detector.  Decided per key: a lookup may see any state that was
// current at some instant of its call interval (interval rule over a logical
// clock), cross-checked with porcupine against a register model.

import (
	"context"
	"fmt"
	"math/rand/v2"
	"net/netip"
	"runtime"
	"sync"
	"sync/atomic"
	"time"

	"github.com/AdguardTeam/AdGuardDNS/internal/agd"
	"github.com/AdguardTeam/AdGuardDNS/internal/verifhook"
	"github.com/AdguardTeam/AdGuardDNS/verif/vkit"
	"github.com/anishathalye/porcupine"
)

func concPools() *pools {
	pl := &pools{}
	for i := 0; i < 4; i++ {
		pl.prof = append(pl.prof, agd.ProfileID(fmt.Sprintf("cp%d", i)))
	}
	for i := 0; i < 20; i++ {
		pl.dev = append(pl.dev, agd.DeviceID(fmt.Sprintf("c%d", i)))
		pl.linked = append(pl.linked, netip.AddrFrom4([4]byte{10, 5, 0, byte(i + 1)}))
		pl.ded = append(pl.ded, netip.AddrFrom4([4]byte{192, 0, 2, byte(100 + i)}))
	}
	for i := 0; i < 10; i++ {
		pl.hid = append(pl.hid, agd.HumanIDLower(fmt.Sprintf("ch%d", i)))
	}
	return pl
}

type concOp struct {
	k    lkey
	call int64
	ret  int64
	a    answer
}

type concSync struct {
	call, ret int64
}

// concCfg describes one round of concurrent lookups against a synchroniser.
type concCfg struct {
	label     string
	round     int
	pl        *pools
	keys      []lkey
	noReuse   bool
	allFull   bool
	workers   int
	perWorker int
	nSyncs    int
	populate  func(w *world, rng *rand.Rand)
	step      func(w *world, rng *rand.Rand, j int) []string
	// handover: every synchronisation hands every key of c.keys from one
	// device (or profile) to another: a lookup never may answer not-found.
	handover bool
}

func concurrent(r *vkit.Run) {
	rounds := r.N(20, 150)
	pl := concPools()
	keys := pl.universe()
	for round := 0; round < rounds; round++ {
		allFull := round%3 == 2
		// Incremental rounds never hand a key to a second owner: a clean-up
		// of a stale entry may then run at any time without effect.
		// Full-only rounds have no stale entries and reuse keys freely.
		// Hand-overs under incremental synchronisations are the subject of
		// the handover rounds below.
		rng := r.Rand("conc", round)
		runConcRound(r, concCfg{
			label: "concurrent", round: round, pl: pl, keys: keys, noReuse: !allFull, allFull: allFull,
			workers: 6, perWorker: r.N(1500, 2500), nSyncs: 6 + rng.IntN(3),
			populate: func(w *world, rng *rand.Rand) { w.populate(rng) },
			step: func(w *world, rng *rand.Rand, _ int) (cls []string) {
				n := 1 + rng.IntN(3)
				for i := 0; i < n; i++ {
					cls = append(cls, w.randomOp(rng))
				}
				return cls
			},
		})
	}
	handoverRounds(r)
}

func runConcRound(r *vkit.Run, c concCfg) {
	round, allFull, pl, keys, workers, perWorker, nSyncs := c.round, c.allFull, c.pl, c.keys, c.workers, c.perWorker, c.nSyncs
	rng := r.Rand(c.label, round)
	w := newWorld(basePast, c.noReuse, pl)
	st := &scriptedStorage{w: w, rng: r.Rand(c.label+"-order", round)}
	ivl := ivlNever
	if allFull {
		ivl = 0
	}
	hc := newHookCtl()
	verifhook.Set(func(point string) {
		hc.cb(point)
		for i := 0; i < int(hc.hitsOf(point)%4); i++ {
			runtime.Gosched()
		}
	})
	q := &quiesce{h: hc, baseline: stableGoroutines()}
	db, err := newDB(st, "none", ivl)
	if err != nil {
		r.Inconclusive("profiledb.New: " + err.Error())
		return
	}
	var clock, done atomic.Int64
	total := int64(workers * perWorker)
	// states[j]: expectation of every key after j synchronisations
	states := []map[lkey]expectation{{}}
	m := newModel()
	for _, k := range keys {
		states[0][k] = m.expect(k)
	}
	var syncs []concSync
	ops := make([][]concOp, workers)
	var wg sync.WaitGroup
	for wi := 0; wi < workers; wi++ {
		wg.Add(1)
		wr := r.Rand(fmt.Sprintf("%s-worker-%d", c.label, wi), round)
		go func(wi int) {
			defer wg.Done()
			local := make([]concOp, 0, perWorker)
			for i := 0; i < perWorker; i++ {
				k := keys[wr.IntN(len(keys))]
				c := clock.Add(1)
				p, d, e := doLookup(db, k)
				rt := clock.Add(1)
				local = append(local, concOp{k: k, call: c, ret: rt, a: normalise(p, d, e)})
				done.Add(1)
			}
			ops[wi] = local
		}(wi)
	}
	var opClasses []string
	refreshFailed := false
	for j := 1; j <= nSyncs; j++ {
		// pace by progress of the lookups, not by time
		for done.Load() < total*int64(j-1)/int64(nSyncs+1) {
			time.Sleep(20 * time.Microsecond)
		}
		if j == 1 {
			c.populate(w, rng)
		} else {
			opClasses = append(opClasses, c.step(w, rng, j)...)
		}
		c := clock.Add(1)
		err = db.Refresh(context.Background())
		rt := clock.Add(1)
		if err != nil {
			r.Violation("refresh:error", "synchronisation failed: "+err.Error(), map[string]any{"round": round})
			refreshFailed = true
			break
		}
		syncs = append(syncs, concSync{c, rt})
		m.apply(st.last, st.lastFu)
		snap := map[lkey]expectation{}
		for _, k := range keys {
			snap[k] = m.expect(k)
			if snap[k].Ambiguous {
				r.Bucket("model_ambiguous", 1)
			}
		}
		states = append(states, snap)
		if st.lastFu {
			r.Bucket("conc_syncs_full", 1)
		} else {
			r.Bucket("conc_syncs_incremental", 1)
		}
	}
	wg.Wait()
	verifhook.Set(nil)
	if !q.settle() {
		r.Bucket("quiesce_timeouts", 1)
		return
	}
	if refreshFailed {
		return
	}
	for pt, n := range hc.allHits() {
		r.Bucket("conc_hook_hits:"+pt, n)
	}
	witness := func(extra map[string]any) map[string]any {
		wm := map[string]any{"part": c.label, "round": round, "all_full": allFull, "world_log": w.log, "syncs": syncs}
		for k, v := range extra {
			wm[k] = v
		}
		return wm
	}
	// interval rule
	perKey := map[lkey][]concOp{}
	bad := map[lkey]bool{}
	for _, l := range ops {
		for _, o := range l {
			perKey[o.k] = append(perKey[o.k], o)
			lo, hi := 0, 0
			for _, s := range syncs {
				if s.ret < o.call {
					lo++
				}
				if s.call < o.ret {
					hi++
				}
			}
			ok := false
			for j := lo; j <= hi && !ok; j++ {
				ok = judge(o.k, states[j][o.k], o.a) == ""
			}
			if lo == hi {
				r.Bucket("conc_lookups_between_syncs", 1)
			} else {
				r.Bucket("conc_lookups_overlapping_sync", 1)
				if c.handover {
					r.Bucket("handover_lookups_overlapping_sync:"+kindName[o.k.K], 1)
				}
			}
			if !ok {
				cls := judge(o.k, states[hi][o.k], o.a)
				var exp []string
				for j := lo; j <= hi; j++ {
					exp = append(exp, fmt.Sprintf("after %d syncs: %s", j, states[j][o.k].short()))
				}
				bad[o.k] = true
				r.Violation(concKey(c.label+":", o.k, cls),
					fmt.Sprintf("concurrent lookup %s answered %s, which is not the answer of any state current during the call", o.k, o.a.short()),
					witness(map[string]any{"key": o.k.String(), "observed": o.a, "call": o.call, "return": o.ret, "allowed_states": exp}))
			}
		}
	}
	// porcupine, per key, for keys whose answer changes over the states
	for _, k := range keys {
		changes := 0
		for j := 1; j < len(states); j++ {
			if states[j][k].short() != states[j-1][k].short() {
				changes++
			}
		}
		if changes == 0 || len(perKey[k]) == 0 {
			continue
		}
		var hist []porcupine.Operation
		for j, s := range syncs {
			hist = append(hist, porcupine.Operation{ClientId: workers, Input: j + 1, Call: s.call, Output: nil, Return: s.ret})
		}
		byWorker := 0
		for wi, l := range ops {
			for _, o := range l {
				if o.k == k {
					hist = append(hist, porcupine.Operation{ClientId: wi, Input: -1, Call: o.call, Output: o.a, Return: o.ret})
					byWorker++
				}
			}
		}
		mdl := porcupine.Model{
			Init: func() any { return 0 },
			Step: func(state, in, out any) (bool, any) {
				if j := in.(int); j >= 0 {
					return true, j
				}
				return judge(k, states[state.(int)][k], out.(answer)) == "", state
			},
		}
		res := porcupine.CheckOperationsTimeout(mdl, hist, 20*time.Second)
		switch res {
		case porcupine.Ok:
			r.Bucket("porcupine_ok", 1)
		case porcupine.Illegal:
			if bad[k] {
				// already reported, with its precise class, by the interval rule
				r.Bucket("porcupine_illegal_explained_by_interval_rule", 1)
				break
			}
			r.Violation(c.label+":"+kindName[k.K]+":not-linearizable",
				fmt.Sprintf("the concurrent lookups of %s are not explained by any order consistent with the synchronisations", k),
				witness(map[string]any{"key": k.String(), "reads": byWorker}))
		default:
			r.Bucket("porcupine_unknown", 1)
		}
	}
	// quiescent point: strict
	for _, k := range keys {
		p, d, e := doLookup(db, k)
		a := normalise(p, d, e)
		r.Bucket("conc_final_lookups", 1)
		if cls := judge(k, states[len(states)-1][k], a); cls != "" {
			r.Violation(concKey(c.label+"-final:", k, cls),
				fmt.Sprintf("after all synchronisations and clean-ups finished, lookup %s answered %s, the latest data say %s", k, a.short(), states[len(states)-1][k].short()),
				witness(map[string]any{"key": k.String(), "observed": a}))
		}
	}
	q.settle()
	r.Bucket("conc_rounds", 1)
	if c.handover {
		r.Bucket("handover_rounds", 1)
		r.Bucket("handover_syncs", int64(len(syncs)))
	}
	r.Eval(fmt.Sprintf("%s/full=%v/%d", c.label, allFull, round), c.handover)
	if round == 1 && !c.handover {
		r.Sample(map[string]any{"part": "concurrent", "round": round, "syncs": len(syncs), "lookups": total, "world_log": firstN(w.log, 25)})
	}
}

// concKey: the read-side human-id defect has one key in every part.
func concKey(prefix string, k lkey, cls string) string {
	if cls == "answer-from-other-profile" {
		return "lookup:human-id:answer-from-other-profile"
	}
	return prefix + kindName[k.K] + ":" + cls
}

// handoverRounds: every incremental synchronisation hands each hot key from
// one owner to another (linked and dedicated IPs and human ids are swapped
// between two devices, a device moves between two profiles) while 8
// goroutines look the hot keys up.  A device owns each key before and after
// every synchronisation, so a lookup overlapping a synchronisation must answer
// the old or the new owner: not-found or a mixed pair is never legal (the
// interval rule and porcupine decide as in the other rounds).
func handoverRounds(r *vkit.Run) {
	rounds := r.N(4, 30)
	nSyncs := r.N(120, 300)
	la, lb := mustAddr("10.8.0.1"), mustAddr("10.8.0.2")
	da, db := mustAddr("192.0.2.201"), mustAddr("192.0.2.202")
	pl := &pools{
		prof: []agd.ProfileID{"hp0", "hp1"}, dev: []agd.DeviceID{"ha", "hb", "hc", "hd", "hm"},
		linked: []netip.Addr{la, lb}, ded: []netip.Addr{da, db}, hid: []agd.HumanIDLower{"hh1", "hh2"},
	}
	keys := []lkey{
		{K: kLinked, IP: la}, {K: kLinked, IP: lb}, {K: kDed, IP: da}, {K: kDed, IP: db},
		{K: kHuman, Prof: "hp0", Hid: "hh1"}, {K: kHuman, Prof: "hp0", Hid: "hh2"},
		{K: kDev, Dev: "hm"}, {K: kDev, Dev: "ha"},
	}
	for round := 0; round < rounds; round++ {
		runConcRound(r, concCfg{
			label: "handover", round: round, pl: pl, keys: keys, handover: true,
			workers: 8, perWorker: nSyncs * 160 / 8, nSyncs: nSyncs,
			populate: func(w *world, _ *rand.Rand) {
				w.addProfile("hp0", false)
				w.addProfile("hp1", false)
				w.addDevice("ha", "hp0", la, []netip.Addr{da}, "")
				w.addDevice("hb", "hp1", lb, []netip.Addr{db}, "")
				w.addDevice("hc", "hp0", netip.Addr{}, nil, "hh1")
				w.addDevice("hd", "hp0", netip.Addr{}, nil, "hh2")
				w.addDevice("hm", "hp0", netip.Addr{}, nil, "")
			},
			step: func(w *world, _ *rand.Rand, _ int) []string {
				w.swapLinked("ha", "hb")
				w.swapDed("ha", "hb")
				w.swapHid("hc", "hd")
				to := agd.ProfileID("hp1")
				if w.devs["hm"].Prof == "hp1" {
					to = "hp0"
				}
				w.move("hm", to)
				w.log = w.log[:0]
				return nil
			},
		})
	}
}
