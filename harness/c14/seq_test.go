package c14

// Parts 1, 2 and 4a: sequential histories of full and incremental
// synchronisations, with every background clean-up parked in its hook and
// released either before or after the next synchronisation, and a restart
// from the cache file after full synchronisations.

import (
	"context"
	"fmt"
	"math/rand/v2"
	"net/netip"
	"os"
	"path/filepath"
	"runtime"
	"sort"
	"strings"
	"sync"
	"sync/atomic"
	"time"

	"github.com/AdguardTeam/AdGuardDNS/internal/access"
	"github.com/AdguardTeam/AdGuardDNS/internal/agd"
	"github.com/AdguardTeam/AdGuardDNS/internal/profiledb"
	"github.com/AdguardTeam/AdGuardDNS/internal/verifhook"
	"github.com/AdguardTeam/AdGuardDNS/verif/vkit"
)

// key pools of the sequential histories: small, so that keys are reused.
var (
	poolProf   = []agd.ProfileID{"p0", "p1", "p2", "p3", "p4"}
	poolDev    = []agd.DeviceID{"d0", "d1", "d2", "d3", "d4", "d5", "d6", "d7"}
	poolLinked = []netip.Addr{mustAddr("10.0.0.1"), mustAddr("10.0.0.2"), mustAddr("10.0.0.3"), mustAddr("10.0.0.4"), mustAddr("2001:db8::1"), mustAddr("2001:db8::2"), mustAddr("::ffff:10.0.0.1")}
	poolDed    = []netip.Addr{mustAddr("192.0.2.1"), mustAddr("192.0.2.2"), mustAddr("192.0.2.3"), mustAddr("192.0.2.4"), mustAddr("2001:db8:1::1"), mustAddr("2001:db8:1::2"), mustAddr("::ffff:192.0.2.1")}
	poolHid    = []agd.HumanIDLower{"h0", "h1", "h2", "h3-x--y"}

	seqPools = &pools{prof: poolProf, dev: poolDev, linked: poolLinked, ded: poolDed, hid: poolHid}
	seqKeys  = seqPools.universe()
)

func seqUniverse() []lkey { return seqKeys }

func (pl *pools) universe() (u []lkey) {
	poolProf, poolDev, poolLinked, poolDed, poolHid := pl.prof, pl.dev, pl.linked, pl.ded, pl.hid
	for _, d := range poolDev {
		u = append(u, lkey{K: kDev, Dev: d})
	}
	u = append(u, lkey{K: kDev, Dev: "dnever"}, lkey{K: kDev, Dev: "p0"})
	for _, ip := range poolLinked {
		u = append(u, lkey{K: kLinked, IP: ip})
	}
	u = append(u, lkey{K: kLinked, IP: mustAddr("10.9.9.9")}, lkey{K: kLinked, IP: mustAddr("2001:db8:9::9")}, lkey{K: kLinked, IP: poolDed[0]})
	for _, ip := range poolDed {
		u = append(u, lkey{K: kDed, IP: ip})
	}
	u = append(u, lkey{K: kDed, IP: mustAddr("192.0.2.99")}, lkey{K: kDed, IP: poolLinked[0]})
	for _, p := range append(append([]agd.ProfileID{}, poolProf...), "pnone") {
		for _, h := range append(append([]agd.HumanIDLower{}, poolHid...), "hnever") {
			u = append(u, lkey{K: kHuman, Prof: p, Hid: h})
		}
	}
	return u
}

// ---- generators -----------------------------------------------------------

func (w *world) freeLinked(rng *rand.Rand) (ip netip.Addr, ok bool) {
	var free []netip.Addr
	for _, x := range w.pl.linked {
		if w.linkedOwner(x) == "" && !w.retired["l"+x.String()] {
			free = append(free, x)
		}
	}
	if len(free) == 0 {
		return netip.Addr{}, false
	}
	return free[rng.IntN(len(free))], true
}

func (w *world) freeDed(rng *rand.Rand) (ip netip.Addr, ok bool) {
	var free []netip.Addr
	for _, x := range w.pl.ded {
		if w.dedOwner(x) == "" && !w.retired["d"+x.String()] {
			free = append(free, x)
		}
	}
	if len(free) == 0 {
		return netip.Addr{}, false
	}
	return free[rng.IntN(len(free))], true
}

func (w *world) freeHid(rng *rand.Rand, prof agd.ProfileID) (h agd.HumanIDLower, ok bool) {
	var free []agd.HumanIDLower
	for _, x := range w.pl.hid {
		if w.hidOwner(prof, x) == "" && !w.retired["h"+string(x)] {
			free = append(free, x)
		}
	}
	if len(free) == 0 {
		return "", false
	}
	return free[rng.IntN(len(free))], true
}

func (w *world) freeDevID(rng *rand.Rand) (id agd.DeviceID, ok bool) {
	var free []agd.DeviceID
	for _, x := range w.pl.dev {
		if _, used := w.devs[x]; !used && !w.retired["dev"+string(x)] {
			free = append(free, x)
		}
	}
	if len(free) == 0 {
		return "", false
	}
	// prefer identifiers that existed before: re-attachment of a detached device
	var again []agd.DeviceID
	for _, x := range free {
		if w.everDev[x] {
			again = append(again, x)
		}
	}
	if len(again) > 0 && rng.IntN(3) != 0 {
		return again[rng.IntN(len(again))], true
	}
	return free[rng.IntN(len(free))], true
}

func (w *world) freeProfID() (id agd.ProfileID, ok bool) {
	for _, x := range w.pl.prof {
		if _, used := w.profs[x]; !used {
			return x, true
		}
	}
	return "", false
}

func pick[T any](rng *rand.Rand, s []T) T { return s[rng.IntN(len(s))] }

// randomOp applies one random change to the world; it returns the op class.
func (w *world) randomOp(rng *rand.Rand) string {
	for try := 0; try < 40; try++ {
		live := w.liveProfiles()
		devs := w.deviceIDs()
		switch c := rng.IntN(100); {
		case c < 12: // attach a (new or formerly detached) device
			if len(live) == 0 {
				continue
			}
			id, ok := w.freeDevID(rng)
			if !ok {
				continue
			}
			prof := pick(rng, live)
			var linked netip.Addr
			var ded []netip.Addr
			var hid agd.HumanIDLower
			if rng.IntN(3) != 0 {
				linked, _ = w.freeLinked(rng)
			}
			if rng.IntN(3) != 0 {
				if ip, ok2 := w.freeDed(rng); ok2 {
					ded = []netip.Addr{ip}
				}
			}
			if rng.IntN(2) == 0 {
				hid, _ = w.freeHid(rng, prof)
			}
			w.addDevice(id, prof, linked, ded, hid)
			return "attach"
		case c < 22: // detach
			if len(devs) < 2 {
				continue
			}
			w.detach(pick(rng, devs))
			return "detach"
		case c < 32: // move between profiles
			if len(devs) == 0 || len(live) < 2 {
				continue
			}
			d := pick(rng, devs)
			to := pick(rng, live)
			if to == w.devs[d].Prof {
				continue
			}
			w.move(d, to)
			return "move"
		case c < 42: // change linked IP
			if len(devs) == 0 {
				continue
			}
			d := pick(rng, devs)
			ip, ok := w.freeLinked(rng)
			if !ok || rng.IntN(5) == 0 {
				if !w.devs[d].Linked.IsValid() {
					continue
				}
				ip = netip.Addr{}
			}
			w.setLinked(d, ip)
			return "set-linked"
		case c < 50: // swap linked IPs
			if len(devs) < 2 {
				continue
			}
			a, b := pick(rng, devs), pick(rng, devs)
			if a == b || w.devs[a].Linked == w.devs[b].Linked {
				continue
			}
			w.swapLinked(a, b)
			return "swap-linked"
		case c < 60: // change dedicated IPs
			if len(devs) == 0 {
				continue
			}
			d := pick(rng, devs)
			var ips []netip.Addr
			n := rng.IntN(3)
			for i := 0; i < n; i++ {
				ip, ok := w.freeDed(rng)
				dup := false
				for _, x := range ips {
					dup = dup || x == ip
				}
				if ok && !dup {
					ips = append(ips, ip)
				}
			}
			if len(ips) == 0 && len(w.devs[d].Ded) == 0 {
				continue
			}
			w.setDed(d, ips)
			return "set-dedicated"
		case c < 67: // swap dedicated IPs
			if len(devs) < 2 {
				continue
			}
			a, b := pick(rng, devs), pick(rng, devs)
			if a == b || (len(w.devs[a].Ded) == 0 && len(w.devs[b].Ded) == 0) {
				continue
			}
			w.swapDed(a, b)
			return "swap-dedicated"
		case c < 77: // change human id
			if len(devs) == 0 {
				continue
			}
			d := pick(rng, devs)
			h, ok := w.freeHid(rng, w.devs[d].Prof)
			if !ok || rng.IntN(5) == 0 {
				if w.devs[d].Hid == "" {
					continue
				}
				h = ""
			}
			w.setHid(d, h)
			return "set-human-id"
		case c < 84: // swap human ids (same profile, or both free in the other's profile)
			if len(devs) < 2 {
				continue
			}
			a, b := pick(rng, devs), pick(rng, devs)
			da, db := w.devs[a], w.devs[b]
			if a == b || da.Hid == db.Hid {
				continue
			}
			if da.Prof != db.Prof {
				if w.noReuse {
					continue
				}
				if (db.Hid != "" && w.hidOwner(da.Prof, db.Hid) != "") || (da.Hid != "" && w.hidOwner(db.Prof, da.Hid) != "") {
					continue
				}
			}
			w.swapHid(a, b)
			return "swap-human-id"
		case c < 90: // delete a profile
			if len(live) < 2 {
				continue
			}
			w.deleteProfile(pick(rng, live), rng.IntN(2) == 0)
			return "delete-profile"
		case c < 95: // new profile
			id, ok := w.freeProfID()
			if !ok {
				continue
			}
			w.addProfile(id, rng.IntN(4) == 0)
			return "add-profile"
		default: // settings change only
			if len(live) == 0 {
				continue
			}
			p := pick(rng, live)
			w.touchP(p)
			w.logf("touch-profile %s", p)
			return "touch"
		}
	}
	return "none"
}

func (w *world) populate(rng *rand.Rand) {
	np := 2 + rng.IntN(2)
	for i := 0; i < np; i++ {
		w.addProfile(w.pl.prof[i], rng.IntN(5) == 0)
	}
	nd := 3 + rng.IntN(3)
	for i := 0; i < nd; i++ {
		prof := w.pl.prof[rng.IntN(np)]
		var linked netip.Addr
		var ded []netip.Addr
		var hid agd.HumanIDLower
		if rng.IntN(4) != 0 {
			linked, _ = w.freeLinked(rng)
		}
		if rng.IntN(4) != 0 {
			if ip, ok := w.freeDed(rng); ok {
				ded = []netip.Addr{ip}
			}
		}
		if rng.IntN(2) == 0 {
			hid, _ = w.freeHid(rng, prof)
		}
		w.addDevice(w.pl.dev[i], prof, linked, ded, hid)
	}
}

// ---- one history ------------------------------------------------------------

// A step of a history: changes to the world, then one synchronisation, then
// lookups of every key.  Script steps are used by the directed scenarios.
type seqStep struct {
	Ops      func(w *world)
	Restart  bool // restart the database from its cache before the sync
	FailSync bool // the storage fails the synchronisation of this step
}

type seqCase struct {
	Name   string
	Idx    int
	Mode   string // "before" | "after" | "mixed"
	AllFul bool   // FullSyncIvl = 0
	Future bool   // token base in the future: a restarted database continues incrementally
	// RetryNever: FullSyncRetryIvl = 1000 h (a failed full synchronisation
	// is followed by incremental ones); otherwise 0 (retried at once).
	RetryNever bool
	Script     []seqStep
}

type seqRun struct {
	r      *vkit.Run
	c      seqCase
	hc     *hookCtl
	q      *quiesce
	dir    string
	events []string
	// held[kind][key]: an own-kind clean-up spawned by a lookup of this key is parked.
	held map[string]bool
	// crossed[key]: such a clean-up was released only after a later synchronisation.
	crossed    map[string]int
	step       int
	violated   bool
	inconcl    bool
	cleanups   int
	ownerMoves int
	fate       map[string]bool // mixed mode: point -> hold in this step
	coin       *rand.Rand
	w          *world
	// accessOK remembers access managers already compared with a variant.
	accessOK   map[accessSeen]bool
	nAccessCmp int
	// what the configuration (FullSyncIvl 0 or 1000 h, FullSyncRetryIvl 0 or
	// 1000 h) says about the next refresh: see expectFull.
	lastFullAt   string // "never" | "past" | "future" | "now"
	fullFailed   bool
	lastRespTime time.Time
}

type accessSeen struct {
	a   access.Profile
	idx int
}

// expectFull tells whether the configuration makes the next refresh a full
// synchronisation.  The intervals are 0 or 1000 h and the time of the last
// full synchronisation is never, "now", or a cache time decades in the past
// or future, so no clock reading is involved.
func (s *seqRun) expectFull() bool {
	if s.fullFailed {
		return !s.c.RetryNever
	}
	if s.c.AllFul {
		return s.lastFullAt != "future"
	}
	return s.lastFullAt == "never" || s.lastFullAt == "past"
}

// checkAccess: the access settings of a looked-up profile must be those of
// the latest synchronised version of the profile.
func (s *seqRun) checkAccess(k lkey, p *agd.Profile, round string) {
	idx, ok := s.w.accessLog[accessLogKey(p.ID, profVer(p))]
	if !ok {
		return
	}
	seen := accessSeen{p.Access, idx}
	if s.accessOK[seen] {
		return
	}
	s.r.Bucket("access_settings_compared", 1)
	// The IsBlocked probes compile the name-rule engine of every new access
	// manager: all directed scenarios, every 16th comparison elsewhere.
	s.nAccessCmp++
	withProbes := s.c.Script != nil || s.nAccessCmp%16 == 0
	if withProbes {
		s.r.Bucket("access_settings_probed", 1)
	}
	what := accessMismatch(p.Access, idx, withProbes)
	if what == "" {
		s.accessOK[seen] = true
		return
	}
	s.ev("VIOLATION stale access settings: %s", what)
	s.r.Violation("lookup:"+kindName[k.K]+":stale-access-settings",
		fmt.Sprintf("%s: lookup %s returned profile %s@%s whose access settings are not those of the latest synchronised version (variant %d): %s", round, k, p.ID, profVer(p), idx, what),
		s.witness(map[string]any{"key": k.String(), "access_variant": idx}))
}

func (s *seqRun) ev(f string, a ...any) { s.events = append(s.events, fmt.Sprintf(f, a...)) }

func (s *seqRun) witness(extra map[string]any) map[string]any {
	w := map[string]any{"case": s.c.Name, "index": s.c.Idx, "mode": s.c.Mode, "all_full": s.c.AllFul, "history": s.events}
	for k, v := range extra {
		w[k] = v
	}
	return w
}

const fixHint = "minimal fix: in removeDevice/removeLinkedIP/removeDedicatedIP/removeHumanID re-validate under the write lock that the index entry still points to a device that no longer owns the key (the same re-check the lookup made under the read lock) before delete()"

// lookupAll issues every lookup, compares it with the model, and records
// which lookups spawned clean-ups.  policy decides what happens to the
// clean-ups parked by each lookup.
func (s *seqRun) lookupAll(db profiledb.Interface, m *model, round string, releaseNow func(point string) bool) (answers map[lkey]lookupResult) {
	answers = map[lkey]lookupResult{}
	for _, k := range seqUniverse() {
		n0 := s.hc.nParked()
		var p *agd.Profile
		var d *agd.Device
		var err error
		func() {
			defer func() {
				if pv := recover(); pv != nil {
					s.violated = true
					s.r.Violation("panic:lookup:"+kindName[k.K], fmt.Sprintf("lookup panicked: %v", pv), s.witness(map[string]any{"key": k.String()}))
					err = fmt.Errorf("panic: %v", pv)
				}
			}()
			p, d, err = doLookup(db, k)
		}()
		if !s.q.settle() {
			s.inconcl = true
			s.r.Bucket("quiesce_timeouts", 1)
		}
		a := normalise(p, d, err)
		answers[k] = lookupResult{p: p, d: d, err: err, a: a}
		spawned := s.hc.parkedFrom(n0)
		if len(spawned) > 0 {
			s.cleanups += len(spawned)
			s.ev("%s lookup %s -> %s; spawned clean-ups %v", round, k, a.short(), spawned)
			for _, pt := range spawned {
				s.r.Bucket("hook_hits:"+pt, 1)
				if pt == ownPoint[k.K] && !releaseNow(pt) {
					s.held[k.String()] = true
				}
			}
			rel := s.hc.release(func(g *parkedG) bool { return releaseNow(g.point) })
			for _, g := range rel {
				s.r.Bucket("cleanup_order:"+g.point+":ran_before_next_sync", 1)
			}
			if len(rel) > 0 {
				s.ev("%s released %d clean-up(s) immediately (they run before the next synchronisation)", round, len(rel))
				if !s.q.settle() {
					s.inconcl = true
					s.r.Bucket("quiesce_timeouts", 1)
				}
			}
		}
		s.r.Bucket("lookups", 1)
		e := m.expect(k)
		if e.Ambiguous {
			s.r.Bucket("model_ambiguous", 1)
		}
		cls := judge(k, e, a)
		if cls == "" {
			if a.Found && e.Found {
				s.checkAccess(k, p, round)
			}
			continue
		}
		if cls != "answer-from-other-profile" {
			// every other mismatch means that the database has diverged from
			// the model: the history ends here
			s.violated = true
		}
		key := "lookup:" + kindName[k.K] + ":" + cls
		what := fmt.Sprintf("%s: lookup %s answered %s, the latest synchronised data say %s", round, k, a.short(), e.short())
		if cls == "missing" {
			// attribute to the clean-up defect only with positive evidence: a
			// clean-up of this key's index entry (or of the owner's device
			// entry) was observed parked across a synchronisation.
			switch {
			case s.crossedNow(lkey{K: kDev, Dev: e.D.ID}.String()):
				key = "cleanup-deletes-new-owner:device-id"
				what += "; a removeDevice clean-up for the owner, spawned before the last synchronisation re-attached it, ran after that synchronisation and deleted the fresh deviceIDToProfileID entry. " + fixHint
			case s.crossedNow(k.String()):
				key = "cleanup-deletes-new-owner:" + kindName[k.K]
				what += "; the clean-up of the stale index entry of this key, spawned before the last synchronisation gave the key to its new owner, ran after that synchronisation and deleted the new owner's entry. " + fixHint
			}
		}
		s.ev("VIOLATION %s: %s", key, what)
		s.r.Violation(key, what, s.witness(map[string]any{"key": k.String(), "expected": e.short(), "observed": a}))
	}
	return answers
}

// crossedNow: a clean-up of this key was parked across the synchronisation of
// the current step and has just run.
func (s *seqRun) crossedNow(k string) bool {
	at, ok := s.crossed[k]
	return ok && at == s.step
}

type lookupResult struct {
	p   *agd.Profile
	d   *agd.Device
	err error
	a   answer
}

func runSeq(r *vkit.Run, dir string, c seqCase) {
	rng := r.Rand("seq", c.Idx)
	base := basePast
	if c.Future {
		base = baseFuture
	}
	w := newWorld(base, false, seqPools)
	st := &scriptedStorage{w: w, rng: r.Rand("seq-order", c.Idx)}
	nSteps := len(c.Script)
	if c.Script == nil {
		nSteps = 5 + rng.IntN(4)
	}
	// at most one restart per random history, decided up front: histories that
	// neither restart nor compare with a restarted database (clean-up orders
	// "after"/"mixed") do not need the file (every store is an fsync).
	restartStep := -1
	if rr := r.Rand("seq-restart", c.Idx); c.Script == nil && rr.IntN(3) == 0 {
		restartStep = 1 + rr.IntN(nSteps-1)
	}
	for i, st := range c.Script {
		if st.Restart {
			restartStep = i
		}
	}
	cache := filepath.Join(dir, fmt.Sprintf("seq-%d-%s.pb", c.Idx, c.Mode))
	_ = os.Remove(cache)
	defer os.Remove(cache)
	if restartStep < 0 && c.Mode != "before" {
		cache = "none"
	}
	ivl := ivlNever
	if c.AllFul {
		ivl = 0
	}
	hc := newHookCtl()
	hc.setPark(true)
	verifhook.Set(hc.cb)
	defer verifhook.Set(nil)
	s := &seqRun{r: r, c: c, hc: hc, dir: dir, held: map[string]bool{}, crossed: map[string]int{},
		fate: map[string]bool{}, coin: r.Rand("seq-coin", c.Idx), w: w, accessOK: map[accessSeen]bool{}, lastFullAt: "never"}
	retry := time.Duration(0)
	if c.RetryNever {
		retry = ivlNever
	}
	// at most one failing synchronisation per random history (never the first)
	failStep := -1
	if rf := r.Rand("seq-fail", c.Idx); c.Script == nil && rf.IntN(3) == 0 {
		failStep = 1 + rf.IntN(nSteps-1)
	}
	prevAccess := map[agd.ProfileID]int{}
	deletionsInFailedFullWindow := 0
	inFailedFullWindow := false
	s.q = &quiesce{h: hc, baseline: stableGoroutines()}
	defer func() {
		hc.setPark(false)
		hc.release(func(*parkedG) bool { return true })
		s.q.settle()
	}()

	db, err := newDBRetry(st, cache, ivl, retry)
	if err != nil {
		r.Inconclusive("profiledb.New: " + err.Error())
		return
	}
	m := newModel()
	lastFull := newModel()
	var lastFullTime time.Time
	haveCache := false
	var opClasses []string

	releaseNow := func(point string) bool {
		switch c.Mode {
		case "before":
			return true
		case "after":
			return false
		default:
			return !s.fate[point]
		}
	}
	releaseHeld := func(when string) {
		rel := hc.release(func(*parkedG) bool { return true })
		for _, g := range rel {
			r.Bucket("cleanup_order:"+g.point+":"+when, 1)
		}
		if len(rel) > 0 {
			s.ev("released %d parked clean-up(s) (%s)", len(rel), when)
		}
		if when == "ran_after_next_sync" {
			for k := range s.held {
				s.crossed[k] = s.step
			}
		}
		s.held = map[string]bool{}
		if !s.q.settle() {
			s.inconcl = true
			r.Bucket("quiesce_timeouts", 1)
		}
	}

	for step := 0; step < nSteps && !s.violated && !s.inconcl; step++ {
		hc.setStep(step)
		s.step = step
		logStart := len(w.log)
		restart := step == restartStep && haveCache
		if c.Script != nil {
			c.Script[step].Ops(w)
		} else if step == 0 {
			w.populate(rng)
		} else {
			n := 1 + rng.IntN(3)
			for i := 0; i < n; i++ {
				opClasses = append(opClasses, w.randomOp(rng))
			}
		}
		for _, l := range w.log[logStart:] {
			s.ev("step %d world: %s", step, l)
		}
		if restart {
			// a restart happens at a quiescent point
			releaseHeld("ran_before_restart")
			s.crossed = map[string]int{}
			db, err = newDBRetry(st, cache, ivl, retry)
			if err != nil {
				r.Inconclusive("profiledb.New (restart): " + err.Error())
				return
			}
			m = lastFull.clone()
			s.fullFailed, inFailedFullWindow = false, false
			if len(m.profs) == 0 || len(m.devs) == 0 {
				m = newModel()
				s.lastFullAt, s.lastRespTime = "never", time.Time{}
			} else {
				s.lastRespTime = lastFullTime
				s.lastFullAt = "past"
				if c.Future {
					s.lastFullAt = "future"
				}
			}
			prevAccess = map[agd.ProfileID]int{}
			s.ev("step %d RESTART from cache file (model = last full synchronisation)", step)
			r.Bucket("restarts_continued", 1)
			s.lookupAll(db, m, fmt.Sprintf("step %d after-restart", step), releaseNow)
			if s.violated {
				break
			}
		}
		// mixed mode: fate of the clean-ups spawned in this step, per point
		for _, pt := range ownPoint {
			s.fate[pt] = s.coin.IntN(2) == 0
		}
		// owner changes of this step (for the non-triviality rule)
		before := map[lkey]expectation{}
		for _, k := range seqUniverse() {
			before[k] = m.expect(k)
		}
		failing := step == failStep
		if c.Script != nil {
			failing = c.Script[step].FailSync
		}
		wantFull := s.expectFull()
		if inFailedFullWindow || (failing && wantFull) {
			for _, l := range w.log[logStart:] {
				if strings.HasPrefix(l, "delete-profile") || strings.HasPrefix(l, "detach-device") {
					deletionsInFailedFullWindow++
				}
			}
		}
		st.fail = failing
		nReq := len(st.reqs)
		err = db.Refresh(context.Background())
		st.fail = false
		// the request of this refresh against the protocol
		if len(st.reqs) != nReq+1 {
			s.violated = true
			r.Violation("sync-request:count", fmt.Sprintf("one refresh made %d storage requests", len(st.reqs)-nReq), s.witness(nil))
			break
		}
		got := st.reqs[nReq]
		r.Bucket("sync_requests_checked", 1)
		switch {
		case !got.IsZero() && !got.Equal(s.lastRespTime):
			s.violated = true
			r.Violation("sync-request:unknown-sync-time",
				fmt.Sprintf("step %d: the request carries sync time %s, the last successful response said %s", step, got.Format(time.RFC3339), s.lastRespTime.Format(time.RFC3339)), s.witness(nil))
		case !wantFull && !got.Equal(s.lastRespTime):
			// zero although a successful response has been received; the
			// history goes on so that the lookups show the consequence
			s.ev("step %d VIOLATION: incremental refresh sent a zero sync time", step)
			r.Violation("sync-request:incremental-refresh-without-last-sync-time",
				fmt.Sprintf("step %d: by configuration this refresh is not a full synchronisation (full-sync interval %v, retry interval %v, last full: %s, last full attempt failed: %v), "+
					"but its request carries a zero sync time instead of %s, the sync time of the last successful response; a backend answers that with a full dump without deletion records, which an incremental refresh cannot apply",
					step, ivl, retry, s.lastFullAt, s.fullFailed, s.lastRespTime.Format(time.RFC3339)), s.witness(nil))
		case wantFull && !got.IsZero():
			r.Bucket("sync_request_full_expected_but_incremental", 1)
		}
		if s.fullFailed && !wantFull {
			r.Bucket("sync_requests_incremental_after_failed_full", 1)
		}
		if failing {
			if err == nil {
				s.violated = true
				r.Violation("refresh:storage-failure-not-reported", "the storage failed but Refresh returned nil", s.witness(nil))
				break
			}
			s.ev("step %d SYNC FAILED (storage error; expected kind: full=%v)", step, wantFull)
			r.Bucket("syncs_failed", 1)
			if wantFull {
				s.fullFailed = true
				inFailedFullWindow = true
				r.Bucket("syncs_failed_full", 1)
			}
			if s.violated {
				break
			}
			// a failed synchronisation changes nothing
			releaseHeld("ran_after_next_sync")
			s.lookupAll(db, m, fmt.Sprintf("step %d after-failed-sync", step), releaseNow)
			continue
		}
		if err != nil {
			s.violated = true
			r.Violation("refresh:error", "synchronisation failed: "+err.Error(), s.witness(nil))
			break
		}
		if s.violated {
			break
		}
		// The model follows the protocol: a response to a zero sync time is a
		// complete replacement, anything else an overlay.
		m.apply(st.last, st.lastFu)
		s.lastRespTime = st.last.SyncTime
		didFull := wantFull && st.lastFu
		if didFull {
			lastFull = m.clone()
			lastFullTime = st.last.SyncTime
			haveCache = true
			s.lastFullAt, s.fullFailed = "now", false
			r.Bucket("syncs_full", 1)
		} else {
			r.Bucket("syncs_incremental", 1)
			if inFailedFullWindow && deletionsInFailedFullWindow > 0 {
				r.Bucket("incremental_after_failed_full_with_deletion", 1)
			}
		}
		if didFull {
			inFailedFullWindow, deletionsInFailedFullWindow = false, 0
			prevAccess = map[agd.ProfileID]int{}
		}
		for _, p := range st.last.Profiles {
			idx := w.accessLog[accessLogKey(p.ID, profVer(p))]
			if old, ok := prevAccess[p.ID]; ok && !didFull && !p.Deleted {
				r.Bucket("access_change_in_incremental_sync:"+accessChangeClass(old, idx), 1)
			}
			prevAccess[p.ID] = idx
		}
		s.ev("step %d SYNC %s", step, describeResp(st.last, st.lastFu))
		for _, k := range seqUniverse() {
			if a, b := before[k], m.expect(k); a.Found && b.Found && a.D.ID != b.D.ID {
				s.ownerMoves++
				r.Bucket("key_changed_owner", 1)
			}
		}
		// clean-ups parked before this synchronisation run now: the
		// "synchronisation first" order
		releaseHeld("ran_after_next_sync")
		ans := s.lookupAll(db, m, fmt.Sprintf("step %d round 1", step), releaseNow)
		if s.violated {
			break
		}
		if c.Mode == "before" {
			// the clean-ups of round 1 have run: the answers must not change
			s.lookupAll(db, m, fmt.Sprintf("step %d round 2", step), releaseNow)
			if s.violated {
				break
			}
			if didFull {
				s.restartCheck(cache, ans, step, len(st.last.Profiles) == 0 || len(st.last.Devices) == 0)
			}
		}
	}
	// end of history: everything still parked runs, answers must stay right
	if !s.violated && !s.inconcl {
		releaseHeld("ran_at_end")
		s.lookupAll(db, m, "final round 1", func(string) bool { return true })
		if !s.violated {
			s.lookupAll(db, m, "final round 2", func(string) bool { return true })
		}
	}
	if st.badTok > 0 {
		r.Inconclusive("storage received a sync time it never issued")
	}
	sort.Strings(opClasses)
	cls := fmt.Sprintf("%s/%s/full=%v/future=%v/%s", c.Name, c.Mode, c.AllFul, c.Future, strings.Join(opClasses, ","))
	if c.Script == nil {
		cls = fmt.Sprintf("random/%s/full=%v/%s", c.Mode, c.AllFul, strings.Join(opClasses, ","))
	}
	r.Eval(cls, s.cleanups > 0 && !s.inconcl)
	r.Bucket("histories", 1)
	r.Bucket("histories_"+c.Mode, 1)
	if s.cleanups > 0 {
		r.Bucket("histories_with_cleanups", 1)
	}
	if c.Idx%53 == 3 && c.Mode == "after" {
		r.Sample(map[string]any{"part": "history", "case": c.Name, "index": c.Idx, "mode": c.Mode, "events": firstN(s.events, 40)})
	}
}

func firstN(s []string, n int) []string {
	if len(s) > n {
		return s[:n]
	}
	return s
}

// restartCheck opens a second database on the cache file that the full
// synchronisation has just written, with a storage that fails, and compares
// every lookup (and every exported field of the records) with the answers the
// first database gave at write time.
func (s *seqRun) restartCheck(cache string, first map[lkey]lookupResult, step int, emptyCache bool) {
	fs := &failingStorage{}
	db2, err := newDB(fs, cache, ivlNever)
	if err != nil {
		s.r.Inconclusive("profiledb.New (restart check): " + err.Error())
		return
	}
	if err = db2.Refresh(context.Background()); err == nil {
		s.r.Inconclusive("the failing storage of the restarted database did not fail")
	}
	s.r.Bucket("restart_checks", 1)
	for _, k := range seqUniverse() {
		f := first[k]
		p2, d2, err2 := doLookup(db2, k)
		a2 := normalise(p2, d2, err2)
		s.r.Bucket("restart_lookups", 1)
		if a2.BadErr {
			s.r.Violation("restart:lookup:"+kindName[k.K]+":unexpected-error", "restarted database: "+a2.Err, s.witness(map[string]any{"key": k.String()}))
			continue
		}
		if f.a.Found != a2.Found {
			s.r.Violation("restart:lookup:"+kindName[k.K]+":found-mismatch",
				fmt.Sprintf("lookup %s answered %s when the cache was written and %s after the restart", k, f.a.short(), a2.short()),
				s.witness(map[string]any{"key": k.String(), "step": step, "before": f.a, "after": a2}))
			continue
		}
		if !f.a.Found {
			if isProfileNotFound(f.err) != isProfileNotFound(err2) {
				// Documented: a cache without profiles or without devices is
				// not loaded at all, so "device not found" may become "profile
				// not found".  Anything else is a difference of the answers.
				if emptyCache {
					s.r.Bucket("restart_notfound_kind_differs_empty_cache", 1)
				} else {
					s.r.Violation("restart:lookup:"+kindName[k.K]+":notfound-kind-differs",
						fmt.Sprintf("lookup %s answered %q when the cache was written and %q after the restart", k, f.a.Err, a2.Err),
						s.witness(map[string]any{"key": k.String(), "step": step}))
				}
			}
			continue
		}
		s.r.Bucket("restart_found_compared", 1)
		if f.a.short() != a2.short() {
			s.r.Violation("restart:lookup:"+kindName[k.K]+":different-record",
				fmt.Sprintf("lookup %s answered %s when the cache was written and %s after the restart", k, f.a.short(), a2.short()),
				s.witness(map[string]any{"key": k.String(), "step": step, "before": f.a, "after": a2}))
			continue
		}
		compareRecords(s.r, "restart:field:", s.witness(map[string]any{"key": k.String(), "step": step}), f.p, f.d, p2, d2, false)
	}
}

func isProfileNotFound(err error) bool {
	return err != nil && strings.Contains(err.Error(), string(profiledb.ErrProfileNotFound))
}

// ---- directed scenarios: the four index kinds x both orders -----------------

type directedScript struct {
	name       string
	steps      []seqStep
	allFull    bool
	retryNever bool
}

func directedScripts() []directedScript {
	x, y := poolLinked[0], poolLinked[1]
	dx, dy := poolDed[0], poolDed[1]
	return []directedScript{
		{name: "linked-ip-handover", steps: []seqStep{
			{Ops: func(w *world) {
				w.addProfile("p0", false)
				w.addDevice("d0", "p0", x, nil, "")
				w.addDevice("d1", "p0", netip.Addr{}, nil, "")
			}},
			{Ops: func(w *world) { w.setLinked("d0", y) }},
			{Ops: func(w *world) { w.setLinked("d1", x) }},
			{Ops: func(w *world) { w.touchP("p0") }},
		}},
		{name: "linked-ip-handover-other-profile", steps: []seqStep{
			{Ops: func(w *world) {
				w.addProfile("p0", false)
				w.addProfile("p1", false)
				w.addDevice("d0", "p0", x, nil, "")
				w.addDevice("d1", "p1", netip.Addr{}, nil, "")
			}},
			{Ops: func(w *world) { w.setLinked("d0", netip.Addr{}) }},
			{Ops: func(w *world) { w.setLinked("d1", x) }},
			{Ops: func(w *world) { w.touchP("p0") }},
		}},
		{name: "dedicated-ip-handover", steps: []seqStep{
			{Ops: func(w *world) {
				w.addProfile("p0", false)
				w.addDevice("d0", "p0", netip.Addr{}, []netip.Addr{dx}, "")
				w.addDevice("d1", "p0", netip.Addr{}, nil, "")
			}},
			{Ops: func(w *world) { w.setDed("d0", []netip.Addr{dy}) }},
			{Ops: func(w *world) { w.setDed("d1", []netip.Addr{dx}) }},
			{Ops: func(w *world) { w.touchP("p0") }},
		}},
		{name: "human-id-handover", steps: []seqStep{
			{Ops: func(w *world) {
				w.addProfile("p0", true)
				w.addDevice("d0", "p0", netip.Addr{}, nil, "h0")
				w.addDevice("d1", "p0", netip.Addr{}, nil, "")
			}},
			{Ops: func(w *world) { w.setHid("d0", "h1") }},
			{Ops: func(w *world) { w.setHid("d1", "h0") }},
			{Ops: func(w *world) { w.touchP("p0") }},
		}},
		{name: "device-detach-reattach", steps: []seqStep{
			{Ops: func(w *world) {
				w.addProfile("p0", false)
				w.addProfile("p1", false)
				w.addDevice("d0", "p0", x, []netip.Addr{dx}, "")
				w.addDevice("d1", "p1", netip.Addr{}, nil, "")
			}},
			{Ops: func(w *world) { w.detach("d0") }},
			{Ops: func(w *world) { w.addDevice("d0", "p1", y, []netip.Addr{dy}, "h2") }},
			{Ops: func(w *world) { w.touchP("p0") }},
		}},
		{name: "device-detach-reattach-same-profile", steps: []seqStep{
			{Ops: func(w *world) {
				w.addProfile("p0", false)
				w.addDevice("d0", "p0", x, nil, "")
				w.addDevice("d1", "p0", netip.Addr{}, nil, "")
			}},
			{Ops: func(w *world) { w.detach("d0") }},
			{Ops: func(w *world) { w.addDevice("d0", "p0", x, nil, "") }},
		}},
		{name: "profile-deleted-device-moves", steps: []seqStep{
			{Ops: func(w *world) {
				w.addProfile("p0", false)
				w.addProfile("p1", false)
				w.addDevice("d0", "p0", x, []netip.Addr{dx}, "h0")
				w.addDevice("d1", "p1", y, nil, "h0")
			}},
			{Ops: func(w *world) { w.deleteProfile("p0", false) }},
			{Ops: func(w *world) { w.addDevice("d0", "p1", x, []netip.Addr{dx}, "h1") }},
			{Ops: func(w *world) { w.touchP("p1") }},
		}},
		{name: "swap-everything", steps: []seqStep{
			{Ops: func(w *world) {
				w.addProfile("p0", false)
				w.addDevice("d0", "p0", x, []netip.Addr{dx}, "h0")
				w.addDevice("d1", "p0", y, []netip.Addr{dy}, "h1")
			}},
			{Ops: func(w *world) { w.swapLinked("d0", "d1"); w.swapDed("d0", "d1"); w.swapHid("d0", "d1") }},
			{Ops: func(w *world) { w.swapLinked("d0", "d1"); w.swapDed("d0", "d1"); w.swapHid("d0", "d1") }},
		}},
		{name: "move-with-human-id", steps: []seqStep{
			{Ops: func(w *world) {
				w.addProfile("p0", false)
				w.addProfile("p1", false)
				w.addDevice("d0", "p0", x, nil, "h0")
				w.addDevice("d1", "p1", netip.Addr{}, nil, "")
			}},
			{Ops: func(w *world) { w.move("d0", "p1") }},
			{Ops: func(w *world) { w.touchP("p0") }},
		}},
		{name: "restart-then-incremental", steps: []seqStep{
			{Ops: func(w *world) {
				w.addProfile("p0", false)
				w.addDevice("d0", "p0", x, []netip.Addr{dx}, "h0")
			}},
			{Ops: func(w *world) { w.setLinked("d0", y) }},
			{Ops: func(w *world) { w.addDevice("d1", "p0", x, nil, "") }, Restart: true},
			{Ops: func(w *world) { w.touchP("p0") }},
		}},
		// failed synchronisations: the sync time of the last good response
		// must survive, so that the deletions of the window arrive as a delta
		{name: "failed-full-then-profile-deleted", allFull: true, retryNever: true, steps: []seqStep{
			{Ops: func(w *world) {
				w.addProfile("p0", false)
				w.addProfile("p1", false)
				w.addDevice("d0", "p0", x, []netip.Addr{dx}, "h0")
				w.addDevice("d1", "p1", netip.Addr{}, nil, "")
			}},
			{Ops: func(w *world) { w.touchP("p1") }, FailSync: true},
			{Ops: func(w *world) { w.deleteProfile("p0", false) }},
			{Ops: func(w *world) { w.touchP("p1") }},
		}},
		{name: "failed-full-then-device-detached", allFull: true, retryNever: true, steps: []seqStep{
			{Ops: func(w *world) {
				w.addProfile("p0", false)
				w.addDevice("d0", "p0", x, []netip.Addr{dx}, "h0")
				w.addDevice("d1", "p0", y, nil, "")
			}},
			{Ops: func(w *world) { w.detach("d0") }, FailSync: true},
			{Ops: func(w *world) { w.detach("d1") }},
			{Ops: func(w *world) { w.addDevice("d2", "p0", x, nil, "h0") }},
		}},
		{name: "restart-failed-full-then-profile-deleted", retryNever: true, steps: []seqStep{
			{Ops: func(w *world) {
				w.addProfile("p0", false)
				w.addProfile("p1", false)
				w.addDevice("d0", "p0", x, []netip.Addr{dx}, "h0")
				w.addDevice("d1", "p1", netip.Addr{}, nil, "")
			}},
			{Ops: func(w *world) { w.setLinked("d1", y) }},
			{Ops: func(w *world) { w.touchP("p1") }, Restart: true, FailSync: true},
			{Ops: func(w *world) { w.deleteProfile("p0", true) }},
			{Ops: func(w *world) { w.touchP("p1") }},
		}},
		{name: "first-full-fails-then-profile-deleted", retryNever: true, steps: []seqStep{
			{Ops: func(w *world) {
				w.addProfile("p0", false)
				w.addProfile("p1", false)
				w.addDevice("d0", "p0", x, nil, "h0")
				w.addDevice("d1", "p1", netip.Addr{}, nil, "")
			}, FailSync: true},
			{Ops: func(w *world) { w.touchP("p1") }},
			{Ops: func(w *world) { w.deleteProfile("p0", false) }},
			{Ops: func(w *world) { w.touchP("p1") }},
		}},
		{name: "failed-full-retried-at-once", allFull: true, steps: []seqStep{
			{Ops: func(w *world) {
				w.addProfile("p0", false)
				w.addProfile("p1", false)
				w.addDevice("d0", "p0", x, nil, "h0")
				w.addDevice("d1", "p1", netip.Addr{}, nil, "")
			}},
			{Ops: func(w *world) { w.touchP("p1") }, FailSync: true},
			{Ops: func(w *world) { w.deleteProfile("p0", false) }},
			{Ops: func(w *world) { w.touchP("p1") }},
		}},
		// incremental synchronisations that change only one part of the
		// access settings of a profile
		{name: "access-subnets-only", steps: []seqStep{
			{Ops: func(w *world) {
				w.addProfile("p0", false)
				w.addDevice("d0", "p0", x, []netip.Addr{dx}, "h0")
				w.setAccess("p0", 1)
			}},
			{Ops: func(w *world) { w.setAccess("p0", 6) }},
			{Ops: func(w *world) { w.setAccess("p0", 1) }},
			{Ops: func(w *world) { w.setAccess("p0", 5) }},
		}},
		{name: "access-asns-only", steps: []seqStep{
			{Ops: func(w *world) {
				w.addProfile("p0", false)
				w.addDevice("d0", "p0", x, []netip.Addr{dx}, "h0")
				w.setAccess("p0", 2)
			}},
			{Ops: func(w *world) { w.setAccess("p0", 7) }},
			{Ops: func(w *world) { w.setAccess("p0", 2) }},
			{Ops: func(w *world) { w.setAccess("p0", 5) }},
		}},
		{name: "access-names-only", steps: []seqStep{
			{Ops: func(w *world) {
				w.addProfile("p0", false)
				w.addDevice("d0", "p0", x, []netip.Addr{dx}, "h0")
				w.setAccess("p0", 3)
			}},
			{Ops: func(w *world) { w.setAccess("p0", 8) }},
			{Ops: func(w *world) { w.setAccess("p0", 3) }},
			{Ops: func(w *world) { w.setAccess("p0", 5) }},
		}},
		{name: "access-empty-and-back", steps: []seqStep{
			{Ops: func(w *world) {
				w.addProfile("p0", false)
				w.addDevice("d0", "p0", x, []netip.Addr{dx}, "h0")
				w.setAccess("p0", 5)
			}},
			{Ops: func(w *world) { w.setAccess("p0", 1) }},
			{Ops: func(w *world) { w.setAccess("p0", 2) }},
			{Ops: func(w *world) { w.setAccess("p0", 0) }},
			{Ops: func(w *world) { w.setAccess("p0", 6) }},
		}},
	}
}

func directedCases() (cs []seqCase) {
	idx := 100000
	for _, s := range directedScripts() {
		for _, mode := range []string{"before", "after"} {
			for _, future := range []bool{false, true} {
				if future && s.name != "restart-then-incremental" {
					continue
				}
				cs = append(cs, seqCase{Name: "directed/" + s.name, Idx: idx, Mode: mode, Future: future, Script: s.steps,
					AllFul: s.allFull, RetryNever: s.retryNever})
				idx++
			}
		}
	}
	return cs
}

func sequential(r *vkit.Run, dir string) {
	for _, c := range directedCases() {
		runSeq(r, dir, c)
		r.Bucket("directed_cases", 1)
	}
	n := r.N(400, 2500)
	for i := 0; i < n; i++ {
		allFull := i%8 == 7
		future := i%3 == 1
		for _, mode := range []string{"before", "after", "mixed"} {
			if allFull && mode != "before" {
				// no stale entries, hence no clean-ups, when every sync is full
				continue
			}
			runSeq(r, dir, seqCase{Name: "random", Idx: i, Mode: mode, AllFul: allFull, Future: future, RetryNever: i%2 == 0})
		}
	}
}

// naturalOrder is the hook-free way to obtain the "synchronisation first"
// order: with GOMAXPROCS(1) a clean-up goroutine spawned by a lookup does not
// run before the spawning goroutine yields, so lookups immediately followed
// by a synchronisation let the synchronisation overtake the clean-ups.  The
// hooks do not block here, they only record when each clean-up started.
func naturalOrder(r *vkit.Run) {
	old := runtime.GOMAXPROCS(1)
	defer runtime.GOMAXPROCS(old)
	reps := r.N(4, 40)
	for si, sc := range directedScripts() {
		for rep := 0; rep < reps; rep++ {
			skip := sc.allFull
			for _, st := range sc.steps {
				skip = skip || st.Restart || st.FailSync
			}
			if skip {
				continue
			}
			var clock atomic.Int64
			var mu sync.Mutex
			type hit struct {
				point string
				at    int64
			}
			var hits []hit
			hc := newHookCtl()
			verifhook.Set(func(point string) {
				at := clock.Add(1)
				mu.Lock()
				hits = append(hits, hit{point, at})
				mu.Unlock()
			})
			q := &quiesce{h: hc, baseline: stableGoroutines()}
			w := newWorld(basePast, false, seqPools)
			st := &scriptedStorage{w: w, rng: r.Rand("natural-order", si*1000+rep)}
			db, err := newDB(st, "none", ivlNever)
			if err != nil {
				r.Inconclusive("profiledb.New: " + err.Error())
				verifhook.Set(nil)
				return
			}
			m := newModel()
			var events []string
			violated := false
			for step := 0; step < len(sc.steps) && !violated; step++ {
				sc.steps[step].Ops(w)
				lookupsDone := clock.Add(1)
				if err = db.Refresh(context.Background()); err != nil {
					r.Violation("refresh:error", "synchronisation failed: "+err.Error(), map[string]any{"case": sc.name})
					break
				}
				syncDone := clock.Add(1)
				m.apply(st.last, st.lastFu)
				events = append(events, fmt.Sprintf("step %d SYNC %s", step, describeResp(st.last, st.lastFu)))
				if !q.settle() {
					r.Bucket("quiesce_timeouts", 1)
					break
				}
				after := map[string]bool{}
				mu.Lock()
				for _, h := range hits {
					switch {
					case h.at > syncDone:
						after[h.point] = true
						r.Bucket("natural_order:"+h.point+":ran_after_next_sync", 1)
					case h.at > lookupsDone:
						r.Bucket("natural_order:"+h.point+":ran_during_next_sync", 1)
					default:
						r.Bucket("natural_order:"+h.point+":ran_before_next_sync", 1)
					}
				}
				hits = hits[:0]
				mu.Unlock()
				// all lookups without yielding in between
				for _, k := range seqUniverse() {
					p, d, e := doLookup(db, k)
					a := normalise(p, d, e)
					exp := m.expect(k)
					cls := judge(k, exp, a)
					r.Bucket("natural_order_lookups", 1)
					if cls == "" || cls == "answer-from-other-profile" {
						continue
					}
					violated = true
					key := "natural-order:" + kindName[k.K] + ":" + cls
					what := fmt.Sprintf("GOMAXPROCS(1), no blocking hooks: step %d lookup %s answered %s, the latest synchronised data say %s", step, k, a.short(), exp.short())
					if cls == "missing" {
						switch {
						case after[ownPoint[k.K]]:
							key = "cleanup-deletes-new-owner:" + kindName[k.K]
							what += "; the clean-up of this index, spawned before the synchronisation, started after it. " + fixHint
						case after[ownPoint[kDev]]:
							key = "cleanup-deletes-new-owner:device-id"
							what += "; a removeDevice clean-up spawned before the synchronisation started after it. " + fixHint
						}
					}
					r.Bucket("natural_order_mismatches", 1)
					r.Violation(key, what, map[string]any{"case": "natural-order/" + sc.name, "rep": rep, "history": events, "key": k.String(), "observed": a, "expected": exp.short()})
				}
			}
			verifhook.Set(nil)
			q.settle()
			r.Bucket("natural_order_cases", 1)
			r.Eval("natural-order/"+sc.name, false)
		}
	}
}
