// Package c14 monitors property C14: profile lookups always reflect the latest
// synchronised data, also after restart.
//
// This file holds what all parts share: the scripted storage ("world"), the
// map-of-latest-records reference model written from the property statement,
// the lookup drivers, and the hook controller that parks the background
// clean-up goroutines of the database.
package c14

import (
	"context"
	"errors"
	"fmt"
	"io"
	"log/slog"
	"math/rand/v2"
	"net/netip"
	"os"
	"path/filepath"
	"runtime"
	"sort"
	"strings"
	"sync"
	"time"

	"github.com/AdguardTeam/AdGuardDNS/internal/agd"
	"github.com/AdguardTeam/AdGuardDNS/internal/profiledb"
	"github.com/AdguardTeam/AdGuardDNS/verif/vkit"
	"github.com/c2h5oh/datasize"
)

// ---------------------------------------------------------------------------
// small helpers

type errColl struct{}

func (errColl) Collect(context.Context, error) {}

var discardLogger = slog.New(slog.NewTextHandler(io.Discard, nil))

const respSzEst = 1 * datasize.KB

var errStorage = errors.New("scripted storage failure")

func scratchDir(t interface{ TempDir() string }) string {
	if s := os.Getenv("VERIF_SCRATCH"); s != "" {
		d := filepath.Join(s, "c14")
		_ = os.MkdirAll(d, 0o755)
		return d
	}
	return t.TempDir()
}

// Sync-time tokens.  The response's SyncTime encodes the epoch of the world at
// which the response was produced, so that a later request (also one made by a
// database restarted from its cache) tells the storage which delta it needs.
// Two bases: a token in the past makes a restarted database start with a full
// sync (lastFullSync is taken from the cache), one in the future makes it
// continue with incremental syncs.
var (
	basePast   = time.Date(2000, 1, 1, 0, 0, 0, 0, time.UTC)
	baseFuture = time.Date(2100, 1, 1, 0, 0, 0, 0, time.UTC)
)

func encodeToken(base time.Time, epoch int) time.Time {
	return base.Add(time.Duration(epoch) * time.Second)
}

func decodeToken(t time.Time) (epoch int, ok bool) {
	for _, b := range []time.Time{basePast, baseFuture} {
		d := t.Sub(b)
		if d >= 0 && d < 1000000*time.Second && d%time.Second == 0 {
			return int(d / time.Second), true
		}
	}
	return 0, false
}

// ---------------------------------------------------------------------------
// lookup keys

type kind int

const (
	kDev kind = iota
	kLinked
	kDed
	kHuman
)

var kindName = [...]string{"device-id", "linked-ip", "dedicated-ip", "human-id"}

// ownPoint is the clean-up hook point that removes the index entry of a kind.
var ownPoint = [...]string{
	"profiledb.removeDevice", "profiledb.removeLinkedIP", "profiledb.removeDedicatedIP", "profiledb.removeHumanID",
}

type lkey struct {
	K    kind
	Dev  agd.DeviceID
	IP   netip.Addr
	Prof agd.ProfileID
	Hid  agd.HumanIDLower
}

func (k lkey) String() string {
	switch k.K {
	case kDev:
		return "device-id:" + string(k.Dev)
	case kLinked:
		return "linked-ip:" + k.IP.String()
	case kDed:
		return "dedicated-ip:" + k.IP.String()
	default:
		return "human-id:" + string(k.Prof) + "/" + string(k.Hid)
	}
}

func doLookup(db profiledb.Interface, k lkey) (p *agd.Profile, d *agd.Device, err error) {
	ctx := context.Background()
	switch k.K {
	case kDev:
		return db.ProfileByDeviceID(ctx, k.Dev)
	case kLinked:
		return db.ProfileByLinkedIP(ctx, k.IP)
	case kDed:
		return db.ProfileByDedicatedIP(ctx, k.IP)
	default:
		return db.ProfileByHumanID(ctx, k.Prof, k.Hid)
	}
}

// answer is the normalised observable result of one lookup.
type answer struct {
	Found   bool   `json:"found"`
	Prof    string `json:"profile,omitempty"`
	ProfVer string `json:"profile_version,omitempty"`
	Dev     string `json:"device,omitempty"`
	DevVer  string `json:"device_version,omitempty"`
	Deleted bool   `json:"profile_deleted,omitempty"`
	Err     string `json:"err,omitempty"`
	BadErr  bool   `json:"bad_err,omitempty"`
	// NoProfile: the error is (wraps) ErrProfileNotFound.
	NoProfile bool `json:"profile_not_found,omitempty"`
}

func (a answer) short() string {
	if !a.Found {
		return "not-found"
	}
	s := fmt.Sprintf("%s@%s/%s@%s", a.Prof, a.ProfVer, a.Dev, a.DevVer)
	if a.Deleted {
		s += "(deleted)"
	}
	return s
}

func profVer(p *agd.Profile) string { return p.FilteredResponseTTL.String() }
func devVer(d *agd.Device) string   { return string(d.Name) }

func normalise(p *agd.Profile, d *agd.Device, err error) (a answer) {
	if err != nil {
		a.Err = err.Error()
		a.NoProfile = errors.Is(err, profiledb.ErrProfileNotFound)
		if !errors.Is(err, profiledb.ErrDeviceNotFound) && !errors.Is(err, profiledb.ErrProfileNotFound) {
			a.BadErr = true
		}
		if p != nil || d != nil {
			a.BadErr = true
		}
		return a
	}
	if p == nil || d == nil {
		a.BadErr = true
		a.Err = "nil profile or device with nil error"
		return a
	}
	return answer{Found: true, Prof: string(p.ID), ProfVer: profVer(p), Dev: string(d.ID), DevVer: devVer(d), Deleted: p.Deleted}
}

// ---------------------------------------------------------------------------
// reference model: map of the latest records (from the property statement:
// a full synchronisation replaces everything, an incremental one overlays;
// a key is owned by the current device whose latest record carries it; a
// device is current if the latest record of a profile lists it).

type model struct {
	profs map[agd.ProfileID]*agd.Profile
	devs  map[agd.DeviceID]*agd.Device
}

func newModel() *model {
	return &model{profs: map[agd.ProfileID]*agd.Profile{}, devs: map[agd.DeviceID]*agd.Device{}}
}

func (m *model) clone() *model {
	c := newModel()
	for k, v := range m.profs {
		c.profs[k] = v
	}
	for k, v := range m.devs {
		c.devs[k] = v
	}
	return c
}

func (m *model) apply(resp *profiledb.StorageProfilesResponse, full bool) {
	if full {
		clear(m.profs)
		clear(m.devs)
	}
	for _, p := range resp.Profiles {
		m.profs[p.ID] = p
	}
	for _, d := range resp.Devices {
		m.devs[d.ID] = d
	}
}

type expectation struct {
	// Found: a current device in a live profile owns the key.
	Found bool
	P     *agd.Profile
	D     *agd.Device
	// DeletedOwner: the only owners are devices of profiles flagged deleted:
	// not-found and "found with Profile.Deleted" are both accepted (the
	// consumer treats a deleted profile as not found).
	DeletedOwner bool
	Ambiguous    bool
	// NoProfile: a human-id key whose profile has no record at all; the
	// interface documents that the answer must then be ErrProfileNotFound.
	NoProfile bool
}

func (e expectation) short() string {
	switch {
	case e.Ambiguous:
		return "ambiguous"
	case e.Found:
		return fmt.Sprintf("%s@%s/%s@%s", e.P.ID, profVer(e.P), e.D.ID, devVer(e.D))
	case e.DeletedOwner:
		return "not-found-or-deleted-profile"
	case e.NoProfile:
		return "not-found(profile not found)"
	default:
		return "not-found"
	}
}

func (m *model) expect(k lkey) (e expectation) {
	type cand struct {
		p *agd.Profile
		d *agd.Device
	}
	var live, dead []cand
	pids := make([]string, 0, len(m.profs))
	for id := range m.profs {
		pids = append(pids, string(id))
	}
	sort.Strings(pids)
	for _, pid := range pids {
		p := m.profs[agd.ProfileID(pid)]
		if k.K == kHuman && p.ID != k.Prof {
			continue
		}
		for _, did := range p.DeviceIDs {
			d, ok := m.devs[did]
			if !ok {
				continue
			}
			owns := false
			switch k.K {
			case kDev:
				owns = d.ID == k.Dev
			case kLinked:
				owns = d.LinkedIP.IsValid() && d.LinkedIP == k.IP
			case kDed:
				for _, ip := range d.DedicatedIPs {
					owns = owns || ip == k.IP
				}
			case kHuman:
				owns = d.HumanIDLower != "" && d.HumanIDLower == k.Hid
			}
			if !owns {
				continue
			}
			if p.Deleted {
				dead = append(dead, cand{p, d})
			} else {
				live = append(live, cand{p, d})
			}
		}
	}
	switch {
	case len(live) == 1:
		return expectation{Found: true, P: live[0].p, D: live[0].d}
	case len(live) > 1:
		return expectation{Ambiguous: true}
	case len(dead) > 0:
		return expectation{DeletedOwner: true}
	}
	if k.K == kHuman {
		if _, ok := m.profs[k.Prof]; !ok {
			return expectation{NoProfile: true}
		}
	}
	return expectation{}
}

// judge compares an observed answer with the expectation; it returns "" if
// the answer is acceptable, otherwise the mismatch class.
func judge(k lkey, e expectation, a answer) (class string) {
	if a.BadErr {
		return "unexpected-error"
	}
	switch {
	case e.Ambiguous:
		return ""
	case e.Found:
		if !a.Found {
			return "missing"
		}
		if a.Dev != string(e.D.ID) {
			return "wrong-device"
		}
		if a.Prof != string(e.P.ID) {
			return "wrong-profile"
		}
		if a.DevVer != devVer(e.D) {
			return "stale-device-record"
		}
		if a.ProfVer != profVer(e.P) || a.Deleted != e.P.Deleted {
			return "stale-profile-record"
		}
		return ""
	case e.DeletedOwner:
		if !a.Found || a.Deleted {
			return ""
		}
		return "answer-from-deleted-or-stale"
	default:
		if !a.Found {
			if e.NoProfile && !a.NoProfile {
				return "profile-not-found-expected"
			}
			return ""
		}
		if a.Deleted {
			// A profile flagged deleted is "not found" for every consumer.
			return ""
		}
		if k.K == kHuman && a.Prof != string(k.Prof) {
			return "answer-from-other-profile"
		}
		return "stale-answer"
	}
}

// ---------------------------------------------------------------------------
// the world: the truth held by the scripted storage

type wDev struct {
	ID     agd.DeviceID
	Prof   agd.ProfileID
	Linked netip.Addr
	Ded    []netip.Addr
	Hid    agd.HumanIDLower
	Ver    int
}

type wProf struct {
	ID        agd.ProfileID
	Devs      []agd.DeviceID
	Deleted   bool
	Auto      bool
	Ver       int
	ChangedAt int
	// AccessSel selects the access-settings variant (-1: derived from the
	// version like every other setting).
	AccessSel int
	// SchedSel selects the pause-schedule variant (0: derived from the version).
	SchedSel int
	// tombDevs are the device states a deleted profile still lists (variant
	// "deleted profile keeps its devices").
	tombDevs []*wDev
}

type pools struct {
	prof   []agd.ProfileID
	dev    []agd.DeviceID
	linked []netip.Addr
	ded    []netip.Addr
	hid    []agd.HumanIDLower
}

type world struct {
	pl      *pools
	profs   map[agd.ProfileID]*wProf
	devs    map[agd.DeviceID]*wDev
	devVers map[agd.DeviceID]int
	epoch   int
	base    time.Time
	retired map[string]bool // keys never handed out again
	noReuse bool
	everDev map[agd.DeviceID]bool
	log     []string
	// accessLog records the access-settings variant of every profile version
	// that was put into a response ("id@version" -> variant).
	accessLog map[string]int
}

func accessLogKey(id agd.ProfileID, ver string) string { return string(id) + "@" + ver }

func newWorld(base time.Time, noReuse bool, pl *pools) *world {
	return &world{
		pl:    pl,
		profs: map[agd.ProfileID]*wProf{}, devs: map[agd.DeviceID]*wDev{}, devVers: map[agd.DeviceID]int{},
		epoch: 1, base: base, retired: map[string]bool{}, noReuse: noReuse, everDev: map[agd.DeviceID]bool{},
		accessLog: map[string]int{},
	}
}

func (w *world) logf(f string, a ...any) { w.log = append(w.log, fmt.Sprintf(f, a...)) }

func (w *world) touchP(id agd.ProfileID) {
	p := w.profs[id]
	p.Ver++
	p.ChangedAt = w.epoch
}

func (w *world) touchD(id agd.DeviceID) {
	w.devVers[id]++
	d := w.devs[id]
	d.Ver = w.devVers[id]
	w.touchP(d.Prof)
}

func (w *world) setAccess(id agd.ProfileID, sel int) {
	w.logf("set-access-variant %s %d -> %d (%s)", id, accessIdxOf(w.profs[id]), sel, accessChangeClass(accessIdxOf(w.profs[id]), sel))
	w.profs[id].AccessSel = sel
	w.touchP(id)
}

func (w *world) addProfile(id agd.ProfileID, auto bool) {
	w.profs[id] = &wProf{ID: id, Auto: auto, AccessSel: -1}
	w.touchP(id)
	w.logf("add-profile %s auto=%v", id, auto)
}

func (w *world) addDevice(id agd.DeviceID, prof agd.ProfileID, linked netip.Addr, ded []netip.Addr, hid agd.HumanIDLower) {
	w.devs[id] = &wDev{ID: id, Prof: prof, Linked: linked, Ded: ded, Hid: hid}
	w.everDev[id] = true
	p := w.profs[prof]
	p.Devs = append(p.Devs, id)
	w.touchD(id)
	w.logf("attach-device %s to %s linked=%v dedicated=%v human=%q", id, prof, ipStr(linked), ded, hid)
	w.use(linked, ded, prof, hid)
}

func (w *world) use(linked netip.Addr, ded []netip.Addr, prof agd.ProfileID, hid agd.HumanIDLower) {
	if !w.noReuse {
		return
	}
	if linked.IsValid() {
		w.retired["l"+linked.String()] = true
	}
	for _, ip := range ded {
		w.retired["d"+ip.String()] = true
	}
	if hid != "" {
		w.retired["h"+string(hid)] = true
	}
}

func ipStr(a netip.Addr) string {
	if !a.IsValid() {
		return "-"
	}
	return a.String()
}

func (w *world) removeFromProfile(id agd.DeviceID) {
	d := w.devs[id]
	p := w.profs[d.Prof]
	for i, x := range p.Devs {
		if x == id {
			p.Devs = append(append([]agd.DeviceID{}, p.Devs[:i]...), p.Devs[i+1:]...)
			break
		}
	}
	w.touchP(p.ID)
}

func (w *world) detach(id agd.DeviceID) {
	w.logf("detach-device %s from %s", id, w.devs[id].Prof)
	w.removeFromProfile(id)
	delete(w.devs, id)
	if w.noReuse {
		w.retired["dev"+string(id)] = true
	}
}

func (w *world) move(id agd.DeviceID, to agd.ProfileID) {
	d := w.devs[id]
	w.logf("move-device %s from %s to %s", id, d.Prof, to)
	w.removeFromProfile(id)
	if d.Hid != "" && w.hidOwner(to, d.Hid) != "" {
		d.Hid = ""
	}
	d.Prof = to
	p := w.profs[to]
	p.Devs = append(p.Devs, id)
	w.touchD(id)
}

func (w *world) setLinked(id agd.DeviceID, ip netip.Addr) {
	w.logf("set-linked %s %s -> %s", id, ipStr(w.devs[id].Linked), ipStr(ip))
	w.devs[id].Linked = ip
	w.touchD(id)
	w.use(ip, nil, "", "")
}

func (w *world) setDed(id agd.DeviceID, ips []netip.Addr) {
	w.logf("set-dedicated %s %v -> %v", id, w.devs[id].Ded, ips)
	w.devs[id].Ded = ips
	w.touchD(id)
	w.use(netip.Addr{}, ips, "", "")
}

func (w *world) setHid(id agd.DeviceID, hid agd.HumanIDLower) {
	w.logf("set-human-id %s %q -> %q", id, w.devs[id].Hid, hid)
	w.devs[id].Hid = hid
	w.touchD(id)
	w.use(netip.Addr{}, nil, "", hid)
}

func (w *world) swapLinked(a, b agd.DeviceID) {
	w.logf("swap-linked %s(%s) <-> %s(%s)", a, ipStr(w.devs[a].Linked), b, ipStr(w.devs[b].Linked))
	w.devs[a].Linked, w.devs[b].Linked = w.devs[b].Linked, w.devs[a].Linked
	w.touchD(a)
	w.touchD(b)
}

func (w *world) swapDed(a, b agd.DeviceID) {
	w.logf("swap-dedicated %s%v <-> %s%v", a, w.devs[a].Ded, b, w.devs[b].Ded)
	w.devs[a].Ded, w.devs[b].Ded = w.devs[b].Ded, w.devs[a].Ded
	w.touchD(a)
	w.touchD(b)
}

func (w *world) swapHid(a, b agd.DeviceID) {
	w.logf("swap-human-id %s(%q) <-> %s(%q)", a, w.devs[a].Hid, b, w.devs[b].Hid)
	w.devs[a].Hid, w.devs[b].Hid = w.devs[b].Hid, w.devs[a].Hid
	w.touchD(a)
	w.touchD(b)
}

func (w *world) deleteProfile(id agd.ProfileID, keepDevs bool) {
	p := w.profs[id]
	w.logf("delete-profile %s keep-device-list=%v devices=%v", id, keepDevs, p.Devs)
	for _, did := range p.Devs {
		d := w.devs[did]
		if keepDevs {
			p.tombDevs = append(p.tombDevs, d)
			// keys of devices that stay listed in a deleted profile are never
			// handed out again (see F in the rule text).
			w.retired["dev"+string(did)] = true
			if d.Linked.IsValid() {
				w.retired["l"+d.Linked.String()] = true
			}
			for _, ip := range d.Ded {
				w.retired["d"+ip.String()] = true
			}
		} else if w.noReuse {
			w.retired["dev"+string(did)] = true
		}
		delete(w.devs, did)
	}
	if !keepDevs {
		p.Devs = nil
	}
	p.Deleted = true
	w.touchP(id)
}

func (w *world) linkedOwner(ip netip.Addr) agd.DeviceID {
	for id, d := range w.devs {
		if d.Linked == ip {
			return id
		}
	}
	return ""
}

func (w *world) dedOwner(ip netip.Addr) agd.DeviceID {
	for id, d := range w.devs {
		for _, x := range d.Ded {
			if x == ip {
				return id
			}
		}
	}
	return ""
}

func (w *world) hidOwner(prof agd.ProfileID, hid agd.HumanIDLower) agd.DeviceID {
	for id, d := range w.devs {
		if d.Prof == prof && d.Hid == hid {
			return id
		}
	}
	return ""
}

func (w *world) liveProfiles() (ids []agd.ProfileID) {
	for id, p := range w.profs {
		if !p.Deleted {
			ids = append(ids, id)
		}
	}
	sort.Slice(ids, func(i, j int) bool { return ids[i] < ids[j] })
	return ids
}

func (w *world) deviceIDs() (ids []agd.DeviceID) {
	for id := range w.devs {
		ids = append(ids, id)
	}
	sort.Slice(ids, func(i, j int) bool { return ids[i] < ids[j] })
	return ids
}

// response builds what the storage answers to a request that carries the
// token of epoch reqEpoch (full: everything that is not deleted).  Every
// profile in a response carries all its devices, as the backend protocol does.
// Fresh record objects are created for every response.
func (w *world) response(reqEpoch int, full bool, rng *rand.Rand) *profiledb.StorageProfilesResponse {
	resp := &profiledb.StorageProfilesResponse{SyncTime: encodeToken(w.base, w.epoch)}
	ids := make([]agd.ProfileID, 0, len(w.profs))
	for id, p := range w.profs {
		if full && p.Deleted {
			continue
		}
		if !full && p.ChangedAt <= reqEpoch {
			continue
		}
		ids = append(ids, id)
	}
	sort.Slice(ids, func(i, j int) bool { return ids[i] < ids[j] })
	if rng != nil {
		rng.Shuffle(len(ids), func(i, j int) { ids[i], ids[j] = ids[j], ids[i] })
	}
	for _, id := range ids {
		p := w.profs[id]
		rec := mkProfile(p)
		resp.Profiles = append(resp.Profiles, rec)
		w.accessLog[accessLogKey(p.ID, profVer(rec))] = accessIdxOf(p)
		if p.Deleted {
			for _, d := range p.tombDevs {
				resp.Devices = append(resp.Devices, mkDevice(d))
			}
			continue
		}
		for _, did := range p.Devs {
			resp.Devices = append(resp.Devices, mkDevice(w.devs[did]))
		}
	}
	w.epoch++
	return resp
}

func describeResp(resp *profiledb.StorageProfilesResponse, full bool) string {
	b := &strings.Builder{}
	if full {
		b.WriteString("FULL ")
	} else {
		b.WriteString("INCREMENTAL ")
	}
	for _, p := range resp.Profiles {
		fmt.Fprintf(b, "profile{%s@%s devs=%v", p.ID, profVer(p), p.DeviceIDs)
		if p.Deleted {
			b.WriteString(" DELETED")
		}
		if p.AutoDevicesEnabled {
			b.WriteString(" auto")
		}
		b.WriteString("} ")
	}
	for _, d := range resp.Devices {
		fmt.Fprintf(b, "device{%s@%s linked=%s ded=%v human=%q} ", d.ID, devVer(d), ipStr(d.LinkedIP), d.DedicatedIPs, d.HumanIDLower)
	}
	return b.String()
}

// scriptedStorage implements profiledb.Storage over a world.
type scriptedStorage struct {
	mu     sync.Mutex
	w      *world
	rng    *rand.Rand
	fail   bool
	last   *profiledb.StorageProfilesResponse
	lastFu bool
	calls  int
	badTok int
	// reqs are the sync times of all requests, failed ones included.
	reqs []time.Time
	// onResponse, if set, runs inside Profiles after the response is built.
	onResponse func()
	create     *createCtl
	prebuilt   *profiledb.StorageProfilesResponse
	// afterUnlock, if set (before the requests start), is called with the
	// number of the request after its response has been built.
	afterUnlock func(n int)
	// served are all responses in the order in which the requests arrived.
	served []servedResp
}

// createCtl scripts one Storage.CreateAutoDevice call: it signals that the
// call has arrived, blocks until told to proceed, and creates the device in
// the world either when the call arrives or when it returns.
type createCtl struct {
	entered chan struct{}
	proceed chan struct{}
	atEntry bool
	created agd.DeviceID
}

func (s *scriptedStorage) createInWorld(req *profiledb.StorageCreateAutoDeviceRequest) (*agd.Device, error) {
	p := s.w.profs[req.ProfileID]
	if p == nil || p.Deleted {
		return nil, &profiledb.BadRequestError{Message: "no such profile"}
	}
	hid := agd.HumanIDLower(strings.ToLower(string(req.HumanID)))
	if owner := s.w.hidOwner(req.ProfileID, hid); owner != "" {
		return mkDevice(s.w.devs[owner]), nil
	}
	for _, id := range s.w.pl.dev {
		if _, used := s.w.devs[id]; used || s.w.retired["dev"+string(id)] || s.w.everDev[id] {
			continue
		}
		s.w.addDevice(id, req.ProfileID, netip.Addr{}, nil, hid)
		return mkDevice(s.w.devs[id]), nil
	}
	return nil, &profiledb.DeviceQuotaExceededError{Message: "no free device id"}
}

func (s *scriptedStorage) CreateAutoDevice(_ context.Context, req *profiledb.StorageCreateAutoDeviceRequest) (*profiledb.StorageCreateAutoDeviceResponse, error) {
	s.mu.Lock()
	c := s.create
	if c == nil {
		s.mu.Unlock()
		return nil, errors.New("unexpected CreateAutoDevice")
	}
	var dev *agd.Device
	var err error
	if c.atEntry {
		dev, err = s.createInWorld(req)
	}
	s.mu.Unlock()
	c.entered <- struct{}{}
	<-c.proceed
	if !c.atEntry {
		s.mu.Lock()
		dev, err = s.createInWorld(req)
		s.mu.Unlock()
	}
	if err != nil {
		return nil, err
	}
	c.created = dev.ID
	return &profiledb.StorageCreateAutoDeviceResponse{Device: dev}, nil
}

func (s *scriptedStorage) Profiles(ctx context.Context, req *profiledb.StorageProfilesRequest) (*profiledb.StorageProfilesResponse, error) {
	resp, n, err := s.profilesLocked(ctx, req)
	if s.afterUnlock != nil && err == nil {
		// outside the storage's lock: may hold this response back while
		// other requests are served
		s.afterUnlock(n)
	}
	return resp, err
}

type servedResp struct {
	resp *profiledb.StorageProfilesResponse
	full bool
}

func (s *scriptedStorage) profilesLocked(_ context.Context, req *profiledb.StorageProfilesRequest) (*profiledb.StorageProfilesResponse, int, error) {
	s.mu.Lock()
	defer s.mu.Unlock()
	s.calls++
	s.reqs = append(s.reqs, req.SyncTime)
	if s.fail {
		return nil, s.calls, errStorage
	}
	full := req.SyncTime.IsZero()
	reqEpoch := 0
	if !full {
		var ok bool
		reqEpoch, ok = decodeToken(req.SyncTime)
		if !ok {
			s.badTok++
			full = true
		}
	}
	if s.prebuilt != nil && !full {
		// a response built in advance for exactly this request, so that the
		// call returns at once
		s.last, s.prebuilt = s.prebuilt, nil
	} else {
		s.last = s.w.response(reqEpoch, full, s.rng)
	}
	s.lastFu = full
	if s.onResponse != nil {
		s.onResponse()
	}
	s.served = append(s.served, servedResp{s.last, full})
	return s.last, s.calls, nil
}

type failingStorage struct{ calls int }

func (f *failingStorage) CreateAutoDevice(context.Context, *profiledb.StorageCreateAutoDeviceRequest) (*profiledb.StorageCreateAutoDeviceResponse, error) {
	return nil, errStorage
}

func (f *failingStorage) Profiles(context.Context, *profiledb.StorageProfilesRequest) (*profiledb.StorageProfilesResponse, error) {
	f.calls++
	return nil, errStorage
}

func newDB(st profiledb.Storage, cache string, fullIvl time.Duration) (*profiledb.Default, error) {
	return newDBRetry(st, cache, fullIvl, 0)
}

func newDBRetry(st profiledb.Storage, cache string, fullIvl, retryIvl time.Duration) (*profiledb.Default, error) {
	return profiledb.New(&profiledb.Config{
		Logger:               discardLogger,
		Storage:              st,
		ErrColl:              errColl{},
		Metrics:              profiledb.EmptyMetrics{},
		CacheFilePath:        cache,
		FullSyncIvl:          fullIvl,
		FullSyncRetryIvl:     retryIvl,
		ResponseSizeEstimate: respSzEst,
	})
}

const ivlNever = 1000 * time.Hour

// ---------------------------------------------------------------------------
// hook controller

type parkedG struct {
	point string
	ch    chan struct{}
	step  int
}

type hookCtl struct {
	mu     sync.Mutex
	park   bool
	step   int
	parked []*parkedG
	hits   map[string]int64
	// onRelease, if set before any goroutine parks, is called by a released
	// clean-up goroutine just before it continues.
	onRelease func(point string)
}

func newHookCtl() *hookCtl { return &hookCtl{hits: map[string]int64{}} }

func (h *hookCtl) cb(point string) {
	h.mu.Lock()
	h.hits[point]++
	if !h.park {
		h.mu.Unlock()
		return
	}
	g := &parkedG{point: point, ch: make(chan struct{}), step: h.step}
	h.parked = append(h.parked, g)
	h.mu.Unlock()
	<-g.ch
	if h.onRelease != nil {
		h.onRelease(point)
	}
}

func (h *hookCtl) hitsOf(point string) int64 { h.mu.Lock(); defer h.mu.Unlock(); return h.hits[point] }

func (h *hookCtl) allHits() map[string]int64 {
	h.mu.Lock()
	defer h.mu.Unlock()
	out := map[string]int64{}
	for k, v := range h.hits {
		out[k] = v
	}
	return out
}

func (h *hookCtl) nParked() int { h.mu.Lock(); defer h.mu.Unlock(); return len(h.parked) }

func (h *hookCtl) setStep(s int) { h.mu.Lock(); h.step = s; h.mu.Unlock() }

func (h *hookCtl) setPark(p bool) { h.mu.Lock(); h.park = p; h.mu.Unlock() }

// parkedFrom returns the points of the goroutines parked at index >= n.
func (h *hookCtl) parkedFrom(n int) (points []string) {
	h.mu.Lock()
	defer h.mu.Unlock()
	for _, g := range h.parked[n:] {
		points = append(points, g.point)
	}
	return points
}

// release lets the parked goroutines selected by pick run; it returns them.
func (h *hookCtl) release(pick func(g *parkedG) bool) (rel []*parkedG) {
	h.mu.Lock()
	keep := h.parked[:0:0]
	for _, g := range h.parked {
		if pick(g) {
			rel = append(rel, g)
		} else {
			keep = append(keep, g)
		}
	}
	h.parked = keep
	h.mu.Unlock()
	for _, g := range rel {
		close(g.ch)
	}
	return rel
}

// quiesce is the only synchronisation with the clean-up goroutines that needs
// no knowledge of the code under test: a clean-up goroutine exists from the
// `go` statement inside the lookup until it returns, so
// NumGoroutine()-baseline is the number of clean-ups not yet finished, and
// when it equals the number of goroutines parked in the hook every spawned
// clean-up has reached the hook and every released one has finished.
type quiesce struct {
	h        *hookCtl
	baseline int
}

func stableGoroutines() int {
	n := runtime.NumGoroutine()
	for i := 0; i < 200; i++ {
		runtime.Gosched()
		m := runtime.NumGoroutine()
		if m == n && i > 3 {
			return n
		}
		n = m
		time.Sleep(100 * time.Microsecond)
	}
	return n
}

func (q *quiesce) alive() int { return runtime.NumGoroutine() - q.baseline }

// settle waits until every live clean-up goroutine is parked.  It is not a
// verdict: a time-out only makes the case inconclusive.
var settleNanos, settleCalls, settleSlow int64

func (q *quiesce) settle() bool {
	start := time.Now()
	defer func() {
		settleNanos += int64(time.Since(start))
		settleCalls++
	}()
	for i := 0; ; i++ {
		a, n := q.alive(), q.h.nParked()
		if a == n {
			return true
		}
		if a < n {
			// impossible (a parked goroutine is alive): the baseline was
			// taken while a transient runtime goroutine existed
			q.baseline -= n - a
			continue
		}
		if i < 50 {
			runtime.Gosched()
		} else {
			time.Sleep(50 * time.Microsecond)
		}
		if i%256 == 255 && time.Since(start) > 30*time.Second {
			return false
		}
	}
}

// ---------------------------------------------------------------------------

func mustAddr(s string) netip.Addr { return netip.MustParseAddr(s) }

func sample(r *vkit.Run, v any) { r.Sample(v) }
