package c14

// Record constructors with every field variant, the reflection-based
// comparison of exported fields, and part 4b (every profile / device field
// combination through store + load).

import (
	"context"
	"fmt"
	"hash/fnv"
	"net/netip"
	"os"
	"path/filepath"
	"reflect"
	"slices"
	"sort"
	"strings"
	"time"

	"github.com/AdguardTeam/AdGuardDNS/internal/access"
	"github.com/AdguardTeam/AdGuardDNS/internal/agd"
	"github.com/AdguardTeam/AdGuardDNS/internal/agdpasswd"
	"github.com/AdguardTeam/AdGuardDNS/internal/agdtime"
	"github.com/AdguardTeam/AdGuardDNS/internal/dnsmsg"
	"github.com/AdguardTeam/AdGuardDNS/internal/filter"
	"github.com/AdguardTeam/AdGuardDNS/internal/geoip"
	"github.com/AdguardTeam/AdGuardDNS/internal/profiledb"
	"github.com/AdguardTeam/AdGuardDNS/verif/vkit"
	"github.com/miekg/dns"
)

func pfx(s string) netip.Prefix { return netip.MustParsePrefix(s) }

// ---- variants ------------------------------------------------------------

const nBlocking = 6

func blockingVariant(i int) dnsmsg.BlockingMode {
	switch i % nBlocking {
	case 0:
		return &dnsmsg.BlockingModeNullIP{}
	case 1:
		return &dnsmsg.BlockingModeNXDOMAIN{}
	case 2:
		return &dnsmsg.BlockingModeREFUSED{}
	case 3:
		return &dnsmsg.BlockingModeCustomIP{IPv4: []netip.Addr{mustAddr("198.51.100.7")}}
	case 4:
		return &dnsmsg.BlockingModeCustomIP{IPv6: []netip.Addr{mustAddr("2001:db8:77::1")}}
	default:
		return &dnsmsg.BlockingModeCustomIP{
			IPv4: []netip.Addr{mustAddr("198.51.100.8"), mustAddr("198.51.100.9")},
			IPv6: []netip.Addr{mustAddr("2001:db8:77::2"), mustAddr("2001:db8:77::3")},
		}
	}
}

const nAccess = 9

func accessVariant(i int) access.Profile {
	switch i % nAccess {
	case 0:
		return access.EmptyProfile{}
	case 1:
		return access.NewDefaultProfile(&access.ProfileConfig{
			AllowedNets: []netip.Prefix{pfx("203.0.113.0/24")},
			BlockedNets: []netip.Prefix{pfx("203.0.0.0/16"), pfx("2001:db8:b::/48")},
		})
	case 2:
		return access.NewDefaultProfile(&access.ProfileConfig{
			AllowedASN: []geoip.ASN{64500},
			BlockedASN: []geoip.ASN{64501, 4200000001},
		})
	case 3:
		return access.NewDefaultProfile(&access.ProfileConfig{
			BlocklistDomainRules: []string{"block.test", "||sub.blocked.example^", "@@||ok.blocked.example^"},
		})
	case 4:
		return access.NewDefaultProfile(&access.ProfileConfig{
			AllowedNets:          []netip.Prefix{pfx("2001:db8:a::/64"), pfx("192.0.2.128/25")},
			BlockedNets:          []netip.Prefix{pfx("192.0.2.0/24"), pfx("0.0.0.0/0")},
			AllowedASN:           []geoip.ASN{1, 2, 3},
			BlockedASN:           []geoip.ASN{4},
			BlocklistDomainRules: []string{"*.wild.test"},
		})
	case 5:
		return access.NewDefaultProfile(&access.ProfileConfig{})
	case 6:
		// differs from 1 in the subnets only
		return access.NewDefaultProfile(&access.ProfileConfig{
			AllowedNets: []netip.Prefix{pfx("203.0.5.0/24")},
			BlockedNets: []netip.Prefix{pfx("198.51.100.0/24"), pfx("2001:db8:b::/48")},
		})
	case 7:
		// differs from 2 in the ASNs only
		return access.NewDefaultProfile(&access.ProfileConfig{
			AllowedASN: []geoip.ASN{64501},
			BlockedASN: []geoip.ASN{64500, 64502},
		})
	default:
		// differs from 3 in the name rules only
		return access.NewDefaultProfile(&access.ProfileConfig{
			BlocklistDomainRules: []string{"block.test", "||other.blocked.example^"},
		})
	}
}

// accessChangeClass names what differs between two access variants.
func accessChangeClass(a, b int) string {
	ca, cb := accessVariant(a).Config(), accessVariant(b).Config()
	if ca == nil {
		ca = &access.ProfileConfig{}
	}
	if cb == nil {
		cb = &access.ProfileConfig{}
	}
	nets := !slices.Equal(ca.AllowedNets, cb.AllowedNets) || !slices.Equal(ca.BlockedNets, cb.BlockedNets)
	asns := !slices.Equal(ca.AllowedASN, cb.AllowedASN) || !slices.Equal(ca.BlockedASN, cb.BlockedASN)
	names := !slices.Equal(ca.BlocklistDomainRules, cb.BlocklistDomainRules)
	switch {
	case nets && !asns && !names:
		return "subnets-only"
	case asns && !nets && !names:
		return "asns-only"
	case names && !nets && !asns:
		return "names-only"
	case !nets && !asns && !names:
		return "none"
	default:
		return "mixed"
	}
}

// accessIdxOf is the access variant of the current version of a world profile.
func accessIdxOf(p *wProf) int {
	if p.AccessSel >= 0 {
		return p.AccessSel % nAccess
	}
	return int(hash32("p", p.ID, p.Ver)>>5) % nAccess
}

// expectedAccess holds, per variant, the configuration and the answers of the
// probes of a freshly built access manager.
type expectedAccessT struct {
	cfg    *access.ProfileConfig
	probes []bool
}

var expectedAccess = func() (out []expectedAccessT) {
	for i := 0; i < nAccess; i++ {
		a := accessVariant(i)
		e := expectedAccessT{cfg: a.Config()}
		for _, pr := range accessProbes {
			e.probes = append(e.probes, probeAccess(a, pr))
		}
		out = append(out, e)
	}
	return out
}()

func probeAccess(a access.Profile, pr accessProbe) bool {
	var loc *geoip.Location
	if pr.asn != 0 {
		loc = &geoip.Location{ASN: pr.asn}
	}
	return a.IsBlocked(probeReq(pr.host), netip.MustParseAddrPort(pr.addr), loc)
}

// accessMismatch compares the access manager of a looked-up profile with the
// settings of the variant that was synchronised for this profile version.
func accessMismatch(got access.Profile, idx int, withProbes bool) (what string) {
	exp := expectedAccess[idx]
	c := &cmpCtx{opaque: map[string]bool{}}
	c.compareValues("Profile.Access.Config()", reflect.ValueOf(exp.cfg), reflect.ValueOf(got.Config()))
	if len(c.diffs) > 0 {
		d := c.diffs[0]
		return fmt.Sprintf("%s: synchronised %s, looked-up profile has %s", d.Path, d.A, d.B)
	}
	if !withProbes {
		return ""
	}
	for i, pr := range accessProbes {
		if g := probeAccess(got, pr); g != exp.probes[i] {
			return fmt.Sprintf("IsBlocked(%s: %s from %s asn %d) = %v, the synchronised settings give %v", pr.name, pr.host, pr.addr, pr.asn, g, exp.probes[i])
		}
	}
	return ""
}

const nRatelimit = 4

func ratelimitVariant(i int) agd.Ratelimiter {
	switch i % nRatelimit {
	case 0:
		return agd.GlobalRatelimiter{}
	case 1:
		return agd.NewDefaultRatelimiter(&agd.RatelimitConfig{RPS: 1, Enabled: true}, respSzEst)
	case 2:
		return agd.NewDefaultRatelimiter(&agd.RatelimitConfig{
			ClientSubnets: []netip.Prefix{pfx("198.18.0.0/15")}, RPS: 100, Enabled: true,
		}, respSzEst)
	default:
		return agd.NewDefaultRatelimiter(&agd.RatelimitConfig{
			ClientSubnets: []netip.Prefix{pfx("198.18.5.0/24"), pfx("2001:db8:c::/56")}, RPS: 5000, Enabled: true,
		}, respSzEst)
	}
}

const nSchedule = 5

func mustLoc(name string) *agdtime.Location {
	l, err := agdtime.LoadLocation(name)
	if err != nil {
		panic(err)
	}
	return l
}

func scheduleVariant(i int) *filter.ConfigSchedule {
	switch i % nSchedule {
	case 0:
		return nil
	case 1:
		return &filter.ConfigSchedule{Week: &filter.WeeklySchedule{}, TimeZone: agdtime.UTC()}
	case 2:
		return &filter.ConfigSchedule{Week: &filter.WeeklySchedule{
			time.Monday: {Start: 0, End: 701}, time.Tuesday: {Start: 10, End: 20}, time.Wednesday: {Start: 0, End: 1},
			time.Thursday: {Start: 600, End: 1439}, time.Friday: {Start: 1439, End: 1440},
		}, TimeZone: mustLoc("Europe/Brussels")}
	case 3:
		return &filter.ConfigSchedule{Week: &filter.WeeklySchedule{
			time.Sunday: {Start: 0, End: 1440}, time.Saturday: {Start: 0, End: 0}, time.Monday: {Start: 5, End: 5},
		}, TimeZone: mustLoc("Asia/Kolkata")}
	default:
		return &filter.ConfigSchedule{Week: &filter.WeeklySchedule{
			{Start: 1, End: 2}, {Start: 3, End: 4}, {Start: 5, End: 6}, {Start: 7, End: 8}, {Start: 9, End: 10}, {Start: 11, End: 12}, {Start: 13, End: 1440},
		}, TimeZone: mustLoc("America/Argentina/Buenos_Aires")}
	}
}

const nCustom = 4

func customVariant(i int, id string) *filter.ConfigCustom {
	switch i % nCustom {
	case 0:
		return &filter.ConfigCustom{ID: id}
	case 1:
		return &filter.ConfigCustom{ID: id, UpdateTime: time.Date(2024, 3, 4, 5, 6, 7, 123456789, time.UTC),
			Rules: []filter.RuleText{"||blocked.example^"}, Enabled: true}
	case 2:
		return &filter.ConfigCustom{ID: id + "-x", UpdateTime: time.Date(2031, 12, 31, 23, 59, 59, 1, time.FixedZone("x", 5*3600+1800)),
			Rules: []filter.RuleText{"a.example", "@@b.example", "||c.example^$dnsrewrite=1.2.3.4", "# comment"}, Enabled: false}
	default:
		return &filter.ConfigCustom{ID: "", UpdateTime: time.Unix(1, 0), Rules: []filter.RuleText{"x"}, Enabled: true}
	}
}

const nTTL = 4

func ttlVariant(i int) time.Duration {
	return []time.Duration{0, 10 * time.Second, 1500 * time.Millisecond, 86400*time.Second + 7}[i%nTTL]
}

// fixed bcrypt hashes (cost 4) of probePasswords[0] and [1]: the child
// process of part 5 must build byte-identical records.
var pwHashes = [][]byte{
	[]byte("$2a$04$X.G2b3Ac0F8z06ngDs/lr.KcerLR3tsSQ1ECVNnlGoTkR51tVB02y"),
	[]byte("$2a$04$5ct3pU2GbGmqnTTutOp0..xllPJDMrgI6yiKe0Whw/MBHTbepJpNa"),
}

func pwHash(i int) []byte { return pwHashes[i%len(pwHashes)] }

var probePasswords = []string{"secret-one", "другой пароль", "wrong"}

const nAuth = 7

// authVariant: 0..3 are used by the histories; 4..6 only by the field check.
func authVariant(i int) *agd.AuthSettings {
	switch i % nAuth {
	case 0:
		return &agd.AuthSettings{Enabled: false, PasswordHash: agdpasswd.AllowAuthenticator{}}
	case 1:
		return &agd.AuthSettings{Enabled: true, DoHAuthOnly: false, PasswordHash: agdpasswd.NewPasswordHashBcrypt(pwHash(0))}
	case 2:
		return &agd.AuthSettings{Enabled: true, DoHAuthOnly: true, PasswordHash: agdpasswd.NewPasswordHashBcrypt(pwHash(1))}
	case 3:
		// disabled, sub-flags set: behaviourally the same as variant 0
		return &agd.AuthSettings{Enabled: false, DoHAuthOnly: true, PasswordHash: agdpasswd.NewPasswordHashBcrypt(pwHash(0))}
	case 4:
		// what backendpb produces for authentication settings without a
		// DoH password hash
		return &agd.AuthSettings{Enabled: true, DoHAuthOnly: true, PasswordHash: agdpasswd.AllowAuthenticator{}}
	case 5:
		return &agd.AuthSettings{Enabled: true, DoHAuthOnly: false, PasswordHash: agdpasswd.AllowAuthenticator{}}
	default:
		return &agd.AuthSettings{Enabled: true, DoHAuthOnly: true, PasswordHash: agdpasswd.NewPasswordHashBcrypt(pwHash(0))}
	}
}

const nName = 4

func nameVariant(i int, id string) agd.DeviceName {
	switch i % nName {
	case 0:
		return ""
	case 1:
		return agd.DeviceName("My iPhone " + id)
	case 2:
		return agd.DeviceName("Телефон 手机 📱 " + id)
	default:
		return agd.DeviceName(strings.Repeat("ñ", 120) + id)
	}
}

// profSpec selects one value per field.
type profSpec struct {
	ID        agd.ProfileID
	DeviceIDs []agd.DeviceID
	TTL       time.Duration
	Blocking  int
	Access    int
	Ratelimit int
	Schedule  int
	Custom    int
	Services  int
	RuleLists int
	// Bits: 0 auto, 1 chrome, 2 firefox, 3 relay, 4 deleted, 5 filtering, 6 iplog, 7 querylog,
	// 8 parental.enabled, 9 adult, 10 ssgeneral, 11 ssyoutube, 12 rulelist.enabled,
	// 13 sb.enabled, 14 sb.dangerous, 15 sb.newly
	Bits uint32
}

func bit(b uint32, i uint) bool { return b>>i&1 == 1 }

func buildProfile(s profSpec) *agd.Profile {
	var services []filter.BlockedServiceID
	switch s.Services % 3 {
	case 1:
		services = []filter.BlockedServiceID{"youtube"}
	case 2:
		services = []filter.BlockedServiceID{"tiktok", "9gag", "some_long_service_identifier"}
	}
	var lists []filter.ID
	switch s.RuleLists % 3 {
	case 1:
		lists = []filter.ID{filter.IDAdGuardDNS}
	case 2:
		lists = []filter.ID{"adguard_dns_filter", "1hosts_lite", "oisd_big"}
	}
	return &agd.Profile{
		FilterConfig: &filter.ConfigClient{
			Custom: customVariant(s.Custom, string(s.ID)),
			Parental: &filter.ConfigParental{
				PauseSchedule:            scheduleVariant(s.Schedule),
				BlockedServices:          services,
				Enabled:                  bit(s.Bits, 8),
				AdultBlockingEnabled:     bit(s.Bits, 9),
				SafeSearchGeneralEnabled: bit(s.Bits, 10),
				SafeSearchYouTubeEnabled: bit(s.Bits, 11),
			},
			RuleList: &filter.ConfigRuleList{IDs: lists, Enabled: bit(s.Bits, 12)},
			SafeBrowsing: &filter.ConfigSafeBrowsing{
				Enabled:                       bit(s.Bits, 13),
				DangerousDomainsEnabled:       bit(s.Bits, 14),
				NewlyRegisteredDomainsEnabled: bit(s.Bits, 15),
			},
		},
		Access:              accessVariant(s.Access),
		BlockingMode:        blockingVariant(s.Blocking),
		Ratelimiter:         ratelimitVariant(s.Ratelimit),
		ID:                  s.ID,
		DeviceIDs:           s.DeviceIDs,
		FilteredResponseTTL: s.TTL,
		AutoDevicesEnabled:  bit(s.Bits, 0),
		BlockChromePrefetch: bit(s.Bits, 1),
		BlockFirefoxCanary:  bit(s.Bits, 2),
		BlockPrivateRelay:   bit(s.Bits, 3),
		Deleted:             bit(s.Bits, 4),
		FilteringEnabled:    bit(s.Bits, 5),
		IPLogEnabled:        bit(s.Bits, 6),
		QueryLogEnabled:     bit(s.Bits, 7),
	}
}

func hash32(parts ...any) uint32 {
	h := fnv.New32a()
	fmt.Fprint(h, parts...)
	return h.Sum32()
}

// mkProfile builds the record of a world profile: settings vary with
// (id, version); the version is readable from FilteredResponseTTL.
func mkProfile(p *wProf) *agd.Profile {
	h := hash32("p", p.ID, p.Ver)
	bits := h &^ (1 | 1<<4)
	if p.Auto {
		bits |= 1
	}
	if p.Deleted {
		bits |= 1 << 4
	}
	sched := int(h >> 9)
	if p.SchedSel > 0 {
		sched = p.SchedSel - 1
	}
	return buildProfile(profSpec{
		ID: p.ID, DeviceIDs: append([]agd.DeviceID(nil), p.Devs...),
		TTL:      time.Duration(p.Ver) * time.Second,
		Blocking: int(h >> 3), Access: accessIdxOf(p), Ratelimit: int(h >> 7), Schedule: sched,
		Custom: int(h >> 11), Services: int(h >> 13), RuleLists: int(h >> 15), Bits: bits,
	})
}

func mkDevice(d *wDev) *agd.Device {
	h := hash32("d", d.ID, d.Ver)
	return &agd.Device{
		Auth:             authVariant(int(h>>3) % 4),
		ID:               d.ID,
		LinkedIP:         d.Linked,
		Name:             agd.DeviceName(fmt.Sprintf("%s-v%d", d.ID, d.Ver)),
		HumanIDLower:     d.Hid,
		DedicatedIPs:     append([]netip.Addr(nil), d.Ded...),
		FilteringEnabled: h>>9&1 == 1,
	}
}

// ---- comparison of exported fields ----------------------------------------

type diff struct {
	Path string `json:"path"`
	A    string `json:"first"`
	B    string `json:"second"`
}

type cmpCtx struct {
	diffs  []diff
	opaque map[string]bool
}

func (c *cmpCtx) add(path string, a, b any) {
	c.diffs = append(c.diffs, diff{Path: path, A: trunc(fmt.Sprintf("%+v", a)), B: trunc(fmt.Sprintf("%+v", b))})
}

func trunc(s string) string {
	if len(s) > 200 {
		return s[:200] + "…"
	}
	return s
}

var (
	typTime     = reflect.TypeOf(time.Time{})
	typLocation = reflect.TypeOf(agdtime.Location{})
	typAuth     = reflect.TypeOf(agd.AuthSettings{})
)

// compareValues walks the exported fields of a and b.  Interface values are
// compared by dynamic type, by the results of their exported accessor methods
// without arguments (Config, PasswordHash) and by their exported fields.
// nil and empty slices are the same.
func (c *cmpCtx) compareValues(path string, a, b reflect.Value) {
	if a.IsValid() != b.IsValid() {
		c.add(path, a, b)
		return
	}
	if !a.IsValid() {
		return
	}
	if a.Type() != b.Type() {
		c.add(path+"(type)", a.Type().String(), b.Type().String())
		return
	}
	t := a.Type()
	switch {
	case t == typTime:
		ta, tb := a.Interface().(time.Time), b.Interface().(time.Time)
		if !ta.Equal(tb) {
			c.add(path, ta, tb)
		}
		return
	case t == typLocation:
		la, lb := a.Interface().(agdtime.Location), b.Interface().(agdtime.Location)
		if la.String() != lb.String() {
			c.add(path, la.String(), lb.String())
		}
		return
	case t.PkgPath() == "net/netip":
		if a.Interface() != b.Interface() {
			c.add(path, a.Interface(), b.Interface())
		}
		return
	case t == typAuth:
		aa, ab := a.Interface().(agd.AuthSettings), b.Interface().(agd.AuthSettings)
		if aa.Enabled != ab.Enabled {
			c.add(path+".Enabled", aa.Enabled, ab.Enabled)
			return
		}
		if !aa.Enabled {
			// sub-flags of disabled authentication are never read
			return
		}
	}
	switch a.Kind() {
	case reflect.Ptr:
		if a.IsNil() != b.IsNil() {
			c.add(path, nilStr(a), nilStr(b))
			return
		}
		if a.IsNil() {
			return
		}
		c.accessors(path, a, b)
		c.compareValues(path, a.Elem(), b.Elem())
	case reflect.Interface:
		if a.IsNil() != b.IsNil() {
			c.add(path, nilStr(a), nilStr(b))
			return
		}
		if a.IsNil() {
			return
		}
		ea, eb := a.Elem(), b.Elem()
		if ea.Type() != eb.Type() {
			c.add(path+"(type)", ea.Type().String(), eb.Type().String())
			return
		}
		if ea.Kind() != reflect.Ptr {
			c.accessors(path, ea, eb)
		}
		c.compareValues(path, ea, eb)
	case reflect.Struct:
		exported := 0
		for i := 0; i < t.NumField(); i++ {
			f := t.Field(i)
			if !f.IsExported() {
				continue
			}
			exported++
			c.compareValues(path+"."+f.Name, a.Field(i), b.Field(i))
		}
		if exported == 0 && t.NumField() > 0 {
			c.opaque[t.String()] = true
		}
	case reflect.Slice:
		if a.Len() != b.Len() {
			c.add(path+"(len)", a.Len(), b.Len())
			return
		}
		for i := 0; i < a.Len(); i++ {
			c.compareValues(fmt.Sprintf("%s[%d]", path, i), a.Index(i), b.Index(i))
		}
	case reflect.Array:
		for i := 0; i < a.Len(); i++ {
			c.compareValues(fmt.Sprintf("%s[%d]", path, i), a.Index(i), b.Index(i))
		}
	case reflect.Map:
		if a.Len() != b.Len() {
			c.add(path+"(len)", a.Len(), b.Len())
			return
		}
		for _, k := range a.MapKeys() {
			c.compareValues(fmt.Sprintf("%s[%v]", path, k), a.MapIndex(k), b.MapIndex(k))
		}
	default:
		if a.CanInterface() && a.Interface() != b.Interface() {
			c.add(path, a.Interface(), b.Interface())
		}
	}
}

func reflectOf(v any) reflect.Value { return reflect.ValueOf(v) }

func nilStr(v reflect.Value) string {
	if v.IsNil() {
		return "nil"
	}
	return "non-nil " + v.Type().String()
}

// accessors compares the results of exported zero-argument, single-result
// getter methods (Config(), PasswordHash()).
func (c *cmpCtx) accessors(path string, a, b reflect.Value) {
	for _, name := range []string{"Config", "PasswordHash"} {
		ma, mb := a.MethodByName(name), b.MethodByName(name)
		if !ma.IsValid() || !mb.IsValid() || ma.Type().NumIn() != 0 || ma.Type().NumOut() != 1 {
			continue
		}
		ra, rb := ma.Call(nil)[0], mb.Call(nil)[0]
		c.compareValues(path+"."+name+"()", ra, rb)
	}
}

// fieldKey turns a diff path into a stable per-field key: indexes removed.
func fieldKey(path string) string {
	b := &strings.Builder{}
	depth := 0
	for _, r := range path {
		switch {
		case r == '[':
			depth++
		case r == ']':
			depth--
		case depth == 0:
			b.WriteRune(r)
		}
	}
	return b.String()
}

// ---- behavioural probes of the interface-typed settings --------------------

func probeReq(name string) *dns.Msg {
	m := &dns.Msg{}
	m.SetQuestion(dns.Fqdn(name), dns.TypeA)
	return m
}

type accessProbe struct {
	name string
	host string
	addr string
	asn  geoip.ASN
}

var accessProbes = []accessProbe{
	{"plain", "example.org", "198.51.100.1:5353", 0},
	{"blocked-net", "example.org", "203.0.5.5:1", 0},
	{"allowed-net-in-blocked", "example.org", "203.0.113.9:1", 0},
	{"blocked-net6", "example.org", "[2001:db8:b::5]:1", 0},
	{"blocked-asn", "example.org", "198.51.100.1:1", 64501},
	{"blocked-asn-big", "example.org", "198.51.100.1:1", 4200000001},
	{"allowed-asn", "example.org", "192.0.2.1:1", 2},
	{"asn4", "example.org", "198.51.100.1:1", 4},
	{"rule-host", "block.test", "198.51.100.1:1", 0},
	{"rule-sub", "x.sub.blocked.example", "198.51.100.1:1", 0},
	{"rule-wild", "a.wild.test", "198.51.100.1:1", 0},
	{"net-192", "example.org", "192.0.2.5:1", 0},
	{"net-192-allowed", "example.org", "192.0.2.200:1", 0},
	{"allowed-v6", "example.org", "[2001:db8:a::1]:1", 0},
	{"asn-64500", "example.org", "192.0.2.1:1", 64500},
	{"asn-64502", "example.org", "192.0.2.1:1", 64502},
	{"net-203-0-5-plain", "example.org", "203.0.5.77:1", 0},
	{"rule-other", "x.other.blocked.example", "198.51.100.1:1", 0},
}

func behaviour(p *agd.Profile, d *agd.Device) (out map[string]string) {
	out = map[string]string{}
	guard := func(k string, f func() string) {
		defer func() {
			if pv := recover(); pv != nil {
				out[k] = fmt.Sprintf("PANIC: %v", pv)
			}
		}()
		out[k] = f()
	}
	for _, pr := range accessProbes {
		guard("Profile.Access.IsBlocked("+pr.name+")", func() string {
			var loc *geoip.Location
			if pr.asn != 0 {
				loc = &geoip.Location{ASN: pr.asn}
			}
			return fmt.Sprint(p.Access.IsBlocked(probeReq(pr.host), netip.MustParseAddrPort(pr.addr), loc))
		})
	}
	// only clients outside the configured subnets: no counter is touched
	for _, ip := range []string{"192.0.2.77", "2001:db8:ffff::1"} {
		guard("Profile.Ratelimiter.Check(outside "+ip+")", func() string {
			cfg := p.Ratelimiter.Config()
			if cfg != nil && cfg.Enabled && len(cfg.ClientSubnets) == 0 {
				return "skipped"
			}
			return fmt.Sprint(p.Ratelimiter.Check(context.Background(), probeReq("example.org"), mustAddr(ip)))
		})
	}
	if d.Auth != nil && d.Auth.Enabled {
		for _, pw := range probePasswords {
			guard("Device.Auth.PasswordHash.Authenticate("+pw+")", func() string {
				return fmt.Sprint(d.Auth.PasswordHash.Authenticate(context.Background(), []byte(pw)))
			})
		}
	}
	if s := p.FilterConfig.Parental.PauseSchedule; s != nil {
		for _, ts := range []time.Time{
			time.Date(2024, 1, 1, 0, 30, 0, 0, time.UTC), time.Date(2024, 1, 3, 12, 0, 0, 0, time.UTC),
			time.Date(2024, 1, 6, 23, 59, 0, 0, time.UTC), time.Date(2024, 1, 7, 18, 40, 0, 0, time.UTC),
		} {
			guard("Profile.FilterConfig.Parental.PauseSchedule.Contains("+ts.Format(time.RFC3339)+")", func() string {
				return fmt.Sprint(s.Contains(ts))
			})
		}
	}
	return out
}

// compareRecords reports every difference between two (profile, device)
// pairs under key prefix (one key per field).
func compareRecords(r *vkit.Run, prefix string, witness map[string]any, p1 *agd.Profile, d1 *agd.Device, p2 *agd.Profile, d2 *agd.Device, withBehaviour bool) (ndiff int) {
	c := &cmpCtx{opaque: map[string]bool{}}
	c.compareValues("Profile", reflect.ValueOf(p1), reflect.ValueOf(p2))
	c.compareValues("Device", reflect.ValueOf(d1), reflect.ValueOf(d2))
	for _, d := range c.diffs {
		w := map[string]any{"field": d.Path, "before_store": d.A, "after_load": d.B}
		for k, v := range witness {
			w[k] = v
		}
		r.Violation(prefix+fieldKey(d.Path), fmt.Sprintf("%s differs after the database was restarted from its cache file: %s before the store, %s after the load", fieldKey(d.Path), d.A, d.B), w)
	}
	ndiff = len(c.diffs)
	for t := range c.opaque {
		r.Bucket("opaque_type:"+t, 1)
	}
	if withBehaviour && p1 != nil && p2 != nil && d1 != nil && d2 != nil {
		b1, b2 := behaviour(p1, d1), behaviour(p2, d2)
		keys := make([]string, 0, len(b1))
		for k := range b1 {
			keys = append(keys, k)
		}
		sort.Strings(keys)
		for _, k := range keys {
			r.Bucket("behaviour_probes", 1)
			if b1[k] != b2[k] {
				ndiff++
				w := map[string]any{"probe": k, "before_store": b1[k], "after_load": b2[k]}
				for kk, v := range witness {
					w[kk] = v
				}
				name := k[:strings.IndexByte(k, '(')]
				field := name[:strings.LastIndexByte(name, '.')]
				r.Violation(prefix+field, fmt.Sprintf("%s behaves differently after the database was restarted from its cache file: %s gave %s before the store and %s after the load", field, k, b1[k], b2[k]), w)
			}
		}
	}
	return ndiff
}

// ---- part 4b: every field combination through store/load -------------------

type devSpec struct {
	ID     agd.DeviceID
	Auth   int
	Name   int
	Linked int
	Ded    int
	Hid    bool
	Filt   bool
}

func fieldFidelity(r *vkit.Run, dir string) {
	batches := r.N(8, 60)
	perBatch := 12
	seenVariant := map[string]bool{}
	for b := 0; b < batches; b++ {
		rng := r.Rand("fields", b)
		var profs []*agd.Profile
		var devs []*agd.Device
		type item struct {
			ps  profSpec
			ds  devSpec
			cls string
		}
		var items []item
		for i := 0; i < perBatch; i++ {
			n := b*perBatch + i
			// Every variant index of every field is hit by the strides
			// within the first few profiles; the rest is seeded.
			ps := profSpec{
				ID:       agd.ProfileID(fmt.Sprintf("q%d", n)),
				TTL:      ttlVariant(n),
				Blocking: n, Access: n, Ratelimit: n / 3, Schedule: n + n/5, Custom: n + n/4,
				Services: n, RuleLists: n / 2,
				Bits: uint32(1)<<(uint(n)%16) | rng.Uint32()&0xffff,
			}
			if n%5 == 0 {
				ps.Bits = ^ps.Bits & 0xffff
			}
			if n%16 == 4 {
				ps.Bits |= 1 << 4
			} else if n%3 != 0 {
				ps.Bits &^= 1 << 4
			}
			if b > 0 {
				ps.Blocking, ps.Access, ps.Ratelimit = rng.IntN(nBlocking), rng.IntN(nAccess), rng.IntN(nRatelimit)
				ps.Schedule, ps.Custom = rng.IntN(nSchedule), rng.IntN(nCustom)
			}
			nd := 1 + n%3
			for j := 0; j < nd; j++ {
				m := n*3 + j
				ds := devSpec{
					ID:   agd.DeviceID(fmt.Sprintf("e%d", m)),
					Auth: m, Name: m / 2, Linked: m % 6, Ded: (m / 3) % 7, Hid: m%4 == 1, Filt: m%2 == 0,
				}
				if b > 0 {
					ds.Auth, ds.Name = rng.IntN(nAuth), rng.IntN(nName)
				}
				d := &agd.Device{
					Auth: authVariant(ds.Auth), ID: ds.ID, Name: nameVariant(ds.Name, string(ds.ID)), FilteringEnabled: ds.Filt,
				}
				switch ds.Linked {
				case 1:
					d.LinkedIP = netip.AddrFrom4([4]byte{10, 1, byte(m >> 8), byte(m)})
				case 2:
					d.LinkedIP = netip.AddrFrom16([16]byte{0x20, 1, 0xd, 0xb8, 1, 0, 0, 0, 0, 0, 0, 0, 0, 0, byte(m >> 8), byte(m)})
				case 3:
					// IPv4-mapped IPv6 form, as a backend sending 16 bytes produces
					d.LinkedIP = netip.AddrFrom16([16]byte{0, 0, 0, 0, 0, 0, 0, 0, 0, 0, 0xff, 0xff, 10, 4, byte(m >> 8), byte(m)})
				case 4:
					// link-local without zone
					d.LinkedIP = netip.AddrFrom16([16]byte{0xfe, 0x80, 0, 0, 0, 0, 0, 0, 0, 0, 0, 0, 0, 1, byte(m >> 8), byte(m)})
				case 5:
					// IPv4-compatible form ::a.b.c.d
					d.LinkedIP = netip.AddrFrom16([16]byte{0, 0, 0, 0, 0, 0, 0, 0, 0, 0, 0, 0, 10, 5, byte(m >> 8), byte(m)})
				}
				switch ds.Ded {
				case 1:
					d.DedicatedIPs = []netip.Addr{netip.AddrFrom4([4]byte{10, 2, byte(m >> 8), byte(m)})}
				case 2:
					d.DedicatedIPs = []netip.Addr{
						netip.AddrFrom4([4]byte{10, 3, byte(m >> 8), byte(m)}),
						netip.AddrFrom16([16]byte{0x20, 1, 0xd, 0xb8, 2, 0, 0, 0, 0, 0, 0, 0, 0, 0, byte(m >> 8), byte(m)}),
					}
				case 3:
					d.DedicatedIPs = []netip.Addr{}
				case 4:
					d.DedicatedIPs = []netip.Addr{netip.AddrFrom16([16]byte{0, 0, 0, 0, 0, 0, 0, 0, 0, 0, 0xff, 0xff, 10, 6, byte(m >> 8), byte(m)})}
				case 5:
					d.DedicatedIPs = []netip.Addr{
						netip.AddrFrom16([16]byte{0xfe, 0x80, 0, 0, 0, 0, 0, 0, 0, 0, 0, 0, 0, 2, byte(m >> 8), byte(m)}),
						netip.AddrFrom16([16]byte{0, 0, 0, 0, 0, 0, 0, 0, 0, 0, 0, 0, 10, 7, byte(m >> 8), byte(m)}),
					}
				case 6:
					// the mapped and the plain form of one address
					d.DedicatedIPs = []netip.Addr{
						netip.AddrFrom16([16]byte{0, 0, 0, 0, 0, 0, 0, 0, 0, 0, 0xff, 0xff, 10, 8, byte(m >> 8), byte(m)}),
						netip.AddrFrom4([4]byte{10, 8, byte(m >> 8), byte(m)}),
					}
				}
				if ds.Hid {
					d.HumanIDLower = agd.HumanIDLower(fmt.Sprintf("auto-dev--%d", m))
				}
				ps.DeviceIDs = append(ps.DeviceIDs, ds.ID)
				devs = append(devs, d)
				cls := fmt.Sprintf("bm%d/ac%d/rl%d/sc%d/cu%d/sv%d/li%d/ttl%d/bits%04x|au%d/nm%d/li%d/de%d/h%v/f%v",
					ps.Blocking%nBlocking, ps.Access%nAccess, ps.Ratelimit%nRatelimit, ps.Schedule%nSchedule, ps.Custom%nCustom,
					ps.Services%3, ps.RuleLists%3, n%nTTL, ps.Bits&0xffff, ds.Auth%nAuth, ds.Name%nName, ds.Linked, ds.Ded, ds.Hid, ds.Filt)
				items = append(items, item{ps: ps, ds: ds, cls: cls})
				for _, v := range []string{
					fmt.Sprintf("blocking:%d", ps.Blocking%nBlocking), fmt.Sprintf("access:%d", ps.Access%nAccess),
					fmt.Sprintf("ratelimit:%d", ps.Ratelimit%nRatelimit), fmt.Sprintf("schedule:%d", ps.Schedule%nSchedule),
					fmt.Sprintf("custom:%d", ps.Custom%nCustom), fmt.Sprintf("auth:%d", ds.Auth%nAuth), fmt.Sprintf("name:%d", ds.Name%nName),
					fmt.Sprintf("linked:%d", ds.Linked), fmt.Sprintf("dedicated:%d", ds.Ded), fmt.Sprintf("deleted:%v", bit(ps.Bits, 4)),
				} {
					seenVariant[v] = true
				}
			}
			profs = append(profs, buildProfile(ps))
		}
		cache := filepath.Join(dir, fmt.Sprintf("fields-%d.pb", b))
		_ = os.Remove(cache)
		resp := &profiledb.StorageProfilesResponse{SyncTime: encodeToken(basePast, b+1), Profiles: profs, Devices: devs}
		st := &fixedStorage{resp: resp}
		db1, err := newDB(st, cache, 0)
		if err != nil {
			r.Inconclusive("profiledb.New: " + err.Error())
			return
		}
		func() {
			defer func() {
				if p := recover(); p != nil {
					r.Violation("restart:panic-in-store", fmt.Sprintf("storing a legal profile set panicked: %v", p), map[string]any{"batch": b})
				}
			}()
			if err = db1.Refresh(context.Background()); err != nil {
				r.Violation("refresh:error", "full synchronisation failed: "+err.Error(), map[string]any{"batch": b})
			}
		}()
		fs := &failingStorage{}
		db2, err := newDB(fs, cache, 0)
		if err != nil {
			r.Inconclusive("profiledb.New (restart): " + err.Error())
			return
		}
		if err = db2.Refresh(context.Background()); err == nil || fs.calls == 0 {
			r.Inconclusive("the failing storage of the restarted database was not used")
		}
		for _, it := range items {
			k := lkey{K: kDev, Dev: it.ds.ID}
			p1, d1, err1 := doLookup(db1, k)
			p2, d2, err2 := doLookup(db2, k)
			w := map[string]any{"batch": b, "profile_spec": it.ps, "device_spec": it.ds, "class": it.cls}
			if (err1 == nil) != (err2 == nil) {
				r.Violation("restart:lookup:device-id:found-mismatch", "a device found before the restart is not found after it (or vice versa)",
					map[string]any{"case": w, "before": fmt.Sprint(err1), "after": fmt.Sprint(err2)})
				continue
			}
			if err1 != nil {
				r.Violation("lookup:device-id:missing", "device of a full synchronisation is not found: "+err1.Error(), w)
				continue
			}
			// lookups by the device's addresses, in the stored form and in the
			// other form of IPv4 / IPv4-mapped addresses
			ipKeys := []lkey{}
			addForms := func(kd kind, ip netip.Addr) {
				if !ip.IsValid() {
					return
				}
				ipKeys = append(ipKeys, lkey{K: kd, IP: ip})
				if ip.Is4In6() {
					ipKeys = append(ipKeys, lkey{K: kd, IP: ip.Unmap()})
				} else if ip.Is4() {
					ipKeys = append(ipKeys, lkey{K: kd, IP: netip.AddrFrom16(ip.As16())})
				}
			}
			addForms(kLinked, d1.LinkedIP)
			for _, ip := range d1.DedicatedIPs {
				addForms(kDed, ip)
			}
			for _, ik := range ipKeys {
				ap, ad, ae := doLookup(db1, ik)
				bp, bd, be := doLookup(db2, ik)
				a1, a2 := normalise(ap, ad, ae), normalise(bp, bd, be)
				r.Bucket("restart_ip_form_lookups", 1)
				if a1.short() != a2.short() {
					r.Violation("restart:lookup:"+kindName[ik.K]+":found-mismatch",
						fmt.Sprintf("lookup %s answered %s when the cache was written and %s after the restart", ik, a1.short(), a2.short()),
						map[string]any{"case": w, "key": ik.String(), "before": a1, "after": a2})
				}
			}
			nd := compareRecords(r, "restart:field:", w, p1, d1, p2, d2, b < 2)
			r.Bucket("restart_field_cases", 1)
			if nd == 0 {
				r.Bucket("restart_field_cases_equal", 1)
			}
			r.Eval("fields/"+it.cls, true)
			if b == 0 && len(it.ps.DeviceIDs) == 2 && it.ds.Linked == 1 {
				r.Sample(map[string]any{"part": "field-fidelity", "profile_spec": it.ps, "device_spec": it.ds})
			}
		}
	}
	r.Bucket("field_variants_seen", int64(len(seenVariant)))
}

type fixedStorage struct {
	resp *profiledb.StorageProfilesResponse
}

func (f *fixedStorage) CreateAutoDevice(context.Context, *profiledb.StorageCreateAutoDeviceRequest) (*profiledb.StorageCreateAutoDeviceResponse, error) {
	return nil, errStorage
}

func (f *fixedStorage) Profiles(context.Context, *profiledb.StorageProfilesRequest) (*profiledb.StorageProfilesResponse, error) {
	return f.resp, nil
}
