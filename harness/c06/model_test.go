package c06

import (
	"context"
	"encoding/hex"
	"errors"
	"fmt"
	"net"
	"strings"
	"sync"
	"sync/atomic"
	"time"

	"github.com/AdguardTeam/AdGuardDNS/internal/dnsserver"
	"github.com/miekg/dns"
)

// ---------------------------------------------------------------------------
// Alphabets.
//
// Everything the harness sends that is NOT the message under judgement (warm-up
// traffic, sentinels, other clients of an overlap burst are judged on their
// own) is recognisable: every label, every TXT string and every owner name of
// "other traffic" is written in the letters w, x, y, z only.  Messages under
// judgement never contain these letters.  A run of four such bytes in a
// response to a probe can therefore only have come from somebody else's
// message.
// ---------------------------------------------------------------------------

const staleRun = 4

func isWarmByte(c byte) (ok bool) {
	return (c >= 'w' && c <= 'z') || (c >= 'W' && c <= 'Z')
}

// findStale returns the first run of at least staleRun warm-alphabet bytes in
// b, as hex with a little context, or "".
func findStale(b []byte) (snippet string) {
	run := 0
	for i, c := range b {
		if !isWarmByte(c) {
			run = 0

			continue
		}

		run++
		if run >= staleRun {
			lo := max(i-run+1-4, 0)
			hi := min(i+24, len(b))

			return fmt.Sprintf("offset %d: %q", i-run+1, b[lo:hi])
		}
	}

	return ""
}

// warmLabel renders n as a label of the given length over the warm alphabet.
func warmLabel(n uint32, length int) (l []byte) {
	l = make([]byte, length)
	for i := range l {
		l[i] = "wxyz"[n&3]
		n = n>>2 | n<<30
	}

	return l
}

// idOK reports whether neither byte of id is in the warm alphabet, so that an
// ID of a judged message can never look like part of a stale run.
func idOK(id uint16) (ok bool) {
	return !isWarmByte(byte(id>>8)) && !isWarmByte(byte(id)) && id != 0
}

// idAlloc hands out IDs for judged messages.
type idAlloc struct{ next atomic.Uint32 }

func (a *idAlloc) get() (id uint16) {
	for {
		id = uint16(a.next.Add(1) + 0x0100)
		if idOK(id) {
			return id
		}
	}
}

// ---------------------------------------------------------------------------
// The handler: it reveals how the server decoded the request.
// ---------------------------------------------------------------------------

// slowLabel makes the handler block briefly, so that more request buffers are
// in flight at once.
const slowLabel = "slow"

var handlerCalls atomic.Int64

// holdLabel makes the handler block for longer, so that the buffers of a whole
// burst are in flight at once; blockLabel makes it block until the harness
// opens the gate (it occupies a pipeline slot of its connection meanwhile).
const (
	holdLabel  = "hold"
	blockLabel = "block"
)

// gate blocks handlers of blockLabel names until it is opened.
type gate struct {
	mu sync.Mutex
	ch chan struct{}
}

func (g *gate) wait() {
	g.mu.Lock()
	ch := g.ch
	g.mu.Unlock()
	if ch != nil {
		<-ch
	}
}

// arm closes the gate; the returned function opens it again.
func (g *gate) arm() (open func()) {
	ch := make(chan struct{})
	g.mu.Lock()
	g.ch = ch
	g.mu.Unlock()

	return sync.OnceFunc(func() { close(ch) })
}

var blockGate = &gate{}

// seenNames records the names of a chosen prefix that reached the handler.
type seenNames struct {
	mu     sync.Mutex
	names  map[string]int
	prefix string
}

func (s *seenNames) note(name string) {
	s.mu.Lock()
	if s.prefix != "" && strings.HasPrefix(strings.ToLower(name), s.prefix) {
		s.names[strings.ToLower(name)]++
	}
	s.mu.Unlock()
}

func (s *seenNames) watch(prefix string) {
	s.mu.Lock()
	s.prefix, s.names = prefix, map[string]int{}
	s.mu.Unlock()
}

func (s *seenNames) count(name string) (n int) {
	s.mu.Lock()
	defer s.mu.Unlock()

	return s.names[strings.ToLower(name)]
}

var handlerSeen = &seenNames{names: map[string]int{}}

// optSummary renders what was decoded of the request's OPT record.
func optSummary(req *dns.Msg) (s string) {
	opt := req.IsEdns0()
	if opt == nil {
		return "opt:none"
	}

	s = fmt.Sprintf("opt:size=%d,do=%t,ver=%d,ttl=%08x", opt.UDPSize(), opt.Do(), opt.Version(), opt.Hdr.Ttl)
	for _, o := range opt.Option {
		text := strings.ReplaceAll(o.String(), " ", "")
		s += fmt.Sprintf(",%d:%d:%.24s", o.Option(), len(text), text)
	}

	if len(s) > 200 {
		s = s[:200]
	}

	return s
}

// reflectServe answers with the question echoed, one A record owned by the
// question name, and every record the request carried (answer, authority and
// non-OPT additional) copied into the additional section.  The response is a
// pure function of the decoded request, so it shows what the server decoded.
func reflectServe(ctx context.Context, rw dnsserver.ResponseWriter, req *dns.Msg) (err error) {
	if len(req.Question) != 1 {
		return fmt.Errorf("c06: handler called with %d questions", len(req.Question))
	}

	q := req.Question[0]

	resp := (&dns.Msg{}).SetReply(req)
	resp.RecursionAvailable = true
	resp.Answer = append(resp.Answer, &dns.A{
		Hdr: dns.RR_Header{Name: q.Name, Rrtype: dns.TypeA, Class: dns.ClassINET, Ttl: 60},
		A:   net.IPv4(192, 0, 2, 53).To4(),
	})

	for _, sec := range [][]dns.RR{req.Answer, req.Ns, req.Extra} {
		for _, rr := range sec {
			if rr.Header().Rrtype == dns.TypeOPT {
				continue
			}

			resp.Extra = append(resp.Extra, dns.Copy(rr))
		}
	}

	// The OPT record is rewritten by the servers on the way out, so what the
	// server decoded of it is shown in a record of its own.
	resp.Extra = append(resp.Extra, &dns.TXT{
		Hdr: dns.RR_Header{Name: "opt.reflected.", Rrtype: dns.TypeTXT, Class: dns.ClassINET, Ttl: 60},
		Txt: []string{optSummary(req)},
	})

	// A write error (client gone) is not the handler's business.
	_ = rw.WriteMsg(ctx, req, resp)

	return nil
}

func serverHandler() dnsserver.Handler {
	return dnsserver.HandlerFunc(func(ctx context.Context, rw dnsserver.ResponseWriter, req *dns.Msg) error {
		handlerCalls.Add(1)

		// The delays are the server-side handler's only; the reference calls
		// reflectServe directly.
		if len(req.Question) == 1 {
			name := req.Question[0].Name
			switch lower := strings.ToLower(name); {
			case strings.HasPrefix(lower, blockLabel):
				// Keep the slot of this request busy until the harness lets
				// go.
				blockGate.wait()
			case strings.HasPrefix(lower, holdLabel):
				time.Sleep(20 * time.Millisecond)
			case strings.HasPrefix(lower, slowLabel):
				time.Sleep(2 * time.Millisecond)
			}

			handlerSeen.note(name)
		}

		return reflectServe(ctx, rw, req)
	})
}

// ---------------------------------------------------------------------------
// Own-bytes reference.
// ---------------------------------------------------------------------------

type expKind int

const (
	// expUndecodable: the bytes do not decode; no DNS message may come back.
	expUndecodable expKind = iota
	// expIgnored: decodable but a response (QR set); nothing comes back, except
	// that DoQ documents a SERVFAIL when nothing was written.
	expIgnored
	// expRcode: decodable but not acceptable; FORMERR / NOTIMP with no records
	// and no question that is not in the message.
	expRcode
	// expRef: acceptable; the response must be what the handler makes of the
	// message decoded from its own bytes.
	expRef
)

func (k expKind) String() string {
	return [...]string{"undecodable", "ignored", "error-rcode", "reference-answer"}[k]
}

// expectation is what the bytes of one message, and nothing else, imply.
type expectation struct {
	own    *dns.Msg
	ref    *dns.Msg
	refOK  bool // the reference packs, i.e. it can be compared in full
	ownErr string
	rcodes []int
	kind   expKind
	// extSensitive: the decoding of the bytes changes (other message, other
	// error, no error) when more bytes follow them in memory, i.e. a reader
	// that looks beyond the end of the message gets it wrong.
	extSensitive bool
}

// wantsAnswer reports whether the documentation promises a DNS response.
func (e *expectation) wantsAnswer() (ok bool) { return e.kind == expRcode || e.kind == expRef }

var refAddr = &net.TCPAddr{IP: net.IPv4(127, 0, 0, 1), Port: 1}

// modelOf computes the expectation from exactly the bytes of the message.  The
// acceptance rules are the documented ones (a response is ignored; an opcode
// other than QUERY/NOTIFY is not implemented; exactly one question, at most
// one answer and one authority record, otherwise FORMERR).
func modelOf(wire []byte) (e *expectation) {
	e = &expectation{extSensitive: extensionSensitive(wire)}

	m := &dns.Msg{}
	if len(wire) < 12 {
		e.kind, e.ownErr = expUndecodable, "shorter than a header"

		return e
	}

	if err := m.Unpack(wire); err != nil {
		e.kind, e.ownErr = expUndecodable, err.Error()

		return e
	}

	e.own = m
	switch {
	case m.Response:
		e.kind = expIgnored
	case m.Opcode != dns.OpcodeQuery && m.Opcode != dns.OpcodeNotify:
		e.kind, e.rcodes = expRcode, []int{dns.RcodeNotImplemented}
	case len(m.Question) != 1 || len(m.Answer) > 1 || len(m.Ns) > 1:
		e.kind, e.rcodes = expRcode, []int{dns.RcodeFormatError}
	default:
		e.kind = expRef
		nrw := dnsserver.NewNonWriterResponseWriter(refAddr, refAddr)
		if err := reflectServe(context.Background(), nrw, m.Copy()); err != nil || nrw.Msg() == nil {
			// Cannot happen with one question; be safe.
			e.kind, e.rcodes = expRcode, []int{dns.RcodeServerFailure}

			return e
		}

		e.ref = nrw.Msg()
		_, pErr := e.ref.Copy().Pack()
		e.refOK = pErr == nil
	}

	return e
}

// extTails are what may follow a message in a reused buffer.
var extTails = func() (tails [][]byte) {
	// Zeros (a fresh buffer), and the tail of a typical other message: a
	// complete question and a record.
	other := []byte{}
	other = append(other, 8)
	other = append(other, "wxyzwxyz"...)
	other = append(other, 4)
	other = append(other, "wwww"...)
	other = append(other, 0, 0, 1, 0, 1)
	other = append(other, 4)
	other = append(other, "xxxx"...)
	other = append(other, 0, 0, 16, 0, 1, 0, 0, 0, 60, 0, 5, 4)
	other = append(other, "yyyy"...)

	return [][]byte{make([]byte, 96), other, append(make([]byte, 3), other...)}
}()

func extensionSensitive(b []byte) (ok bool) {
	if len(b) < 12 {
		return true
	}

	m1 := &dns.Msg{}
	err1 := m1.Unpack(b)
	if err1 != nil && (errors.Is(err1, dns.ErrBuf) || strings.Contains(err1.Error(), "overflow")) {
		return true
	}

	for _, ext := range extTails {
		m2 := &dns.Msg{}
		err2 := m2.Unpack(append(append([]byte(nil), b...), ext...))
		switch {
		case (err1 == nil) != (err2 == nil):
			return true
		case err1 != nil && err1.Error() != err2.Error():
			return true
		case err1 == nil && m1.String() != m2.String():
			return true
		}
	}

	return false
}

// ---------------------------------------------------------------------------
// Judging one DNS response against the expectation of the message it answers.
// ---------------------------------------------------------------------------

// problem is one finding; kind is the short form that goes into the key.
type problem struct {
	kind string
	what string
}

func rrStrings(rrs []dns.RR) (out []string) {
	out = []string{}
	for _, rr := range rrs {
		if rr.Header().Rrtype == dns.TypeOPT {
			continue
		}

		out = append(out, rr.String())
	}

	return out
}

func questionStrings(qs []dns.Question) (out []string) {
	out = []string{}
	for _, q := range qs {
		out = append(out, fmt.Sprintf("%q/%d/%d", q.Name, q.Qtype, q.Qclass))
	}

	return out
}

// digest is the comparable content of a response: everything except the ID and
// the OPT record.
func digest(m *dns.Msg) (s string) {
	return fmt.Sprintf("rcode=%d q=%v an=%v ns=%v ar=%v", m.Rcode&0xf,
		questionStrings(m.Question), rrStrings(m.Answer), rrStrings(m.Ns), rrStrings(m.Extra))
}

func sameStrings(a, b []string) (ok bool) {
	if len(a) != len(b) {
		return false
	}

	for i := range a {
		if a[i] != b[i] {
			return false
		}
	}

	return true
}

// judge compares the response raw with what the bytes sent imply.  It returns
// the decoded response (nil if it does not parse) and the problems found.
// checkStale is off when the judged message is itself written in the alphabet
// of other traffic (its content is then checked by the reference comparison,
// every such message having a distinct name).
func judge(e *expectation, sent, raw []byte, checkStale bool) (resp *dns.Msg, ps []problem) {
	if checkStale {
		if s := findStale(raw); s != "" {
			ps = append(ps, problem{"stale-bytes", "the response contains bytes of other traffic at " + s})
		}
	}

	if len(raw) < 2 || len(sent) < 2 || raw[0] != sent[0] || raw[1] != sent[1] {
		ps = append(ps, problem{"foreign-id", fmt.Sprintf("response ID %s, request ID %s",
			hex.EncodeToString(raw[:min(2, len(raw))]), hex.EncodeToString(sent[:min(2, len(sent))]))})
	}

	resp = &dns.Msg{}
	if err := resp.Unpack(raw); err != nil {
		ps = append(ps, problem{"response-undecodable", "the response does not parse: " + err.Error()})

		return nil, ps
	}

	if !resp.Response {
		ps = append(ps, problem{"not-a-response", "the message that came back has the QR bit clear"})
	}

	var own []dns.Question
	if e.own != nil {
		own = e.own.Question
	}

	for _, q := range resp.Question {
		found := false
		for _, o := range own {
			found = found || o == q
		}

		if !found {
			ps = append(ps, problem{"foreign-question", fmt.Sprintf(
				"the response carries question %s; the bytes of the request decode to questions %v",
				questionStrings([]dns.Question{q})[0], questionStrings(own))})
		}
	}

	switch e.kind {
	case expUndecodable:
		ps = append(ps, problem{"undecodable-answered", fmt.Sprintf(
			"the bytes of the request do not decode (%s), yet a DNS response came back: %s", e.ownErr, digest(resp))})
	case expIgnored:
		if resp.Rcode&0xf != dns.RcodeServerFailure || len(rrStrings(resp.Answer))+len(rrStrings(resp.Ns))+len(rrStrings(resp.Extra)) > 0 {
			ps = append(ps, problem{"ignored-answered", "a message with the QR bit set was answered: " + digest(resp)})
		}
	case expRcode:
		ok := false
		for _, rc := range e.rcodes {
			ok = ok || resp.Rcode&0xf == rc
		}

		n := len(rrStrings(resp.Answer)) + len(rrStrings(resp.Ns)) + len(rrStrings(resp.Extra))
		if !ok || n > 0 {
			ps = append(ps, problem{"differs-from-own-bytes", fmt.Sprintf(
				"the bytes of the request decode to an unacceptable message (want rcode %v, no records); got %s", e.rcodes, digest(resp))})
		}
	case expRef:
		if !e.refOK {
			break
		}

		if got, want := digest(resp), digest(e.ref); got != want {
			ps = append(ps, problem{"differs-from-own-bytes", fmt.Sprintf(
				"response differs from what the handler makes of the request's own bytes: got %s, want %s", got, want)})
		}
	}

	return resp, ps
}

// keyFor maps the problems of one response to a violation key.  The classes
// are kept apart so that one defect cannot hide another.
// cutExplains reports whether the response raw is exactly what the documented
// treatment of a proper prefix sent[:k] of the message yields, i.e. whether
// the server behaved as if the message had been cut short before decoding (a
// receive buffer smaller than the message).  Only called for responses that
// have already been found wrong.
func cutExplains(sent, raw []byte) (k int, ok bool) {
	resp := &dns.Msg{}
	if len(raw) < 2 || len(sent) < 2 || raw[0] != sent[0] || raw[1] != sent[1] || resp.Unpack(raw) != nil {
		return 0, false
	}

	got := digest(resp)
	for k = len(sent) - 1; k >= 12; k-- {
		ex := modelOf(sent[:k])
		switch ex.kind {
		case expRef:
			if ex.refOK && digest(ex.ref) == got {
				return k, true
			}
		case expRcode:
			n := len(rrStrings(resp.Answer)) + len(rrStrings(resp.Ns)) + len(rrStrings(resp.Extra))
			sub := true
			for _, q := range resp.Question {
				found := false
				for _, o := range ex.own.Question {
					found = found || o == q
				}
				sub = sub && found
			}

			for _, rc := range ex.rcodes {
				if resp.Rcode&0xf == rc && n == 0 && sub {
					return k, true
				}
			}
		}
	}

	return 0, false
}

// keyOf is keyFor preceded by the check for a message cut short; it adds the
// finding to the witness.
func keyOf(path string, e *expectation, ps []problem, sent, raw []byte, wit map[string]any) (key string) {
	if k, ok := cutExplains(sent, raw); ok {
		wit["cut_short"] = fmt.Sprintf("the response is exactly the documented treatment of the first %d of the %d bytes of the message", k, len(sent))

		return path + ":message-cut-short-before-decoding"
	}

	return keyFor(path, e, ps)
}

func keyFor(path string, e *expectation, ps []problem) (key string) {
	has := func(kind string) (ok bool) {
		for _, p := range ps {
			if p.kind == kind {
				return true
			}
		}

		return false
	}

	content := has("foreign-question") || has("undecodable-answered") || has("differs-from-own-bytes") || has("stale-bytes")

	switch {
	case has("foreign-id"):
		return path + ":response-with-foreign-id"
	case e.extSensitive && content:
		// The header of the message was used (own ID) but the rest was not
		// taken from its own bytes.
		return path + ":message-decoded-beyond-its-own-bytes"
	case has("foreign-question"):
		return path + ":response-with-foreign-question"
	case has("undecodable-answered"):
		return path + ":undecodable-message-answered"
	case has("stale-bytes"):
		return path + ":response-contains-other-traffic-bytes"
	case has("differs-from-own-bytes"):
		return path + ":response-differs-from-own-bytes-reference"
	case has("ignored-answered"):
		return path + ":ignored-message-answered"
	default:
		return path + ":" + ps[0].kind
	}
}

func problemTexts(ps []problem) (out []string) {
	for _, p := range ps {
		out = append(out, p.kind+": "+p.what)
	}

	return out
}
