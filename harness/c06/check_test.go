// Package c06 monitors property C06: a message is interpreted from its own
// bytes only, whatever was processed before.  Server side, every receive path
// of the real dnsserver listeners (UDP, TCP, DoT, DoQ stream, DoH body and
// dns= parameter) is first warmed with recognisable other traffic and then
// given short or inconsistent messages; upstream side, the real
// forward.UpstreamPlain is given short or count-inflated replies by a scripted
// stub after normal ones.  Two oracles decide: the outcome must be the one of a
// listener that has never seen other traffic, and it must be what the bytes of
// the message alone imply.
package c06

import (
	"encoding/hex"
	"fmt"
	"math/rand/v2"
	"runtime"
	"sort"
	"strings"
	"sync"
	"testing"
	"time"

	"github.com/AdguardTeam/AdGuardDNS/verif/tbench"
	"github.com/AdguardTeam/AdGuardDNS/verif/vkit"
)

// lowProcs is the GOMAXPROCS value of the pinned part of the run: with few Ps
// a buffer put back into a sync.Pool is much more likely to be the next one
// taken out.
const lowProcs = 2

// history is one way of warming a listener before the probes.
type history struct {
	name     string
	kinds    []warmKind
	k        int
	conc     int
	lowProcs bool
}

var histories = []history{
	{name: "h0-sequential-same-shape", k: 8, conc: 1, kinds: []warmKind{warmSame, warmRecords}, lowProcs: true},
	{name: "h1-concurrent-records-long", k: 24, conc: 4, kinds: []warmKind{warmRecords, warmLong, warmSame}, lowProcs: true},
	{name: "h2-mixed-default-procs", k: 16, conc: 2, kinds: []warmKind{warmSame, warmRecords, warmLong, warmSameOPT}},
}

// freshRec is what a never-warmed listener did with a probe.
type freshRec struct {
	class    string
	detail   string
	problems bool
	valid    bool
}

// pathRun is the state of one path for one shape.
type pathRun struct {
	p      *pathDef
	probes []*probe
	fresh  []freshRec
}

func probesFor(s *shape, p *pathDef, pause time.Duration) (ps []*probe) {
	ps = genericProbes(s)
	switch p.group {
	case "stream":
		ps = append(ps, streamProbes(s, pause)...)
	case "doq":
		ps = append(ps, doqProbes(s, pause)...)
	case "doh-get":
		ps = append(ps, dohGetProbes(s)...)
	}

	return ps
}

func TestCheck(t *testing.T) {
	r := vkit.Start(t, "C06", "exploration")
	defer r.Finish()

	r.Rule("Server side: per seed-derived base query (label lengths and contents from the PRNG) a fixed probe list: the query cut at " +
		"every offset, cut inside its OPT record, header counts inflated over {2,3,65535}/{1,2,65535} per section, 12-byte header " +
		"only, names ending in a compression pointer to/beyond the end, label and rdata lengths running past the end, complete " +
		"controls; plus per transport: TCP/DoT length prefix larger/smaller than the payload, honest frames delivered in 2-3 " +
		"segments with pauses (rest later / rest never), DoQ wrong prefix and segmented stream writes, DoH dns= parameter cut at " +
		"several lengths.  Every probe is sent to a listener started anew (first message it ever sees) and, R times per warm-up " +
		"history (3 histories: sequential same-shape, concurrent with records and long names under GOMAXPROCS=2, mixed under the " +
		"default GOMAXPROCS), to a listener warmed with well-formed other traffic written in a reserved alphabet, each probe " +
		"directly preceded or followed by one more message of other traffic.  Seven receive paths: udp, udp-btd (plain-DNS UDP " +
		"received through a real bindtodevice.Manager interface listener on lo and its pooled packet bodies), tcp, dot, doq, " +
		"doh-post, doh-get.  The probe list also holds complete EDNS queries longer than the base query and than the other " +
		"traffic (padding up to totals of 512, 513, 700, 1500 and 4000 bytes, i.e. beyond the initial 512-byte size of the pooled " +
		"UDP and TCP/DoT read buffers; on the UDP paths the own bytes of a datagram end at the documented 512-byte read size; " +
		"reflected OPT contents are part of the reference), so that a receive buffer shrunk by " +
		"an earlier, shorter message shows (bucket longer_after_shorter_answered).  Fault history: on a server with a TCP " +
		"pipeline limit of 1 and a 150 ms request context, 12 TCP clients occupy their slot with a blocked handler and send one " +
		"more short message that is dropped when its context expires while waiting for a slot; before and after that, bursts of " +
		"32 EDNS queries over UDP (handler holds each 20 ms) are judged on their own bytes.  Overlap bursts: many clients' messages back to " +
		"back (UDP datagrams from many sockets, pipelined TCP/DoT frames, concurrent DoQ streams and DoH requests) with a briefly " +
		"blocking handler.  Upstream side: UpstreamPlain (udp, tcp) against a scripted stub: normal replies with recognisable " +
		"records, then replies cut at every offset >= 12, with inflated ANCOUNT/NSCOUNT/ARCOUNT, and TCP prefix/body mismatches, " +
		"on a warmed and on a new UpstreamPlain.  A case is non-trivial when the message was really sent and an observation was " +
		"judged; its class is (path, probe family, what the own bytes imply, history or fresh).")
	r.Assume("the DNS library's Unpack applied to exactly the bytes sent defines what those bytes mean; the acceptance rules (response ignored, opcode NOTIMP, counts FORMERR) are the documented ones")
	r.Assume("the handler given to the servers reflects every record of the decoded request into its response, so the response reveals the server's decoding")
	r.Assume("an observation 'no answer' is never a verdict by itself: a promised answer that is missing is re-requested (3 attempts, long waits) and answered-late cases are counted as ambiguous")
	r.Assume("sync.Pool is per-P and drops a quarter of the Puts under -race: whether a probe lands in a dirty buffer is not observable from outside; the own-bytes oracle does not depend on it")
	r.Assume("the bind-to-device UDP path (udp-btd) needs SO_BINDTODEVICE on 'lo' (CAP_NET_RAW); where the interface listener cannot be started the path is reported INCONCLUSIVE, never silently skipped")
	r.Assume("a UDP datagram longer than the documented read buffer (ConfigDNS.UDPSize, default 512) is judged as its first 512 bytes: the rest never reaches any listener, fresh or warmed")
	r.Assume("DNSCrypt is not covered: its receive buffers belong to the dnscrypt library, the repository code has no pooled read buffer on that path")

	defProcs := runtime.GOMAXPROCS(0)
	defer runtime.GOMAXPROCS(defProcs)
	r.Extra("gomaxprocs_default", defProcs)
	r.Extra("gomaxprocs_pinned", lowProcs)

	e := &env{
		r:          r,
		answerWait: 3 * time.Second,
		closeWait:  2 * time.Second,
		tailWait:   time.Duration(r.N(25, 60)) * time.Millisecond,
		graceWait:  2 * time.Millisecond,
		samples:    map[string]bool{},
		viols:      map[string]*pendingViolation{},
		misses:     map[string]int{},

		unavailable: map[string]string{},
	}
	defer e.flushViolations()

	reps := r.N(8, 16)
	nShapes := r.N(1, 5)
	pause := time.Duration(r.N(12, 30)) * time.Millisecond
	r.Extra("repetitions_per_history", reps)
	r.Extra("base_shapes", nShapes)

	t0 := time.Now()
	phases := map[string]float64{}
	mark := func(name string, since time.Time) {
		phases[name] += time.Since(since).Seconds()
		t.Logf("c06: %-28s done after %6.1fs (total %6.1fs)", name, time.Since(since).Seconds(), time.Since(t0).Seconds())
	}
	defer func() { r.Extra("phase_seconds", phases) }()

	for si := 0; si < nShapes; si++ {
		e.s = newShape(r.Rand("shape", si))
		e.gen = &warmGen{s: e.s}
		r.Extra(fmt.Sprintf("base_name_%d", si), tbench.PresentationName(e.s.baseName()))

		runs := make([]*pathRun, len(allPaths))
		for i, p := range allPaths {
			runs[i] = &pathRun{p: p, probes: probesFor(e.s, p, pause)}
		}

		// Phase 0: every probe on a listener started anew.
		ts := time.Now()
		parallel(runs, func(pr *pathRun) { e.freshPhase(pr) })
		mark("fresh-instances", ts)

		// Phase A: pinned GOMAXPROCS.
		runtime.GOMAXPROCS(lowProcs)
		ts = time.Now()
		parallel(runs, func(pr *pathRun) {
			for hi, h := range histories {
				if h.lowProcs {
					e.runHistory(pr, h, reps, r.Rand("order/"+pr.p.name, si*10+hi))
				}
			}
		})
		mark("warmed-pinned-procs", ts)
		ts = time.Now()
		e.overlapPhase(si, "gomaxprocs=2")
		mark("overlap-pinned-procs", ts)
		ts = time.Now()
		e.faultPhase(si, "gomaxprocs=2")
		mark("fault-history-pinned-procs", ts)
		ts = time.Now()
		e.upstreamPhase(si, "gomaxprocs=2", reps)
		mark("upstream-pinned-procs", ts)

		// Phase B: default GOMAXPROCS.
		runtime.GOMAXPROCS(defProcs)
		ts = time.Now()
		parallel(runs, func(pr *pathRun) {
			for hi, h := range histories {
				if !h.lowProcs {
					e.runHistory(pr, h, reps, r.Rand("order/"+pr.p.name, si*10+hi))
				}
			}
		})
		mark("warmed-default-procs", ts)
		ts = time.Now()
		e.overlapPhase(si, "gomaxprocs=default")
		mark("overlap-default-procs", ts)
		ts = time.Now()
		e.faultPhase(si, "gomaxprocs=default")
		mark("fault-history-default-procs", ts)
		ts = time.Now()
		e.upstreamPhase(si, "gomaxprocs=default", reps)
		mark("upstream-default-procs", ts)
	}

	r.Bucket("handler_invocations", handlerCalls.Load())

	for _, p := range allPaths {
		e.mu.Lock()
		why := e.unavailable[p.name]
		e.mu.Unlock()
		if why != "" {
			r.Inconclusive("path " + p.name + " could not be exercised in this environment: " + why)
		}
	}

	for _, p := range append([]string{"upstream-udp", "upstream-tcp"}, pathNames()...) {
		if e.degraded(p) {
			r.Inconclusive("path " + p + ": promised answers kept failing to arrive within the full wait; the path was then driven with short waits and without the differential oracle")
		}
	}

	e.mu.Lock()
	infra := e.infra
	e.mu.Unlock()
	if infra > r.N(40, 400) {
		r.Inconclusive(fmt.Sprintf("%d client-side infrastructure failures, see buckets infra_failure:*", infra))
	}

	// Coverage gates, far below what the unchanged tree produces.
	for _, p := range allPaths {
		r.Require("judged:"+p.name+":fresh", int64(60*nShapes))
		r.Require("judged:"+p.name+":warmed", int64(60*nShapes*reps*2))
		r.Require("differential:"+p.name, int64(60*nShapes*reps*2))
		r.Require("other_traffic_answered:"+p.name, int64(200*nShapes))
		r.Require("probe_answer_judged:"+p.name, int64(100*nShapes))
	}
	for _, p := range []string{"udp", "tcp", "dot", "doq", "doh-post"} {
		r.Require("overlap_responses_judged:"+p, int64(r.N(200, 2000)))
	}
	r.Require("judged_family:longer-edns", int64(500*nShapes))
	for _, p := range allPaths {
		r.Require("longer_after_shorter_answered:"+p.name, int64(100*nShapes))
	}
	for _, p := range []string{"tcp", "dot", "doq", "doh-post", "doh-get"} {
		// 4 probes longer than 512 bytes x R x 3 histories per shape.
		r.Require("longer_than_initial_buffer_after_shorter_answered:"+p, int64(6*reps*nShapes))
	}
	r.Require("fault:tcp_message_dropped_waiting_for_pipeline_slot", int64(12*nShapes))
	r.Require("fault:udp_judged:before", int64(80*nShapes))
	r.Require("fault:udp_judged:after", int64(250*nShapes))
	r.Require("judged_family:segmented", int64(100*nShapes))
	r.Require("judged_family:segmented-rest-never", int64(60*nShapes))
	r.Require("judged_family:prefix-larger", int64(50*nShapes))
	r.Require("judged_family:prefix-smaller", int64(100*nShapes))
	r.Require("judged_family:doq-wrong-prefix", int64(50*nShapes))
	r.Require("judged_family:doh-get-short-param", int64(50*nShapes))
	r.Require("upstream_judged:udp", int64(r.N(300, 3000)))
	r.Require("upstream_judged:tcp", int64(r.N(300, 3000)))
	r.Require("upstream_control_ok_equal_to_own_bytes", int64(r.N(10, 100)))
	r.Require("upstream_error_for_undecodable_reply", int64(r.N(200, 2000)))
	r.Require("upstream_differential", int64(r.N(100, 400)))
}

func pathNames() (names []string) {
	for _, p := range allPaths {
		names = append(names, p.name)
	}

	return names
}

func parallel(runs []*pathRun, f func(pr *pathRun)) {
	wg := &sync.WaitGroup{}
	for _, pr := range runs {
		wg.Add(1)
		go func() {
			defer wg.Done()
			f(pr)
		}()
	}
	wg.Wait()
}

// ---------------------------------------------------------------------------
// Fresh instances.
// ---------------------------------------------------------------------------

func (e *env) freshPhase(pr *pathRun) {
	pr.fresh = make([]freshRec, len(pr.probes))
	for i, p := range pr.probes {
		if e.pathUnavailable(pr.p) {
			return
		}

		b, err := startInstance(pr.p)
		if err != nil {
			e.startFailure(pr.p, err)

			continue
		}

		d, err := newDriver(e, pr.p, b)
		if err != nil {
			e.infraFailure("driver", err.Error())
			b.close()

			continue
		}

		bt := p.build(e.ids.get())
		px := expectOn(pr.p, &bt)
		meta := map[string]any{"instance": "fresh (listener started anew, the probe is the first message it receives)", "probe_index": i}
		switch td := d.(type) {
		case *udpDriver:
			td.onLate = e.lateJudge(pr.p)
		case *streamDriver:
			td.alone = true
		case *doqDriver:
			td.alone = true
		}

		o := d.probe(&bt, px)
		if ud, ok := d.(*udpDriver); ok {
			ud.setMeta(e.witness(pr.p, p, &bt, px, &o, meta))
		}

		if !o.infra() {
			class, bad := e.evaluate(pr.p, p, &bt, px, &o, "fresh", meta)
			pr.fresh[i] = freshRec{class: class, problems: bad, detail: o.detail, valid: true}
		}

		d.close()
		b.close()
	}
}

// ---------------------------------------------------------------------------
// Warmed instances.
// ---------------------------------------------------------------------------

func (e *env) runHistory(pr *pathRun, h history, reps int, rng *rand.Rand) {
	p := pr.p
	if e.pathUnavailable(p) {
		return
	}

	b, err := startInstance(p)
	if err != nil {
		e.startFailure(p, err)

		return
	}
	defer b.close()

	d, err := newDriver(e, p, b)
	if err != nil {
		e.infraFailure("driver", err.Error())

		return
	}
	defer d.close()

	if ud, ok := d.(*udpDriver); ok {
		ud.onLate = e.lateJudge(p)
	}

	// Warm-up by other clients.
	wg := &sync.WaitGroup{}
	for c := 0; c < h.conc; c++ {
		wg.Add(1)
		go func() {
			defer wg.Done()

			wd, wErr := newDriver(e, p, b)
			if wErr != nil {
				e.infraFailure("driver", wErr.Error())

				return
			}
			defer wd.close()

			for i := 0; i < h.k/h.conc; i++ {
				e.sendOther(p, wd, h.kinds[(c+i)%len(h.kinds)], "warm-up")
			}
		}()
	}
	wg.Wait()

	// minAnswered is the length of the shortest message this instance has
	// answered so far (other traffic is never shorter than the base query).
	minAnswered := len(e.s.base(1))
	cnt := 0
	for rep := 0; rep < reps; rep++ {
		order := rng.Perm(len(pr.probes))
		for _, idx := range order {
			pp := pr.probes[idx]
			cnt++
			kind := h.kinds[cnt%len(h.kinds)]

			// One more message of other traffic right before the probe (on
			// UDP the driver sends it right after the probe instead, which is
			// "right before" the next one).
			if ud, isUDP := d.(*udpDriver); isUDP {
				ud.kind = kind
			} else {
				e.sendOther(p, d, kind, "before-probe")
			}

			bt := pp.build(e.ids.get())
			px := expectOn(p, &bt)
			meta := map[string]any{
				"instance": "warmed", "history": h.name, "repetition": rep, "probe_index": idx,
				"gomaxprocs": runtime.GOMAXPROCS(0),
			}

			o := d.probe(&bt, px)
			if ud, ok := d.(*udpDriver); ok {
				ud.setMeta(e.witness(p, pp, &bt, px, &o, meta))
			}

			if o.infra() {
				continue
			}

			if len(px.frames) == 1 {
				// A well-formed message that is longer than one the listener
				// has answered before: the case a shrunken buffer gets wrong.
				n := len(px.frames[0].sent)
				if px.frames[0].exp.kind == expRef && n > minAnswered {
					e.r.Bucket("longer_after_shorter_answered:"+p.name, 1)
					if n > initialBufSize {
						// The pooled buffer has to grow again for this one.
						e.r.Bucket("longer_than_initial_buffer_after_shorter_answered:"+p.name, 1)
					}
				}

				if len(o.answers) > 0 {
					minAnswered = min(minAnswered, n)
				}
			}

			class, bad := e.evaluate(p, pp, &bt, px, &o, h.name, meta)
			e.differential(p, pp, &bt, px, &o, class, bad, pr.fresh[idx], meta)
		}
	}
}

// sendOther sends one message of other traffic through d and judges its
// answer on its own bytes.
func (e *env) sendOther(p *pathDef, d driver, kind warmKind, role string) {
	w := e.nextWarm(kind)
	raw, ok := d.other(w)
	if !ok {
		e.infraFailure(p.name+"-other-traffic", "no answer to a well-formed message")

		return
	}

	e.judgeOther(p.name, role+"/"+warmKindNames[kind], w, raw)
}

// judgeOther judges the answer to a well-formed message of other traffic.
func (e *env) judgeOther(path, role string, w, raw []byte) {
	ex := modelOf(w)
	resp, ps := judge(ex, w, raw, false)
	e.r.Bucket("other_traffic_answered:"+path, 1)
	e.r.Eval(path+"|other-traffic|"+role, true)
	if len(ps) == 0 {
		return
	}

	wit := map[string]any{
		"path": path, "role": role, "sent_hex": hex.EncodeToString(w), "response_hex": hex.EncodeToString(raw),
		"problems": problemTexts(ps),
	}
	if resp != nil {
		wit["response"] = resp.String()
	}

	e.violation(keyOf(path, ex, ps, w, raw, wit), "a well-formed message sent between probes was not answered from its own bytes: "+ps[0].what, wit)
}

// ---------------------------------------------------------------------------
// Evaluation of one probe observation (oracle 2) and comparison with the
// fresh instance (oracle 1).
// ---------------------------------------------------------------------------

func (e *env) witness(p *pathDef, pp *probe, bt *built, px *pexp, o *observation, meta map[string]any) (w map[string]any) {
	w = map[string]any{
		"path": p.name, "probe_family": pp.family, "probe": pp.desc,
		"own_bytes_imply": px.kinds(), "observed": o.detail,
	}
	for k, v := range meta {
		w[k] = v
	}

	switch {
	case bt.rawDNSParam != nil:
		w["sent_dns_parameter"] = *bt.rawDNSParam
	case bt.segs != nil:
		var parts []string
		for _, s := range bt.segs {
			parts = append(parts, fmt.Sprintf("%s (pause %s)", hex.EncodeToString(s.data), s.pause))
		}
		w["sent_stream_segments_hex"] = parts
	default:
		w["sent_message_hex"] = hex.EncodeToString(bt.msg)
	}

	if px.reject != "" {
		w["framing"] = px.reject
	}

	for i, f := range px.frames {
		k := fmt.Sprintf("frame_%d", i)
		switch {
		case f.exp.own == nil:
			w[k] = "undecodable from its own bytes: " + f.exp.ownErr
		case f.exp.ref != nil:
			w[k] = "own bytes decode; reference response: " + digest(f.exp.ref)
		default:
			w[k] = fmt.Sprintf("own bytes decode to questions %v; expected %s %v", questionStrings(f.exp.own.Question), f.exp.kind, f.exp.rcodes)
		}
	}

	return w
}

// matchFrame picks the frame an answer belongs to: one it answers without
// problems if there is one, else the first with the same ID, else the first.
func matchFrame(px *pexp, raw []byte, used map[int]bool) (idx int) {
	sameID := -1
	for i, f := range px.frames {
		if used[i] {
			continue
		}

		if len(raw) >= 2 && len(f.sent) >= 2 && raw[0] == f.sent[0] && raw[1] == f.sent[1] {
			if _, ps := judge(f.exp, f.sent, raw, true); len(ps) == 0 {
				return i
			}

			if sameID < 0 {
				sameID = i
			}
		}
	}

	if sameID >= 0 {
		return sameID
	}

	for i := range px.frames {
		if !used[i] {
			return i
		}
	}

	return 0
}

func (e *env) evaluate(p *pathDef, pp *probe, bt *built, px *pexp, o *observation, hist string, meta map[string]any) (class string, bad bool) {
	inst := "warmed"
	if hist == "fresh" {
		inst = "fresh"
	}

	e.r.Eval(fmt.Sprintf("%s|%s|%s|%s", p.name, pp.family, px.kinds(), hist), true)
	e.r.Bucket("judged:"+p.name+":"+inst, 1)
	e.r.Bucket("judged_family:"+pp.family, 1)
	e.r.Bucket("own_bytes_imply:"+px.kinds(), 1)
	e.r.Bucket("end:"+p.name+":"+o.end, 1)
	if o.retried {
		e.r.Bucket("ambiguous:answered-only-after-resending", 1)
	}

	e.sample(p, pp, bt, px, o, meta)

	var parts []string
	used := map[int]bool{}
	for _, raw := range o.answers {
		e.r.Bucket("probe_answer_judged:"+p.name, 1)

		if len(px.frames) == 0 {
			bad = true
			wit := e.witness(p, pp, bt, px, o, meta)
			wit["response_hex"] = hex.EncodeToString(raw)
			if px.reject != "" {
				e.violation(p.name+":invalid-framing-answered",
					"the transport framing of the request is invalid ("+px.reject+"), yet a DNS response came back", wit)
			} else {
				e.violation(p.name+":incomplete-message-answered",
					"the bytes sent never made up a complete message (the announced length was not reached), yet a DNS response came back", wit)
			}
			parts = append(parts, "answer-without-a-message")

			continue
		}

		fi := matchFrame(px, raw, used)
		used[fi] = true
		f := px.frames[fi]
		resp, ps := judge(f.exp, f.sent, raw, true)
		if resp != nil {
			parts = append(parts, fmt.Sprintf("%d:%s", fi, digest(resp)))
		} else {
			parts = append(parts, fmt.Sprintf("%d:unparsable", fi))
		}

		if len(ps) == 0 {
			e.r.Bucket("probe_answer_equal_to_own_bytes_reference", 1)

			continue
		}

		bad = true
		stale := "without"
		for _, pb := range ps {
			if pb.kind == "stale-bytes" {
				stale = "with"
			}
		}
		e.r.Bucket("refuted:"+p.name+":"+inst+":"+stale+"-bytes-of-other-traffic", 1)

		wit := e.witness(p, pp, bt, px, o, meta)
		wit["judged_frame"] = fi
		wit["response_hex"] = hex.EncodeToString(raw)
		wit["problems"] = problemTexts(ps)
		wit["extension_sensitive"] = f.exp.extSensitive
		if resp != nil {
			wit["response"] = resp.String()
		}

		e.violation(keyOf(p.name, f.exp, ps, f.sent, raw, wit), ps[0].what, wit)
	}

	switch {
	case px.closes:
		// The server is documented to close this stream because of one of
		// its frames; whether the other frames are answered before that is a
		// race inside the server, so the outcome has one class only.
		class = "stream-with-unservable-frame(closed; answers to its other frames optional)"
	case len(parts) > 0:
		sort.Strings(parts)
		class = "answered[" + strings.Join(parts, " | ") + "]"
	case strings.HasPrefix(o.end, "http-"):
		class = o.end
	default:
		class = "no-dns-answer"
	}

	return class, bad
}

// lateJudge judges a datagram that arrived on the socket of a UDP probe after
// the exchange had been evaluated.
func (e *env) lateJudge(p *pathDef) func(ls *lateSock, raw []byte) {
	return func(ls *lateSock, raw []byte) {
		e.r.Bucket("udp_late_datagrams", 1)
		if len(ls.px.frames) == 0 {
			return
		}

		f := ls.px.frames[0]
		resp, ps := judge(f.exp, f.sent, raw, true)
		if len(ps) == 0 {
			return
		}

		wit := map[string]any{}
		for k, v := range ls.meta {
			wit[k] = v
		}
		wit["late"] = "the response arrived after the exchange had been evaluated"
		wit["response_hex"] = hex.EncodeToString(raw)
		wit["problems"] = problemTexts(ps)
		if resp != nil {
			wit["response"] = resp.String()
		}

		e.violation(keyOf(p.name, f.exp, ps, f.sent, raw, wit), ps[0].what, wit)
	}
}

func (e *env) differential(
	p *pathDef, pp *probe, bt *built, px *pexp, o *observation,
	class string, bad bool, fr freshRec, meta map[string]any,
) {
	if !fr.valid {
		e.r.Bucket("differential_skipped_no_fresh_observation", 1)

		return
	}

	if e.degraded(p.name) {
		// Promised answers keep failing to arrive on this path; "no answer"
		// is not an observation there any more.
		e.r.Bucket("differential_skipped_path_degraded", 1)

		return
	}

	e.r.Bucket("differential:"+p.name, 1)
	if class == fr.class {
		e.r.Bucket("differential_equal", 1)

		return
	}

	if bad || fr.problems {
		// One of the two outcomes is already reported by the own-bytes
		// oracle under its own key.
		e.r.Bucket("differential_mismatch_already_reported_by_own_bytes_oracle", 1)

		return
	}

	wit := e.witness(p, pp, bt, px, o, meta)
	wit["outcome_warmed"] = class
	wit["outcome_fresh"] = fr.class
	wit["observed_fresh"] = fr.detail
	key := p.name + ":warmed-differs-from-fresh"
	if class == "no-dns-answer" && strings.HasPrefix(fr.class, "answered[") && px.mustCount() == len(px.frames) && len(px.frames) > 0 {
		// A complete message that the documentation promises an answer to,
		// and that a fresh listener does answer, is dropped (after repeated
		// attempts) by the listener that has served other traffic.
		key = p.name + ":answerable-message-dropped-by-warmed-listener"
	}

	for _, f := range px.frames {
		if f.exp.extSensitive {
			// The meaning of these bytes changes when other bytes follow
			// them in memory, and the treatment did change with the history.
			key = p.name + ":message-decoded-beyond-its-own-bytes"
		}
	}

	e.violation(key,
		"the same message is treated differently by a listener that has served other traffic and by one started anew", wit)
}

// sample writes out a few interesting cases.
func (e *env) sample(p *pathDef, pp *probe, bt *built, px *pexp, o *observation, meta map[string]any) {
	k := p.name + "|" + pp.family
	switch k {
	case "udp|truncated", "doq|header-only", "tcp|segmented", "dot|prefix-larger", "doh-get|doh-get-short-param":
	default:
		return
	}

	e.mu.Lock()
	seen := e.samples[k]
	e.samples[k] = true
	e.mu.Unlock()
	if seen {
		return
	}

	e.r.Sample(e.witness(p, pp, bt, px, o, meta))
}
