package c06

import (
	"encoding/hex"
	"fmt"
	"math/rand/v2"
	"sync"
	"time"

	"github.com/AdguardTeam/AdGuardDNS/internal/dnsserver"
	"github.com/AdguardTeam/AdGuardDNS/verif/tbench"
	"github.com/miekg/dns"
)

// Fault history: the TCP pipeline limit of a plain-DNS server is reached and
// the request context of one more (short) message expires while it waits for
// a slot.  That message is dropped on an exit path of its own.  Afterwards the
// UDP listener of the same server receives bursts of longer EDNS queries; each
// must still be decoded from its own bytes, exactly as before the history.

const (
	// faultReqTimeout is the request-context timeout of the faulted server.
	faultReqTimeout = 150 * time.Millisecond
	faultClients    = 12
	faultBurst      = 32
)

// faultQuery renders a query whose first label starts with prefix and whose
// name always has the same wire length, with or without an OPT record.
func faultQuery(rng *rand.Rand, id uint16, prefix string, opt *tbench.OPTSpec) (wire []byte, name string) {
	first := append([]byte(prefix), hexLabel(rng, 14-len(prefix))...)
	wname := tbench.WireName(first, hexLabel(rng, 9), []byte("test"))
	q := tbench.QuerySpec{ID: id, Flags: tbench.FlagRD, Name: wname, QType: dns.TypeA, QClass: dns.ClassINET, OPT: opt}

	return q.Wire(), tbench.PresentationName(wname)
}

func (e *env) faultPhase(si int, label string) {
	b, err := tbench.Start(tbench.Config{
		Handler:        serverHandler(),
		Only:           []tbench.Server{tbench.SrvDNS},
		RequestContext: dnsserver.NewTimeoutContextConstructor(faultReqTimeout),
		DNS: tbench.StreamOptions{
			ReadTimeout: 30 * time.Second, TCPIdleTimeout: 30 * time.Second,
			MaxPipelineEnabled: true, MaxPipelineCount: 1,
		},
	})
	if err != nil {
		e.infraFailure("bench-start", err.Error())

		return
	}
	defer func() { _ = b.Close() }()

	rng := e.r.Rand("fault/"+label, si)

	// Before the history.
	e.faultBursts(b, rng, 2, "before the fault history", label)

	// The history.
	open := blockGate.arm()
	defer open()
	handlerSeen.watch("shortq")

	type client struct {
		c     *tbench.StreamClient
		short string
	}

	var clients []*client
	for i := 0; i < faultClients; i++ {
		c, dErr := b.DialTCP()
		if dErr != nil {
			e.infraFailure("stream-dial", dErr.Error())

			continue
		}

		blockMsg, _ := faultQuery(rng, e.ids.get(), blockLabel, nil)
		shortMsg, shortName := faultQuery(rng, e.ids.get(), "shortq", nil)
		if err = c.WriteFrame(blockMsg); err == nil {
			// Let the first message take the only slot.
			time.Sleep(5 * time.Millisecond)
			err = c.WriteFrame(shortMsg)
		}

		if err != nil {
			e.infraFailure("stream-write", err.Error())
			_ = c.Close()

			continue
		}

		clients = append(clients, &client{c: c, short: shortName})
	}

	// The request contexts of the waiting messages expire; only then are the
	// slots given back.
	time.Sleep(4 * faultReqTimeout)
	open()

	wg := &sync.WaitGroup{}
	for _, cl := range clients {
		wg.Add(1)
		go func() {
			defer wg.Done()
			defer func() { _ = cl.c.Close() }()

			_, closed, _ := cl.c.ReadUntilClosed(e.closeWait)
			// The fault sequence took place if the short message never
			// reached the handler and the server gave the connection up.
			if closed && handlerSeen.count(cl.short) == 0 {
				e.r.Bucket("fault:tcp_message_dropped_waiting_for_pipeline_slot", 1)
			} else {
				e.r.Bucket("fault:tcp_sequence_did_not_take_place", 1)
			}
		}()
	}
	wg.Wait()

	// After the history.
	e.faultBursts(b, rng, 6, "after the fault history (TCP pipeline limit reached, waiting message dropped on context expiry)", label)
}

// faultBursts sends bursts of EDNS queries over UDP, each from its own socket
// and all before the first answer is read, and judges every answer on the
// query's own bytes.
func (e *env) faultBursts(b *tbench.Bench, rng *rand.Rand, rounds int, when, label string) {
	stage := "after"
	if rounds == 2 {
		stage = "before"
	}

	for round := 0; round < rounds; round++ {
		type sent struct {
			c    *tbench.UDPClient
			exp  *expectation
			wire []byte
		}

		var burst []*sent
		for i := 0; i < faultBurst; i++ {
			opt := &tbench.OPTSpec{UDPSize: 1232, DO: true}
			if pad := []int{-1, 0, 11, 40, 120}[rng.IntN(5)]; pad >= 0 {
				opt.Options = []tbench.Option{{Code: tbench.OptPadding, Data: make([]byte, pad)}}
			}

			// The handler holds every request for a while, so the buffers of
			// the whole burst are in use at the same time.
			wire, _ := faultQuery(rng, e.ids.get(), holdLabel, opt)
			c, err := b.DialUDP()
			if err != nil {
				e.infraFailure("udp-dial", err.Error())

				continue
			}

			burst = append(burst, &sent{c: c, wire: wire, exp: modelOf(wire)})
		}

		for _, s := range burst {
			_ = s.c.Send(s.wire)
		}

		deadline := time.Now().Add(e.wait("udp"))
		for _, s := range burst {
			dg, err := s.c.Recv(max(time.Until(deadline), 50*time.Millisecond))
			_ = s.c.Close()
			if err != nil {
				// A query that was cut inside a record is dropped by the
				// server; silence alone is not a verdict.
				e.r.Bucket("fault:udp_unanswered:"+stage, 1)

				continue
			}

			e.r.Bucket("fault:udp_judged:"+stage, 1)
			e.r.Eval(fmt.Sprintf("udp|fault-history|edns-burst|%s|%s", stage, label), true)
			resp, ps := judge(s.exp, s.wire, dg, true)
			if len(ps) == 0 {
				continue
			}

			wit := map[string]any{
				"path": "udp", "phase": "EDNS burst over UDP " + when + ", " + label, "round": round,
				"instance": "warmed", "sent_message_hex": hex.EncodeToString(s.wire),
				"response_hex": hex.EncodeToString(dg), "problems": problemTexts(ps),
				"reference": digest(s.exp.ref),
			}
			if resp != nil {
				wit["response"] = resp.String()
			}

			e.violation(keyOf("udp", s.exp, ps, s.wire, dg, wit), ps[0].what, wit)
		}
	}
}
