package c06

import (
	"context"
	"encoding/base64"
	"encoding/binary"
	"encoding/hex"
	"errors"
	"fmt"
	"io"
	"net/url"
	"sort"
	"strings"
	"sync"
	"sync/atomic"
	"time"

	"github.com/AdguardTeam/AdGuardDNS/internal/dnsserver"
	"github.com/AdguardTeam/AdGuardDNS/verif/tbench"
	"github.com/AdguardTeam/AdGuardDNS/verif/vkit"
	"github.com/quic-go/quic-go"
)

// ---------------------------------------------------------------------------
// Environment.
// ---------------------------------------------------------------------------

type env struct {
	r   *vkit.Run
	s   *shape
	gen *warmGen

	ids   idAlloc
	warmN atomic.Uint32
	upSeq atomic.Uint32

	// answerWait bounds the wait for an answer that the documentation
	// promises; it is only ever followed by a retry, never by a verdict.
	answerWait time.Duration
	// closeWait bounds the wait for the server to close a stream after an
	// undecodable frame.
	closeWait time.Duration
	// tailWait is how long the harness listens for an answer that must not
	// come (incomplete frame) before it gives up the connection.
	tailWait time.Duration
	// graceWait is a last short look for extra responses.
	graceWait time.Duration

	mu      sync.Mutex
	infra   int
	samples map[string]bool
	viols   map[string]*pendingViolation
	misses  map[string]int
	// unavailable: paths whose listener cannot be started in this environment.
	unavailable map[string]string
}

// pendingViolation is the best witness seen so far for one key.  vkit keeps
// the first witness per key; the check prefers, for the same key, a witness
// that shows bytes of other traffic over one from a warmed instance over one
// from a fresh instance, so violations are handed to vkit at the end.
type pendingViolation struct {
	witness any
	what    string
	prio    int
	count   int64
}

func witnessPrio(wit map[string]any) (prio int) {
	prio = 1
	if inst, _ := wit["instance"].(string); inst == "warmed" {
		prio = 2
	}

	if ps, ok := wit["problems"].([]string); ok {
		for _, p := range ps {
			if strings.HasPrefix(p, "stale-bytes") {
				prio = 3
			}
		}
	}

	if _, ok := wit["other_traffic_bytes_in_response"]; ok {
		prio = 3
	}

	return prio
}

func (e *env) violation(key, what string, wit map[string]any) {
	prio := witnessPrio(wit)

	e.mu.Lock()
	defer e.mu.Unlock()

	pv := e.viols[key]
	if pv == nil {
		pv = &pendingViolation{}
		e.viols[key] = pv
	}

	pv.count++
	if prio > pv.prio {
		pv.prio, pv.what, pv.witness = prio, what, wit
	}
}

// flushViolations hands the collected violations to vkit.
func (e *env) flushViolations() {
	e.mu.Lock()
	defer e.mu.Unlock()

	keys := make([]string, 0, len(e.viols))
	for k := range e.viols {
		keys = append(keys, k)
	}
	sort.Strings(keys)

	for _, k := range keys {
		pv := e.viols[k]
		e.r.Violation(k, pv.what, pv.witness)
		e.r.Bucket("refuting_observations:"+k, pv.count)
	}

	e.viols = map[string]*pendingViolation{}
}

// missLimit is the number of promised answers that may fail to arrive within
// the full wait on one path before the path is considered degraded.
const missLimit = 5

// wait returns how long to wait for an answer that the documentation
// promises on the path.  A path on which such answers keep failing to arrive
// (a broken listener, e.g. one that sends the answers to somebody else) is
// degraded: the harness stops spending seconds per message there, and the
// observation "no answer" is no longer used for anything on that path.
func (e *env) wait(path string) (d time.Duration) {
	if e.degraded(path) {
		return 150 * time.Millisecond
	}

	return e.answerWait
}

func (e *env) attempts(path string) (n int) {
	if e.degraded(path) {
		return 1
	}

	return 3
}

func (e *env) missed(path string) {
	e.mu.Lock()
	e.misses[path]++
	e.mu.Unlock()
	e.r.Bucket("promised_answer_missing_after_full_wait:"+path, 1)
}

func (e *env) degraded(path string) (ok bool) {
	e.mu.Lock()
	defer e.mu.Unlock()

	return e.misses[path] >= missLimit
}

// startFailure accounts an instance that could not be started.  The
// bind-to-device path needs CAP_NET_RAW; where that is missing the path is
// skipped and reported, it does not silently count as held.
func (e *env) startFailure(p *pathDef, err error) {
	e.infraFailure("instance-start:"+p.name, err.Error())
	if errors.Is(err, errBTDUnavailable) {
		e.mu.Lock()
		if e.unavailable[p.name] == "" {
			e.unavailable[p.name] = err.Error()
		}
		e.mu.Unlock()
	}
}

func (e *env) pathUnavailable(p *pathDef) (ok bool) {
	e.mu.Lock()
	defer e.mu.Unlock()

	return e.unavailable[p.name] != ""
}

func (e *env) nextWarm(kind warmKind) (wire []byte) { return e.gen.msg(e.warmN.Add(1), kind) }

func (e *env) infraFailure(where, what string) {
	e.mu.Lock()
	e.infra++
	e.mu.Unlock()
	e.r.Bucket("infra_failure:"+where, 1)
	_ = what
}

// ---------------------------------------------------------------------------
// Paths.
// ---------------------------------------------------------------------------

type pathDef struct {
	name   string
	server tbench.Server
	// btd: plain-DNS UDP received through the bind-to-device interface
	// listener (internal/bindtodevice) instead of the server's own socket.
	btd   bool
	group string // "", "stream", "doq", "doh-get": which path-specific probes apply
}

var allPaths = []*pathDef{
	{name: "udp", server: tbench.SrvDNS},
	{name: "udp-btd", btd: true},
	{name: "tcp", server: tbench.SrvDNS, group: "stream"},
	{name: "dot", server: tbench.SrvDoT, group: "stream"},
	{name: "doq", server: tbench.SrvDoQ, group: "doq"},
	{name: "doh-post", server: tbench.SrvDoH},
	{name: "doh-get", server: tbench.SrvDoHPlain, group: "doh-get"},
}

// serverOpts are generous read timeouts: no verdict of this check depends on
// a server-side timeout, and a loaded machine must not turn a pause between
// two segments into one.
func benchConfig(only ...tbench.Server) (c tbench.Config) {
	return tbench.Config{
		Handler: serverHandler(),
		Only:    only,
		DNS:     tbench.StreamOptions{ReadTimeout: 30 * time.Second, TCPIdleTimeout: 30 * time.Second},
		DoT:     tbench.StreamOptions{ReadTimeout: 30 * time.Second, TCPIdleTimeout: 30 * time.Second},
	}
}

// ---------------------------------------------------------------------------
// Expectation of a probe on a path, from the bytes sent only.
// ---------------------------------------------------------------------------

// udpReadSize is the documented default size of the UDP read buffers.
const udpReadSize = 512

// initialBufSize is the initial size of the pooled UDP and TCP/DoT read
// buffers (ConfigDNS.UDPSize / TCPSize defaults).
const initialBufSize = 512

// frameExp is one message as a correct reader of the transport framing would
// delimit it.
type frameExp struct {
	exp  *expectation
	sent []byte
	// must: the documentation promises an answer to this frame.
	must bool
}

type pexp struct {
	frames []*frameExp
	// reject: the transport-level framing itself is invalid, so there is no
	// DNS message at all and no DNS response may come back.
	reject string
	// incomplete: a trailing frame never completes (stream).
	incomplete bool
	// closes: a complete frame is undecodable or ignored, so the server is
	// documented to close the stream.
	closes bool
}

func (px *pexp) kinds() (s string) {
	if px.reject != "" {
		return "framing-invalid"
	}

	for i, f := range px.frames {
		if i > 0 {
			s += "+"
		}
		s += f.exp.kind.String()
	}

	if px.incomplete {
		s += "+incomplete"
	}

	return s
}

func (px *pexp) mustCount() (n int) {
	for _, f := range px.frames {
		if f.must {
			n++
		}
	}

	return n
}

func singleExp(msg []byte) (px *pexp) {
	ex := modelOf(msg)

	return &pexp{frames: []*frameExp{{exp: ex, sent: msg, must: ex.wantsAnswer()}}}
}

func expectOn(p *pathDef, bt *built) (px *pexp) {
	switch p.name {
	case "udp", "udp-btd":
		// ConfigDNS.UDPSize: "the size of the buffers used to read incoming
		// UDP messages ... defaults to 512 B": what lies beyond it never
		// reaches the server, on a fresh listener either, so the own bytes of
		// a datagram end there.
		if len(bt.msg) > udpReadSize {
			px = singleExp(bt.msg[:udpReadSize])
			px.frames[0].sent = bt.msg

			return px
		}

		return singleExp(bt.msg)
	case "doh-post":
		return singleExp(bt.msg)
	case "doh-get":
		if bt.rawDNSParam == nil {
			return singleExp(bt.msg)
		}

		text, err := url.QueryUnescape(*bt.rawDNSParam)
		if err != nil {
			return &pexp{reject: "dns parameter cannot be unescaped"}
		}

		msg, err := base64.RawURLEncoding.DecodeString(text)
		if err != nil {
			return &pexp{reject: "dns parameter is not unpadded base64url: " + err.Error()}
		}

		return singleExp(msg)
	case "doq":
		s := bt.stream()
		if len(s) < 2 {
			return &pexp{reject: "fewer than two bytes on the stream"}
		}

		if int(binary.BigEndian.Uint16(s)) != len(s)-2 {
			return &pexp{reject: fmt.Sprintf("length prefix %d, %d bytes follow before FIN", binary.BigEndian.Uint16(s), len(s)-2)}
		}

		return singleExp(s[2:])
	default:
		return streamModel(bt.stream())
	}
}

// streamModel delimits the frames of a TCP / DoT byte stream.
func streamModel(s []byte) (px *pexp) {
	px = &pexp{}
	for len(s) > 0 {
		if len(s) < 2 {
			px.incomplete = true

			break
		}

		l := int(binary.BigEndian.Uint16(s))
		if len(s) < 2+l {
			px.incomplete = true

			break
		}

		msg := s[2 : 2+l]
		ex := modelOf(msg)
		// Once the server is documented to close the stream, later frames
		// may or may not be served.
		px.frames = append(px.frames, &frameExp{exp: ex, sent: msg, must: ex.wantsAnswer()})
		if !ex.wantsAnswer() {
			px.closes = true
		}

		s = s[2+l:]
	}

	if px.closes {
		// Frames are served concurrently (pipelining) and the frame that
		// cannot be served makes the server close the connection at once, so
		// the answers to the frames before it may be lost as well.
		for _, f := range px.frames {
			f.must = false
		}
	}

	return px
}

// ---------------------------------------------------------------------------
// Observations.
// ---------------------------------------------------------------------------

type observation struct {
	// answers are the DNS messages that came back for the probe.
	answers [][]byte
	// end is how the exchange ended apart from the answers: "answered",
	// "no-answer" (nothing within the wait; indefinite), "closed", "http-N",
	// "quic-KIND-CODE", "infra".
	end string
	// detail is a rendering for witnesses.
	detail string
	// retried: an answer that the documentation promises arrived only after
	// the probe had been sent again.
	retried bool
}

func (o *observation) infra() (ok bool) { return o.end == "infra" }

// driver is one client path bound to one bench.  A driver is used by one
// goroutine.
type driver interface {
	// other sends one well-formed message of other traffic and returns the
	// response, if any.
	other(w []byte) (raw []byte, ok bool)
	// probe sends the probe.
	probe(bt *built, px *pexp) (o observation)
	close()
}

// instance is one set of listeners serving one path: a transport bench, or a
// plain-DNS server behind a bind-to-device interface listener.
type instance struct {
	b   *tbench.Bench
	btd *btdInstance
}

func startInstance(p *pathDef) (in *instance, err error) {
	if p.btd {
		btd, bErr := startBTD()
		if bErr != nil {
			return nil, bErr
		}

		return &instance{btd: btd}, nil
	}

	b, err := tbench.Start(benchConfig(p.server))
	if err != nil {
		return nil, err
	}

	return &instance{b: b}, nil
}

func (in *instance) close() {
	if in.btd != nil {
		in.btd.close()
	}

	if in.b != nil {
		_ = in.b.Close()
	}
}

func (in *instance) udpAddr() (addr string) {
	if in.btd != nil {
		return in.btd.addr
	}

	return in.b.UDPAddr
}

func newDriver(e *env, p *pathDef, in *instance) (d driver, err error) {
	b := in.b
	switch p.name {
	case "udp", "udp-btd":
		return &udpDriver{e: e, addr: in.udpAddr(), path: p.name}, nil
	case "tcp":
		return &streamDriver{e: e, b: b, path: p.name}, nil
	case "dot":
		return &streamDriver{e: e, b: b, tls: true, path: p.name}, nil
	case "doq":
		return &doqDriver{e: e, b: b, path: p.name}, nil
	case "doh-post":
		c, cErr := b.NewHTTPClient(tbench.HTTP2)
		if cErr != nil {
			return nil, cErr
		}

		return &dohDriver{e: e, c: c, path: p.name}, nil
	case "doh-get":
		c, cErr := b.NewHTTPClient(tbench.HTTPPlain)
		if cErr != nil {
			return nil, cErr
		}

		return &dohDriver{e: e, c: c, get: true, path: p.name}, nil
	default:
		return nil, fmt.Errorf("unknown path %q", p.name)
	}
}

// --- UDP --------------------------------------------------------------------

type udpDriver struct {
	e    *env
	addr string
	path string

	// late holds sockets of recent probes; a response that arrives after the
	// exchange was judged is still seen when the socket is retired.
	late []*lateSock
	// onLate judges a late datagram.
	onLate func(ls *lateSock, raw []byte)
	// kind is the layout of the next sentinel.
	kind warmKind
}

type lateSock struct {
	c    *tbench.UDPClient
	bt   *built
	px   *pexp
	meta map[string]any
	// otherID is the ID of the sentinel sent from this socket.
	otherID [2]byte
}

const lateRing = 48

func (d *udpDriver) other(w []byte) (raw []byte, ok bool) {
	for attempt := 0; attempt < d.e.attempts(d.path); attempt++ {
		c, err := tbench.DialUDP(d.addr)
		if err != nil {
			d.e.infraFailure("udp-dial", err.Error())

			continue
		}

		res := c.Exchange(w, d.e.wait(d.path), 0)
		_ = c.Close()
		if res.Outcome == tbench.Answered {
			return res.Responses[0], true
		}

		d.e.missed(d.path)
	}

	return nil, false
}

func (d *udpDriver) probe(bt *built, px *pexp) (o observation) {
	c, err := tbench.DialUDP(d.addr)
	if err != nil {
		d.e.infraFailure("udp-dial", err.Error())

		return observation{end: "infra", detail: err.Error()}
	}

	if err = c.Send(bt.msg); err != nil {
		_ = c.Close()
		d.e.infraFailure("udp-send", err.Error())

		return observation{end: "infra", detail: err.Error()}
	}

	if px.mustCount() > 0 {
		n := d.e.attempts(d.path)
		for attempt := 0; attempt < n; attempt++ {
			dg, rErr := c.Recv(d.e.wait(d.path))
			if rErr == nil {
				o.answers = append(o.answers, dg)
				o.retried = attempt > 0

				break
			}

			d.e.missed(d.path)
			if attempt < n-1 {
				_ = c.Send(bt.msg)
			}
		}
	}

	// The sentinel: a well-formed message of other traffic from the same
	// socket.  When its answer is back the server has had its chance to
	// answer the probe.
	w := d.e.nextWarm(d.kind)
	gotOther := false
	for attempt := 0; attempt < d.e.attempts(d.path) && !gotOther; attempt++ {
		if err = c.Send(w); err != nil {
			break
		}

		for {
			dg, rErr := c.Recv(d.e.wait(d.path))
			if rErr != nil {
				d.e.missed(d.path)

				break
			}

			if len(dg) >= 2 && dg[0] == w[0] && dg[1] == w[1] {
				gotOther = true
				d.e.judgeOther(d.path, "after-probe/"+warmKindNames[d.kind], w, dg)

				break
			}

			o.answers = append(o.answers, dg)
		}
	}

	if !gotOther {
		d.e.infraFailure("udp-sentinel", "no answer to the sentinel")
	}

	for {
		dg, rErr := c.Recv(d.e.graceWait)
		if rErr != nil {
			break
		}

		if len(dg) >= 2 && dg[0] == w[0] && dg[1] == w[1] {
			continue
		}

		o.answers = append(o.answers, dg)
	}

	o.end = "no-answer"
	if len(o.answers) > 0 {
		o.end = "answered"
	}
	o.detail = fmt.Sprintf("%s, %d datagram(s)", o.end, len(o.answers))

	d.late = append(d.late, &lateSock{c: c, bt: bt, px: px, otherID: [2]byte{w[0], w[1]}})
	if len(d.late) > lateRing {
		d.retire(d.late[0])
		d.late = d.late[1:]
	}

	return o
}

// setMeta attaches the description of the last probe to its socket, for the
// witness of a late response.
func (d *udpDriver) setMeta(meta map[string]any) {
	if len(d.late) > 0 {
		d.late[len(d.late)-1].meta = meta
	}
}

func (d *udpDriver) retire(ls *lateSock) {
	for {
		dg, err := ls.c.Recv(time.Millisecond)
		if err != nil {
			break
		}

		if len(dg) >= 2 && dg[0] == ls.otherID[0] && dg[1] == ls.otherID[1] {
			// A duplicate answer to a retransmitted sentinel.
			continue
		}

		if d.onLate != nil {
			d.onLate(ls, dg)
		}
	}

	_ = ls.c.Close()
}

func (d *udpDriver) close() {
	for _, ls := range d.late {
		d.retire(ls)
	}
	d.late = nil
}

// --- TCP / DoT --------------------------------------------------------------

type streamDriver struct {
	e   *env
	b   *tbench.Bench
	cur *tbench.StreamClient
	// side is the connection of another client that performs a complete
	// exchange while a segmented probe is pausing between two segments.
	side *tbench.StreamClient
	path string
	tls  bool
	// alone: no other client ever talks to the listener (fresh instance).
	alone bool
}

func (d *streamDriver) conn() (c *tbench.StreamClient, err error) {
	if d.cur != nil {
		return d.cur, nil
	}

	for attempt := 0; attempt < 3; attempt++ {
		if d.tls {
			c, err = d.b.DialDoT()
		} else {
			c, err = d.b.DialTCP()
		}

		if err == nil {
			d.cur = c

			return c, nil
		}

		d.e.infraFailure("stream-dial", err.Error())
		time.Sleep(20 * time.Millisecond)
	}

	return nil, err
}

func (d *streamDriver) drop() {
	if d.cur != nil {
		_ = d.cur.Close()
		d.cur = nil
	}
}

func (d *streamDriver) other(w []byte) (raw []byte, ok bool) {
	for attempt := 0; attempt < d.e.attempts(d.path); attempt++ {
		c, err := d.conn()
		if err != nil {
			return nil, false
		}

		res := c.Exchange(w, d.e.wait(d.path))
		if res.Outcome == tbench.Answered {
			return res.Responses[0], true
		}

		if res.Outcome == tbench.Timeout {
			d.e.missed(d.path)
		}

		d.drop()
	}

	return nil, false
}

func (d *streamDriver) probe(bt *built, px *pexp) (o observation) {
	for attempt := 0; attempt < d.e.attempts(d.path); attempt++ {
		o = d.probeOnce(bt, px)
		if o.infra() {
			continue
		}

		// A promised answer that did not come within the wait although the
		// connection stayed open: send the probe again on a new connection
		// rather than taking the silence for an observation.
		if o.end == "no-answer" && len(o.answers) < px.mustCount() {
			d.e.missed(d.path)

			continue
		}

		o.retried = attempt > 0

		return o
	}

	return o
}

func (d *streamDriver) probeOnce(bt *built, px *pexp) (o observation) {
	c, err := d.conn()
	if err != nil {
		return observation{end: "infra", detail: err.Error()}
	}

	segs := bt.segs
	if segs == nil {
		segs = []seg{{data: tbench.Frame(bt.msg)}}
	}

	writeClosed := false
	for _, s := range segs {
		if len(s.data) > 0 {
			if err = c.WriteRaw(s.data); err != nil {
				// The server may legitimately have closed already.
				writeClosed = true

				break
			}
		}

		if s.pause > 0 {
			// In the middle of the pause another client makes a complete
			// exchange on its own connection.
			time.Sleep(s.pause / 2)
			d.sideExchange()
			time.Sleep(s.pause / 2)
		}
	}

	mustLeft := px.mustCount()
	for {
		var wait time.Duration
		switch {
		case mustLeft > 0:
			wait = d.e.wait(d.path)
		case px.closes && len(o.answers) == 0:
			// The server is documented to close the stream; that normally
			// happens at once.
			wait = min(d.e.closeWait, d.e.wait(d.path))
		case px.closes:
			wait = d.e.graceWait
		case px.incomplete:
			wait = d.e.tailWait
		default:
			wait = d.e.graceWait
		}

		payload, partial, rErr := c.ReadFrame(wait)
		if rErr == nil {
			o.answers = append(o.answers, payload)
			if mustLeft > 0 {
				mustLeft--
			}

			continue
		}

		switch {
		case errors.Is(rErr, tbench.ErrClosed):
			o.end = "closed"
		case errors.Is(rErr, tbench.ErrTimeout):
			o.end = "no-answer"
			if px.closes && len(o.answers) == 0 && mustLeft == 0 {
				// Neither an answer nor the documented close.
				d.e.missed(d.path)
			}
		default:
			o.end = "closed"
			o.detail = rErr.Error()
		}

		if len(partial) > 0 {
			o.detail += " partial=" + hex.EncodeToString(partial)
		}

		break
	}

	keep := o.end == "no-answer" && !px.closes && !px.incomplete && mustLeft == 0 && !writeClosed
	if !keep {
		d.drop()
	}

	if len(o.answers) > 0 && o.end == "no-answer" && mustLeft == 0 {
		o.end = "answered"
	}

	o.detail = fmt.Sprintf("%s, %d frame(s) %s", o.end, len(o.answers), o.detail)

	return o
}

// sideExchange performs one exchange of other traffic on the side connection
// and judges the answer on its own bytes.
func (d *streamDriver) sideExchange() {
	if d.alone {
		return
	}

	for attempt := 0; attempt < 2; attempt++ {
		if d.side == nil {
			var err error
			if d.tls {
				d.side, err = d.b.DialDoT()
			} else {
				d.side, err = d.b.DialTCP()
			}

			if err != nil {
				d.side = nil
				d.e.infraFailure("stream-dial", err.Error())

				return
			}
		}

		w := d.e.nextWarm(warmSame)
		res := d.side.Exchange(w, d.e.wait(d.path))
		if res.Outcome == tbench.Answered {
			d.e.judgeOther(d.path, "other-client-during-segment-pause", w, res.Responses[0])

			return
		}

		_ = d.side.Close()
		d.side = nil
	}
}

func (d *streamDriver) close() {
	d.drop()
	if d.side != nil {
		_ = d.side.Close()
		d.side = nil
	}
}

// --- DoQ --------------------------------------------------------------------

type doqDriver struct {
	e    *env
	b    *tbench.Bench
	cur  *tbench.QUICClient
	side *tbench.QUICClient
	path string
	// alone: no other client ever talks to the listener (fresh instance).
	alone bool
}

func (d *doqDriver) conn() (c *tbench.QUICClient, err error) {
	if d.cur != nil && d.cur.Alive() {
		return d.cur, nil
	}

	d.drop()
	for attempt := 0; attempt < 3; attempt++ {
		c, err = d.b.DialDoQ()
		if err == nil {
			d.cur = c

			return c, nil
		}

		d.e.infraFailure("doq-dial", err.Error())
		time.Sleep(20 * time.Millisecond)
	}

	return nil, err
}

func (d *doqDriver) drop() {
	if d.cur != nil {
		_ = d.cur.Close()
		d.cur = nil
	}
}

func (d *doqDriver) other(w []byte) (raw []byte, ok bool) {
	for attempt := 0; attempt < d.e.attempts(d.path); attempt++ {
		c, err := d.conn()
		if err != nil {
			return nil, false
		}

		res := c.Exchange(w, d.e.wait(d.path))
		if res.Outcome == tbench.Answered && len(res.Responses) > 0 {
			return res.Responses[0], true
		}

		if res.Outcome == tbench.Timeout {
			d.e.missed(d.path)
		}

		d.drop()
	}

	return nil, false
}

func (d *doqDriver) probe(bt *built, px *pexp) (o observation) {
	for attempt := 0; attempt < d.e.attempts(d.path); attempt++ {
		o = d.probeOnce(bt)
		if o.infra() || (o.end == "no-answer" && len(o.answers) < px.mustCount()) {
			if !o.infra() {
				d.e.missed(d.path)
			}
			d.drop()

			continue
		}

		o.retried = attempt > 0

		return o
	}

	return o
}

func (d *doqDriver) probeOnce(bt *built) (o observation) {
	c, err := d.conn()
	if err != nil {
		return observation{end: "infra", detail: err.Error()}
	}

	var res tbench.Result
	if len(bt.segs) > 1 {
		res = doqSegmented(c, bt.segs, d.e.wait(d.path), func() {
			// Another client's complete exchange (own connection) while the
			// probe's stream is half written.
			if d.alone {
				return
			}

			if d.side == nil || !d.side.Alive() {
				var dErr error
				d.side, dErr = d.b.DialDoQ()
				if dErr != nil {
					d.side = nil

					return
				}
			}

			w := d.e.nextWarm(warmSame)
			sr := d.side.Exchange(w, d.e.wait(d.path))
			if sr.Outcome == tbench.Answered && len(sr.Responses) > 0 {
				d.e.judgeOther(d.path, "other-client-during-segment-pause", w, sr.Responses[0])
			}
		})
	} else {
		res = c.ExchangeRaw(bt.stream(), true, d.e.wait(d.path))
	}

	o.answers = res.Responses
	o.detail = res.String()
	switch res.Outcome {
	case tbench.Answered:
		o.end = "answered"
	case tbench.Closed:
		o.end = "closed"
	case tbench.QUICError:
		o.end = fmt.Sprintf("quic-%s-%d", res.QUICKind, res.QUICCode)
		d.drop()
	case tbench.Timeout:
		o.end = "no-answer"
		d.drop()
	default:
		// A stream that cannot be opened because the server has just closed
		// the connection after the previous probe is a client-side matter.
		o.end = "infra"
		d.e.infraFailure("doq-exchange", res.Err)
		d.drop()
	}

	return o
}

// doqSegmented writes the stream bytes in several parts with pauses, sends
// FIN and reads the stream to its end.  (tbench writes a stream in one piece.)
func doqSegmented(c *tbench.QUICClient, segs []seg, wait time.Duration, during func()) (res tbench.Result) {
	ctx, cancel := context.WithTimeout(context.Background(), wait)
	defer cancel()

	stream, err := c.Conn().OpenStreamSync(ctx)
	if err != nil {
		return doqErr(err, nil)
	}

	_ = stream.SetDeadline(time.Now().Add(wait))
	for _, s := range segs {
		if len(s.data) > 0 {
			if _, err = stream.Write(s.data); err != nil {
				stream.CancelRead(0)

				return doqErr(err, nil)
			}
		}

		if s.pause > 0 {
			time.Sleep(s.pause / 2)
			during()
			time.Sleep(s.pause / 2)
		}
	}

	if err = stream.Close(); err != nil {
		stream.CancelRead(0)

		return doqErr(err, nil)
	}

	data, err := io.ReadAll(stream)
	if err != nil {
		return doqErr(err, data)
	}

	frames, rest := tbench.SplitFrames(data)
	res = tbench.Result{Outcome: tbench.Answered, Responses: frames, Trailing: rest}
	if len(frames) == 0 {
		res.Outcome = tbench.Closed
	}

	return res
}

func doqErr(err error, data []byte) (res tbench.Result) {
	res = tbench.Result{Outcome: tbench.QUICError, Err: err.Error()}
	res.Responses, res.Trailing = tbench.SplitFrames(data)

	var (
		appErr    *quic.ApplicationError
		streamErr *quic.StreamError
		trErr     *quic.TransportError
		idleErr   *quic.IdleTimeoutError
	)

	switch {
	case errors.As(err, &appErr):
		res.QUICKind, res.QUICCode, res.QUICRemote = "application", uint64(appErr.ErrorCode), appErr.Remote
	case errors.As(err, &streamErr):
		res.QUICKind, res.QUICCode, res.QUICRemote = "stream", uint64(streamErr.ErrorCode), streamErr.Remote
	case errors.As(err, &trErr):
		res.QUICKind, res.QUICCode, res.QUICRemote = "transport", uint64(trErr.ErrorCode), trErr.Remote
	case errors.As(err, &idleErr):
		res.QUICKind = "idle-timeout"
	case errors.Is(err, context.DeadlineExceeded):
		res.Outcome = tbench.Timeout
	default:
		var ne interface{ Timeout() bool }
		if errors.As(err, &ne) && ne.Timeout() {
			res.Outcome = tbench.Timeout
		} else {
			res.QUICKind = "other"
		}
	}

	return res
}

func (d *doqDriver) close() {
	d.drop()
	if d.side != nil {
		_ = d.side.Close()
		d.side = nil
	}
}

// --- DoH --------------------------------------------------------------------

type dohDriver struct {
	e    *env
	c    *tbench.HTTPClient
	path string
	get  bool
}

func (d *dohDriver) send(bt *built) (res tbench.Result) {
	switch {
	case d.get && bt.rawDNSParam != nil:
		return d.c.GetRawQuery(dnsserver.PathDoH, "dns="+*bt.rawDNSParam, d.e.wait(d.path))
	case d.get:
		return d.c.Get(bt.msg, d.e.wait(d.path))
	default:
		return d.c.Post(bt.msg, d.e.wait(d.path))
	}
}

func (d *dohDriver) other(w []byte) (raw []byte, ok bool) {
	for attempt := 0; attempt < d.e.attempts(d.path); attempt++ {
		res := d.send(&built{msg: w})
		if res.Outcome == tbench.Answered && len(res.Responses) == 1 {
			return res.Responses[0], true
		}
	}

	return nil, false
}

func (d *dohDriver) probe(bt *built, _ *pexp) (o observation) {
	for attempt := 0; attempt < d.e.attempts(d.path); attempt++ {
		res := d.send(bt)
		o = observation{answers: res.Responses, detail: res.String(), retried: attempt > 0}
		switch res.Outcome {
		case tbench.Answered:
			o.end = "answered"
			if len(res.Responses) == 0 {
				o.end = "http-200-without-dns-message"
			}

			return o
		case tbench.HTTPStatus:
			o.end = fmt.Sprintf("http-%d", res.HTTPStatus)

			return o
		default:
			o.end = "infra"
			d.e.infraFailure("doh-request", res.Err)
			if res.Outcome == tbench.Timeout {
				d.e.missed(d.path)
			}
		}
	}

	return o
}

func (d *dohDriver) close() { d.c.Close() }
