package c06

import (
	"encoding/binary"
	"fmt"
	"math/rand/v2"
	"time"

	"github.com/AdguardTeam/AdGuardDNS/verif/tbench"
	"github.com/miekg/dns"
)

// seg is one write on a stream, followed by a pause.
type seg struct {
	data  []byte
	pause time.Duration
}

// built is a probe rendered with a concrete ID.
type built struct {
	// msg is the DNS payload for the transports that carry exactly one message
	// per request (UDP datagram, DoH body / dns parameter) and the payload of
	// the honest frame on stream transports when segs is nil.
	msg []byte
	// segs, if not nil, are the exact stream bytes (framing included) for
	// TCP / DoT / DoQ.
	segs []seg
	// rawDNSParam, if not nil, is the exact text of the dns= parameter.
	rawDNSParam *string
}

func (b *built) stream() (all []byte) {
	if b.segs == nil {
		return tbench.Frame(b.msg)
	}

	for _, s := range b.segs {
		all = append(all, s.data...)
	}

	return all
}

// probe is one short or inconsistent (or, as a control, well-formed) input.
type probe struct {
	build  func(id uint16) built
	family string
	desc   string
	// only restricts the probe to one group of paths: "" (all), "stream"
	// (tcp, dot), "doq", "doh-get".
	only string
}

// shape describes the base message of a run: everything derived from the seed.
type shape struct {
	labels [][]byte // labels of the base name (hex alphabet), last is "test"
	long   [][]byte // labels of a long well-formed probe name
}

func hexLabel(rng *rand.Rand, n int) (l []byte) {
	l = make([]byte, n)
	for i := range l {
		l[i] = "0123456789abcdef"[rng.IntN(16)]
	}
	// Never start with a digit-only ambiguity; purely cosmetic.
	l[0] = "abcdef"[rng.IntN(6)]

	return l
}

func newShape(rng *rand.Rand) (s *shape) {
	s = &shape{}
	s.labels = [][]byte{hexLabel(rng, 5+rng.IntN(6)), hexLabel(rng, 5+rng.IntN(6)), []byte("test")}
	s.long = [][]byte{hexLabel(rng, 30+rng.IntN(20)), hexLabel(rng, 30+rng.IntN(20)), hexLabel(rng, 8), []byte("test")}

	return s
}

func (s *shape) baseName() (name []byte) { return tbench.WireName(s.labels...) }

// base renders the well-formed base query B.
func (s *shape) base(id uint16) (msg []byte) {
	q := tbench.QuerySpec{ID: id, Flags: tbench.FlagRD, Name: s.baseName(), QType: dns.TypeA, QClass: dns.ClassINET}

	return q.Wire()
}

// baseOPT renders B with an OPT record.
func (s *shape) baseOPT(id uint16) (msg []byte) {
	q := tbench.QuerySpec{
		ID: id, Flags: tbench.FlagRD, Name: s.baseName(), QType: dns.TypeA, QClass: dns.ClassINET,
		OPT: &tbench.OPTSpec{UDPSize: 1232},
	}

	return q.Wire()
}

// longQuery renders a longer well-formed query in the probe alphabet.
func (s *shape) longQuery(id uint16) (msg []byte) {
	q := tbench.QuerySpec{ID: id, Flags: tbench.FlagRD, Name: tbench.WireName(s.long...), QType: dns.TypeAAAA, QClass: dns.ClassINET}

	return q.Wire()
}

func single(f func(id uint16) []byte) (b func(id uint16) built) {
	return func(id uint16) built { return built{msg: f(id)} }
}

// genericProbes are sent over every path.
func genericProbes(s *shape) (ps []*probe) {
	baseLen := len(s.base(1))
	optLen := len(s.baseOPT(1))

	for k := 0; k < baseLen; k++ {
		ps = append(ps, &probe{
			family: "truncated",
			desc:   fmt.Sprintf("base query (%d bytes) cut at offset %d", baseLen, k),
			build:  single(func(id uint16) []byte { return s.base(id)[:k] }),
		})
	}

	for k := baseLen; k < optLen; k++ {
		ps = append(ps, &probe{
			family: "truncated-in-opt",
			desc:   fmt.Sprintf("base query with OPT (%d bytes, ARCOUNT=1) cut at offset %d", optLen, k),
			build:  single(func(id uint16) []byte { return s.baseOPT(id)[:k] }),
		})
	}

	for _, c := range [][4]uint16{
		{2, 0, 0, 0}, {3, 0, 0, 0}, {65535, 0, 0, 0},
		{1, 1, 0, 0}, {1, 2, 0, 0}, {1, 65535, 0, 0},
		{1, 0, 1, 0}, {1, 0, 65535, 0},
		{1, 0, 0, 1}, {1, 0, 0, 2}, {1, 0, 0, 65535},
		{1, 1, 1, 1}, {65535, 65535, 65535, 65535},
	} {
		ps = append(ps, &probe{
			family: "count-inflation",
			desc:   fmt.Sprintf("complete base query carrying one question and no records, header counts %v", c),
			build:  single(func(id uint16) []byte { return tbench.WithHeader(s.base(id), tbench.FlagRD, c) }),
		})
	}

	// One record present, two declared.
	ownRR := func() []byte {
		return tbench.RawRR([]byte{0xc0, 12}, dns.TypeA, dns.ClassINET, 30, []byte{198, 51, 100, 7})
	}
	for _, c := range [][4]uint16{{1, 2, 0, 0}, {1, 1, 1, 0}, {1, 1, 0, 3}} {
		ps = append(ps, &probe{
			family: "count-inflation",
			desc:   fmt.Sprintf("base query carrying one answer record, header counts %v", c),
			build: single(func(id uint16) []byte {
				q := tbench.QuerySpec{
					ID: id, Flags: tbench.FlagRD, Name: s.baseName(), QType: dns.TypeA, QClass: dns.ClassINET,
					Answer: [][]byte{ownRR()}, Counts: &c,
				}

				return q.Wire()
			}),
		})
	}

	for _, c := range [][4]uint16{{1, 0, 0, 0}, {1, 1, 0, 0}, {0, 0, 0, 0}, {0, 1, 0, 1}} {
		ps = append(ps, &probe{
			family: "header-only",
			desc:   fmt.Sprintf("12-byte header only, counts %v", c),
			build:  single(func(id uint16) []byte { return tbench.WithHeader(s.base(id)[:12], tbench.FlagRD, c) }),
		})
	}

	// Names that end in a compression pointer to or beyond the end.
	ptrProbe := func(desc string, name func(total int) []byte) {
		ps = append(ps, &probe{
			family: "pointer-beyond",
			desc:   desc,
			build: single(func(id uint16) []byte {
				// The length of the message does not depend on the pointer
				// value, so render once to learn it.
				n := len((&tbench.QuerySpec{Name: name(0), QType: 1, QClass: 1}).Wire())
				q := tbench.QuerySpec{ID: id, Flags: tbench.FlagRD, Name: name(n), QType: dns.TypeA, QClass: dns.ClassINET}

				return q.Wire()
			}),
		})
	}
	ptr := func(off int) []byte { return []byte{0xc0 | byte(off>>8), byte(off)} }
	lbl := append([]byte{byte(len(s.labels[0]))}, s.labels[0]...)
	ptrProbe("name = one label + pointer to the first byte after the message", func(n int) []byte {
		return append(append([]byte(nil), lbl...), ptr(n)...)
	})
	ptrProbe("name = one label + pointer 12 bytes beyond the message (where another message's name would lie)", func(n int) []byte {
		return append(append([]byte(nil), lbl...), ptr(n+12)...)
	})
	ptrProbe("name = pointer to offset 12 + length of the message (beyond)", func(n int) []byte { return ptr(n + 12) })
	ptrProbe("name = one label + pointer to offset 0x3fff", func(int) []byte {
		return append(append([]byte(nil), lbl...), ptr(0x3fff)...)
	})

	ps = append(ps, &probe{
		family: "label-overrun",
		desc:   "last label announces 20 bytes, 3 are present, message ends",
		build: single(func(id uint16) []byte {
			m := s.base(id)[:12]
			m = append(m, lbl...)
			m = append(m, 20, 'a', 'b', 'c')

			return m
		}),
	}, &probe{
		family: "label-overrun",
		desc:   "only label announces 63 bytes, 5 are present, message ends",
		build: single(func(id uint16) []byte {
			m := s.base(id)[:12]
			m = append(m, 63, 'a', 'b', 'c', 'd', 'e')

			return m
		}),
	}, &probe{
		family: "rdata-overrun",
		desc:   "answer record announces 200 bytes of rdata, 4 are present",
		build: single(func(id uint16) []byte {
			rr := tbench.RawRR([]byte{0xc0, 12}, dns.TypeTXT, dns.ClassINET, 30, []byte{3, 'a', 'b', 'c'})
			binary.BigEndian.PutUint16(rr[10:], 200)
			q := tbench.QuerySpec{
				ID: id, Flags: tbench.FlagRD, Name: s.baseName(), QType: dns.TypeA, QClass: dns.ClassINET,
				Answer: [][]byte{rr},
			}

			return q.Wire()
		}),
	}, &probe{
		family: "rdata-overrun",
		desc:   "answer record cut in the middle of its TTL",
		build: single(func(id uint16) []byte {
			q := tbench.QuerySpec{
				ID: id, Flags: tbench.FlagRD, Name: s.baseName(), QType: dns.TypeA, QClass: dns.ClassINET,
				Answer: [][]byte{ownRR()},
			}
			w := q.Wire()

			return w[:len(w)-8]
		}),
	})

	// Complete, consistent EDNS queries that are longer than the base query and
	// than most other traffic: a receive buffer that has shrunk to an earlier,
	// shorter message cuts them.  The first one has the question of the base
	// query, so a cut at the length of the base query falls exactly between
	// the question and the OPT record.
	//
	// The totals go beyond the initial size of every pooled read buffer (512
	// bytes for the UDP and TCP/DoT buffers): exactly 512, 513 and on to 4000
	// bytes, so that a pooled buffer which has to grow again after a short
	// message is exercised as well.
	overhead := len(s.baseOPT(1)) + 4
	pads := []int{-1, 0, 7, 60, 200, 380}
	for _, total := range []int{512, 513, 700, 1500, 4000} {
		pads = append(pads, total-overhead)
	}

	for _, pad := range pads {
		ps = append(ps, &probe{
			family: "longer-edns",
			desc: fmt.Sprintf("complete base query with OPT (DO set), padding option of %d bytes (-1: no option), %d bytes in all",
				pad, max(overhead+pad, overhead-4)),
			build: single(func(id uint16) []byte {
				opt := &tbench.OPTSpec{UDPSize: 1232, DO: true}
				if pad >= 0 {
					opt.Options = []tbench.Option{{Code: tbench.OptPadding, Data: make([]byte, pad)}}
				}
				q := tbench.QuerySpec{
					ID: id, Flags: tbench.FlagRD, Name: s.baseName(), QType: dns.TypeA, QClass: dns.ClassINET, OPT: opt,
				}

				return q.Wire()
			}),
		})
	}

	// Controls: complete, consistent messages.
	ps = append(ps, &probe{
		family: "control", desc: "complete base query", build: single(s.base),
	}, &probe{
		family: "control", desc: "complete base query with OPT", build: single(s.baseOPT),
	}, &probe{
		family: "control", desc: "complete long query", build: single(s.longQuery),
	})

	return ps
}

// streamProbes exercise the 2-byte framing and segmented delivery (TCP, DoT).
func streamProbes(s *shape, pause time.Duration) (ps []*probe) {
	n := len(s.base(1))

	for _, d := range []int{1, 24, 65535 - n} {
		ps = append(ps, &probe{
			family: "prefix-larger", only: "stream",
			desc: fmt.Sprintf("complete base query (%d bytes) announced as %d bytes, nothing follows", n, n+d),
			build: func(id uint16) built {
				return built{segs: []seg{{data: tbench.FrameWithPrefix(uint16(n+d), s.base(id))}}}
			},
		})
	}

	ps = append(ps, &probe{
		family: "prefix-larger", only: "stream",
		desc: fmt.Sprintf("complete base query announced 8 bytes too long, followed at once by an honest frame"),
		build: func(id uint16) built {
			raw := tbench.FrameWithPrefix(uint16(n+8), s.base(id))
			raw = append(raw, tbench.Frame(s.longQuery(id^0x0101))...)

			return built{segs: []seg{{data: raw}}}
		},
	})

	for _, p := range []int{n - 1, n - 4, n - 5, 12, 11, 1, 0} {
		ps = append(ps, &probe{
			family: "prefix-smaller", only: "stream",
			desc: fmt.Sprintf("complete base query (%d bytes) announced as %d bytes", n, p),
			build: func(id uint16) built {
				return built{segs: []seg{{data: tbench.FrameWithPrefix(uint16(p), s.base(id))}}}
			},
		})
	}

	split := func(msg func(id uint16) []byte, cuts ...int) func(id uint16) built {
		return func(id uint16) built {
			raw := tbench.Frame(msg(id))
			var segs []seg
			prev := 0
			for _, c := range cuts {
				c = min(c, len(raw))
				segs = append(segs, seg{data: raw[prev:c], pause: pause})
				prev = c
			}
			segs = append(segs, seg{data: raw[prev:]})

			return built{segs: segs}
		}
	}

	for _, cuts := range [][]int{{14}, {2}, {1}, {22}, {14, 24}, {2 + n - 1}} {
		ps = append(ps, &probe{
			family: "segmented", only: "stream",
			desc:  fmt.Sprintf("honest frame of the complete base query delivered in segments cut at stream offsets %v with pauses", cuts),
			build: split(s.base, cuts...),
		})
	}

	ps = append(ps, &probe{
		family: "segmented", only: "stream",
		desc:  "honest frame of the complete long query: prefix and header first, the rest later",
		build: split(s.longQuery, 14),
	}, &probe{
		family: "segmented", only: "stream",
		desc:  "honest frame of the complete long query in three segments",
		build: split(s.longQuery, 14, 60),
	}, &probe{
		family: "segmented", only: "stream",
		desc:  "honest frame of a truncated (undecodable) base query: prefix and header first, the rest later",
		build: split(func(id uint16) []byte { return s.base(id)[:n-7] }, 14),
	})

	for _, k := range []int{14, 22, 2, 1} {
		ps = append(ps, &probe{
			family: "segmented-rest-never", only: "stream",
			desc: fmt.Sprintf("honest frame of the complete base query: the first %d stream bytes arrive, the rest never", k),
			build: func(id uint16) built {
				return built{segs: []seg{{data: tbench.Frame(s.base(id))[:k]}}}
			},
		})
	}

	ps = append(ps, &probe{
		family: "segmented-rest-never", only: "stream",
		desc: "honest frame of the complete long query: prefix and header arrive, the rest never",
		build: func(id uint16) built {
			return built{segs: []seg{{data: tbench.Frame(s.longQuery(id))[:14]}}}
		},
	})

	return ps
}

// doqProbes exercise the DoQ stream framing.
func doqProbes(s *shape, pause time.Duration) (ps []*probe) {
	n := len(s.base(1))

	for _, p := range []int{n + 1, n - 1, 0, 65535, n + 24, 12} {
		ps = append(ps, &probe{
			family: "doq-wrong-prefix", only: "doq",
			desc: fmt.Sprintf("complete base query (%d bytes) announced as %d bytes, FIN", n, p),
			build: func(id uint16) built {
				return built{segs: []seg{{data: tbench.FrameWithPrefix(uint16(p), s.base(id))}}}
			},
		})
	}

	ps = append(ps, &probe{
		family: "doq-wrong-prefix", only: "doq",
		desc: "header-only message (QDCOUNT=1) announced as the length of a complete query, FIN",
		build: func(id uint16) built {
			return built{segs: []seg{{data: tbench.FrameWithPrefix(uint16(n), s.base(id)[:12])}}}
		},
	})

	for _, c := range []int{14, 1, 2 + n - 3} {
		ps = append(ps, &probe{
			family: "doq-segmented", only: "doq",
			desc: fmt.Sprintf("honest complete base query written to the stream in two parts cut at stream offset %d, then FIN", c),
			build: func(id uint16) built {
				raw := tbench.Frame(s.base(id))

				return built{segs: []seg{{data: raw[:c], pause: pause}, {data: raw[c:]}}}
			},
		})
	}

	ps = append(ps, &probe{
		family: "doq-segmented", only: "doq",
		desc: "honest header-only message (QDCOUNT=1) written in two parts, then FIN",
		build: func(id uint16) built {
			raw := tbench.Frame(tbench.WithHeader(s.base(id)[:12], tbench.FlagRD, [4]uint16{1, 0, 0, 0}))

			return built{segs: []seg{{data: raw[:5], pause: pause}, {data: raw[5:]}}}
		},
	})

	return ps
}

// dohGetProbes exercise the decoding of the dns= parameter.
func dohGetProbes(s *shape) (ps []*probe) {
	full := len(tbench.Base64URL(s.base(1)))

	for _, k := range []int{full - 1, full - 2, full - 3, full - 4, 16, 17, 15, 2, 1, 0} {
		ps = append(ps, &probe{
			family: "doh-get-short-param", only: "doh-get",
			desc: fmt.Sprintf("dns= parameter (%d characters for the complete base query) cut to %d characters", full, k),
			build: func(id uint16) built {
				t := tbench.Base64URL(s.base(id))[:k]

				return built{rawDNSParam: &t}
			},
		})
	}

	ps = append(ps, &probe{
		family: "doh-get-short-param", only: "doh-get",
		desc: "dns= parameter of the header-only message with padding characters",
		build: func(id uint16) built {
			t := tbench.Base64URL(s.base(id)[:13]) + "%3D%3D"

			return built{rawDNSParam: &t}
		},
	})

	return ps
}

// ---------------------------------------------------------------------------
// Other traffic (warm-up, sentinels): well-formed, long, recognisable.
// ---------------------------------------------------------------------------

// warmKind selects the layout of one message of other traffic.
type warmKind int

const (
	// warmSame: same label lengths and total length as the base query.
	warmSame warmKind = iota
	// warmRecords: warmSame followed by one answer, one authority and one
	// additional record with explicit owner names.
	warmRecords
	// warmLong: a long name.
	warmLong
	// warmSameOPT: warmSame with an OPT record.
	warmSameOPT
)

var warmKindNames = [...]string{"same-shape", "same-shape+records", "long-name", "same-shape+opt"}

// warmGen produces other traffic.  Each message has a distinct name and ID.
type warmGen struct {
	s *shape
	n uint32
}

// warmID returns an ID whose high byte is in the warm alphabet.
func warmID(n uint32) (id uint16) { return uint16("wxyz"[n&3])<<8 | uint16(n>>2&0xff) }

func (g *warmGen) name(n uint32) (name []byte) {
	var labels [][]byte
	for i, l := range g.s.labels {
		labels = append(labels, warmLabel(n*7+uint32(i)*0x9e37, len(l)))
	}

	return tbench.WireName(labels...)
}

func warmRR(n uint32, rrtype uint16) (rr []byte) {
	owner := tbench.WireName(warmLabel(n*13+1, 12), warmLabel(n, 4))
	var rdata []byte
	switch rrtype {
	case dns.TypeTXT:
		txt := warmLabel(n*17+5, 24)
		rdata = append([]byte{byte(len(txt))}, txt...)
	default:
		rrtype = dns.TypeA
		rdata = []byte{'w', 'x', 'y', 'z'}
	}

	return tbench.RawRR(owner, rrtype, dns.ClassINET, 0x77787978, rdata)
}

// msg renders message number n of the given kind.  The generator itself is
// stateless apart from the counter, so concurrent users take numbers first.
func (g *warmGen) msg(n uint32, kind warmKind) (wire []byte) {
	q := tbench.QuerySpec{ID: warmID(n), Flags: tbench.FlagRD, Name: g.name(n), QType: dns.TypeA, QClass: dns.ClassINET}
	switch kind {
	case warmRecords:
		q.Answer = [][]byte{warmRR(n, dns.TypeTXT)}
		q.Ns = [][]byte{warmRR(n+1, dns.TypeA)}
		q.Extra = [][]byte{warmRR(n+2, dns.TypeTXT)}
	case warmLong:
		q.Name = tbench.WireName(warmLabel(n*3+1, 40), warmLabel(n*5+2, 37), warmLabel(n*11+3, 50), warmLabel(n, 8))
		q.QType = dns.TypeTXT
	case warmSameOPT:
		q.OPT = &tbench.OPTSpec{UDPSize: 0x7778}
	}

	return q.Wire()
}
