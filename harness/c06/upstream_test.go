package c06

import (
	"context"
	"encoding/binary"
	"encoding/hex"
	"errors"
	"fmt"
	"io"
	"net"
	"net/netip"
	"os"
	"strings"
	"sync"
	"time"

	"github.com/AdguardTeam/AdGuardDNS/internal/dnsserver/forward"
	"github.com/AdguardTeam/AdGuardDNS/verif/tbench"
	"github.com/miekg/dns"
)

// ---------------------------------------------------------------------------
// Scripted stub DNS server: for each question name the exact bytes to send
// back over UDP and over TCP.
// ---------------------------------------------------------------------------

type stubReply struct {
	// udp is the exact datagram.
	udp []byte
	// tcp is the exact stream bytes, length prefix included.
	tcp []byte
	// tcpCuts, if not empty, are the stream offsets at which tcp is cut into
	// separate writes with a pause between them.
	tcpCuts []int
	// tcpClose makes the stub close the connection after writing tcp.
	tcpClose bool
}

// stubPause is the pause between two segments of a segmented reply.
const stubPause = 12 * time.Millisecond

type stub struct {
	udp  *net.UDPConn
	tcp  net.Listener
	addr netip.AddrPort

	mu      sync.Mutex
	replies map[string]*stubReply
	conns   map[net.Conn]struct{}
	closed  bool

	wg sync.WaitGroup
}

func newStub() (s *stub, err error) {
	for attempt := 0; attempt < 50; attempt++ {
		var l net.Listener
		l, err = net.Listen("tcp", "127.0.0.1:0")
		if err != nil {
			continue
		}

		ap := netip.MustParseAddrPort(l.Addr().String())
		var pc *net.UDPConn
		pc, err = net.ListenUDP("udp", net.UDPAddrFromAddrPort(ap))
		if err != nil {
			_ = l.Close()

			continue
		}

		s = &stub{udp: pc, tcp: l, addr: ap, replies: map[string]*stubReply{}, conns: map[net.Conn]struct{}{}}
		s.wg.Add(2)
		go s.serveUDP()
		go s.serveTCP()

		return s, nil
	}

	return nil, fmt.Errorf("no port free on both udp and tcp: %w", err)
}

func (s *stub) set(name string, r *stubReply) {
	s.mu.Lock()
	s.replies[strings.ToLower(name)] = r
	s.mu.Unlock()
}

func (s *stub) unset(name string) {
	s.mu.Lock()
	delete(s.replies, strings.ToLower(name))
	s.mu.Unlock()
}

func (s *stub) lookup(req []byte) (r *stubReply) {
	m := &dns.Msg{}
	if err := m.Unpack(req); err != nil || len(m.Question) != 1 {
		return nil
	}

	s.mu.Lock()
	defer s.mu.Unlock()

	return s.replies[strings.ToLower(m.Question[0].Name)]
}

func (s *stub) serveUDP() {
	defer s.wg.Done()

	buf := make([]byte, 65536)
	for {
		n, from, err := s.udp.ReadFromUDPAddrPort(buf)
		if err != nil {
			return
		}

		if r := s.lookup(buf[:n]); r != nil && r.udp != nil {
			_, _ = s.udp.WriteToUDPAddrPort(r.udp, from)
		}
	}
}

func (s *stub) serveTCP() {
	defer s.wg.Done()

	for {
		c, err := s.tcp.Accept()
		if err != nil {
			return
		}

		s.mu.Lock()
		if s.closed {
			s.mu.Unlock()
			_ = c.Close()

			return
		}
		s.conns[c] = struct{}{}
		s.mu.Unlock()

		s.wg.Add(1)
		go s.serveConn(c)
	}
}

func (s *stub) serveConn(c net.Conn) {
	defer s.wg.Done()
	defer func() {
		_ = c.Close()
		s.mu.Lock()
		delete(s.conns, c)
		s.mu.Unlock()
	}()

	for {
		var l [2]byte
		if _, err := io.ReadFull(c, l[:]); err != nil {
			return
		}

		req := make([]byte, binary.BigEndian.Uint16(l[:]))
		if _, err := io.ReadFull(c, req); err != nil {
			return
		}

		r := s.lookup(req)
		if r == nil || r.tcp == nil {
			return
		}

		prev := 0
		for _, cut := range r.tcpCuts {
			cut = min(cut, len(r.tcp))
			if _, err := c.Write(r.tcp[prev:cut]); err != nil {
				return
			}

			prev = cut
			time.Sleep(stubPause)
		}

		if _, err := c.Write(r.tcp[prev:]); err != nil || r.tcpClose {
			return
		}
	}
}

func (s *stub) close() {
	s.mu.Lock()
	s.closed = true
	for c := range s.conns {
		_ = c.Close()
	}
	s.mu.Unlock()

	_ = s.udp.Close()
	_ = s.tcp.Close()
	s.wg.Wait()
}

// ---------------------------------------------------------------------------
// Reply cases.
// ---------------------------------------------------------------------------

// upCase is one scripted reply to be judged.
type upCase struct {
	// build renders the reply for a request (id, wire-format name): the UDP
	// datagram / honest TCP payload, or, if stream is not nil, the exact TCP
	// stream bytes.
	build  func(id uint16, name []byte) (payload []byte, stream []byte)
	family string
	desc   string
	// tcpCuts: deliver the TCP reply in segments cut at these stream offsets.
	tcpCuts []int
	// tcpOnly: the case is about the TCP framing.
	tcpOnly bool
}

const upFlags = tbench.FlagQR | tbench.FlagRD | tbench.FlagRA

// upBase is the complete, consistent reply: the question and two records in
// the probe alphabet.
func upBase(id uint16, name []byte) (msg []byte) {
	q := tbench.QuerySpec{
		ID: id, Flags: upFlags, Name: name, QType: dns.TypeA, QClass: dns.ClassINET,
		Answer: [][]byte{
			tbench.RawRR([]byte{0xc0, 12}, dns.TypeA, dns.ClassINET, 30, []byte{198, 51, 100, 7}),
			tbench.RawRR([]byte{0xc0, 12}, dns.TypeTXT, dns.ClassINET, 30, append([]byte{10}, "0123456789"...)),
		},
	}

	return q.Wire()
}

// upBare is the reply with the question only.
func upBare(id uint16, name []byte) (msg []byte) {
	q := tbench.QuerySpec{ID: id, Flags: upFlags, Name: name, QType: dns.TypeA, QClass: dns.ClassINET}

	return q.Wire()
}

func upstreamCases(nameLen int) (cs []*upCase) {
	probeName := make([]byte, nameLen)
	full := len(upBase(1, probeName))
	bare := len(upBare(1, probeName))

	for _, k := range []int{0, 5, 11} {
		cs = append(cs, &upCase{
			family: "reply-truncated", desc: fmt.Sprintf("complete reply (%d bytes, 2 answers) cut at offset %d", full, k),
			build: func(id uint16, name []byte) ([]byte, []byte) { return upBase(id, name)[:k], nil },
		})
	}

	for k := 12; k < full; k++ {
		cs = append(cs, &upCase{
			family: "reply-truncated", desc: fmt.Sprintf("complete reply (%d bytes, 2 answers) cut at offset %d", full, k),
			build: func(id uint16, name []byte) ([]byte, []byte) { return upBase(id, name)[:k], nil },
		})
	}

	for _, c := range [][4]uint16{
		{1, 3, 0, 0}, {1, 65535, 0, 0}, {1, 2, 1, 0}, {1, 2, 65535, 0}, {1, 2, 0, 1}, {1, 2, 0, 2}, {1, 2, 0, 65535}, {1, 3, 1, 1},
	} {
		cs = append(cs, &upCase{
			family: "reply-count-inflation", desc: fmt.Sprintf("complete reply carrying 2 answers, header counts %v", c),
			build: func(id uint16, name []byte) ([]byte, []byte) {
				return tbench.WithHeader(upBase(id, name), upFlags, c), nil
			},
		})
	}

	for _, c := range [][4]uint16{{1, 1, 0, 0}, {1, 2, 0, 0}, {1, 0, 1, 0}, {1, 0, 0, 1}, {1, 1, 1, 1}, {1, 65535, 0, 0}} {
		cs = append(cs, &upCase{
			family: "reply-count-inflation", desc: fmt.Sprintf("reply carrying the question and no record (%d bytes), header counts %v", bare, c),
			build: func(id uint16, name []byte) ([]byte, []byte) {
				return tbench.WithHeader(upBare(id, name), upFlags, c), nil
			},
		})
	}

	cs = append(cs, &upCase{
		family: "reply-control", desc: "complete, consistent reply with 2 answers",
		build: func(id uint16, name []byte) ([]byte, []byte) { return upBase(id, name), nil },
	}, &upCase{
		family: "reply-control", desc: "complete, consistent reply with no records",
		build: func(id uint16, name []byte) ([]byte, []byte) { return upBare(id, name), nil },
	})

	for _, cuts := range [][]int{{14}, {32}, {1}, {2}, {2 + full - 5}, {14, 40}} {
		cs = append(cs, &upCase{
			family: "reply-tcp-segmented", tcpOnly: true, tcpCuts: cuts,
			desc:  fmt.Sprintf("complete, consistent reply delivered in segments cut at stream offsets %v with pauses", cuts),
			build: func(id uint16, name []byte) ([]byte, []byte) { return upBase(id, name), nil },
		})
	}

	for _, d := range []int{1, 30, 4000} {
		cs = append(cs, &upCase{
			family: "reply-tcp-prefix-larger", tcpOnly: true,
			desc: fmt.Sprintf("complete reply announced %d bytes longer than the body, then the stub closes", d),
			build: func(id uint16, name []byte) ([]byte, []byte) {
				m := upBase(id, name)

				return m, tbench.FrameWithPrefix(uint16(len(m)+d), m)
			},
		})
	}

	for _, p := range []int{full - 1, full - 11, bare, bare + 7, 17, 12} {
		cs = append(cs, &upCase{
			family: "reply-tcp-prefix-smaller", tcpOnly: true,
			desc: fmt.Sprintf("complete reply (%d bytes, 2 answers) announced as %d bytes", full, p),
			build: func(id uint16, name []byte) ([]byte, []byte) {
				m := upBase(id, name)

				return m, tbench.FrameWithPrefix(uint16(p), m)
			},
		})
	}

	return cs
}

// warmReply is a normal reply with recognisable records (other traffic).
func warmReply(id uint16, name []byte, n uint32) (msg []byte) {
	txt := func(k uint32, l int) []byte {
		t := warmLabel(k, l)

		return append([]byte{byte(len(t))}, t...)
	}
	q := tbench.QuerySpec{
		ID: id, Flags: upFlags, Name: name, QType: dns.TypeA, QClass: dns.ClassINET,
		Answer: [][]byte{
			tbench.RawRR([]byte{0xc0, 12}, dns.TypeA, dns.ClassINET, 0x77787978, []byte{'w', 'x', 'y', 'z'}),
			tbench.RawRR(tbench.WireName(warmLabel(n*3, 20), warmLabel(n, 4)), dns.TypeTXT, dns.ClassINET, 0x77787978, txt(n*5, 60)),
			tbench.RawRR([]byte{0xc0, 12}, dns.TypeTXT, dns.ClassINET, 0x77787978, txt(n*7, 90)),
		},
		Ns:    [][]byte{tbench.RawRR(tbench.WireName(warmLabel(n*11, 16)), dns.TypeTXT, dns.ClassINET, 0x77787978, txt(n*13, 40))},
		Extra: [][]byte{tbench.RawRR(tbench.WireName(warmLabel(n*17, 16)), dns.TypeA, dns.ClassINET, 0x77787978, []byte{'z', 'y', 'x', 'w'})},
	}

	return q.Wire()
}

// ---------------------------------------------------------------------------
// The phase.
// ---------------------------------------------------------------------------

type upResult struct {
	class    string
	detail   string
	problems bool
	timedOut bool
}

func isTimeoutErr(err error) (ok bool) {
	if err == nil {
		return false
	}

	if errors.Is(err, context.DeadlineExceeded) || errors.Is(err, os.ErrDeadlineExceeded) {
		return true
	}

	var ne net.Error

	return errors.As(err, &ne) && ne.Timeout()
}

// upOwn is what a correct reader makes of the reply on the given network.
type upOwn struct {
	msg          *dns.Msg
	err          string
	payload      []byte
	extSensitive bool
}

func upOwnBytes(payload, stream []byte) (o *upOwn) {
	o = &upOwn{payload: payload}
	if stream != nil {
		l := int(binary.BigEndian.Uint16(stream))
		if len(stream)-2 < l {
			o.err = fmt.Sprintf("length prefix %d, only %d bytes follow before the stream ends", l, len(stream)-2)
			o.payload = stream[2:]
			o.extSensitive = true

			return o
		}

		o.payload = stream[2 : 2+l]
	}

	o.extSensitive = extensionSensitive(o.payload)
	if len(o.payload) < 12 {
		o.err = "shorter than a header"

		return o
	}

	m := &dns.Msg{}
	if err := m.Unpack(o.payload); err != nil {
		o.err = err.Error()

		return o
	}

	o.msg = m

	return o
}

func msgBody(m *dns.Msg) (s string) {
	// Everything the caller can see.
	return m.String()
}

func (e *env) upstreamPhase(si int, label string, reps int) {
	st, err := newStub()
	if err != nil {
		e.infraFailure("stub-start", err.Error())

		return
	}
	defer st.close()

	probeLabels := [][]byte{make([]byte, 8), e.s.labels[1], []byte("test")}
	nameLen := len(tbench.WireName(probeLabels...))
	cases := upstreamCases(nameLen)
	upReps := max(reps/2, 2)

	wg := &sync.WaitGroup{}
	for _, network := range []forward.Network{forward.NetworkUDP, forward.NetworkTCP} {
		wg.Add(1)
		go func() {
			defer wg.Done()
			e.upstreamNetwork(st, network, cases, probeLabels, si, label, upReps)
		}()
	}
	wg.Wait()
}

func (e *env) upstreamNetwork(
	st *stub, network forward.Network, cases []*upCase, probeLabels [][]byte, si int, label string, reps int,
) {
	newUps := func() *forward.UpstreamPlain {
		return forward.NewUpstreamPlain(&forward.UpstreamPlainConfig{Network: network, Address: st.addr, Timeout: 5 * time.Second})
	}

	var applicable []*upCase
	for _, c := range cases {
		if !c.tcpOnly || network == forward.NetworkTCP {
			applicable = append(applicable, c)
		}
	}

	// exchange performs one scripted exchange through ups.
	probeExchange := func(ups *forward.UpstreamPlain, c *upCase) (own *upOwn, resp *dns.Msg, uniq string, xErr error, wit map[string]any) {
		// One counter for both networks: the stub is shared, and so must be
		// the name space.
		n := e.upSeq.Add(1)

		id := e.ids.get()
		labels := [][]byte{[]byte(fmt.Sprintf("%s%07x", string("abcdef"[n%6]), n&0xfffffff)), probeLabels[1], probeLabels[2]}
		wname := tbench.WireName(labels...)
		pname := tbench.PresentationName(wname)

		payload, stream := c.build(id, wname)
		rep := &stubReply{udp: payload, tcp: tbench.Frame(payload)}
		if stream != nil {
			rep.tcp = stream
		}
		// A reply that is not a complete, honest exchange ends the
		// connection, so that no bytes are left over for the next exchange.
		rep.tcpClose = true
		rep.tcpCuts = c.tcpCuts
		st.set(pname, rep)
		defer st.unset(pname)

		own = upOwnBytes(payload, stream)

		req := &dns.Msg{}
		req.SetQuestion(pname, dns.TypeA)
		req.Id = id

		ctx, cancel := context.WithTimeout(context.Background(), e.upstreamWait(network))
		defer cancel()
		var nw forward.Network
		started := time.Now()
		resp, nw, xErr = ups.Exchange(ctx, req)
		if time.Since(started) > 2*time.Second {
			// The stub answers at once; an exchange that takes seconds is
			// waiting for bytes that will never come.
			e.missed("upstream-" + string(network))
		}
		uniq = string(labels[0])

		wit = map[string]any{
			"network": string(network), "case_family": c.family, "case": c.desc, "phase": label,
			"request_name": pname, "request_id": id, "answered_over": string(nw),
		}
		if stream != nil {
			wit["reply_stream_hex"] = hex.EncodeToString(stream)
		} else {
			wit["reply_hex"] = hex.EncodeToString(payload)
		}
		if own.msg != nil {
			wit["reply_own_bytes_decode_to"] = msgBody(own.msg)
		} else {
			wit["reply_own_bytes_do_not_decode"] = own.err
		}
		if xErr != nil {
			wit["exchange_error"] = xErr.Error()
		}
		if resp != nil {
			wit["exchange_response"] = msgBody(resp)
		}

		return own, resp, uniq, xErr, wit
	}

	// judgeExchange is the own-bytes oracle for one exchange.
	judgeExchange := func(own *upOwn, resp *dns.Msg, xErr error, wit map[string]any, checkStale bool, uniq string) (res upResult) {
		res.class = "error"
		if xErr == nil {
			res.class = "ok"
			if resp != nil {
				// Without the first line (it holds the ID) and with the
				// per-exchange label of the name replaced.
				body := strings.Join(strings.Split(msgBody(resp), "\n")[1:], "\n")
				res.class = "ok: " + strings.ReplaceAll(body, uniq, "UNIQ")
			}
		}
		res.detail = res.class
		if xErr != nil {
			res.detail = "error: " + xErr.Error()
		}

		var problem string
		switch {
		case xErr == nil && resp == nil:
			problem = "Exchange returned neither a response nor an error"
		case xErr == nil && own.msg == nil:
			problem = "the reply's own bytes do not decode (" + own.err + "), yet Exchange returned a response without error"
		case xErr == nil && msgBody(resp) != msgBody(own.msg):
			problem = "Exchange returned a response that differs from what the reply's own bytes decode to"
		}

		if resp != nil && checkStale {
			if s := findStale([]byte(msgBody(resp))); s != "" {
				wit["other_traffic_bytes_in_response"] = s
				if problem == "" {
					problem = "the response handed to the caller contains bytes of an earlier reply or request: " + s
				}
			}
		}

		if problem == "" {
			return res
		}

		res.problems = true
		key := "upstream:response-differs-from-reply-bytes"
		if own.extSensitive {
			key = "upstream:reply-decoded-beyond-its-own-bytes"
		}
		wit["problem"] = problem
		wit["extension_sensitive"] = own.extSensitive
		e.violation(key, problem, wit)

		return res
	}

	warmExchange := func(ups *forward.UpstreamPlain) {
		for attempt := 0; attempt < 3; attempt++ {
			n := e.warmN.Add(1)
			id := warmID(n)
			wname := e.gen.name(n)
			pname := tbench.PresentationName(wname)
			payload := warmReply(id, wname, n)
			st.set(pname, &stubReply{udp: payload, tcp: tbench.Frame(payload)})

			req := &dns.Msg{}
			req.SetQuestion(pname, dns.TypeA)
			req.Id = id

			ctx, cancel := context.WithTimeout(context.Background(), e.upstreamWait(network))
			started := time.Now()
			resp, _, xErr := ups.Exchange(ctx, req)
			cancel()
			if time.Since(started) > 2*time.Second {
				e.missed("upstream-" + string(network))
			}
			st.unset(pname)

			if xErr != nil {
				// The connection of the previous scripted reply was closed
				// by the stub; the next attempt uses a new one.
				e.r.Bucket("upstream_warm_exchange_retried", 1)

				continue
			}

			e.r.Bucket("upstream_warm_exchanges", 1)
			own := upOwnBytes(payload, nil)
			wit := map[string]any{"network": string(network), "case": "normal reply with recognisable records (warm-up)",
				"reply_hex": hex.EncodeToString(payload), "request_name": pname}
			if resp != nil {
				wit["exchange_response"] = msgBody(resp)
			}
			judgeExchange(own, resp, nil, wit, false, "-")

			return
		}

		e.infraFailure("upstream-warm", "three warm-up exchanges in a row failed")
	}

	// Fresh: a new UpstreamPlain per case.
	fresh := make([]upResult, len(applicable))
	for i, c := range applicable {
		ups := newUps()
		own, resp, uniq, xErr, wit := probeExchange(ups, c)
		wit["instance"] = "fresh (new UpstreamPlain, first exchange)"
		fresh[i] = judgeExchange(own, resp, xErr, wit, true, uniq)
		fresh[i].timedOut = isTimeoutErr(xErr)
		e.accountUpstream(network, c, own, xErr, fresh[i].problems, "fresh", label)
		_ = ups.Close()
	}

	// Warmed: one UpstreamPlain; concurrent warm-up first, then each case
	// preceded by a normal exchange.
	ups := newUps()
	defer func() { _ = ups.Close() }()

	wwg := &sync.WaitGroup{}
	for g := 0; g < 6; g++ {
		wwg.Add(1)
		go func() {
			defer wwg.Done()
			for i := 0; i < 4; i++ {
				warmExchange(ups)
			}
		}()
	}
	wwg.Wait()

	for rep := 0; rep < reps; rep++ {
		order := e.r.Rand("upstream-order/"+string(network)+"/"+label, si*100+rep).Perm(len(applicable))
		for _, idx := range order {
			c := applicable[idx]
			warmExchange(ups)
			own, resp, uniq, xErr, wit := probeExchange(ups, c)
			wit["instance"] = "warmed"
			wit["repetition"] = rep
			res := judgeExchange(own, resp, xErr, wit, true, uniq)
			e.accountUpstream(network, c, own, xErr, res.problems, "warmed", label)

			if e.degraded("upstream-" + string(network)) {
				continue
			}

			if isTimeoutErr(xErr) || fresh[idx].timedOut {
				// The stub answers at once; a timeout is the machine, not an
				// outcome to compare.
				e.r.Bucket("ambiguous:upstream-exchange-timed-out", 1)

				continue
			}

			e.r.Bucket("upstream_differential", 1)
			if res.class != fresh[idx].class && !res.problems && !fresh[idx].problems {
				wit["outcome_warmed"] = res.detail
				wit["outcome_fresh"] = fresh[idx].detail
				key := "upstream:warmed-differs-from-fresh"
				if own.extSensitive {
					key = "upstream:reply-decoded-beyond-its-own-bytes"
				}
				e.violation(key,
					"the same reply is treated differently by an UpstreamPlain that has made exchanges before and by a new one", wit)
			}
		}
	}
}

// upstreamWait bounds one exchange; see env.wait.
func (e *env) upstreamWait(network forward.Network) (d time.Duration) {
	if e.degraded("upstream-" + string(network)) {
		return 300 * time.Millisecond
	}

	return 10 * time.Second
}

func (e *env) accountUpstream(network forward.Network, c *upCase, own *upOwn, xErr error, bad bool, inst, label string) {
	ownClass := "reply-decodable"
	if own.msg == nil {
		ownClass = "reply-undecodable"
	}

	e.r.Eval(fmt.Sprintf("upstream-%s|%s|%s|%s|%s", network, c.family, ownClass, inst, label), true)
	e.r.Bucket("upstream_judged:"+string(network), 1)
	e.r.Bucket("judged_family:"+c.family, 1)
	switch {
	case bad:
		e.r.Bucket("upstream_own_bytes_oracle_refuted", 1)
	case xErr == nil && own.msg != nil:
		e.r.Bucket("upstream_ok_equal_to_own_bytes", 1)
		if c.family == "reply-control" {
			e.r.Bucket("upstream_control_ok_equal_to_own_bytes", 1)
		}
	case xErr != nil && own.msg == nil:
		e.r.Bucket("upstream_error_for_undecodable_reply", 1)
	case xErr != nil:
		e.r.Bucket("upstream_error_for_decodable_reply", 1)
	}
}
