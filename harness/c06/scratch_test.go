package c06

import (
	"context"
	"fmt"
	"testing"
	"time"

	"github.com/AdguardTeam/AdGuardDNS/internal/dnsserver"
	"github.com/AdguardTeam/AdGuardDNS/verif/tbench"
	"github.com/miekg/dns"
)

func TestScratch(t *testing.T) {
	h := dnsserver.HandlerFunc(func(ctx context.Context, rw dnsserver.ResponseWriter, req *dns.Msg) error {
		resp := (&dns.Msg{}).SetReply(req)
		return rw.WriteMsg(ctx, req, resp)
	})
	for i := 0; i < 5; i++ {
		t0 := time.Now()
		b, err := tbench.Start(tbench.Config{Handler: h, Only: []tbench.Server{tbench.SrvDNS, tbench.SrvDoT, tbench.SrvDoH, tbench.SrvDoHPlain, tbench.SrvDoQ}})
		if err != nil {
			t.Fatal(err)
		}
		t1 := time.Now()
		q, err := b.DialDoQ()
		if err != nil {
			t.Fatal(err)
		}
		res := q.Exchange(tbench.SimpleQuery(1, "a.b.", 1, 1), 2*time.Second)
		t2 := time.Now()
		q.Close()
		s, _ := b.DialDoT()
		res2 := s.Exchange(tbench.SimpleQuery(1, "a.b.", 1, 1), 2*time.Second)
		s.Close()
		t3 := time.Now()
		b.Close()
		t4 := time.Now()
		fmt.Println("start", t1.Sub(t0), "doq", t2.Sub(t1), res.Outcome, "dot", t3.Sub(t2), res2.Outcome, "close", t4.Sub(t3))
	}
	base := tbench.SimpleQuery(0x1234, "abcd.ef.", 1, 1)
	for cut := 0; cut <= len(base); cut++ {
		m := &dns.Msg{}
		err := m.Unpack(base[:cut])
		fmt.Println(cut, err, len(m.Question))
	}
	for _, c := range [][4]uint16{{1, 1, 0, 0}, {1, 0, 0, 1}, {2, 0, 0, 0}, {0, 0, 0, 0}} {
		m := &dns.Msg{}
		w := tbench.WithHeader(base, tbench.FlagRD, c)
		err := m.Unpack(w)
		fmt.Println(c, err, len(m.Question), len(m.Answer), len(m.Extra))
	}
}
