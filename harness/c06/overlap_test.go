package c06

import (
	"encoding/hex"
	"errors"
	"fmt"
	"math/rand/v2"
	"sync"
	"time"

	"github.com/AdguardTeam/AdGuardDNS/verif/tbench"
	"github.com/miekg/dns"
)

// ovMsg is one message of an overlap burst; every client's messages are judged
// on their own bytes, and every response must belong to a message of the
// client that received it.
type ovMsg struct {
	exp  *expectation
	kind string
	wire []byte
}

// overlapMsg renders the j-th message of a client.
func (e *env) overlapMsg(rng *rand.Rand, allowUndecodable bool) (m *ovMsg) {
	id := e.ids.get()
	first := hexLabel(rng, 8+rng.IntN(20))
	kind := "well-formed"
	switch rng.IntN(10) {
	case 0, 1, 2:
		first = append([]byte(slowLabel), first...)
		kind = "well-formed-slow-handler"
	}

	q := tbench.QuerySpec{
		ID: id, Flags: tbench.FlagRD, QType: dns.TypeA, QClass: dns.ClassINET,
		Name: tbench.WireName(first, hexLabel(rng, 6+rng.IntN(30)), []byte("test")),
	}
	wire := q.Wire()

	switch rng.IntN(10) {
	case 0, 1:
		wire = tbench.WithHeader(wire[:12], tbench.FlagRD, [4]uint16{1, 0, 0, 0})
		kind = "header-only"
	case 2:
		wire = tbench.WithHeader(wire, tbench.FlagRD, [4]uint16{1, 1, 0, 0})
		kind = "count-inflation"
	case 3:
		if allowUndecodable {
			wire = wire[:14+rng.IntN(len(wire)-20)]
			kind = "truncated"
		}
	}

	return &ovMsg{wire: wire, kind: kind, exp: modelOf(wire)}
}

// judgeOverlap judges one response received by a client whose messages are
// msgs.
func (e *env) judgeOverlap(path, label string, msgs []*ovMsg, raw []byte, round int) {
	e.r.Bucket("overlap_responses_judged:"+path, 1)

	var m *ovMsg
	for _, c := range msgs {
		if len(raw) >= 2 && raw[0] == c.wire[0] && raw[1] == c.wire[1] {
			m = c

			break
		}
	}

	foreign := m == nil
	if foreign {
		m = msgs[0]
	}

	e.r.Eval(fmt.Sprintf("%s|overlap|%s|%s|%s", path, m.kind, m.exp.kind, label), true)
	resp, ps := judge(m.exp, m.wire, raw, true)
	if len(ps) == 0 {
		return
	}

	var sent []string
	for _, c := range msgs {
		sent = append(sent, hex.EncodeToString(c.wire))
	}

	wit := map[string]any{
		"path": path, "phase": "overlap burst, " + label, "round": round,
		"response_hex": hex.EncodeToString(raw), "problems": problemTexts(ps),
		"this_clients_messages_hex": sent,
	}
	if foreign {
		wit["note"] = "the ID of the response is the ID of none of the messages this client sent"
	} else {
		wit["answered_message_hex"] = hex.EncodeToString(m.wire)
		wit["answered_message_kind"] = m.kind
	}
	if resp != nil {
		wit["response"] = resp.String()
	}

	key := keyFor(path, m.exp, ps)
	if !foreign {
		key = keyOf(path, m.exp, ps, m.wire, raw, wit)
	}

	e.violation(key, "overlap burst: "+ps[0].what, wit)
}

func countMust(msgs []*ovMsg) (n int) {
	for _, m := range msgs {
		if m.exp.wantsAnswer() {
			n++
		}
	}

	return n
}

func (e *env) overlapPhase(si int, label string) {
	b, err := tbench.Start(benchConfig(tbench.SrvDNS, tbench.SrvDoT, tbench.SrvDoQ, tbench.SrvDoH))
	if err != nil {
		e.infraFailure("bench-start", err.Error())

		return
	}
	defer func() { _ = b.Close() }()

	wg := &sync.WaitGroup{}
	for _, f := range []func(){
		func() { e.overlapUDP(b, si, label) },
		func() { e.overlapStream(b, si, label, false) },
		func() { e.overlapStream(b, si, label, true) },
		func() { e.overlapDoQ(b, si, label) },
		func() { e.overlapDoH(b, si, label) },
	} {
		wg.Add(1)
		go func() {
			defer wg.Done()
			f()
		}()
	}
	wg.Wait()
}

// overlapUDP: many sockets, datagrams written back to back in one tight loop
// (client A's datagram is followed at once by client B's), many in flight.
func (e *env) overlapUDP(b *tbench.Bench, si int, label string) {
	rounds := e.r.N(30, 150)
	const clients, perClient = 12, 6

	for round := 0; round < rounds; round++ {
		rng := e.r.Rand("overlap-udp/"+label, si*1000+round)

		socks := make([]*tbench.UDPClient, 0, clients)
		for c := 0; c < clients; c++ {
			s, err := b.DialUDP()
			if err != nil {
				e.infraFailure("udp-dial", err.Error())

				continue
			}

			socks = append(socks, s)
		}

		msgs := make([][]*ovMsg, len(socks))
		for c := range socks {
			for j := 0; j < perClient; j++ {
				msgs[c] = append(msgs[c], e.overlapMsg(rng, true))
			}
		}

		for j := 0; j < perClient; j++ {
			for c, s := range socks {
				_ = s.Send(msgs[c][j].wire)
			}
		}

		// One deadline for the whole round.
		deadline := time.Now().Add(e.wait("udp"))
		wantAll, gotAll := 0, 0
		for c, s := range socks {
			want := countMust(msgs[c])
			got := 0
			for got < want && time.Now().Before(deadline) {
				dg, err := s.Recv(time.Until(deadline))
				if err != nil {
					break
				}

				got++
				e.judgeOverlap("udp", label, msgs[c], dg, round)
			}

			for {
				dg, err := s.Recv(e.graceWait)
				if err != nil {
					break
				}

				got++
				e.judgeOverlap("udp", label, msgs[c], dg, round)
			}

			if got < want {
				// Datagrams may be lost in a burst; that is not this
				// property's subject.
				e.r.Bucket("overlap_udp_unanswered", int64(want-got))
			}

			wantAll += want
			gotAll += min(got, want)
			_ = s.Close()
		}

		if gotAll < wantAll {
			// Loss in a burst of this size on the loopback interface is not
			// expected from a healthy listener; if it keeps happening the
			// path is driven with short waits (and the run is inconclusive
			// unless a violation explains it).
			e.missed("udp")
		}
	}
}

// overlapStream: several connections at once, each writes all its frames in
// one write (pipelined) and reads the answers.
func (e *env) overlapStream(b *tbench.Bench, si int, label string, tls bool) {
	path := "tcp"
	if tls {
		path = "dot"
	}

	rounds := e.r.N(24, 120)
	const conns, perConn = 4, 12

	for round := 0; round < rounds; round++ {
		wg := &sync.WaitGroup{}
		for c := 0; c < conns; c++ {
			rng := e.r.Rand("overlap-"+path+"/"+label, (si*1000+round)*16+c)
			wg.Add(1)
			go func() {
				defer wg.Done()

				var sc *tbench.StreamClient
				var err error
				if tls {
					sc, err = b.DialDoT()
				} else {
					sc, err = b.DialTCP()
				}
				if err != nil {
					e.infraFailure("stream-dial", err.Error())

					return
				}
				defer func() { _ = sc.Close() }()

				var msgs []*ovMsg
				var raw []byte
				for j := 0; j < perConn; j++ {
					// An undecodable frame makes the server close the
					// stream; keep it for the last position only.
					m := e.overlapMsg(rng, j == perConn-1)
					msgs = append(msgs, m)
					raw = append(raw, tbench.Frame(m.wire)...)
				}

				if err = sc.WriteRaw(raw); err != nil {
					e.infraFailure("stream-write", err.Error())

					return
				}

				want := countMust(msgs)
				for got := 0; ; got++ {
					wait := e.wait(path)
					if got >= want {
						wait = e.graceWait
					}

					payload, _, rErr := sc.ReadFrame(wait)
					if rErr != nil {
						if got < want {
							e.r.Bucket("overlap_"+path+"_unanswered", int64(want-got))
							if errors.Is(rErr, tbench.ErrTimeout) {
								e.missed(path)
							}
						}

						return
					}

					e.judgeOverlap(path, label, msgs, payload, round)
				}
			}()
		}
		wg.Wait()
	}
}

// overlapDoQ: concurrent streams on several connections.
func (e *env) overlapDoQ(b *tbench.Bench, si int, label string) {
	rounds := e.r.N(12, 80)
	const conns, perConn = 4, 16

	for round := 0; round < rounds; round++ {
		wg := &sync.WaitGroup{}
		for c := 0; c < conns; c++ {
			rng := e.r.Rand("overlap-doq/"+label, (si*1000+round)*16+c)
			qc, err := b.DialDoQ()
			if err != nil {
				e.infraFailure("doq-dial", err.Error())

				continue
			}

			var msgs []*ovMsg
			for j := 0; j < perConn; j++ {
				// An undecodable message makes the server abort the whole
				// connection; none here.
				msgs = append(msgs, e.overlapMsg(rng, false))
			}

			cwg := &sync.WaitGroup{}
			for _, m := range msgs {
				cwg.Add(1)
				wg.Add(1)
				go func() {
					defer wg.Done()
					defer cwg.Done()

					res := qc.Exchange(m.wire, e.wait("doq"))
					for _, raw := range res.Responses {
						// Each stream carries one message: the response
						// must answer exactly that one.
						e.judgeOverlap("doq", label, []*ovMsg{m}, raw, round)
					}
				}()
			}

			go func() {
				cwg.Wait()
				_ = qc.Close()
			}()
		}
		wg.Wait()
	}
}

// overlapDoH: concurrent POST requests over one HTTP/2 connection.
func (e *env) overlapDoH(b *tbench.Bench, si int, label string) {
	hc, err := b.NewHTTPClient(tbench.HTTP2)
	if err != nil {
		e.infraFailure("doh-client", err.Error())

		return
	}
	defer hc.Close()

	rounds := e.r.N(10, 60)
	const perRound = 24

	for round := 0; round < rounds; round++ {
		rng := e.r.Rand("overlap-doh/"+label, si*1000+round)
		wg := &sync.WaitGroup{}
		for j := 0; j < perRound; j++ {
			m := e.overlapMsg(rng, true)
			wg.Add(1)
			go func() {
				defer wg.Done()

				res := hc.Post(m.wire, e.wait("doh-post"))
				for _, raw := range res.Responses {
					e.judgeOverlap("doh-post", label, []*ovMsg{m}, raw, round)
				}
			}()
		}
		wg.Wait()
	}
}
