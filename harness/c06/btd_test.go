package c06

import (
	"context"
	"errors"
	"fmt"
	"io"
	"log/slog"
	"net"
	"net/netip"
	"os"
	"sync/atomic"
	"time"

	"github.com/AdguardTeam/AdGuardDNS/internal/agdtest"
	"github.com/AdguardTeam/AdGuardDNS/internal/bindtodevice"
	"github.com/AdguardTeam/AdGuardDNS/internal/dnsserver"
)

// The bind-to-device receive path: a real bindtodevice.Manager with an
// interface listener on "lo" (SO_BINDTODEVICE, needs CAP_NET_RAW) feeds a real
// ServerDNS through the ListenConfig it hands out.  The datagram is first read
// into a pooled body of the interface listener and then copied into the pooled
// buffer of the server.

// btdIface is the interface the listener is bound to; VERIF_C06_BTD_IFACE
// overrides it (used to try the "unavailable" branch of the check).
var btdIface = func() string {
	if v := os.Getenv("VERIF_C06_BTD_IFACE"); v != "" {
		return v
	}

	return "lo"
}()

// errBTDUnavailable: the interface listener cannot be started here at all.
var errBTDUnavailable = errors.New("bind-to-device listener unavailable")

type btdInstance struct {
	m    *bindtodevice.Manager
	srv  *dnsserver.ServerDNS
	addr string
}

var btdSeq atomic.Uint32

// freeBTDPort returns a port that nobody holds on 0.0.0.0 for UDP and TCP.
func freeBTDPort() (port uint16, err error) {
	for attempt := 0; attempt < 50; attempt++ {
		var l net.Listener
		l, err = net.Listen("tcp4", "0.0.0.0:0")
		if err != nil {
			continue
		}

		p := l.Addr().(*net.TCPAddr).Port
		var pc net.PacketConn
		pc, err = net.ListenPacket("udp4", fmt.Sprintf("0.0.0.0:%d", p))
		_ = l.Close()
		if err != nil {
			continue
		}

		_ = pc.Close()

		return uint16(p), nil
	}

	return 0, fmt.Errorf("no port free on udp and tcp: %w", err)
}

func startBTD() (in *btdInstance, err error) {
	var lastErr error
	for attempt := 0; attempt < 4; attempt++ {
		in, lastErr = startBTDOnce()
		if lastErr == nil {
			return in, nil
		}

		time.Sleep(20 * time.Millisecond)
	}

	return nil, fmt.Errorf("%w: %w", errBTDUnavailable, lastErr)
}

func startBTDOnce() (in *btdInstance, err error) {
	port, err := freeBTDPort()
	if err != nil {
		return nil, err
	}

	id := bindtodevice.ID(fmt.Sprintf("c06-%d", btdSeq.Add(1)))
	m := bindtodevice.NewManager(&bindtodevice.ManagerConfig{
		Logger:            slog.New(slog.NewTextHandler(io.Discard, nil)),
		InterfaceStorage:  bindtodevice.DefaultInterfaceStorage{},
		ErrColl:           &agdtest.ErrorCollector{OnCollect: func(context.Context, error) {}},
		ChannelBufferSize: 256,
	})

	if err = m.Add(id, btdIface, port, nil); err != nil {
		return nil, err
	}

	lc, err := m.ListenConfig(id, netip.MustParsePrefix("127.0.0.0/8"))
	if err != nil {
		return nil, err
	}

	ctx, cancel := context.WithTimeout(context.Background(), 10*time.Second)
	defer cancel()

	in = &btdInstance{m: m, addr: fmt.Sprintf("127.0.0.1:%d", port)}
	if err = m.Start(ctx); err != nil {
		in.stopManager()

		return nil, err
	}

	in.srv = dnsserver.NewServerDNS(dnsserver.ConfigDNS{
		ConfigBase: dnsserver.ConfigBase{
			Name:         "c06-btd",
			Addr:         in.addr,
			Network:      dnsserver.NetworkUDP,
			Handler:      serverHandler(),
			ListenConfig: lc,
		},
	})

	if err = in.srv.Start(ctx); err != nil {
		in.stopManager()

		return nil, err
	}

	return in, nil
}

// stopManager shuts the manager down.  Its listening goroutines only notice
// that between two reads / accepts, so give each of them one last event.
func (in *btdInstance) stopManager() {
	_ = in.m.Shutdown(context.Background())

	if c, err := net.Dial("udp", in.addr); err == nil {
		_, _ = c.Write([]byte{0})
		_ = c.Close()
	}

	if c, err := net.DialTimeout("tcp", in.addr, 200*time.Millisecond); err == nil {
		_ = c.Close()
	}
}

func (in *btdInstance) close() {
	ctx, cancel := context.WithTimeout(context.Background(), 5*time.Second)
	defer cancel()

	_ = in.srv.Shutdown(ctx)
	in.stopManager()
}
