package c07

import (
	"encoding/hex"
	"fmt"
	"math/rand/v2"
	"net"
	"strings"

	"github.com/miekg/dns"
)

// gen generates arbitrary DNS messages over the alphabet the cloner
// special-cases (A, AAAA, CNAME, MX, PTR, SRV, TXT, HTTPS with every SVCB
// parameter, SOA, OPT with COOKIE/EDE/SUBNET) plus types and options that are
// unknown to the cloner.  Nothing generated shares a backing array with
// anything else generated.
type gen struct {
	r *rand.Rand
	// wireSafe restricts the generator to messages that survive Pack+Unpack
	// (miekg/dns refuses to unpack an ipv4hint/ipv6hint with zero addresses).
	wireSafe bool
	// maxHints bounds the number of ipv4hint/ipv6hint addresses (0..maxHints).
	maxHints int
}

var labels = []string{"a", "www", "Example", "x1", "cdn", "api", "mail", "static", "long-label-with-dashes", "T", "q9", "svc"}
var tlds = []string{"test.", "example.", "invalid.", "Example.ORG.", "net."}

func (g *gen) name() string {
	n := 1 + g.r.IntN(3)
	var sb strings.Builder
	for i := 0; i < n; i++ {
		sb.WriteString(labels[g.r.IntN(len(labels))])
		if g.r.IntN(3) == 0 {
			fmt.Fprintf(&sb, "%d", g.r.IntN(1000))
		}
		sb.WriteByte('.')
	}
	sb.WriteString(tlds[g.r.IntN(len(tlds))])
	return sb.String()
}

// ip4 returns an IPv4 address in 4-byte or 16-byte form with its own array.
func (g *gen) ip4() net.IP {
	a, b, c, d := byte(g.r.IntN(223)+1), byte(g.r.IntN(256)), byte(g.r.IntN(256)), byte(g.r.IntN(256))
	if g.r.IntN(2) == 0 {
		return net.IP{a, b, c, d}
	}
	return net.IPv4(a, b, c, d)
}

func (g *gen) ip6() net.IP {
	ip := make(net.IP, 16)
	ip[0], ip[1], ip[2], ip[3] = 0x20, 0x01, 0x0d, 0xb8
	for i := 4; i < 16; i++ {
		if g.r.IntN(3) != 0 {
			ip[i] = byte(g.r.IntN(256))
		}
	}
	return ip
}

func (g *gen) bytes(min, max int) []byte {
	n := min + g.r.IntN(max-min+1)
	b := make([]byte, n)
	for i := range b {
		b[i] = byte(g.r.IntN(256))
	}
	return b
}

func (g *gen) text(max int) string {
	const al = "abcdefghijklmnopqrstuvwxyz0123456789-_ =;"
	n := g.r.IntN(max + 1)
	b := make([]byte, n)
	for i := range b {
		b[i] = al[g.r.IntN(len(al))]
	}
	return string(b)
}

func (g *gen) hdr(name string, t uint16) dns.RR_Header {
	ttl := uint32(g.r.IntN(86400))
	if g.r.IntN(10) == 0 {
		ttl = 0
	}
	return dns.RR_Header{Name: name, Rrtype: t, Class: dns.ClassINET, Ttl: ttl}
}

func (g *gen) hints(v6 bool) []net.IP {
	lo := 0
	if g.wireSafe {
		lo = 1
	}
	n := lo + g.r.IntN(g.maxHints-lo+1)
	if n == 0 && g.r.IntN(2) == 0 {
		return nil
	}
	out := make([]net.IP, 0, n)
	for i := 0; i < n; i++ {
		if v6 {
			out = append(out, g.ip6())
		} else {
			out = append(out, g.ip4())
		}
	}
	return out
}

var svcbKeysForMandatory = []dns.SVCBKey{dns.SVCB_ALPN, dns.SVCB_NO_DEFAULT_ALPN, dns.SVCB_PORT, dns.SVCB_IPV4HINT,
	dns.SVCB_ECHCONFIG, dns.SVCB_IPV6HINT, dns.SVCB_DOHPATH, dns.SVCB_OHTTP}

// svcbValues returns a random subset of every SVCB parameter kind with unique
// keys (miekg/dns refuses to pack repeated keys), in random order.
func (g *gen) svcbValues() []dns.SVCBKeyValue {
	if g.r.IntN(12) == 0 {
		return nil
	}
	var vs []dns.SVCBKeyValue
	p := func() bool { return g.r.IntN(5) < 2 }
	if p() {
		n := g.r.IntN(9)
		perm := g.r.Perm(len(svcbKeysForMandatory))
		m := &dns.SVCBMandatory{}
		for i := 0; i < n && i < len(perm); i++ {
			m.Code = append(m.Code, svcbKeysForMandatory[perm[i]])
		}
		vs = append(vs, m)
	}
	if p() {
		n := g.r.IntN(9)
		a := &dns.SVCBAlpn{}
		if n == 0 && g.r.IntN(2) == 0 {
			a.Alpn = []string{}
		}
		for i := 0; i < n; i++ {
			a.Alpn = append(a.Alpn, []string{"h2", "h3", "http/1.1", "dot", "doq", "h3-29"}[g.r.IntN(6)])
		}
		vs = append(vs, a)
	}
	if p() {
		vs = append(vs, &dns.SVCBNoDefaultAlpn{})
	}
	if p() {
		vs = append(vs, &dns.SVCBPort{Port: uint16(g.r.IntN(65536))})
	}
	if p() || g.r.IntN(3) == 0 {
		vs = append(vs, &dns.SVCBIPv4Hint{Hint: g.hints(false)})
	}
	if p() {
		vs = append(vs, &dns.SVCBECHConfig{ECH: g.bytes(0, 40)})
	}
	if p() || g.r.IntN(3) == 0 {
		vs = append(vs, &dns.SVCBIPv6Hint{Hint: g.hints(true)})
	}
	if p() {
		vs = append(vs, &dns.SVCBDoHPath{Template: "/dns-query{?dns}" + g.text(6)})
	}
	if p() {
		vs = append(vs, &dns.SVCBOhttp{})
	}
	nl := 0
	if p() {
		nl = 1 + g.r.IntN(3)
	}
	base := 65280 + g.r.IntN(100)
	for i := 0; i < nl; i++ {
		vs = append(vs, &dns.SVCBLocal{KeyCode: dns.SVCBKey(base + i), Data: g.bytes(0, 12)})
	}
	g.r.Shuffle(len(vs), func(i, j int) { vs[i], vs[j] = vs[j], vs[i] })
	if vs == nil && g.r.IntN(2) == 0 {
		vs = []dns.SVCBKeyValue{}
	}
	return vs
}

// knownRR / unknownRR alphabets.
var knownAnswer = []string{"A", "AAAA", "CNAME", "MX", "PTR", "SRV", "TXT", "HTTPS"}
var unknownAnswer = []string{"NS", "SVCB", "CAA", "DS", "NAPTR", "RRSIG"}

func (g *gen) rr(kind, owner string) dns.RR {
	switch kind {
	case "A":
		rr := &dns.A{Hdr: g.hdr(owner, dns.TypeA), A: g.ip4()}
		if !g.wireSafe && g.r.IntN(20) == 0 {
			rr.A = nil
		}
		return rr
	case "AAAA":
		return &dns.AAAA{Hdr: g.hdr(owner, dns.TypeAAAA), AAAA: g.ip6()}
	case "CNAME":
		return &dns.CNAME{Hdr: g.hdr(owner, dns.TypeCNAME), Target: g.name()}
	case "MX":
		return &dns.MX{Hdr: g.hdr(owner, dns.TypeMX), Preference: uint16(g.r.IntN(100)), Mx: g.name()}
	case "PTR":
		return &dns.PTR{Hdr: g.hdr(owner, dns.TypePTR), Ptr: g.name()}
	case "SRV":
		return &dns.SRV{Hdr: g.hdr(owner, dns.TypeSRV), Priority: uint16(g.r.IntN(10)), Weight: uint16(g.r.IntN(100)),
			Port: uint16(g.r.IntN(65536)), Target: g.name()}
	case "TXT":
		lo := 0
		if g.wireSafe {
			lo = 1
		}
		n := lo + g.r.IntN(9-lo)
		t := &dns.TXT{Hdr: g.hdr(owner, dns.TypeTXT)}
		for i := 0; i < n; i++ {
			t.Txt = append(t.Txt, g.text(40))
		}
		if n == 0 && g.r.IntN(2) == 0 {
			t.Txt = []string{}
		}
		return t
	case "HTTPS":
		tgt := "."
		if g.r.IntN(3) == 0 {
			tgt = g.name()
		}
		return &dns.HTTPS{SVCB: dns.SVCB{Hdr: g.hdr(owner, dns.TypeHTTPS), Priority: uint16(g.r.IntN(4)), Target: tgt, Value: g.svcbValues()}}
	case "SOA":
		return &dns.SOA{Hdr: g.hdr(owner, dns.TypeSOA), Ns: g.name(), Mbox: g.name(), Serial: g.r.Uint32(), Refresh: uint32(g.r.IntN(7200)),
			Retry: uint32(g.r.IntN(3600)), Expire: uint32(g.r.IntN(1 << 20)), Minttl: uint32(g.r.IntN(86400))}
	case "NS":
		return &dns.NS{Hdr: g.hdr(owner, dns.TypeNS), Ns: g.name()}
	case "SVCB":
		return &dns.SVCB{Hdr: g.hdr(owner, dns.TypeSVCB), Priority: uint16(1 + g.r.IntN(3)), Target: g.name(), Value: g.svcbValues()}
	case "CAA":
		return &dns.CAA{Hdr: g.hdr(owner, dns.TypeCAA), Flag: uint8(g.r.IntN(2) * 128), Tag: "issue", Value: "ca" + g.text(8)}
	case "DS":
		return &dns.DS{Hdr: g.hdr(owner, dns.TypeDS), KeyTag: uint16(g.r.IntN(65536)), Algorithm: 13, DigestType: 2, Digest: hex.EncodeToString(g.bytes(32, 32))}
	case "NAPTR":
		return &dns.NAPTR{Hdr: g.hdr(owner, dns.TypeNAPTR), Order: 10, Preference: 20, Flags: "s", Service: "SIP+D2U", Regexp: "", Replacement: g.name()}
	case "RRSIG":
		return &dns.RRSIG{Hdr: g.hdr(owner, dns.TypeRRSIG), TypeCovered: dns.TypeA, Algorithm: 13, Labels: 2, OrigTtl: 300, Expiration: 1700000000 + g.r.Uint32N(1000),
			Inception: 1690000000, KeyTag: uint16(g.r.IntN(65536)), SignerName: g.name(), Signature: "c2lnbmF0dXJl"}
	}
	panic("unknown kind " + kind)
}

var knownOpts = []string{"COOKIE", "EDE", "SUBNET"}
var unknownOpts = []string{"NSID", "PADDING", "LOCAL", "KEEPALIVE", "EXPIRE"}

func (g *gen) ednsOption(kind string) dns.EDNS0 {
	switch kind {
	case "COOKIE":
		n := 8
		if g.r.IntN(2) == 0 {
			n = 16 + g.r.IntN(17)
		}
		return &dns.EDNS0_COOKIE{Code: dns.EDNS0COOKIE, Cookie: hex.EncodeToString(g.bytes(n, n))}
	case "EDE":
		return &dns.EDNS0_EDE{InfoCode: uint16(g.r.IntN(30)), ExtraText: g.text(30)}
	case "SUBNET":
		s := &dns.EDNS0_SUBNET{Code: dns.EDNS0SUBNET}
		switch g.r.IntN(5) {
		case 0:
			s.Family = 0
			if g.r.IntN(2) == 0 {
				s.Address = net.IP{}
			}
		case 1, 2:
			s.Family = 1
			s.Address = g.ip4()
			s.SourceNetmask = uint8(g.r.IntN(33))
			s.SourceScope = uint8(g.r.IntN(33))
		default:
			s.Family = 2
			s.Address = g.ip6()
			s.SourceNetmask = uint8(g.r.IntN(129))
			s.SourceScope = uint8(g.r.IntN(129))
		}
		return s
	case "NSID":
		return &dns.EDNS0_NSID{Code: dns.EDNS0NSID, Nsid: hex.EncodeToString(g.bytes(0, 10))}
	case "PADDING":
		return &dns.EDNS0_PADDING{Padding: make([]byte, g.r.IntN(40))}
	case "LOCAL":
		return &dns.EDNS0_LOCAL{Code: 65074, Data: g.bytes(1, 8)}
	case "KEEPALIVE":
		return &dns.EDNS0_TCP_KEEPALIVE{Code: dns.EDNS0TCPKEEPALIVE, Timeout: uint16(g.r.IntN(600))}
	case "EXPIRE":
		return &dns.EDNS0_EXPIRE{Code: dns.EDNS0EXPIRE, Expire: g.r.Uint32()}
	}
	panic("unknown option " + kind)
}

// opt generates an OPT record with 0..8 options.  cleanFlags keeps the
// version and the reserved flag bits zero (only DO may be set).
func (g *gen) opt(cleanFlags bool) *dns.OPT {
	o := &dns.OPT{Hdr: dns.RR_Header{Name: ".", Rrtype: dns.TypeOPT}}
	o.SetUDPSize(uint16(512 + g.r.IntN(4096)))
	if g.r.IntN(2) == 0 {
		o.SetDo()
	}
	if !cleanFlags && g.r.IntN(3) == 0 {
		o.SetVersion(uint8(1 + g.r.IntN(3)))
	}
	if !cleanFlags && g.r.IntN(3) == 0 {
		o.Hdr.Ttl |= uint32(g.r.IntN(0x7fff)) // reserved Z bits
	}
	n := g.r.IntN(9)
	onlyKnown := g.r.IntN(5) < 3
	for i := 0; i < n; i++ {
		var k string
		if onlyKnown || g.r.IntN(3) != 0 {
			k = knownOpts[g.r.IntN(len(knownOpts))]
		} else {
			k = unknownOpts[g.r.IntN(len(unknownOpts))]
		}
		o.Option = append(o.Option, g.ednsOption(k))
	}
	if n == 0 && g.r.IntN(2) == 0 {
		o.Option = []dns.EDNS0{}
	}
	return o
}

var qtypes = []uint16{dns.TypeA, dns.TypeAAAA, dns.TypeHTTPS, dns.TypeTXT, dns.TypeMX, dns.TypeSRV, dns.TypePTR, dns.TypeCNAME, dns.TypeSOA, dns.TypeNS, dns.TypeSVCB}

// msg generates an arbitrary message (mostly response-shaped).
func (g *gen) msg() *dns.Msg {
	m := &dns.Msg{}
	m.Id = uint16(g.r.IntN(65536))
	m.Response = g.r.IntN(4) != 0
	m.RecursionDesired = g.r.IntN(2) == 0
	m.RecursionAvailable = g.r.IntN(2) == 0
	m.Authoritative = g.r.IntN(4) == 0
	m.AuthenticatedData = g.r.IntN(4) == 0
	m.CheckingDisabled = g.r.IntN(6) == 0
	m.Compress = g.r.IntN(2) == 0
	m.Rcode = []int{0, 0, 0, 2, 3, 5}[g.r.IntN(6)]
	qname := g.name()
	nq := 1
	if g.r.IntN(25) == 0 {
		nq = g.r.IntN(3)
	}
	for i := 0; i < nq; i++ {
		m.Question = append(m.Question, dns.Question{Name: qname, Qtype: qtypes[g.r.IntN(len(qtypes))], Qclass: dns.ClassINET})
	}
	if nq == 0 && g.r.IntN(2) == 0 {
		m.Question = []dns.Question{}
	}
	pick := func(known []string, unknownP int) string {
		if g.r.IntN(unknownP) == 0 {
			return unknownAnswer[g.r.IntN(len(unknownAnswer))]
		}
		return known[g.r.IntN(len(known))]
	}
	na := g.r.IntN(7)
	for i := 0; i < na; i++ {
		owner := qname
		if g.r.IntN(4) == 0 {
			owner = g.name()
		}
		m.Answer = append(m.Answer, g.rr(pick(knownAnswer, 8), owner))
	}
	if na == 0 && g.r.IntN(2) == 0 {
		m.Answer = []dns.RR{}
	}
	nn := 0
	if g.r.IntN(2) == 0 {
		nn = 1 + g.r.IntN(3)
	}
	for i := 0; i < nn; i++ {
		k := "SOA"
		if g.r.IntN(3) == 0 {
			k = pick([]string{"SOA", "A", "TXT"}, 2)
		}
		m.Ns = append(m.Ns, g.rr(k, g.name()))
	}
	if nn == 0 && g.r.IntN(2) == 0 {
		m.Ns = []dns.RR{}
	}
	hasOPT := g.r.IntN(3) != 0
	ne := g.r.IntN(3)
	if g.r.IntN(2) == 0 {
		ne = 0
	}
	for i := 0; i < ne; i++ {
		m.Extra = append(m.Extra, g.rr(pick([]string{"A", "AAAA", "TXT"}, 6), g.name()))
	}
	if hasOPT {
		o := g.opt(false)
		pos := g.r.IntN(len(m.Extra) + 1)
		m.Extra = append(m.Extra, nil)
		copy(m.Extra[pos+1:], m.Extra[pos:])
		m.Extra[pos] = o
		if g.r.IntN(12) == 0 {
			m.Rcode = dns.RcodeBadVers
		}
	} else if ne == 0 && g.r.IntN(2) == 0 {
		m.Extra = []dns.RR{}
	}
	return m
}

// httpsMsg returns a response whose answer is one HTTPS record with n ipv4hint
// addresses in 4-byte form (as produced by the wire parser after Pack+Unpack).
func httpsMsgV4(name string, n int) *dns.Msg {
	m := &dns.Msg{}
	m.SetQuestion(name, dns.TypeHTTPS)
	m.Response = true
	h := &dns.SVCBIPv4Hint{}
	for i := 0; i < n; i++ {
		h.Hint = append(h.Hint, net.IP{192, 0, 2, byte(i + 1)})
	}
	m.Answer = []dns.RR{&dns.HTTPS{SVCB: dns.SVCB{Hdr: dns.RR_Header{Name: name, Rrtype: dns.TypeHTTPS, Class: dns.ClassINET, Ttl: 60},
		Priority: 1, Target: ".", Value: []dns.SVCBKeyValue{h}}}}
	return m
}

func httpsMsgV6(name string, ips ...string) *dns.Msg {
	m := &dns.Msg{}
	m.SetQuestion(name, dns.TypeHTTPS)
	m.Response = true
	h := &dns.SVCBIPv6Hint{}
	for _, s := range ips {
		h.Hint = append(h.Hint, net.ParseIP(s))
	}
	m.Answer = []dns.RR{&dns.HTTPS{SVCB: dns.SVCB{Hdr: dns.RR_Header{Name: name, Rrtype: dns.TypeHTTPS, Class: dns.ClassINET, Ttl: 60},
		Priority: 1, Target: ".", Value: []dns.SVCBKeyValue{h}}}}
	return m
}

// wire packs m and parses the bytes into a new message, as a transport does.
func wire(m *dns.Msg) (*dns.Msg, error) {
	b, err := m.Pack()
	if err != nil {
		return nil, fmt.Errorf("pack: %w", err)
	}
	w := &dns.Msg{}
	if err = w.Unpack(b); err != nil {
		return nil, fmt.Errorf("unpack: %w", err)
	}
	return w, nil
}

// rrKinds lists the RR type names (and SVCB parameter / EDNS option names) in m.
func rrKinds(m *dns.Msg) []string {
	seen := map[string]struct{}{}
	var out []string
	add := func(s string) {
		if _, ok := seen[s]; !ok {
			seen[s] = struct{}{}
			out = append(out, s)
		}
	}
	for _, sec := range [][]dns.RR{m.Answer, m.Ns, m.Extra} {
		for _, rr := range sec {
			if rr == nil {
				continue
			}
			t := dns.TypeToString[rr.Header().Rrtype]
			add(t)
			switch v := rr.(type) {
			case *dns.HTTPS:
				for _, kv := range v.Value {
					k := kv.Key().String()
					if _, ok := kv.(*dns.SVCBLocal); ok {
						k = "keyNNNNN"
					}
					add("HTTPS/" + k)
				}
			case *dns.OPT:
				for _, o := range v.Option {
					add(fmt.Sprintf("OPT/%d", o.Option()))
				}
			}
		}
	}
	return out
}
