package c07

import (
	"bytes"
	"context"
	"encoding/hex"
	"fmt"
	"net"
	"net/netip"
	"net/url"
	"os"
	"path/filepath"
	"runtime"
	"sort"
	"strconv"
	"strings"
	"sync"
	"sync/atomic"
	"testing"
	"time"

	"github.com/AdguardTeam/AdGuardDNS/internal/access"
	"github.com/AdguardTeam/AdGuardDNS/internal/agd"
	"github.com/AdguardTeam/AdGuardDNS/internal/agdcache"
	"github.com/AdguardTeam/AdGuardDNS/internal/agdpasswd"
	"github.com/AdguardTeam/AdGuardDNS/internal/agdtime"
	"github.com/AdguardTeam/AdGuardDNS/internal/dnsmsg"
	"github.com/AdguardTeam/AdGuardDNS/internal/dnsserver"
	"github.com/AdguardTeam/AdGuardDNS/internal/dnssvc"
	"github.com/AdguardTeam/AdGuardDNS/internal/filter"
	"github.com/AdguardTeam/AdGuardDNS/internal/filter/filterstorage"
	"github.com/AdguardTeam/AdGuardDNS/internal/filter/hashprefix"
	"github.com/AdguardTeam/AdGuardDNS/internal/geoip"
	"github.com/AdguardTeam/AdGuardDNS/verif/stack"
	"github.com/AdguardTeam/AdGuardDNS/verif/vkit"
	"github.com/c2h5oh/datasize"
	"github.com/miekg/dns"
)

// ---- the world: profiles, devices, servers, rules ----

const nProfiles = 6

type profSpec struct {
	id    string
	mode  dnsmsg.BlockingMode
	ttl   time.Duration
	adult bool
	safeB bool
	flt   bool
}

var profSpecs = [nProfiles]profSpec{
	{"prof0", &dnsmsg.BlockingModeNullIP{}, 10 * time.Second, false, false, true},
	{"prof1", &dnsmsg.BlockingModeNXDOMAIN{}, 20 * time.Second, false, false, true},
	{"prof2", &dnsmsg.BlockingModeREFUSED{}, 30 * time.Second, false, false, true},
	{"prof3", &dnsmsg.BlockingModeCustomIP{IPv4: []netip.Addr{netip.MustParseAddr("192.0.2.33")}, IPv6: []netip.Addr{netip.MustParseAddr("2001:db8::33")}}, 40 * time.Second, false, true, true},
	{"prof4", &dnsmsg.BlockingModeNullIP{}, 50 * time.Second, false, false, false},
	{"prof5", &dnsmsg.BlockingModeCustomIP{IPv4: []netip.Addr{netip.MustParseAddr("192.0.2.55"), netip.MustParseAddr("192.0.2.56")}}, 7 * time.Second, true, true, true},
}

// customRules returns the custom filtering rules of profile p: every profile
// blocks / allows / rewrites the same name classes in its own way.
func customRules(p int) []filter.RuleText {
	all := []string{
		"||blk.test^",
		"@@||alw.blk.test^",
		fmt.Sprintf("||rwa.test^$dnsrewrite=NOERROR;A;192.0.2.1%d", p),
		fmt.Sprintf("||rwa.test^$dnsrewrite=NOERROR;AAAA;2001:db8:aa::%d", p),
		fmt.Sprintf("||rwc.test^$dnsrewrite=NOERROR;CNAME;tgt%d.cn.test", p),
		"||rwn.test^$dnsrewrite=NXDOMAIN",
		fmt.Sprintf("||rwt.test^$dnsrewrite=NOERROR;TXT;hello-from-p%d", p),
		fmt.Sprintf("||rwm.test^$dnsrewrite=NOERROR;MX;1%d mail%d.mx.test", p, p),
		"||rwh.test^$dnsrewrite=NOERROR;HTTPS;1 . alpn=h3",
		fmt.Sprintf("||rws.test^$dnsrewrite=NOERROR;SRV;1 2 80%d srv%d.s.test", p, p),
		fmt.Sprintf("||rwp.test^$dnsrewrite=NOERROR;PTR;ptr%d.p.test.", p),
		"||203.0.113.200^",
		"||cname-blocked.tgt.test^",
	}
	var out []filter.RuleText
	for j, r := range all {
		// every profile lacks a different couple of rules
		if (p+j)%5 == 4 {
			continue
		}
		out = append(out, filter.RuleText(r))
	}
	return out
}

type requester struct {
	Tag     string `json:"tag"`
	Prof    int    `json:"profile"` // -1 anonymous
	Server  string `json:"server"`  // dot | doh | dns | pub
	Remote  string `json:"remote"`
	TLSName string `json:"tls_server_name,omitempty"`
	Path    string `json:"doh_path,omitempty"`
}

func requesters() []requester {
	var rs []requester
	for p := 0; p < nProfiles; p++ {
		rs = append(rs,
			requester{Tag: fmt.Sprintf("p%d/dot", p), Prof: p, Server: "dot", Remote: fmt.Sprintf("198.18.%d.10:40001", p), TLSName: fmt.Sprintf("d%da.d.example", p)},
			requester{Tag: fmt.Sprintf("p%d/doh", p), Prof: p, Server: "doh", Remote: fmt.Sprintf("198.18.%d.11:40002", p), TLSName: "doh.example", Path: fmt.Sprintf("/dns-query/d%da", p)},
			requester{Tag: fmt.Sprintf("p%d/linked", p), Prof: p, Server: "dns", Remote: fmt.Sprintf("203.0.113.%d:40003", 10+p)},
		)
	}
	rs = append(rs,
		requester{Tag: "anon/dot", Prof: -1, Server: "dot", Remote: "198.19.1.1:41000", TLSName: "dns.example"},
		requester{Tag: "anon/doh", Prof: -1, Server: "doh", Remote: "198.19.2.1:41001", TLSName: "doh.example", Path: "/dns-query"},
		requester{Tag: "anon/dns", Prof: -1, Server: "dns", Remote: "198.19.3.1:41002"},
		requester{Tag: "anon/dns6", Prof: -1, Server: "dns", Remote: "[2001:db8:c1::1]:41003"},
		requester{Tag: "anon/pub", Prof: -1, Server: "pub", Remote: "198.19.4.1:41004"},
	)
	return rs
}

type errColl struct{ n atomic.Int64 }

func (e *errColl) Collect(context.Context, error) { e.n.Add(1) }

type world struct {
	st      *stack.Stack
	servers map[string]*agd.Server
	groups  map[string]*agd.ServerGroup
	locals  map[string]netip.AddrPort
	fltErrs *errColl
	ups     *upstreamFn
}

func newHashFilter(cl *dnsmsg.Cloner, ec *errColl, dir string, id filter.ID, hosts, repl string) (*hashprefix.Filter, error) {
	hs, err := hashprefix.NewStorage(hosts)
	if err != nil {
		return nil, err
	}
	return hashprefix.NewFilter(&hashprefix.FilterConfig{
		Logger: stack.Logger(), Cloner: cl, CacheManager: agdcache.EmptyManager{}, Hashes: hs,
		URL: &url.URL{Scheme: "file", Path: filepath.Join(dir, string(id)+".txt")}, ErrColl: ec, Metrics: filter.EmptyMetrics{},
		ID: id, CachePath: filepath.Join(dir, string(id)), ReplacementHost: repl, Staleness: time.Hour, CacheTTL: time.Hour,
		RefreshTimeout: time.Second, CacheCount: 100000, MaxSize: datasize.MB,
	})
}

// worldOpts selects the variants of the world: the cache middleware (ECS cache
// by default; the "simple" dnsserver/cache middleware as cmd wires it for
// cache.type=simple) and whether the filter storage is loaded with index rule
// lists (with result caches) and two extra profiles that share one of them.
type worldOpts struct {
	simpleCache bool
	ruleLists   bool
}

func newWorld(dir string, yield func(), ups *upstreamFn) (*world, error) {
	return newWorldWith(dir, yield, ups, worldOpts{})
}

func newWorldWith(dir string, yield func(), ups *upstreamFn, wo worldOpts) (*world, error) {
	w := &world{servers: map[string]*agd.Server{}, groups: map[string]*agd.ServerGroup{}, locals: map[string]netip.AddrPort{}, fltErrs: &errColl{}, ups: ups}
	if err := os.MkdirAll(dir, 0o755); err != nil {
		return nil, err
	}
	cl := dnsmsg.NewCloner(dnsmsg.EmptyClonerStat{})
	adult, err := newHashFilter(cl, w.fltErrs, dir, filter.IDAdultBlocking, "adult.test\n", "family.replacement.test")
	if err != nil {
		return nil, fmt.Errorf("adult: %w", err)
	}
	danger, err := newHashFilter(cl, w.fltErrs, dir, filter.IDSafeBrowsing, "danger.test\n", "192.0.2.250")
	if err != nil {
		return nil, fmt.Errorf("danger: %w", err)
	}
	idx := &url.URL{Scheme: "file", Path: filepath.Join(dir, "index.json")}
	svcConf := &filterstorage.ConfigBlockedServices{Enabled: false}
	if wo.ruleLists {
		// blocked-service index with result caches, as in production
		svcConf = &filterstorage.ConfigBlockedServices{IndexURL: &url.URL{Scheme: "file", Path: filepath.Join(dir, "services.json")},
			IndexMaxSize: datasize.MB, IndexRefreshTimeout: time.Second, IndexStaleness: time.Hour, ResultCacheCount: 1000, ResultCacheEnabled: true, Enabled: true}
		if err = writeRuleLists(dir); err != nil {
			return nil, fmt.Errorf("writing rule lists: %w", err)
		}
	}
	fs, err := filterstorage.New(&filterstorage.Config{
		BaseLogger: stack.Logger(), Logger: stack.Logger(),
		BlockedServices:   svcConf,
		Custom:            &filterstorage.ConfigCustom{CacheCount: 100},
		HashPrefix:        &filterstorage.ConfigHashPrefix{Adult: adult, Dangerous: danger},
		RuleLists:         &filterstorage.ConfigRuleLists{IndexURL: idx, IndexMaxSize: datasize.MB, MaxSize: datasize.MB, IndexRefreshTimeout: time.Second, IndexStaleness: time.Hour, RefreshTimeout: time.Second, Staleness: time.Hour, ResultCacheCount: 100, ResultCacheEnabled: true},
		SafeSearchGeneral: &filterstorage.ConfigSafeSearch{Enabled: false},
		SafeSearchYouTube: &filterstorage.ConfigSafeSearch{Enabled: false},
		CacheManager:      agdcache.EmptyManager{}, Clock: agdtime.SystemClock{}, ErrColl: w.fltErrs, Metrics: filter.EmptyMetrics{}, CacheDir: dir,
	})
	if err != nil {
		return nil, fmt.Errorf("filterstorage: %w", err)
	}
	if wo.ruleLists {
		if err = fs.RefreshInitial(context.Background()); err != nil {
			return nil, fmt.Errorf("filterstorage initial refresh: %w", err)
		}
		for _, id := range []filter.ID{"fl_common", "fl_allow_a", "fl_extra_a", "fl_extra_b"} {
			if !fs.HasListID(id) {
				return nil, fmt.Errorf("rule list %s was not loaded", id)
			}
		}
	}

	mk := func(name string, proto agd.Protocol, addr string, linked bool) {
		ap := netip.MustParseAddrPort(addr)
		w.servers[name] = stack.NewServer(name, proto, ap, linked)
		w.locals[name] = ap
	}
	mk("dot", agd.ProtoDoT, "192.0.2.1:853", false)
	mk("doh", agd.ProtoDoH, "192.0.2.2:443", false)
	mk("dns", agd.ProtoDNS, "192.0.2.3:53", true)
	mk("pub", agd.ProtoDNS, "192.0.2.4:53", false)
	w.groups["g"] = &agd.ServerGroup{DDR: stack.NewDDR(false), DeviceDomains: []string{"d.example"}, Name: "g", FilteringGroup: "fg",
		Servers: []*agd.Server{w.servers["dot"], w.servers["doh"], w.servers["dns"]}, ProfilesEnabled: true}
	w.groups["pub"] = &agd.ServerGroup{DDR: stack.NewDDR(false), Name: "pub", FilteringGroup: "fgpub", Servers: []*agd.Server{w.servers["pub"]}, ProfilesEnabled: false}
	fgs := map[agd.FilteringGroupID]*agd.FilteringGroup{
		"fg": {ID: "fg", FilterConfig: &filter.ConfigGroup{Parental: &filter.ConfigParental{}, RuleList: &filter.ConfigRuleList{},
			SafeBrowsing: &filter.ConfigSafeBrowsing{Enabled: true, DangerousDomainsEnabled: true}}},
		"fgpub": {ID: "fgpub", FilterConfig: &filter.ConfigGroup{Parental: &filter.ConfigParental{Enabled: true, AdultBlockingEnabled: true}, RuleList: &filter.ConfigRuleList{},
			SafeBrowsing: &filter.ConfigSafeBrowsing{}}},
	}

	db := stack.NewMapDB()
	for p, ps := range profSpecs {
		prof := &agd.Profile{
			ID: agd.ProfileID(ps.id),
			FilterConfig: &filter.ConfigClient{
				Custom:       &filter.ConfigCustom{ID: ps.id, UpdateTime: time.Unix(1700000000, 0), Rules: customRules(p), Enabled: true},
				Parental:     &filter.ConfigParental{Enabled: ps.adult, AdultBlockingEnabled: ps.adult},
				RuleList:     &filter.ConfigRuleList{},
				SafeBrowsing: &filter.ConfigSafeBrowsing{Enabled: ps.safeB, DangerousDomainsEnabled: ps.safeB},
			},
			Access: access.EmptyProfile{}, BlockingMode: ps.mode, Ratelimiter: agd.GlobalRatelimiter{},
			FilteredResponseTTL: ps.ttl, FilteringEnabled: ps.flt, QueryLogEnabled: true,
		}
		da := &agd.Device{ID: agd.DeviceID(fmt.Sprintf("d%da", p)), Name: agd.DeviceName(fmt.Sprintf("client-%da", p)),
			Auth: &agd.AuthSettings{PasswordHash: agdpasswd.AllowAuthenticator{}}, FilteringEnabled: true}
		dbb := &agd.Device{ID: agd.DeviceID(fmt.Sprintf("d%db", p)), Name: agd.DeviceName(fmt.Sprintf("client-%db", p)), HumanIDLower: agd.HumanIDLower(fmt.Sprintf("human-%d", p)),
			LinkedIP: netip.MustParseAddr(fmt.Sprintf("203.0.113.%d", 10+p)), Auth: &agd.AuthSettings{PasswordHash: agdpasswd.AllowAuthenticator{}}, FilteringEnabled: true}
		db.Add(prof, da, dbb)
	}

	geo := stack.NewGeo()
	geo.AddNet(netip.MustParsePrefix("198.18.0.0/15"), &geoip.Location{Country: "US", Continent: "NA", ASN: 64500, TopSubdivision: "CA"})
	geo.AddNet(netip.MustParsePrefix("203.0.113.0/24"), &geoip.Location{Country: "DE", Continent: "EU", ASN: 64501})
	geo.AddNet(netip.MustParsePrefix("2001:db8:c1::/48"), &geoip.Location{Country: "JP", Continent: "AS", ASN: 64502})
	geo.AddNet(netip.MustParsePrefix("100.64.0.0/10"), &geoip.Location{Country: "FR", Continent: "EU", ASN: 64503})
	geo.AddNet(netip.MustParsePrefix("2001:db8:ec5::/48"), &geoip.Location{Country: "BR", Continent: "SA", ASN: 64504})
	for i, c := range []geoip.Country{geoip.CountryNone, "US", "DE", "JP", "FR", "BR"} {
		geo.SetSubnet(c, 0, 4, netip.PrefixFrom(netip.AddrFrom4([4]byte{10, byte(i), 0, 0}), 24))
		a := netip.MustParseAddr("2001:db8:5b::").As16()
		a[7] = byte(i)
		geo.SetSubnet(c, 0, 6, netip.PrefixFrom(netip.AddrFrom16(a), 56))
	}

	if wo.ruleLists {
		addRuleListProfiles(db)
	}
	cacheConf := &dnssvc.CacheConfig{Type: dnssvc.CacheTypeECS, ECSCount: 100000, NoECSCount: 100000}
	if wo.simpleCache {
		cacheConf = &dnssvc.CacheConfig{Type: dnssvc.CacheTypeSimple, NoECSCount: 100000}
	}
	st, err := stack.New(&stack.Options{
		Cache:  cacheConf,
		Cloner: cl, FilterStorage: fs, ProfileDB: db, GeoIP: geo, Upstream: ups.serve,
		ServerGroups: []*agd.ServerGroup{w.groups["g"], w.groups["pub"]}, FilteringGroups: fgs, EDEEnabled: true, Yield: yield,
	})
	if err != nil {
		return nil, err
	}
	w.st = st
	// What dnsserver.ServerBase does around the handler: record the written
	// response and, after the handler has returned, hand it to the Disposer
	// (serverbase.go serveDNSMsg/dispose; serverhttps.go and serverquic.go do
	// the same for DoH and DoQ).
	for k, h := range st.Handlers {
		st.Handlers[k] = &disposingHandler{inner: h, cl: cl}
	}
	return w, nil
}

type disposingHandler struct {
	inner dnsserver.Handler
	cl    *dnsmsg.Cloner
}

var disposedWritten atomic.Int64

func (h *disposingHandler) ServeDNS(ctx context.Context, rw dnsserver.ResponseWriter, req *dns.Msg) error {
	recW := dnsserver.NewRecorderResponseWriter(rw)
	err := h.inner.ServeDNS(ctx, recW, req)
	if recW.Resp != nil {
		h.cl.Dispose(recW.Resp)
		disposedWritten.Add(1)
	}
	return err
}

// ---- upstream: a pure function of the question (and, for ECS-dependent
// names, of the client subnet the cache middleware put into the request) ----

type upstreamFn struct {
	maxHints int
	calls    atomic.Int64
}

func fnv(s string) uint32 {
	h := uint32(2166136261)
	for i := 0; i < len(s); i++ {
		h = (h ^ uint32(s[i])) * 16777619
	}
	return h
}

// classOf returns the name class: the label left of the TLD.
func classOf(name string) string {
	ls := dns.SplitDomainName(strings.ToLower(name))
	if len(ls) < 2 {
		return ""
	}
	return ls[len(ls)-2]
}

// upstreamTTL is the TTL of every record of the upstream answer for a question.
func upstreamTTL(name string, qt uint16) uint32 {
	return 1800 + 60*(fnv(strings.ToLower(name)+fmt.Sprint(qt))%50)
}

func (u *upstreamFn) serve(_ context.Context, req *dns.Msg, _ *agd.RequestInfo) (*dns.Msg, error) {
	u.calls.Add(1)
	resp := u.answer(req)
	// The real forwarder hands out messages parsed from the wire.
	b, err := resp.Pack()
	if err != nil {
		return nil, fmt.Errorf("harness upstream: pack: %w", err)
	}
	out := &dns.Msg{}
	if err = out.Unpack(b); err != nil {
		return nil, fmt.Errorf("harness upstream: unpack: %w", err)
	}
	out.Compress = true
	return out, nil
}

func (u *upstreamFn) answer(req *dns.Msg) *dns.Msg {
	q := req.Question[0]
	name := strings.ToLower(q.Name)
	h := fnv(name + fmt.Sprint(q.Qtype))
	ttl := upstreamTTL(name, q.Qtype)
	class := classOf(name)
	resp := &dns.Msg{}
	resp.SetReply(req)
	resp.RecursionAvailable = true
	// names of the cache-population histories ("cp<k>.…") are always validated
	resp.AuthenticatedData = h%3 == 0 || strings.HasPrefix(name, "cp")
	hdr := func(t uint16) dns.RR_Header {
		return dns.RR_Header{Name: name, Rrtype: t, Class: dns.ClassINET, Ttl: ttl}
	}
	soa := func() dns.RR {
		return &dns.SOA{Hdr: hdr(dns.TypeSOA), Ns: "ns." + name, Mbox: "hostmaster." + name, Serial: h, Refresh: 3600, Retry: 600, Expire: 86400, Minttl: ttl}
	}
	var reqOpt *dns.OPT = req.IsEdns0()
	var ecs *dns.EDNS0_SUBNET
	if reqOpt != nil {
		for _, o := range reqOpt.Option {
			if s, ok := o.(*dns.EDNS0_SUBNET); ok {
				ecs = s
			}
		}
	}
	switch class {
	case "nx":
		resp.Rcode = dns.RcodeNameError
		resp.Ns = []dns.RR{soa()}
	case "nodata":
		resp.Ns = []dns.RR{soa()}
	case "refused":
		resp.Rcode = dns.RcodeRefused
	default:
		u.answerByType(resp, q.Qtype, name, class, h, hdr, soa, ecs)
	}
	if reqOpt != nil {
		o := &dns.OPT{Hdr: dns.RR_Header{Name: ".", Rrtype: dns.TypeOPT}}
		o.SetUDPSize(reqOpt.UDPSize())
		if reqOpt.Do() {
			o.SetDo()
			if len(resp.Answer) > 0 {
				resp.Answer = append(resp.Answer, &dns.RRSIG{Hdr: hdr(dns.TypeRRSIG), TypeCovered: resp.Answer[0].Header().Rrtype, Algorithm: 13, Labels: 3,
					OrigTtl: ttl, Expiration: 1800000000, Inception: 1700000000, KeyTag: uint16(h), SignerName: "test.", Signature: "c2lnbmF0dXJl"})
			}
		}
		for _, ro := range reqOpt.Option {
			if c, ok := ro.(*dns.EDNS0_COOKIE); ok {
				o.Option = append(o.Option, &dns.EDNS0_COOKIE{Code: dns.EDNS0COOKIE, Cookie: c.Cookie + "0123456789abcdef"})
			}
		}
		if ecs != nil {
			scope := uint8(0)
			if class == "ecs" {
				scope = ecs.SourceNetmask
				if scope == 0 {
					scope = 8
				}
			}
			o.Option = append(o.Option, &dns.EDNS0_SUBNET{Code: dns.EDNS0SUBNET, Family: ecs.Family, SourceNetmask: ecs.SourceNetmask, SourceScope: scope,
				Address: append(net.IP(nil), ecs.Address...)})
		}
		if class == "refused" {
			o.Option = append(o.Option, &dns.EDNS0_EDE{InfoCode: dns.ExtendedErrorCodeProhibited, ExtraText: "upstream says no to " + name})
		}
		resp.Extra = append(resp.Extra, o)
	}
	return resp
}

func (u *upstreamFn) answerByType(resp *dns.Msg, qt uint16, name, class string, h uint32, hdr func(uint16) dns.RR_Header, soa func() dns.RR, ecs *dns.EDNS0_SUBNET) {
	v4 := func(i int) net.IP { return net.IPv4(198, 51, 100+byte(i), byte(h>>uint(8*i))) }
	v6 := func(i int) net.IP {
		ip := netip.MustParseAddr("2001:db8:5151::").As16()
		ip[11] = byte(i)
		ip[12], ip[13], ip[14], ip[15] = byte(h>>24), byte(h>>16), byte(h>>8), byte(h)
		return net.IP(ip[:])
	}
	switch qt {
	case dns.TypeA:
		if class == "rcn" {
			resp.Answer = append(resp.Answer, &dns.CNAME{Hdr: hdr(dns.TypeCNAME), Target: "cname-blocked.tgt.test."})
			rr := &dns.A{Hdr: hdr(dns.TypeA), A: v4(0)}
			rr.Hdr.Name = "cname-blocked.tgt.test."
			resp.Answer = append(resp.Answer, rr)
			return
		}
		n := 1 + int(h%3)
		for i := 0; i < n; i++ {
			ip := v4(i)
			if class == "ecs" && ecs != nil && len(ecs.Address) >= 2 {
				ip = net.IPv4(198, 51, 200, ecs.Address[1]^byte(h)) // depends on the subnet
			}
			resp.Answer = append(resp.Answer, &dns.A{Hdr: hdr(dns.TypeA), A: ip})
		}
		if class == "rip" {
			resp.Answer = append(resp.Answer, &dns.A{Hdr: hdr(dns.TypeA), A: net.IPv4(203, 0, 113, 200)})
		}
	case dns.TypeAAAA:
		n := 1 + int(h%2)
		for i := 0; i < n; i++ {
			resp.Answer = append(resp.Answer, &dns.AAAA{Hdr: hdr(dns.TypeAAAA), AAAA: v6(i)})
		}
	case dns.TypeCNAME:
		resp.Answer = append(resp.Answer, &dns.CNAME{Hdr: hdr(dns.TypeCNAME), Target: fmt.Sprintf("c%d.target.test.", h%97)})
	case dns.TypeMX:
		for i := 0; i < 1+int(h%3); i++ {
			resp.Answer = append(resp.Answer, &dns.MX{Hdr: hdr(dns.TypeMX), Preference: uint16(10 * (i + 1)), Mx: fmt.Sprintf("mx%d.%s", i, name)})
		}
	case dns.TypePTR:
		resp.Answer = append(resp.Answer, &dns.PTR{Hdr: hdr(dns.TypePTR), Ptr: fmt.Sprintf("ptr%d.target.test.", h%97)})
	case dns.TypeSRV:
		for i := 0; i < 1+int(h%2); i++ {
			resp.Answer = append(resp.Answer, &dns.SRV{Hdr: hdr(dns.TypeSRV), Priority: uint16(i), Weight: uint16(h % 100), Port: uint16(h%60000) + 1, Target: fmt.Sprintf("srv%d.%s", i, name)})
		}
	case dns.TypeTXT:
		t := &dns.TXT{Hdr: hdr(dns.TypeTXT)}
		for i := 0; i < 1+int(h%8); i++ {
			t.Txt = append(t.Txt, fmt.Sprintf("txt-%d-of-%s-%08x", i, name, h))
		}
		resp.Answer = append(resp.Answer, t)
	case dns.TypeSOA:
		resp.Answer = append(resp.Answer, soa())
	case dns.TypeNS:
		for i := 0; i < 2; i++ {
			resp.Answer = append(resp.Answer, &dns.NS{Hdr: hdr(dns.TypeNS), Ns: fmt.Sprintf("ns%d.%s", i, name)})
			g := &dns.A{Hdr: hdr(dns.TypeA), A: v4(i)}
			g.Hdr.Name = fmt.Sprintf("ns%d.%s", i, name)
			resp.Extra = append(resp.Extra, g)
		}
	case dns.TypeHTTPS:
		var vs []dns.SVCBKeyValue
		bit := func(i uint) bool { return h>>(i+8)&1 == 1 }
		if bit(0) {
			m := &dns.SVCBMandatory{Code: []dns.SVCBKey{dns.SVCB_ALPN}}
			if bit(9) {
				m.Code = append(m.Code, dns.SVCB_PORT)
			}
			vs = append(vs, m)
		}
		if bit(0) || bit(1) {
			a := &dns.SVCBAlpn{}
			for i := 0; i < 1+int(h>>4%4); i++ {
				a.Alpn = append(a.Alpn, []string{"h2", "h3", "http/1.1", "doq"}[i])
			}
			vs = append(vs, a)
		}
		if bit(2) {
			vs = append(vs, &dns.SVCBNoDefaultAlpn{})
		}
		if bit(9) || bit(3) {
			vs = append(vs, &dns.SVCBPort{Port: uint16(h%50000) + 1})
		}
		n4 := 1 + int(h%uint32(u.maxHints))
		h4 := &dns.SVCBIPv4Hint{}
		for i := 0; i < n4; i++ {
			h4.Hint = append(h4.Hint, net.IP{198, 51, 100 + byte(i), byte(h >> 8)})
		}
		vs = append(vs, h4)
		if bit(4) {
			ech := make([]byte, 8+h%24)
			for i := range ech {
				ech[i] = byte(h>>uint(i%4*8)) + byte(i)
			}
			vs = append(vs, &dns.SVCBECHConfig{ECH: ech})
		}
		if bit(5) || n4 > 4 {
			n6 := 1 + int(h>>3%uint32(u.maxHints))
			h6 := &dns.SVCBIPv6Hint{}
			for i := 0; i < n6; i++ {
				h6.Hint = append(h6.Hint, v6(i))
			}
			vs = append(vs, h6)
		}
		if bit(6) {
			vs = append(vs, &dns.SVCBDoHPath{Template: fmt.Sprintf("/q%d{?dns}", h%10)})
		}
		if bit(7) {
			vs = append(vs, &dns.SVCBLocal{KeyCode: dns.SVCBKey(65280 + h%16), Data: []byte(fmt.Sprintf("local-%x", h))})
		}
		if bit(8) {
			vs = append(vs, &dns.SVCBOhttp{})
		}
		resp.Answer = append(resp.Answer, &dns.HTTPS{SVCB: dns.SVCB{Hdr: hdr(dns.TypeHTTPS), Priority: 1, Target: ".", Value: vs}})
	default:
		resp.Ns = []dns.RR{soa()}
	}
}

// ---- request list ----

type reqSpec struct {
	Idx       int    `json:"idx"`
	ID        uint16 `json:"id"`
	Name      string `json:"name"`
	Class     string `json:"class"`
	QType     uint16 `json:"qtype"`
	Debug     bool   `json:"debug_chaos"`
	Requester int    `json:"-"`
	Who       string `json:"requester"`
	EDNS      bool   `json:"edns"`
	UDPSize   uint16 `json:"udp_size,omitempty"`
	DO        bool   `json:"do,omitempty"`
	AD        bool   `json:"ad,omitempty"`
	CD        bool   `json:"cd,omitempty"`
	Cookie    string `json:"cookie,omitempty"`
	ECS       string `json:"ecs,omitempty"`
	Padding   int    `json:"padding,omitempty"`
	EmptyEDE  bool   `json:"empty_ede,omitempty"`
	OptVer    uint8  `json:"opt_version,omitempty"`
	OptZ      uint16 `json:"opt_z,omitempty"`
	// Spelling is the name as it is sent if it differs from Name in letter case
	// (0x20 randomisation); the response must carry exactly this spelling.
	Spelling string `json:"spelling_on_the_wire,omitempty"`
}

var freeClasses = []string{"plain", "plain", "plain", "blk", "blk", "alw.blk", "rwa", "rwc", "rwc", "rwn", "rwt", "rwm", "rwh", "rws", "rwp", "rip", "rcn", "nx", "nodata", "refused", "ecs", "ecs"}
var classQTypes = map[string][]uint16{
	"rwa":  {dns.TypeA, dns.TypeAAAA, dns.TypeA, dns.TypeTXT},
	"rwt":  {dns.TypeTXT, dns.TypeTXT, dns.TypeA},
	"rwm":  {dns.TypeMX, dns.TypeMX, dns.TypeA},
	"rwh":  {dns.TypeHTTPS, dns.TypeHTTPS, dns.TypeA},
	"rws":  {dns.TypeSRV, dns.TypeSRV, dns.TypeA},
	"rwp":  {dns.TypePTR, dns.TypePTR, dns.TypeA},
	"rip":  {dns.TypeA},
	"rcn":  {dns.TypeA},
	"ecs":  {dns.TypeA},
	"":     {dns.TypeA, dns.TypeA, dns.TypeAAAA, dns.TypeAAAA, dns.TypeHTTPS, dns.TypeHTTPS, dns.TypeHTTPS, dns.TypeTXT, dns.TypeMX, dns.TypeSRV, dns.TypePTR, dns.TypeCNAME, dns.TypeSOA, dns.TypeNS},
	"hash": {dns.TypeA, dns.TypeAAAA, dns.TypeHTTPS, dns.TypeA},
}

var ecsChoices = []string{"100.64.1.0/24", "100.64.2.0/24", "198.18.7.0/24", "0.0.0.0/0", "2001:db8:ec5:1::/56", "::/0", "100.64.0.0/16"}

// pinned: hash-prefix classes are requested by one profile (or by anonymous
// clients) only, with a request shape that is a function of the name, because
// the hash-prefix result cache hands the first requester's message to later
// requesters (property C12's subject, deliberately kept out of this check).
type pinned struct {
	class string
	tag   string
	prof  int
	srv   string // for anonymous: which group
}

var pinnedClasses = []pinned{
	{"adult", "p5", 5, ""}, {"danger", "p5", 5, ""}, {"danger", "p3", 3, ""}, {"danger", "an", -1, "g"}, {"adult", "pu", -1, "pub"},
}

func genShape(rng interface{ IntN(int) int }, s *reqSpec) {
	switch rng.IntN(5) {
	case 0:
		return
	}
	s.EDNS = true
	s.UDPSize = uint16(512 + rng.IntN(3585))
	s.DO = rng.IntN(3) == 0
	if rng.IntN(3) == 0 {
		s.Cookie = fmt.Sprintf("%016x", uint64(rng.IntN(1<<30))<<20|uint64(s.Idx))
	}
	if rng.IntN(3) == 0 {
		s.ECS = ecsChoices[rng.IntN(len(ecsChoices))]
	}
	if rng.IntN(4) == 0 {
		s.Padding = 1 + rng.IntN(40)
	}
	if rng.IntN(5) == 0 {
		s.EmptyEDE = true
	}
	if rng.IntN(6) == 0 {
		s.OptVer = uint8(rng.IntN(3))
		s.OptZ = uint16(rng.IntN(0x7fff))
	}
}

func genRequests(r *vkit.Run, n int, rqs []requester) []reqSpec {
	rng := r.Rand("stack-requests", 0)
	byProf := map[int][]int{}
	for i, q := range rqs {
		byProf[q.Prof] = append(byProf[q.Prof], i)
	}
	nNames := n*2/5 + 1
	out := make([]reqSpec, 0, n)
	ids := rng.Perm(65535)
	for i := 0; i < n; i++ {
		s := reqSpec{Idx: i, ID: uint16(ids[i%65535] + 1)}
		k := rng.IntN(nNames)
		if rng.IntN(3) == 0 {
			k = rng.IntN(1 + nNames/20) // hot names: cache hits
		}
		krng := r.Rand("stack-name", k) // everything that is a function of the name
		if krng.IntN(6) == 0 {
			pc := pinnedClasses[krng.IntN(len(pinnedClasses))]
			s.Class = pc.class + "@" + pc.tag
			s.Name = fmt.Sprintf("n%d.%s.%s.test.", k, pc.tag, pc.class)
			qts := classQTypes["hash"]
			s.QType = qts[krng.IntN(len(qts))]
			genShape(krng, &s)
			s.ECS = "" // keep the location out of pinned shapes
			var cands []int
			for _, ri := range byProf[pc.prof] {
				if pc.prof >= 0 || (pc.srv == "pub") == (rqs[ri].Server == "pub") {
					cands = append(cands, ri)
				}
			}
			s.Requester = cands[rng.IntN(len(cands))]
			s.Debug = krng.IntN(8) == 0
		} else {
			s.Class = freeClasses[krng.IntN(len(freeClasses))]
			s.Name = fmt.Sprintf("n%d.%s.test.", k, s.Class)
			qts := classQTypes[s.Class]
			if qts == nil {
				qts = classQTypes[""]
			}
			s.QType = qts[krng.IntN(len(qts))]
			if rng.IntN(4) == 0 {
				s.QType = qts[rng.IntN(len(qts))]
			}
			genShape(rng, &s)
			s.Requester = rng.IntN(len(rqs))
			s.Debug = rng.IntN(8) == 0
			if rng.IntN(3) == 0 {
				// another client spells the same (cached) name in its own letter case
				s.Spelling = mixCase(rng, s.Name)
			}
		}
		s.AD = rng.IntN(4) == 0
		s.CD = rng.IntN(8) == 0
		s.Who = rqs[s.Requester].Tag
		out = append(out, s)
	}
	return out
}

// wireName returns the name in the spelling the client uses.
func (s *reqSpec) wireName() string {
	if s.Spelling != "" {
		return s.Spelling
	}
	return s.Name
}

// mixCase returns name with a random subset of its letters (at least one) in
// upper case.
func mixCase(rng interface{ IntN(int) int }, name string) string {
	b := []byte(name)
	var letters []int
	for i, c := range b {
		if c >= 'a' && c <= 'z' {
			letters = append(letters, i)
		}
	}
	if len(letters) == 0 {
		return name
	}
	for _, i := range letters {
		if rng.IntN(2) == 0 {
			b[i] -= 'a' - 'A'
		}
	}
	if string(b) == name {
		b[letters[0]] -= 'a' - 'A'
	}
	return string(b)
}

func (s *reqSpec) build() (*dns.Msg, error) {
	m := &dns.Msg{}
	m.Id = s.ID
	m.RecursionDesired = true
	m.AuthenticatedData = s.AD
	m.CheckingDisabled = s.CD
	qc := uint16(dns.ClassINET)
	if s.Debug {
		qc = dns.ClassCHAOS
	}
	m.Question = []dns.Question{{Name: s.wireName(), Qtype: s.QType, Qclass: qc}}
	if s.EDNS {
		o := &dns.OPT{Hdr: dns.RR_Header{Name: ".", Rrtype: dns.TypeOPT}}
		o.SetUDPSize(s.UDPSize)
		if s.DO {
			o.SetDo()
		}
		o.SetVersion(s.OptVer)
		o.Hdr.Ttl |= uint32(s.OptZ)
		if s.Cookie != "" {
			o.Option = append(o.Option, &dns.EDNS0_COOKIE{Code: dns.EDNS0COOKIE, Cookie: s.Cookie})
		}
		if s.ECS != "" {
			p := netip.MustParsePrefix(s.ECS)
			e := &dns.EDNS0_SUBNET{Code: dns.EDNS0SUBNET, SourceNetmask: uint8(p.Bits())}
			if p.Addr().Is4() {
				e.Family = 1
				a := p.Addr().As4()
				e.Address = net.IP(a[:])
			} else {
				e.Family = 2
				a := p.Addr().As16()
				e.Address = net.IP(a[:])
			}
			o.Option = append(o.Option, e)
		}
		if s.EmptyEDE {
			o.Option = append(o.Option, &dns.EDNS0_EDE{})
		}
		if s.Padding > 0 {
			o.Option = append(o.Option, &dns.EDNS0_PADDING{Padding: make([]byte, s.Padding)})
		}
		m.Extra = []dns.RR{o}
	}
	// as a transport does: the handler gets a message parsed from the wire
	return wire(m)
}

// ---- running a phase ----

type result struct {
	packed   [][]byte
	resps    []*dns.Msg
	err      string
	panicked string
	start    time.Duration // since phase start (monotonic)
	end      time.Duration
	overlap  bool // another request was in flight at some moment of this one
	upCalls  int64
}

func (w *world) serve(s *reqSpec, rq *requester) (*stack.Outcome, error) {
	m, err := s.build()
	if err != nil {
		return nil, err
	}
	grp := "g"
	if rq.Server == "pub" {
		grp = "pub"
	}
	req := &stack.Request{Server: w.servers[rq.Server], Group: w.groups[grp], Msg: m,
		Remote: netip.MustParseAddrPort(rq.Remote), Local: w.locals[rq.Server], TLSServerName: rq.TLSName}
	if rq.Server == "doh" {
		req.URL = &url.URL{Path: rq.Path}
	}
	o := w.st.Serve(req)
	w.st.Forget(o)
	return o, nil
}

func runPhase(r *vkit.Run, w *world, specs []reqSpec, rqs []requester, workers int) ([]result, time.Duration) {
	res := make([]result, len(specs))
	t0 := time.Now()
	var next atomic.Int64
	var inflight atomic.Int32
	var wg sync.WaitGroup
	for g := 0; g < workers; g++ {
		wg.Add(1)
		go func() {
			defer wg.Done()
			for {
				i := int(next.Add(1)) - 1
				if i >= len(specs) {
					return
				}
				s := &specs[i]
				rs := &res[i]
				rs.start = time.Since(t0)
				if inflight.Add(1) > 1 {
					rs.overlap = true
				}
				o, err := w.serve(s, &rqs[s.Requester])
				if inflight.Add(-1) > 0 {
					rs.overlap = true
				}
				rs.end = time.Since(t0)
				if err != nil {
					rs.err = "harness: " + err.Error()
					continue
				}
				rs.packed, rs.resps = o.Packed, o.Responses
				if o.Err != nil {
					rs.err = o.Err.Error()
				}
				if o.Panic != nil {
					rs.panicked = fmt.Sprint(o.Panic)
				}
			}
		}()
	}
	wg.Wait()
	return res, time.Since(t0)
}

// ---- oracle ----

// ttlCandidates are the upstream TTLs that a record of the response to s may
// descend from: the question itself or the name it is rewritten to.
func ttlCandidates(s *reqSpec, rq *requester) []uint32 {
	c := []uint32{upstreamTTL(s.Name, s.QType)}
	for p := 0; p < nProfiles; p++ {
		c = append(c, upstreamTTL(fmt.Sprintf("tgt%d.cn.test.", p), s.QType))
	}
	c = append(c, upstreamTTL("family.replacement.test.", s.QType))
	return c
}

// admissibleDecay: ttl may be a decayed form of upstream TTL T if the cache
// entry can be at most `age` old: T-age-1 <= ttl <= T.
func admissibleDecay(ttl uint32, cands []uint32, age time.Duration) bool {
	slack := uint32(age/time.Second) + 2
	for _, T := range cands {
		if ttl <= T && ttl+slack >= T {
			return true
		}
	}
	return false
}

type mismatch struct {
	key  string
	what string
	info map[string]any
}

func hexs(bs [][]byte) []string {
	var o []string
	for _, b := range bs {
		o = append(o, hex.EncodeToString(b))
	}
	return o
}

func compareOne(s *reqSpec, rq *requester, a, b *result, ageA, ageB time.Duration, counters map[string]int64) *mismatch {
	if b.panicked != "" || a.panicked != "" {
		if a.panicked != b.panicked {
			return &mismatch{"stack:panic", "request handling panicked in one phase only", map[string]any{"sequential": a.panicked, "concurrent": b.panicked}}
		}
		return nil
	}
	if a.err != b.err {
		return &mismatch{"stack:error-differs", "handler error differs from the sequential reference", map[string]any{"sequential": a.err, "concurrent": b.err}}
	}
	if len(a.resps) != len(b.resps) {
		return &mismatch{"stack:response-count", "number of responses written differs from the sequential reference", map[string]any{"sequential": len(a.resps), "concurrent": len(b.resps)}}
	}
	for i := range a.resps {
		ma, mb := a.resps[i], b.resps[i]
		if ma == nil || mb == nil {
			continue
		}
		// self-identification (in both phases)
		for _, pm := range []struct {
			phase string
			m     *dns.Msg
		}{{"sequential", ma}, {"concurrent", mb}} {
			if pm.m.Id != s.ID {
				return &mismatch{"stack:foreign-id", "response carries another request's ID", map[string]any{"phase": pm.phase, "got": pm.m.Id, "response": pm.m.String()}}
			}
			wantClass := uint16(dns.ClassINET)
			if s.Debug {
				wantClass = dns.ClassCHAOS
			}
			// byte-exact, letter case included: the question belongs to this request
			if len(pm.m.Question) != 1 || pm.m.Question[0].Name != s.wireName() || pm.m.Question[0].Qtype != s.QType || pm.m.Question[0].Qclass != wantClass {
				return &mismatch{"stack:foreign-question", "response carries another request's question (name spelling, type or class are not the ones this client sent)", map[string]any{"phase": pm.phase, "got": fmt.Sprint(pm.m.Question), "response": pm.m.String()}}
			}
		}
		if bytes.Equal(a.packed[i], b.packed[i]) {
			counters["byte_identical"]++
			continue
		}
		// differences must be confined to TTLs of cached upstream records
		ca, cb := ma.Copy(), mb.Copy()
		if ca.MsgHdr != cb.MsgHdr {
			return &mismatch{"stack:header-differs", "header flags/rcode differ from the sequential reference", map[string]any{"sequential": ma.String(), "concurrent": mb.String()}}
		}
		secs := []struct {
			n    string
			x, y []dns.RR
		}{{"answer", ca.Answer, cb.Answer}, {"authority", ca.Ns, cb.Ns}, {"additional", ca.Extra, cb.Extra}}
		cands := ttlCandidates(s, rq)
		ttlBad := false
		for _, sec := range secs {
			if len(sec.x) != len(sec.y) {
				return &mismatch{"stack:records-differ:" + sec.n, "record count differs from the sequential reference", map[string]any{"sequential": ma.String(), "concurrent": mb.String()}}
			}
			for j := range sec.x {
				hx, hy := sec.x[j].Header(), sec.y[j].Header()
				if hx.Rrtype == dns.TypeOPT || hy.Rrtype == dns.TypeOPT {
					continue
				}
				if hx.Ttl != hy.Ttl {
					if admissibleDecay(hx.Ttl, cands, ageA) && admissibleDecay(hy.Ttl, cands, ageB) {
						hx.Ttl, hy.Ttl = 0, 0
						counters["ttl_decay_masked"]++
					} else {
						ttlBad = true
					}
				}
			}
		}
		ca.Compress, cb.Compress = false, false
		pa, ea := ca.Pack()
		pb, eb := cb.Pack()
		if ea != nil || eb != nil {
			return &mismatch{"stack:repack-failed", "response copy does not pack", map[string]any{"a": fmt.Sprint(ea), "b": fmt.Sprint(eb)}}
		}
		if !bytes.Equal(pa, pb) {
			class, la, lb := diffClass(ca.String(), cb.String())
			key := "stack:records-differ:" + class
			if s.Debug && class == "TXT" && strings.Contains(la+lb, "CH\tTXT") {
				key = "stack:debug-info-differs"
			}
			if ttlBad && class == "wire-only" {
				key = "stack:ttl-differs"
			}
			return &mismatch{key, "response differs from the one the same request got when processed alone (sequential reference)",
				map[string]any{"changed_part": class, "line_sequential": la, "line_concurrent": lb, "sequential": ma.String(), "concurrent": mb.String()}}
		}
		if ttlBad {
			return &mismatch{"stack:ttl-differs", "a TTL differs from the reference and is not explained by the decay of a cached upstream answer",
				map[string]any{"sequential": ma.String(), "concurrent": mb.String(), "upstream_ttl_candidates": cands}}
		}
		counters["equal_modulo_cache_ttl_decay"]++
	}
	return nil
}

func shapeOf(m *dns.Msg) string {
	if m == nil {
		return "none"
	}
	first := "-"
	if len(m.Answer) > 0 {
		first = dns.TypeToString[m.Answer[0].Header().Rrtype]
	}
	blocked := ""
	for _, rr := range m.Ns {
		if soa, ok := rr.(*dns.SOA); ok && strings.HasPrefix(soa.Ns, "fake-for-negative-caching") {
			blocked = "+agdsoa"
		}
	}
	return fmt.Sprintf("%s/an=%d/first=%s%s", dns.RcodeToString[m.Rcode], len(m.Answer), first, blocked)
}

func runStackMonitor(t *testing.T, r *vkit.Run, httpsDefect bool) {
	scratch := os.Getenv("VERIF_SCRATCH")
	if scratch == "" {
		scratch = t.TempDir()
	}
	maxHints := 8
	if httpsDefect {
		maxHints = 4
		r.Assume("stack differential: upstream HTTPS answers (wire-parsed, as from the real forwarder) carry <= 4 ipv4hint/ipv6hint addresses while cloner:https-hint-pool-aliasing is present (1..8 once it is fixed)")
	}
	if v := os.Getenv("C07_FORCE_STACK_MAX_HINTS"); v != "" {
		// diagnostic only: show the impact of the hint-pool aliasing in the stack
		if n, err := strconv.Atoi(v); err == nil && n >= 1 && n <= 8 {
			maxHints = n
		}
	}
	r.Extra("stack_upstream_max_hints", maxHints)
	tp0 := time.Now()
	runCachePopulation(r, scratch, maxHints)
	r.Extra("stack_cachepop_phase_seconds", time.Since(tp0).Seconds())

	rqs := requesters()
	n := r.N(2000, 20000)
	specs := genRequests(r, n, rqs)

	var noise atomic.Uint64
	yield := func() {
		x := noise.Add(0x9e3779b97f4a7c15)
		x ^= x >> 31
		x *= 0xbf58476d1ce4e5b9
		x ^= x >> 29
		switch x % 8 {
		case 0, 1, 2:
			runtime.Gosched()
		case 3:
			time.Sleep(time.Duration(1+x>>8%40) * time.Microsecond)
		case 4:
			for i := 0; i < int(x>>8%3)+1; i++ {
				runtime.Gosched()
			}
		}
	}

	tp := time.Now()
	runSimpleCacheRecycling(r, scratch, maxHints)
	r.Extra("stack_simplecache_phase_seconds", time.Since(tp).Seconds())
	tp = time.Now()
	runSharedRuleList(r, scratch, maxHints, yield)
	r.Extra("stack_rulelist_phase_seconds", time.Since(tp).Seconds())

	upsA := &upstreamFn{maxHints: maxHints}
	wA, err := newWorld(filepath.Join(scratch, "a"), nil, upsA)
	if err != nil {
		r.Inconclusive("cannot build stack instance 1: " + err.Error())
		return
	}
	resA, durA := runPhase(r, wA, specs, rqs, 1)
	counters := map[string]int64{}
	shapes := map[string]int64{}
	rounds := r.N(3, 8)
	durs := map[string]float64{"sequential": durA.Seconds()}
	var upCallsB, fltErrsB int64
	for round := 0; round < rounds; round++ {
		upsB := &upstreamFn{maxHints: maxHints}
		wB, err := newWorld(filepath.Join(scratch, fmt.Sprintf("b%d", round)), yield, upsB)
		if err != nil {
			r.Inconclusive("cannot build stack instance 2: " + err.Error())
			return
		}
		resB, durB := runPhase(r, wB, specs, rqs, 32)
		durs[fmt.Sprintf("concurrent_round_%d", round)] = durB.Seconds()
		upCallsB += upsB.calls.Load()
		fltErrsB += wB.fltErrs.n.Load()
		for i := range specs {
			s := &specs[i]
			rq := &rqs[s.Requester]
			a, b := &resA[i], &resB[i]
			mm := compareOne(s, rq, a, b, a.end, b.end, counters)
			if mm != nil {
				info := map[string]any{"round": round, "request": s, "requester": rq, "sequential_packed": hexs(a.packed), "concurrent_packed": hexs(b.packed)}
				for k, v := range mm.info {
					info[k] = v
				}
				r.Violation(mm.key, mm.what, info)
				counters["mismatches"]++
			}
			qc := "IN"
			if s.Debug {
				qc = "CH"
			}
			class := fmt.Sprintf("%s|%s|%s|%s|edns=%v", s.Class, s.Who, dns.TypeToString[s.QType], qc, s.EDNS)
			r.Eval(class, b.overlap)
			if b.overlap {
				counters["requests_overlapping_in_time"]++
			}
			if len(b.resps) > 0 {
				counters["responses_concurrent"]++
			}
		}
	}
	r.Extra("stack_phase_seconds", durs)
	r.Extra("stack_concurrent_rounds", rounds)
	for i := range specs {
		s := &specs[i]
		a := &resA[i]
		var ra *dns.Msg
		if len(a.resps) > 0 {
			ra = a.resps[0]
			counters["responses_sequential"]++
		}
		sh := shapeOf(ra)
		shapes[strings.SplitN(s.Class, "@", 2)[0]+" -> "+sh]++
		if a.err != "" {
			counters["errors_sequential"]++
		}
		if ra != nil {
			if strings.Contains(sh, "+agdsoa") || (len(ra.Answer) == 1 && (strings.HasSuffix(ra.Answer[0].String(), "\t0.0.0.0") || strings.HasSuffix(ra.Answer[0].String(), "\t::") || strings.Contains(ra.Answer[0].String(), "192.0.2.33") || strings.Contains(ra.Answer[0].String(), "2001:db8::33"))) {
				counters["blocked_shapes"]++
			}
			if len(ra.Answer) > 0 {
				if cn, ok := ra.Answer[0].(*dns.CNAME); ok && (strings.HasSuffix(cn.Target, ".cn.test.") || cn.Target == "family.replacement.test.") {
					counters["cname_rewrites"]++
				}
			}
			if strings.HasPrefix(s.Class, "rw") && s.Class != "rwc" && ra.Rcode == dns.RcodeSuccess && len(ra.Answer) > 0 && !strings.Contains(ra.Answer[0].String(), "198.51.") {
				counters["modified_responses"]++
			}
			if strings.HasPrefix(s.Class, "danger@") {
				counters["hashprefix_requests"]++
			}
			if s.Debug && len(ra.Extra) > 0 {
				counters["debug_responses"]++
			}
			for _, rr := range ra.Answer {
				if h, ok := rr.(*dns.HTTPS); ok && len(h.Value) > 1 {
					counters["https_answers_with_params"]++
					break
				}
			}
		}
		if i%331 == 7 {
			smp := map[string]any{"monitor": "stack differential", "request": s}
			if ra != nil {
				smp["response_sequential"] = ra.String()
			}
			r.Sample(smp)
		}
	}
	counters["upstream_calls_sequential"] = upsA.calls.Load()
	counters["upstream_calls_concurrent"] = upCallsB
	counters["cache_hits_sequential_lower_bound"] = int64(len(specs)) - upsA.calls.Load()
	counters["cache_hits_concurrent_lower_bound"] = int64(len(specs)*rounds) - upCallsB
	counters["written_responses_disposed"] = disposedWritten.Load()
	counters["filter_errors_collected"] = wA.fltErrs.n.Load() + fltErrsB
	for k, v := range counters {
		r.Bucket("stack_"+k, v)
	}
	ks := make([]string, 0, len(shapes))
	for k := range shapes {
		ks = append(ks, k)
	}
	sort.Strings(ks)
	sh := map[string]int64{}
	for _, k := range ks {
		sh[k] = shapes[k]
	}
	r.Extra("stack_class_to_response_shape", sh)
	r.Bucket("stack_requests", int64(len(specs)))
	var mixed, mixedOnSharedName int64
	byName := map[string]map[string]bool{}
	for i := range specs {
		if byName[specs[i].Name] == nil {
			byName[specs[i].Name] = map[string]bool{}
		}
		byName[specs[i].Name][specs[i].wireName()] = true
	}
	for i := range specs {
		if specs[i].Spelling != "" {
			mixed++
			if len(byName[specs[i].Name]) > 1 {
				mixedOnSharedName++
			}
		}
	}
	r.Bucket("stack_requests_with_mixed_case_spelling", mixed)
	r.Bucket("stack_requests_with_mixed_case_spelling_of_a_name_others_spell_differently", mixedOnSharedName)
}
