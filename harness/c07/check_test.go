// Package c07 monitors property C07: concurrent clients never see each other's
// answers, policies or identities; pools never alias.
//
// Two monitors (DESIGN.md section 2, C07):
//
//  1. stackmon_test.go – full-stack differential under the race detector: the
//     same request list is run sequentially on one instance of the real
//     middleware stack (reference) and from 32 goroutines on fresh further
//     instances (3 rounds quick, 8 thorough, with scheduling noise injected by
//     the fakes), every written response being released to the Cloner exactly as
//     dnsserver.ServerBase does; per request the packed responses must be equal
//     modulo the TTL decay of cached upstream answers.
//  2. heap_test.go – shadow heap over seeded random Clone/Dispose/constructor
//     histories on arbitrary messages: every live message is re-checked against
//     its snapshot after every step; clones must equal and be independent of
//     their originals; constructor results must not depend on what was released
//     before.  Single-threaded and with 8 goroutines on one Cloner.
package c07

import (
	"crypto/sha256"
	"encoding/hex"
	"testing"
	"time"

	"github.com/AdguardTeam/AdGuardDNS/verif/vkit"
)

func shortHash(s string) string {
	h := sha256.Sum256([]byte(s))
	return hex.EncodeToString(h[:8])
}

func TestCheck(t *testing.T) {
	r := vkit.Start(t, "C07", "exploration")
	defer r.Finish()
	r.Rule("stack: seeded list of requests over 23 name classes (plain/blocked/allowed/10 rewrite kinds/response-blocked/NXDOMAIN/NODATA/REFUSED/ECS-dependent/hash-prefix) x 23 requesters " +
		"(6 profiles with different blocking modes, filtered-response TTLs and custom rules, each via DoT SNI, DoH path and linked IP; 5 kinds of anonymous clients) x 14 qtypes x EDNS shapes x CHAOS debug; " +
		"class = (name class, requester, qtype, qclass, edns); a case is non-trivial iff, in the concurrent phase, at least one other request was in flight while it was served (measured). " +
		"cache-population: scripted histories of three different clients of one cache key on a shared instance (first with ECS option / without AD+DO, later without ECS / with AD, ECS-dependent and plain names, plus a control order), every response compared with the same request processed alone on a fresh stack; class = (variant, qtype, DO, servers); non-trivial iff the first request was a miss and a later one was served from the cache (measured by upstream calls). " +
		"simple-cache: scripted histories on a stack with the simple cache middleware (miss, fresh hit released into the pools, requests of other profiles that draw records of the same type from the pools, later hits) for 7 record types, each response compared with the same request processed alone on a fresh stack; non-trivial iff the fresh hit was served with undecayed TTLs and a later hit followed (measured). " +
		"shared-rule-list: real filter storage with index rule lists and result caches; two profiles sharing one list (3 resp. 5 matching rules from different lookup tables) with different further lists ask the same hosts from 32 goroutines; each response compared with its profile's processed-alone response; non-trivial iff another request was in flight (measured). " +
		"blocked-services: real blocked-service index (3 services, result caches on), 3 profiles with different overlapping service sets; sequential histories (non-blocking profile and the two blocking ones in 4 orders, A/AAAA/HTTPS) and a concurrent drive, every response vs processed alone; non-trivial iff the processed-alone verdicts of the profiles differ (measured). " +
		"listeners: real plain-DNS UDP+TCP and DoT servers with Disposer = the constructor's Cloner; 16 UDP sockets x 12 and 6+6 stream connections x 10 equal-size queries per round sent at the same moment; every socket must receive only answers to its own IDs/questions with the answer data of that question; one evaluation per round. " +
		"heap: seeded histories of 200 operations (build / wire-parse / constructor call / Clone / Dispose / drop / modify in place) over the full RR, SVCB-parameter and EDNS-option alphabet with slice lengths 0..8; " +
		"class = hash of the (operation, message kind) sequence; non-trivial iff something was cloned or constructed after a Dispose while another message was live (and, for the 8-goroutine variant, goroutines really overlapped).")
	r.Assume("upstream answers are a pure function of the question (plus the client subnet for the ECS-dependent name class), with one TTL for all records of an answer and lower-case owner names")
	r.Assume("names matched by the hash-prefix filters are requested by one profile only and with a request shape that is a function of the name (the hash-prefix result cache hands the first requester's message to later ones: C12's subject)")
	r.Assume("DNS-rewrite rules for HTTPS carry one SVCB parameter (the constructor iterates a Go map, so the order of several parameters is random by design)")
	r.Assume("a message is released at most once and never used by its owner afterwards; generated messages share no memory with each other")

	tHeap := time.Now()
	httpsDefect := runHeapMonitor(r)
	r.Extra("heap_monitor_seconds", time.Since(tHeap).Seconds())
	runStackMonitor(t, r, httpsDefect)
	tl := time.Now()
	runListeners(r)
	r.Extra("listener_phase_seconds", time.Since(tl).Seconds())

	// coverage gates (minima far below what the unchanged tree yields)
	r.Require("stack_requests", 1000)
	r.Require("stack_responses_sequential", 900)
	r.Require("stack_requests_overlapping_in_time", 500)
	r.Require("stack_blocked_shapes", 40)
	r.Require("stack_cname_rewrites", 15)
	r.Require("stack_modified_responses", 40)
	r.Require("stack_debug_responses", 40)
	r.Require("stack_hashprefix_requests", 20)
	r.Require("stack_https_answers_with_params", 20)
	r.Require("stack_cache_hits_sequential_lower_bound", 100)
	r.Require("stack_written_responses_disposed", 1800)
	// cache-population histories: every run must have evaluated later requesters
	// of a cache key that another client populated, in each critical class
	r.Require("stack_cachepop_pairs_total", 120)
	r.Require("stack_cachepop_pairs_ecs-then-none", 30)
	r.Require("stack_cachepop_pairs_ecsdep-ecs-then-none", 30)
	r.Require("stack_cachepop_pairs_noad-then-ad", 30)
	r.Require("stack_cachepop_first_answer_carried_its_ecs_option", 30)
	r.Require("stack_cachepop_later_alone_answer_has_ad", 30)
	r.Require("stack_cachepop_later_hits_spelled_differently_from_first", 100)
	r.Require("stack_requests_with_mixed_case_spelling", 300)
	// simple-cache configuration: histories miss -> fresh hit (released) -> pool
	// draws of the same record type -> later hits must really have happened
	r.Require("stack_simplecache_histories_with_fresh_hit_and_later_hit", 32)
	r.Require("stack_simplecache_later_hits_after_fresh_hit", 64)
	r.Require("stack_simplecache_pool_draw_answers", 150)
	// shared rule list: both profiles' processed-alone verdicts differ on every
	// hot host, and enough requests of both profiles overlapped on them
	r.Require("stack_rulelist_hosts_where_alone_verdicts_differ", 2)
	r.Require("stack_rulelist_concurrent_requests_overlapping", 4000)
	// blocked services: sequential histories of profiles with different service
	// sets on the same host, in both orders, and the concurrent drive
	r.Require("stack_services_histories_where_alone_verdicts_differ", 20)
	r.Require("stack_services_sequential_requests", 60)
	r.Require("stack_services_concurrent_requests_overlapping", 1500)
	// listeners: concurrent equal-size bursts really reached the real servers and
	// were in flight together
	r.Require("listener_udp_datagrams_sent_back_to_back", 1500)
	r.Require("listener_udp_responses_own", 1000)
	r.Require("listener_tcp_responses_own", 400)
	r.Require("listener_dot_responses_own", 400)
	r.Require("listener_requests_overlapping_in_handler", 500)
	r.Require("heap_clone_calls", 5000)
	r.Require("heap_dispose_calls", 5000)
	r.Require("heap_dispose_wire", 1000)
	r.Require("heap_dispose_ctor", 500)
	r.Require("heap_dispose_clone", 1000)
	r.Require("heap_ctor_twin_comparisons", 2000)
	r.Require("heap_snapshot_comparisons", 100000)
	r.Require("heap_distinct_rrkind_x_operation_pairs", 150)
	r.Require("heap_conc_rounds_parallel", 10)
	r.Require("probe_https_attempts", 8)
	r.Require("probe_opt_attempts", 1)
	r.Require("probe_opt_fallback_attempts", 1)
}
