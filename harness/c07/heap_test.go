package c07

import (
	"bytes"
	"fmt"
	"net"
	"net/netip"
	"net/url"
	"runtime"
	"sort"
	"strings"
	"sync"
	"sync/atomic"
	"time"
	"unsafe"

	"github.com/AdguardTeam/AdGuardDNS/internal/dnsmsg"
	"github.com/AdguardTeam/AdGuardDNS/verif/vkit"
	"github.com/AdguardTeam/urlfilter/rules"
	"github.com/miekg/dns"
)

// ---- snapshots ----

type snap struct {
	packed []byte
	str    string
}

func takeSnap(m *dns.Msg) (s snap, err error) {
	defer func() {
		if p := recover(); p != nil {
			err = fmt.Errorf("panic while packing/printing: %v", p)
		}
	}()
	// Pack first: Msg.Pack writes the extended-rcode bits into the OPT header.
	b, err := m.Pack()
	if err != nil {
		return snap{}, err
	}
	return snap{packed: b, str: m.String()}, nil
}

func (s snap) equal(o snap) bool { return bytes.Equal(s.packed, o.packed) && s.str == o.str }

// entry is one live message of the shadow heap.
type entry struct {
	id   int
	m    *dns.Msg
	kind string // built | wire | clone | ctor
	s    snap
	desc string
}

type opRec struct {
	Step   int    `json:"step"`
	Op     string `json:"op"`
	Target int    `json:"msg,omitempty"`
	From   int    `json:"from,omitempty"`
	Kind   string `json:"kind,omitempty"`
	Desc   string `json:"desc,omitempty"`
}

// heapStats are shared counters of the shadow-heap monitor.
type heapStats struct {
	mu        sync.Mutex
	pairs     map[string]struct{} // "<rrkind>:<op>"
	highWater int
}

func (hs *heapStats) addPairs(m *dns.Msg, op string) {
	ks := rrKinds(m)
	hs.mu.Lock()
	for _, k := range ks {
		hs.pairs[k+":"+op] = struct{}{}
	}
	hs.mu.Unlock()
}

func (hs *heapStats) live(n int) {
	hs.mu.Lock()
	if n > hs.highWater {
		hs.highWater = n
	}
	hs.mu.Unlock()
}

// ---- constructors under test and their pool-history-free twins ----

type ctorPair struct {
	name string
	c    *dnsmsg.Constructor // uses the shared cloner (with pool history)
	ref  *dnsmsg.Constructor // uses a cloner into which nothing is ever disposed
	ede  bool
}

func sdeConf(enabled bool) *dnsmsg.StructuredDNSErrorsConfig {
	c := &dnsmsg.StructuredDNSErrorsConfig{Enabled: enabled}
	if enabled {
		c.Contact = []*url.URL{{Scheme: "mailto", Opaque: "support@dns.example"}}
		c.Justification = "Filtered by AdGuard DNS"
		c.Organization = "Test Org"
	}
	return c
}

func newCtorPairs(shared, ref *dnsmsg.Cloner) []ctorPair {
	modes := []struct {
		n string
		m dnsmsg.BlockingMode
	}{
		{"nullip", &dnsmsg.BlockingModeNullIP{}},
		{"nxdomain", &dnsmsg.BlockingModeNXDOMAIN{}},
		{"refused", &dnsmsg.BlockingModeREFUSED{}},
		{"custom46", &dnsmsg.BlockingModeCustomIP{IPv4: []netip.Addr{netip.MustParseAddr("192.0.2.77"), netip.MustParseAddr("192.0.2.78")},
			IPv6: []netip.Addr{netip.MustParseAddr("2001:db8::77")}}},
		{"custom4", &dnsmsg.BlockingModeCustomIP{IPv4: []netip.Addr{netip.MustParseAddr("192.0.2.79")}}},
	}
	var out []ctorPair
	for i, md := range modes {
		for _, ede := range []bool{false, true} {
			sde := ede && i%2 == 0
			mk := func(cl *dnsmsg.Cloner) *dnsmsg.Constructor {
				c, err := dnsmsg.NewConstructor(&dnsmsg.ConstructorConfig{Cloner: cl, BlockingMode: md.m, StructuredErrors: sdeConf(sde),
					FilteredResponseTTL: time.Duration(10*(i+1)) * time.Second, EDEEnabled: ede})
				if err != nil {
					panic(err)
				}
				return c
			}
			out = append(out, ctorPair{name: fmt.Sprintf("%s/ede=%v/sde=%v", md.n, ede, sde), c: mk(shared), ref: mk(ref), ede: ede})
		}
	}
	return out
}

// ---- history runner ----

type hist struct {
	r     *vkit.Run
	hs    *heapStats
	tag   string // "seq/<i>" or "conc/<i>/g<k>"
	g     *gen
	gw    *gen // wire-safe generator
	cl    *dnsmsg.Cloner
	ctors []ctorPair
	live  []*entry
	// ghosts are messages that are no longer monitored (they stopped packing)
	// but whose memory still matters for classifying damage to live messages.
	ghosts []*entry
	log    []opRec
	next   int
	step   int
	// counters (flushed into buckets at the end)
	cnt map[string]int64
	// recycled: a Dispose happened; recycledLive: a Clone/ctor happened after a
	// Dispose while at least one other message was live.
	disposed     bool
	recycledLive bool
	sig          []string
	yield        bool
}

func (h *hist) rec(op string, target, from int, kind, desc string) {
	h.log = append(h.log, opRec{Step: h.step, Op: op, Target: target, From: from, Kind: kind, Desc: desc})
	h.sig = append(h.sig, op+"/"+kind)
}

func (h *hist) witness(extra map[string]any) map[string]any {
	lg := h.log
	if len(lg) > 80 {
		lg = lg[len(lg)-80:]
	}
	w := map[string]any{"history": h.tag, "step": h.step, "ops_tail": lg}
	for k, v := range extra {
		w[k] = v
	}
	return w
}

func describe(m *dns.Msg) string { return strings.Join(rrKinds(m), ",") }

func (h *hist) add(m *dns.Msg, kind string) *entry {
	s, err := takeSnap(m)
	if err != nil {
		// cannot be monitored (does not pack) – not kept
		h.cnt["unpackable_dropped"]++
		return nil
	}
	h.next++
	e := &entry{id: h.next, m: m, kind: kind, s: s, desc: describe(m)}
	h.live = append(h.live, e)
	h.hs.live(len(h.live))
	return e
}

// hintWindows collects the 16-byte-capacity windows of every ipv4hint/ipv6hint
// address reachable from the live messages (monitor-side memory observation,
// used only to classify a corruption that was already observed).
type window struct {
	base uintptr
	n    int
	msg  int
}

func (h *hist) hintWindows() []window {
	var ws []window
	all := append(append([]*entry(nil), h.live...), h.ghosts...)
	for _, e := range all {
		for _, rr := range e.m.Answer {
			hs, ok := rr.(*dns.HTTPS)
			if !ok {
				continue
			}
			for _, kv := range hs.Value {
				var ips []net.IP
				switch v := kv.(type) {
				case *dns.SVCBIPv4Hint:
					ips = v.Hint
				case *dns.SVCBIPv6Hint:
					ips = v.Hint
				}
				for _, ip := range ips {
					if len(ip) > 0 {
						ws = append(ws, window{base: uintptr(unsafe.Pointer(unsafe.SliceData(ip))), n: len(ip), msg: e.id})
					}
				}
			}
		}
	}
	return ws
}

// overlapping reports whether a hint address of one of the messages ids
// overlaps another live hint address in memory without being the same array
// (16-byte windows shifted against each other), or is the very same array.
func overlapping(ws []window, ids ...int) (shifted, same bool) {
	in := func(id int) bool {
		for _, x := range ids {
			if x == id {
				return true
			}
		}
		return len(ids) == 0
	}
	for i := range ws {
		for j := i + 1; j < len(ws); j++ {
			a, b := ws[i], ws[j]
			if !in(a.msg) && !in(b.msg) {
				continue
			}
			if a.base > b.base {
				a, b = b, a
			}
			if a.base == b.base {
				same = true
			} else if a.base+uintptr(a.n) > b.base {
				shifted = true
			}
		}
	}
	return shifted, same
}

// hintKey refines a violation key: damage to ipv4hint/ipv6hint addresses (or a
// message that stopped packing) while hint arrays of live messages overlap
// shifted in memory is the pool-aliasing defect of httpsCloner.putIPs.
func (h *hist) hintKey(key, class string, extra map[string]any, ids ...int) string {
	if class != "HTTPS/ipv4hint" && class != "HTTPS/ipv6hint" && class != "does-not-pack" {
		return key
	}
	shifted, same := overlapping(h.hintWindows(), ids...)
	extra["live_hint_arrays_overlap_shifted"] = shifted
	extra["live_hint_arrays_identical"] = same
	if shifted {
		return "cloner:https-hint-pool-aliasing"
	}
	return key
}

// diffClass names the part of a message that changed between two printed forms.
func diffClass(before, after string) (class string, lineBefore, lineAfter string) {
	// nil-vs-empty client-subnet addresses print differently but are the same
	// on the wire
	before, after = strings.ReplaceAll(before, "[<nil>]", "<nil>"), strings.ReplaceAll(after, "[<nil>]", "<nil>")
	a, b := strings.Split(before, "\n"), strings.Split(after, "\n")
	for i := 0; i < len(a) || i < len(b); i++ {
		var x, y string
		if i < len(a) {
			x = a[i]
		}
		if i < len(b) {
			y = b[i]
		}
		if x == y {
			continue
		}
		l := x
		if l == "" {
			l = y
		}
		switch {
		case strings.HasPrefix(l, ";; opcode") || strings.HasPrefix(l, ";; flags") || strings.HasPrefix(l, ";; QUERY"):
			return "header", x, y
		case strings.HasPrefix(l, ";; OPT") || strings.HasPrefix(l, "; EDNS") || strings.HasPrefix(l, "; SUBNET") || strings.HasPrefix(l, "; COOKIE") || strings.HasPrefix(l, "; EDE"):
			return "OPT", x, y
		case strings.HasPrefix(l, ";"):
			f := strings.Fields(l)
			if len(f) >= 3 && (f[1] == "IN" || f[1] == "CH") {
				return "question", x, y
			}
			return "OPT", x, y
		}
		f := strings.Split(l, "\t")
		if len(f) >= 4 {
			t := f[3]
			if t == "HTTPS" || t == "SVCB" {
				// find the differing parameter
				fx, fy := strings.Fields(x), strings.Fields(y)
				for k := 0; k < len(fx) && k < len(fy); k++ {
					if fx[k] != fy[k] {
						if j := strings.IndexByte(fx[k], '='); j > 0 {
							p := fx[k][:j]
							if strings.HasPrefix(p, "key") && len(p) > 3 && p[3] >= '0' && p[3] <= '9' {
								p = "keyNNNNN"
							}
							return t + "/" + p, x, y
						}
						break
					}
				}
			}
			return t, x, y
		}
		return "other", x, y
	}
	return "wire-only", "", ""
}

// packOnly packs m (the wire form is the primary snapshot).
func packOnly(m *dns.Msg) (b []byte, err error) {
	defer func() {
		if p := recover(); p != nil {
			err = fmt.Errorf("panic while packing: %v", p)
		}
	}()
	return m.Pack()
}

// checkAll re-checks every live message against its snapshot: the packed bytes
// after every step, the printed form in addition every fifth step and at the
// end of the history (it only adds details that are not on the wire).
func (h *hist) checkAll(after string, full bool) {
	for _, e := range h.live {
		h.cnt["snapshot_comparisons"]++
		if !full {
			if b, err := packOnly(e.m); err == nil && bytes.Equal(b, e.s.packed) {
				continue
			}
		}
		s, err := takeSnap(e.m)
		if err == nil && s.equal(e.s) {
			continue
		}
		now := "<does not pack: " + fmt.Sprint(err) + ">"
		if err == nil {
			now = s.str
		}
		class, lb, la := diffClass(e.s.str, now)
		if err != nil {
			class = "does-not-pack"
		}
		extra := map[string]any{"after_op": after, "msg": e.id, "msg_kind": e.kind, "msg_content": e.desc, "changed_part": class,
			"line_before": lb, "line_after": la, "printed_before": e.s.str, "printed_after": now}
		key := h.hintKey("cloner:live-message-changed:"+class, class, extra, e.id)
		h.r.Violation(key, "a live message changed although only other messages were cloned/released", h.witness(extra))
		h.cnt["live_message_changed"]++
		// re-arm so that the same damage is not re-reported at every step
		if err == nil {
			e.s = s
		} else {
			h.remove(e)
			h.ghosts = append(h.ghosts, e)
			return
		}
	}
}

func (h *hist) remove(e *entry) {
	for i, x := range h.live {
		if x == e {
			h.live = append(h.live[:i], h.live[i+1:]...)
			return
		}
	}
}

func (h *hist) pick() *entry {
	if len(h.live) == 0 {
		return nil
	}
	return h.live[h.g.r.IntN(len(h.live))]
}

// regions returns functions that scribble over every mutable part of m in
// place and undo it again (involutions), without changing lengths.
func scribblers(m *dns.Msg) (fns []func()) {
	flip := func(b []byte) {
		for i := range b {
			b[i] ^= 0xa5
		}
	}
	bs := func(b []byte) {
		if len(b) > 0 {
			fns = append(fns, func() { flip(b) })
		}
	}
	str := func(p *string) {
		fns = append(fns, func() {
			if strings.HasPrefix(*p, "zz-scribbled.") {
				*p = strings.TrimPrefix(*p, "zz-scribbled.")
			} else {
				*p = "zz-scribbled." + *p
			}
		})
	}
	for i := range m.Question {
		str(&m.Question[i].Name)
	}
	for _, sec := range [][]dns.RR{m.Answer, m.Ns, m.Extra} {
		for _, rr := range sec {
			if rr == nil {
				continue
			}
			hd := rr.Header()
			fns = append(fns, func() { hd.Ttl ^= 0x00010001 })
			switch v := rr.(type) {
			case *dns.A:
				bs(v.A)
			case *dns.AAAA:
				bs(v.AAAA)
			case *dns.CNAME:
				str(&v.Target)
			case *dns.MX:
				str(&v.Mx)
			case *dns.PTR:
				str(&v.Ptr)
			case *dns.SRV:
				str(&v.Target)
				fns = append(fns, func() { v.Port ^= 0x101 })
			case *dns.TXT:
				for i := range v.Txt {
					str(&v.Txt[i])
				}
			case *dns.SOA:
				fns = append(fns, func() { v.Serial ^= 0x10001 })
			case *dns.HTTPS:
				for _, kv := range v.Value {
					switch p := kv.(type) {
					case *dns.SVCBAlpn:
						for i := range p.Alpn {
							i := i
							fns = append(fns, func() {
								if strings.HasPrefix(p.Alpn[i], "zz") {
									p.Alpn[i] = p.Alpn[i][2:]
								} else {
									p.Alpn[i] = "zz" + p.Alpn[i]
								}
							})
						}
					case *dns.SVCBECHConfig:
						bs(p.ECH)
					case *dns.SVCBLocal:
						bs(p.Data)
					case *dns.SVCBMandatory:
						for i := range p.Code {
							i := i
							fns = append(fns, func() { p.Code[i] ^= 0x4000 })
						}
					case *dns.SVCBPort:
						fns = append(fns, func() { p.Port ^= 0x101 })
					case *dns.SVCBDoHPath:
						str(&p.Template)
					case *dns.SVCBIPv4Hint:
						for _, ip := range p.Hint {
							bs(ip)
						}
					case *dns.SVCBIPv6Hint:
						for _, ip := range p.Hint {
							bs(ip)
						}
					}
				}
			case *dns.OPT:
				for _, o := range v.Option {
					switch p := o.(type) {
					case *dns.EDNS0_SUBNET:
						bs(p.Address)
						fns = append(fns, func() { p.SourceScope ^= 1 })
					case *dns.EDNS0_COOKIE:
						fns = append(fns, func() {
							if strings.HasPrefix(p.Cookie, "ffff") {
								p.Cookie = p.Cookie[4:]
							} else {
								p.Cookie = "ffff" + p.Cookie
							}
						})
					case *dns.EDNS0_EDE:
						fns = append(fns, func() { p.InfoCode ^= 0x100 })
					case *dns.EDNS0_LOCAL:
						bs(p.Data)
					case *dns.EDNS0_PADDING:
						bs(p.Padding)
					}
				}
			}
		}
	}
	return fns
}

func scribble(m *dns.Msg) {
	for _, f := range scribblers(m) {
		f()
	}
}

// optFallback reports whether m has an OPT record with an option other than
// COOKIE / EDE / SUBNET, for which optCloner.clone falls back to dns.Copy.
func optFallback(m *dns.Msg) bool {
	for _, rr := range m.Extra {
		if o, ok := rr.(*dns.OPT); ok {
			for _, op := range o.Option {
				switch op.(type) {
				case *dns.EDNS0_COOKIE, *dns.EDNS0_EDE, *dns.EDNS0_SUBNET:
				default:
					return true
				}
			}
		}
	}
	return false
}

// subnetPairs returns the pairs of client-subnet options at the same position
// of the original and the clone.
func subnetPairs(orig, clone *dns.Msg) (ps [][2]*dns.EDNS0_SUBNET) {
	for i := 0; i < len(orig.Extra) && i < len(clone.Extra); i++ {
		oo, ok1 := orig.Extra[i].(*dns.OPT)
		co, ok2 := clone.Extra[i].(*dns.OPT)
		if !ok1 || !ok2 {
			continue
		}
		for j := 0; j < len(oo.Option) && j < len(co.Option); j++ {
			os, ok1 := oo.Option[j].(*dns.EDNS0_SUBNET)
			cs, ok2 := co.Option[j].(*dns.EDNS0_SUBNET)
			if ok1 && ok2 {
				ps = append(ps, [2]*dns.EDNS0_SUBNET{os, cs})
			}
		}
	}
	return ps
}

// quarantineOPTFallback handles the one defect class that would otherwise
// poison every later observation of a history: when the original's OPT record
// has an option unknown to the cloner, optCloner.clone returns dns.Copy(rr),
// and miekg/dns copies EDNS0_SUBNET shallowly, so original and clone share the
// client-subnet address bytes.  The sharing is demonstrated by behaviour (flip
// the original's bytes, read the clone), reported under its own key, and then
// the clone gets private address bytes so that the rest of the history is
// judged on its own.
func (h *hist) quarantineOPTFallback(src *entry, c *dns.Msg) {
	if !optFallback(src.m) {
		return
	}
	for _, p := range subnetPairs(src.m, c) {
		o, cl := p[0], p[1]
		if len(o.Address) == 0 || len(cl.Address) == 0 {
			continue
		}
		before := cl.String()
		o.Address[len(o.Address)-1] ^= 0xff
		after := cl.String()
		o.Address[len(o.Address)-1] ^= 0xff
		if before == after {
			continue
		}
		h.cnt["opt_fallback_shared_subnet"]++
		h.r.Violation("cloner:opt-copy-fallback-shares-subnet-address",
			"the clone of a message whose OPT record has an option unknown to the cloner shares the client-subnet address bytes with its original: writing the original's address changed the clone",
			h.witness(map[string]any{"src": src.id, "src_kind": src.kind, "src_content": src.desc,
				"ops":                 []string{"m := message with OPT{..., SUBNET, <option other than COOKIE/EDE/SUBNET>}", "c := cloner.Clone(m)", "m.subnet.Address[last] ^= 0xff", "read c"},
				"clone_subnet_before": before, "clone_subnet_after_writing_original": after}))
		cl.Address = append(net.IP(nil), cl.Address...)
	}
}

// opClone clones a live message and checks equality and independence.
func (h *hist) opClone() {
	src := h.pick()
	if src == nil {
		return
	}
	if h.disposed && len(h.live) > 1 {
		h.recycledLive = true
	}
	c := h.cl.Clone(src.m)
	h.cnt["clone_calls"]++
	h.hs.addPairs(src.m, "clone-of-"+src.kind)
	h.quarantineOPTFallback(src, c)
	e := h.add(c, "clone")
	if e == nil {
		// keep it for the memory classification only
		h.next++
		tmp := &entry{id: h.next, m: c, kind: "clone"}
		h.ghosts = append(h.ghosts, tmp)
		h.rec("clone(unpackable)", tmp.id, src.id, src.kind, src.desc)
		extra := map[string]any{"src": src.id, "src_printed": src.s.str}
		key := h.hintKey("cloner:clone-does-not-pack", "does-not-pack", extra, tmp.id)
		h.r.Violation(key, "the clone of a packable message does not pack", h.witness(extra))
		return
	}
	h.rec("clone", e.id, src.id, src.kind, src.desc)
	// (a) the clone is wire-identical to its original.  (The printed form may
	// differ in nil-vs-empty details that are not observable on the wire.)
	if !bytes.Equal(e.s.packed, src.s.packed) {
		class, lb, la := diffClass(src.s.str, e.s.str)
		extra := map[string]any{"src": src.id, "changed_part": class, "line_orig": lb, "line_clone": la, "orig": src.s.str, "clone": e.s.str}
		key := h.hintKey("cloner:clone-differs:"+class, class, extra, e.id)
		h.r.Violation(key, "a clone is not wire-identical to its original", h.witness(extra))
	} else if e.s.str != src.s.str {
		h.cnt["clone_print_differs_wire_equal"]++
	}
	// (b) no shared backing array: scribble over the original in place, the
	// clone must not move; undo, the original must be itself again.
	scribble(src.m)
	s2, err := takeSnap(c)
	if err != nil || !s2.equal(e.s) {
		now := fmt.Sprint(err)
		class := "does-not-pack"
		var lb, la string
		if err == nil {
			now = s2.str
			class, lb, la = diffClass(e.s.str, now)
		}
		extra := map[string]any{"src": src.id, "clone": e.id, "changed_part": class, "line_before": lb, "line_after": la, "clone_now": now}
		key := h.hintKey("cloner:clone-shares-memory:"+class, class, extra, e.id, src.id)
		h.r.Violation(key, "mutating the original in place changed its clone", h.witness(extra))
	}
	scribble(src.m)
	h.cnt["independence_checks"]++
	// and the other direction
	if h.g.r.IntN(2) == 0 {
		scribble(c)
		s3, err := takeSnap(src.m)
		if err != nil || !s3.equal(src.s) {
			now := fmt.Sprint(err)
			class := "does-not-pack"
			var lb, la string
			if err == nil {
				now = s3.str
				class, lb, la = diffClass(src.s.str, now)
			}
			extra := map[string]any{"src": src.id, "clone": e.id, "changed_part": class, "line_before": lb, "line_after": la, "original_now": now}
			key := h.hintKey("cloner:clone-shares-memory:"+class, class, extra, e.id, src.id)
			h.r.Violation(key, "mutating a clone in place changed its original", h.witness(extra))
		}
		scribble(c)
		h.cnt["independence_checks"]++
	}
}

func (h *hist) opDispose() {
	e := h.pick()
	if e == nil {
		return
	}
	h.remove(e)
	h.rec("dispose", e.id, 0, e.kind, e.desc)
	h.hs.addPairs(e.m, "dispose-"+e.kind)
	h.cl.Dispose(e.m)
	h.cnt["dispose_calls"]++
	h.cnt["dispose_"+e.kind]++
	h.disposed = true
}

func (h *hist) opDrop() {
	e := h.pick()
	if e == nil {
		return
	}
	h.remove(e)
	h.rec("drop", e.id, 0, e.kind, "")
}

func (h *hist) opBuild() {
	m := h.g.msg()
	if e := h.add(m, "built"); e != nil {
		h.rec("build", e.id, 0, "built", e.desc)
		h.cnt["built"]++
	}
}

func (h *hist) opWire() {
	m := h.gw.msg()
	w, err := wire(m)
	if err != nil {
		h.cnt["wire_gen_failed"]++
		return
	}
	if e := h.add(w, "wire"); e != nil {
		h.rec("parse", e.id, 0, "wire", e.desc)
		h.cnt["wire_parsed"]++
	}
}

// opScribbleLive lets the owner of a live message modify it in place; every
// other live message must stay as it is (checked by checkAll).
func (h *hist) opScribbleLive() {
	e := h.pick()
	if e == nil {
		return
	}
	scribble(e.m)
	s, err := takeSnap(e.m)
	if err != nil {
		scribble(e.m)
		return
	}
	e.s = s
	h.rec("modify-in-place", e.id, 0, e.kind, "")
	h.cnt["modified_in_place"]++
}

func (h *hist) query(qt uint16) *dns.Msg {
	g := h.g
	q := &dns.Msg{}
	q.Id = uint16(g.r.IntN(65536))
	q.RecursionDesired = true
	q.Question = []dns.Question{{Name: g.name(), Qtype: qt, Qclass: dns.ClassINET}}
	switch g.r.IntN(4) {
	case 0:
	case 1:
		q.SetEdns0(uint16(512+g.r.IntN(4000)), g.r.IntN(2) == 0)
	case 2:
		// RFC 8914 / SDE: empty EDE option asks for structured errors
		q.SetEdns0(1232, g.r.IntN(2) == 0)
		o := q.IsEdns0()
		o.Option = append(o.Option, &dns.EDNS0_EDE{})
	default:
		q.Extra = append(q.Extra, g.opt(false))
	}
	return q
}

var ctorOps = []string{"NewBlockedResp", "NewBlockedResp", "NewBlockedResp", "NewRespRCode", "NewBlockedRespRCode", "NewRespTXT", "NewRespIP",
	"NewBlockedRespIP", "NewBlockedNullIPResp", "NewAnswers", "AddEDE-on-clone", "AppendDebugExtra"}

// build calls one constructor entry point.
func buildCtor(c *dnsmsg.Constructor, op string, q *dns.Msg, k int, base *dns.Msg) (m *dns.Msg, err error) {
	defer func() {
		if p := recover(); p != nil {
			err = fmt.Errorf("panic: %v", p)
		}
	}()
	qt := q.Question[0].Qtype
	switch op {
	case "NewBlockedResp":
		return c.NewBlockedResp(q)
	case "NewRespRCode":
		return c.NewRespRCode(q, dnsmsg.RCode([]int{0, 2, 3, 5}[k%4])), nil
	case "NewBlockedRespRCode":
		return c.NewBlockedRespRCode(q, dnsmsg.RCode([]int{0, 3, 5}[k%3])), nil
	case "NewRespTXT":
		strs := []string{}
		for i := 0; i < k%9; i++ {
			strs = append(strs, fmt.Sprintf("txt-%d-%d", k, i))
		}
		return c.NewRespTXT(q, strs...)
	case "NewRespIP", "NewBlockedRespIP":
		var ips []netip.Addr
		for i := 0; i < 1+k%4; i++ {
			if qt == dns.TypeA {
				ips = append(ips, netip.AddrFrom4([4]byte{198, 51, 100, byte(k + i)}))
			} else {
				a := netip.MustParseAddr("2001:db8:1::").As16()
				a[15] = byte(k + i)
				ips = append(ips, netip.AddrFrom16(a))
			}
		}
		if op == "NewRespIP" {
			return c.NewRespIP(q, ips...)
		}
		return c.NewBlockedRespIP(q, ips...)
	case "NewBlockedNullIPResp":
		return c.NewBlockedNullIPResp(q)
	case "NewAnswers":
		m = c.NewResp(q)
		name := q.Question[0].Name
		a, _ := c.NewAnswerA(name, netip.AddrFrom4([4]byte{203, 0, 113, byte(k)}))
		aaaa, _ := c.NewAnswerAAAA(name, netip.MustParseAddr("2001:db8:2::1"))
		m.Answer = append(m.Answer, a, aaaa, c.NewAnswerCNAME(q, fmt.Sprintf("cn%d.target.test", k)),
			c.NewAnswerMX(q, &rules.DNSMX{Exchange: "mx.target.test", Preference: uint16(k)}),
			c.NewAnswerPTR(q, "ptr.target.test"),
			c.NewAnswerSRV(q, &rules.DNSSRV{Target: "srv.target.test", Priority: 1, Weight: 2, Port: uint16(k)}),
			c.NewAnswerHTTPS(q, &rules.DNSSVCB{Target: ".", Priority: 1, Params: map[string]string{"ipv4hint": "192.0.2.9"}}),
			c.NewAnswerSVCB(q, &rules.DNSSVCB{Target: "svcb.target.test", Priority: 2, Params: map[string]string{"alpn": "h3"}}))
		if qt == dns.TypeTXT {
			t, terr := c.NewAnswerTXT(q, []string{"a", "b"})
			if terr != nil {
				return nil, terr
			}
			m.Answer = append(m.Answer, t)
		}
		return m, nil
	case "AddEDE-on-clone":
		m = base
		c.AddEDE(q, m, uint16(dns.ExtendedErrorCodeFiltered))
		return m, nil
	case "AppendDebugExtra":
		m = c.NewResp(q)
		err = c.AppendDebugExtra(q, m, strings.Repeat("d", k%600))
		return m, err
	}
	return nil, fmt.Errorf("unknown op %s", op)
}

// opCtor builds a message with a constructor that uses the cloner under test
// and compares it with the same call on the history-free twin.
func (h *hist) opCtor() {
	g := h.g
	p := h.ctors[g.r.IntN(len(h.ctors))]
	op := ctorOps[g.r.IntN(len(ctorOps))]
	qt := []uint16{dns.TypeA, dns.TypeAAAA, dns.TypeHTTPS, dns.TypeTXT, dns.TypeMX}[g.r.IntN(5)]
	switch op {
	case "NewRespTXT", "AppendDebugExtra":
		qt = dns.TypeTXT
	case "NewRespIP", "NewBlockedRespIP", "NewBlockedNullIPResp":
		qt = []uint16{dns.TypeA, dns.TypeAAAA}[g.r.IntN(2)]
	}
	q := h.query(qt)
	k := g.r.IntN(1000)
	var base, baseRef *dns.Msg
	if op == "AddEDE-on-clone" {
		// a response without OPT, cloned through both cloners
		src := &dns.Msg{}
		src.SetReply(q)
		src.Answer = []dns.RR{g.rr("A", q.Question[0].Name)}
		base, baseRef = p.c.Cloner().Clone(src), p.ref.Cloner().Clone(src)
	}
	if h.disposed && len(h.live) > 0 {
		h.recycledLive = true
	}
	m, err := buildCtor(p.c, op, q, k, base)
	want, errRef := buildCtor(p.ref, op, q, k, baseRef)
	h.cnt["ctor_calls"]++
	if (err == nil) != (errRef == nil) {
		h.r.Violation("constructor:error-depends-on-pool-history", "constructor call fails/succeeds depending on what was released before",
			h.witness(map[string]any{"ctor": p.name, "op": op, "err": fmt.Sprint(err), "err_fresh": fmt.Sprint(errRef), "query": q.String()}))
		return
	}
	if err != nil || m == nil {
		h.cnt["ctor_errors"]++
		return
	}
	e := h.add(m, "ctor")
	if e == nil {
		return
	}
	h.rec("construct:"+op, e.id, 0, "ctor", p.name+" "+e.desc)
	h.hs.addPairs(m, "construct")
	ws, werr := takeSnap(want)
	if werr != nil {
		return
	}
	h.cnt["ctor_twin_comparisons"]++
	if e.s.equal(ws) {
		return
	}
	// classify
	key := "constructor:result-depends-on-pool-history"
	class, lb, la := diffClass(ws.str, e.s.str)
	extra := map[string]any{"ctor": p.name, "op": op, "query": q.String(), "changed_part": class, "line_fresh_pools": lb, "line_used_pools": la,
		"with_fresh_pools": ws.str, "with_used_pools": e.s.str}
	if o, ow := m.IsEdns0(), want.IsEdns0(); o != nil && ow != nil && o.Hdr.Ttl != ow.Hdr.Ttl {
		saved := o.Hdr.Ttl
		o.Hdr.Ttl = ow.Hdr.Ttl
		s2, err2 := takeSnap(m)
		o.Hdr.Ttl = saved
		extra["opt_ttl_field_fresh_pools"] = fmt.Sprintf("%#08x", ow.Hdr.Ttl)
		extra["opt_ttl_field_used_pools"] = fmt.Sprintf("%#08x", saved)
		if err2 == nil && s2.equal(ws) {
			key = "constructor:pooled-opt-stale-flags"
		}
	}
	h.r.Violation(key, "a constructor-built response differs from the one built with fresh pools: data of a released message leaked into it", h.witness(extra))
	h.cnt["ctor_twin_mismatch"]++
}

func (h *hist) run(steps, maxLive int) {
	defer func() {
		if p := recover(); p != nil {
			buf := make([]byte, 4096)
			buf = buf[:runtime.Stack(buf, false)]
			h.r.Violation("panic:clone-dispose-history", fmt.Sprintf("panic in cloner/constructor on a legal history: %v", p),
				h.witness(map[string]any{"stack": string(buf)}))
		}
		for k, v := range h.cnt {
			h.r.Bucket("heap_"+k, v)
		}
	}()
	for h.step = 1; h.step <= steps; h.step++ {
		x := h.g.r.IntN(100)
		var op string
		switch {
		case len(h.live) >= maxLive:
			op = "dispose"
			h.opDispose()
		case len(h.live) == 0 || x < 12:
			op = "build"
			h.opBuild()
		case x < 26:
			op = "parse"
			h.opWire()
		case x < 38:
			op = "construct"
			h.opCtor()
		case x < 62:
			op = "clone"
			h.opClone()
		case x < 90:
			op = "dispose"
			h.opDispose()
		case x < 94:
			op = "drop"
			h.opDrop()
		default:
			op = "modify"
			h.opScribbleLive()
		}
		h.checkAll(op, h.step%5 == 0 || h.step == steps)
		if h.yield && h.g.r.IntN(4) == 0 {
			runtime.Gosched()
		}
	}
}

func newHist(r *vkit.Run, hs *heapStats, tag string, stream string, idx int, cl, ref *dnsmsg.Cloner, ctors []ctorPair, maxWireV4 int) *hist {
	rng := r.Rand(stream, idx)
	h := &hist{r: r, hs: hs, tag: tag, cl: cl, ctors: ctors, cnt: map[string]int64{}}
	h.g = &gen{r: rng, maxHints: 8}
	h.gw = &gen{r: rng, wireSafe: true, maxHints: maxWireV4}
	return h
}

// ---- directed probes (minimal witnesses of the suspected defects) ----

// probeHTTPSHintAliasing: release a WIRE-PARSED message whose HTTPS record has
// n ipv4hint addresses, then clone two unrelated messages with one ipv6hint
// each; the first clone must still be what it was.
func probeHTTPSHintAliasing(r *vkit.Run) (defect bool) {
	attempts := 48
	observed := map[int]bool{}
	minN := 0
	for n := 1; n <= 8; n++ {
		for a := 0; a < attempts && !observed[n]; a++ {
			cl := dnsmsg.NewCloner(dnsmsg.EmptyClonerStat{})
			w, err := wire(httpsMsgV4("hints.test.", n))
			if err != nil {
				r.Inconclusive("probe message does not survive the wire: " + err.Error())
				return false
			}
			cl.Dispose(w)
			m1 := httpsMsgV6("one.test.", "2001:db8::1")
			m2 := httpsMsgV6("two.test.", "2001:db8:ffff:eeee:dddd:cccc:bbbb:aaaa")
			c1 := cl.Clone(m1)
			s1, _ := takeSnap(c1)
			var clones []*dns.Msg
			for k := 0; k < 3; k++ {
				clones = append(clones, cl.Clone(m2))
			}
			s1b, _ := takeSnap(c1)
			r.Bucket("probe_https_attempts", 1)
			if !s1.equal(s1b) {
				observed[n] = true
				if minN == 0 {
					minN = n
					r.Violation("cloner:https-hint-pool-aliasing",
						"releasing a wire-parsed message with an HTTPS record with >=5 ipv4hint addresses makes later clones share memory: a live clone changed when unrelated messages were cloned",
						map[string]any{"ipv4hint_count": n, "attempt": a,
							"ops": []string{
								fmt.Sprintf("w := Unpack(Pack(HTTPS hints.test. ipv4hint=192.0.2.1..192.0.2.%d))", n),
								"cloner.Dispose(w)",
								"c1 := cloner.Clone(HTTPS one.test. ipv6hint=2001:db8::1)",
								"cloner.Clone(HTTPS two.test. ipv6hint=2001:db8:ffff:eeee:dddd:cccc:bbbb:aaaa)  x3",
								"c1 is re-read",
							},
							"c1_before": s1.str, "c1_after": s1b.str})
				}
			}
			_ = clones
		}
	}
	by := map[string]bool{}
	for n := 1; n <= 8; n++ {
		by[fmt.Sprintf("ipv4hints=%d", n)] = observed[n]
	}
	r.Extra("probe_https_aliasing_observed_by_hint_count", by)
	return minN != 0
}

// probePooledOPTFlags: release a message whose OPT record carries a non-zero
// EDNS version / reserved flag bits, then build a blocked response with EDE.
func probePooledOPTFlags(r *vkit.Run) (defect bool) {
	for a := 0; a < 48; a++ {
		cl := dnsmsg.NewCloner(dnsmsg.EmptyClonerStat{})
		ref := dnsmsg.NewCloner(dnsmsg.EmptyClonerStat{})
		mk := func(c *dnsmsg.Cloner) *dnsmsg.Constructor {
			k, err := dnsmsg.NewConstructor(&dnsmsg.ConstructorConfig{Cloner: c, BlockingMode: &dnsmsg.BlockingModeNXDOMAIN{},
				StructuredErrors: sdeConf(false), FilteredResponseTTL: 10 * time.Second, EDEEnabled: true})
			if err != nil {
				panic(err)
			}
			return k
		}
		src := &dns.Msg{}
		src.SetQuestion("other-client.test.", dns.TypeA)
		o := &dns.OPT{Hdr: dns.RR_Header{Name: ".", Rrtype: dns.TypeOPT}}
		o.SetUDPSize(4096)
		o.SetVersion(1)
		o.Hdr.Ttl |= 0x1234
		o.Option = []dns.EDNS0{&dns.EDNS0_COOKIE{Code: dns.EDNS0COOKIE, Cookie: "0011223344556677"}}
		src.Extra = []dns.RR{o}
		w, err := wire(src)
		if err != nil {
			r.Inconclusive("probe message does not survive the wire: " + err.Error())
			return false
		}
		cl.Dispose(w)
		q := &dns.Msg{}
		q.SetQuestion("blocked.test.", dns.TypeA)
		q.SetEdns0(1232, false)
		got := mk(cl).NewBlockedRespRCode(q, dns.RcodeNameError)
		want := mk(ref).NewBlockedRespRCode(q, dns.RcodeNameError)
		sg, _ := takeSnap(got)
		sw, _ := takeSnap(want)
		r.Bucket("probe_opt_attempts", 1)
		if !sg.equal(sw) {
			og, ow := got.IsEdns0(), want.IsEdns0()
			r.Violation("constructor:pooled-opt-stale-flags",
				"a blocked response built after a message with a non-zero EDNS version/reserved flags was released carries that message's version/flags in its own OPT record",
				map[string]any{"attempt": a, "ops": []string{
					"w := Unpack(Pack(query other-client.test. with OPT version=1 z=0x1234 udp=4096 COOKIE))",
					"cloner.Dispose(w)",
					"resp := NewConstructor(cloner, NXDOMAIN, EDE on).NewBlockedRespRCode(query blocked.test. A +EDNS(udp=1232, do=0), NXDOMAIN)",
				}, "opt_ttl_field_expected": fmt.Sprintf("%#08x", ow.Hdr.Ttl), "opt_ttl_field_observed": fmt.Sprintf("%#08x", og.Hdr.Ttl),
					"expected": sw.str, "observed": sg.str})
			return true
		}
	}
	return false
}

// probeOPTCopyFallback: clone a message whose OPT record carries a client
// subnet plus an option the cloner does not know (padding); (a) write the
// original's address bytes and read the clone; (b) release the original and
// clone an unrelated message with another client subnet, then read the first
// clone.
func probeOPTCopyFallback(r *vkit.Run) (defect bool) {
	mk := func(name string, subnet net.IP, withPadding bool) *dns.Msg {
		m := &dns.Msg{}
		m.SetQuestion(name, dns.TypeA)
		m.Response = true
		o := &dns.OPT{Hdr: dns.RR_Header{Name: ".", Rrtype: dns.TypeOPT}}
		o.SetUDPSize(1232)
		o.Option = []dns.EDNS0{&dns.EDNS0_SUBNET{Code: dns.EDNS0SUBNET, Family: 1, SourceNetmask: 24, SourceScope: 24, Address: subnet}}
		if withPadding {
			o.Option = append(o.Option, &dns.EDNS0_PADDING{Padding: make([]byte, 8)})
		}
		m.Extra = []dns.RR{o}
		return m
	}
	for a := 0; a < 48; a++ {
		cl := dnsmsg.NewCloner(dnsmsg.EmptyClonerStat{})
		m, err := wire(mk("first-client.test.", net.IP{198, 51, 100, 0}, true))
		if err != nil {
			r.Inconclusive("probe message does not survive the wire: " + err.Error())
			return false
		}
		c := cl.Clone(m)
		s0, _ := takeSnap(c)
		// (a)
		addr := m.Extra[0].(*dns.OPT).Option[0].(*dns.EDNS0_SUBNET).Address
		addr[len(addr)-2] ^= 0xff
		s1, e1 := takeSnap(c)
		addr[len(addr)-2] ^= 0xff
		// (b)
		cl.Dispose(m)
		second, _ := wire(mk("second-client.test.", net.IP{203, 0, 113, 0}, false))
		other := cl.Clone(second)
		s2, e2 := takeSnap(c)
		_ = other
		if e1 != nil {
			s1.str = "<does not pack: " + e1.Error() + ">"
		}
		if e2 != nil {
			s2.str = "<does not pack: " + e2.Error() + ">"
		}
		r.Bucket("probe_opt_fallback_attempts", 1)
		if !s0.equal(s1) || !s0.equal(s2) {
			if !s0.equal(s2) || a == 47 {
				r.Violation("cloner:opt-copy-fallback-shares-subnet-address",
					"the clone of a message whose OPT record has an option unknown to the cloner (here: padding) shares the client-subnet address bytes with its original; after the original is released, cloning another client's message overwrites the live clone's client subnet",
					map[string]any{"attempt": a, "ops": []string{
						"m := Unpack(Pack(response first-client.test. OPT{SUBNET 198.51.100.0/24, PADDING}))",
						"c := cloner.Clone(m)",
						"(a) m.OPT.SUBNET.Address[third octet] ^= 0xff; read c; undo",
						"(b) cloner.Dispose(m); cloner.Clone(Unpack(Pack(response second-client.test. OPT{SUBNET 203.0.113.0/24}))); read c",
					}, "c_initially": s0.str, "c_after_a_writing_original": s1.str, "c_after_b_release_and_unrelated_clone": s2.str,
						"changed_by_a": !s0.equal(s1), "changed_by_b": !s0.equal(s2)})
				return true
			}
			defect = true
		}
	}
	return defect
}

// ---- drivers ----

func histClass(sig []string) string {
	return shortHash(strings.Join(sig, ","))
}

func runHeapMonitor(r *vkit.Run) (httpsDefect bool) {
	hs := &heapStats{pairs: map[string]struct{}{}}
	httpsDefect = probeHTTPSHintAliasing(r)
	optDefect := probePooledOPTFlags(r)
	r.Extra("probe_https_hint_pool_aliasing_present", httpsDefect)
	r.Extra("probe_pooled_opt_stale_flags_present", optDefect)
	r.Extra("probe_opt_copy_fallback_shared_subnet_present", probeOPTCopyFallback(r))

	// (a) single-threaded histories: pure history property.  Every history has
	// its own Cloner and runs on one goroutine; independent histories are
	// spread over a few workers only to save wall time.
	nSeq := r.N(300, 3000)
	steps := 200
	{
		var wg sync.WaitGroup
		var next atomic.Int64
		for w := 0; w < 6; w++ {
			wg.Add(1)
			go func() {
				defer wg.Done()
				for {
					i := int(next.Add(1)) - 1
					if i >= nSeq {
						return
					}
					cl := dnsmsg.NewCloner(dnsmsg.EmptyClonerStat{})
					ref := dnsmsg.NewCloner(dnsmsg.EmptyClonerStat{})
					h := newHist(r, hs, fmt.Sprintf("seq/%d", i), "hist-seq", i, cl, ref, newCtorPairs(cl, ref), 8)
					h.run(steps, 12)
					r.Eval("seq:"+histClass(h.sig), h.recycledLive)
					if i < 2 {
						lg := h.log
						if len(lg) > 25 {
							lg = lg[:25]
						}
						r.Sample(map[string]any{"monitor": "clone/dispose history", "history": h.tag, "first_ops": lg})
					}
					r.Bucket("heap_histories_seq", 1)
				}
			}()
		}
		wg.Wait()
	}

	// (b) 8 goroutines on one shared cloner.  While the HTTPS hint aliasing
	// defect is present, wire-parsed messages of the concurrent variant carry at
	// most 4 ipv4hint addresses: the defect is reported (with its own key) by
	// the probe and the single-threaded histories; in the concurrent variant it
	// would surface as unattributable data-race reports between goroutines.
	maxWireV4 := 8
	if httpsDefect {
		maxWireV4 = 4
		r.Assume("concurrent clone/dispose histories: wire-parsed HTTPS records carry <= 4 ipv4hint/ipv6hint addresses while cloner:https-hint-pool-aliasing is present (full 0..8 range once it is fixed)")
	}
	r.Extra("concurrent_histories_max_wire_hints", maxWireV4)
	nConc := r.N(24, 240)
	const G = 8
	for i := 0; i < nConc; i++ {
		cl := dnsmsg.NewCloner(dnsmsg.EmptyClonerStat{})
		ref := dnsmsg.NewCloner(dnsmsg.EmptyClonerStat{})
		ctors := newCtorPairs(cl, ref)
		var wg sync.WaitGroup
		var running atomic.Int32
		var sawParallel atomic.Bool
		hh := make([]*hist, G)
		for k := 0; k < G; k++ {
			// every goroutine needs its own history-free twin cloner: twins are
			// not thread-shared state under test, but sync.Pool is thread-safe
			// anyway; a shared one is fine.
			hh[k] = newHist(r, hs, fmt.Sprintf("conc/%d/g%d", i, k), "hist-conc", i*G+k, cl, ref, ctors, maxWireV4)
			hh[k].yield = true
		}
		for k := 0; k < G; k++ {
			wg.Add(1)
			go func(h *hist) {
				defer wg.Done()
				if running.Add(1) > 1 {
					sawParallel.Store(true)
				}
				h.run(steps, 10)
				running.Add(-1)
			}(hh[k])
		}
		wg.Wait()
		for _, h := range hh {
			r.Eval("conc:"+histClass(h.sig), h.recycledLive && sawParallel.Load())
		}
		r.Bucket("heap_histories_conc", G)
		if sawParallel.Load() {
			r.Bucket("heap_conc_rounds_parallel", 1)
		}
	}
	hs.mu.Lock()
	pairs := make([]string, 0, len(hs.pairs))
	for p := range hs.pairs {
		pairs = append(pairs, p)
	}
	sort.Strings(pairs)
	r.Bucket("heap_distinct_rrkind_x_operation_pairs", int64(len(pairs)))
	r.Extra("heap_rrkind_x_operation_pairs", pairs)
	r.Extra("heap_live_set_high_water", hs.highWater)
	hs.mu.Unlock()
	return httpsDefect
}
