package c07

import (
	"fmt"
	"path/filepath"
	"strings"
	"time"

	"github.com/AdguardTeam/AdGuardDNS/verif/vkit"
	"github.com/miekg/dns"
)

// Cache-population histories (deterministic for every seed).
//
// The sequential reference of the main differential shares its caches between
// requests too, so a cache entry that carries data of the client that
// populated it gives the same wrong answer in both phases whenever the same
// client happens to come first in both.  This phase therefore drives, through
// the real stack with the ECS cache enabled, scripted histories of two or three
// DIFFERENT clients that map to the SAME cache key (same host / qtype / class /
// DO bit / address family and, for ECS-dependent names, the same GeoIP country
// subnet) on one shared instance, and compares every response with the one the
// very same request gets when it is processed ALONE: on a fresh instance of
// the stack that never saw any other request.
//
// Variants (cycled, so that every run evaluates each of them):
//
//	ecs-then-none     first (miss): EDNS Client Subnet option, no AD;   later: no ECS option (with and without EDNS)
//	noad-then-ad      first (miss): neither AD nor DO, validated answer; later: AD set
//	ecsdep-ecs-then-none  as the first, on an ECS-dependent name; the later client sits in the country of the first one's subnet
//	none-then-ecs     control: first without ECS and with AD, later with its own ECS and without AD
type popStep struct {
	Role string    `json:"role"`
	Spec reqSpec   `json:"request"`
	Who  requester `json:"requester"`
	// observed
	Hit bool `json:"served_from_cache_on_shared_instance"`
}

var popVariants = []string{"ecs-then-none", "noad-then-ad", "ecsdep-ecs-then-none", "none-then-ecs"}

// usClients are requesters whose remote address the GeoIP fake puts into the
// same country (and therefore the same ECS-cache subnet) as the client subnet
// 198.18.7.0/24 used by the first requester.
func usClients(rqs []requester) (idx []int) {
	for i, q := range rqs {
		if strings.HasPrefix(q.Remote, "198.18.") || strings.HasPrefix(q.Remote, "198.19.") {
			idx = append(idx, i)
		}
	}
	return idx
}

func genPopHistory(r *vkit.Run, k int, rqs []requester, us []int) (variant string, steps []popStep) {
	rng := r.Rand("stack-cachepop", k)
	variant = popVariants[k%len(popVariants)]
	class := "plain"
	if variant == "ecsdep-ecs-then-none" {
		class = "ecs"
	}
	name := fmt.Sprintf("cp%d.%s.test.", k, class)
	qt := []uint16{dns.TypeA, dns.TypeA, dns.TypeAAAA, dns.TypeHTTPS, dns.TypeTXT, dns.TypeMX}[rng.IntN(6)]
	if class == "ecs" {
		qt = dns.TypeA
	}
	do := rng.IntN(3) == 0
	if variant == "noad-then-ad" {
		do = false
	}
	// three different clients of the same country and address family
	perm := rng.Perm(len(us))
	cl := []int{us[perm[0]], us[perm[1]], us[perm[2]]}
	base := func(i int, role string) popStep {
		s := reqSpec{Idx: k*4 + i, ID: uint16(1 + (k*4+i)%65000), Name: name, Class: "cachepop/" + variant, QType: qt,
			Requester: cl[i], Who: rqs[cl[i]].Tag, EDNS: true, UDPSize: uint16(1232 + 16*i), DO: do}
		return popStep{Role: role, Spec: s, Who: rqs[cl[i]]}
	}
	first, second, third := base(0, "first (populates the cache)"), base(1, "later, same cache key"), base(2, "later, same cache key")
	switch variant {
	case "ecs-then-none", "ecsdep-ecs-then-none":
		first.Spec.ECS = "198.18.7.0/24"
		first.Spec.Cookie = fmt.Sprintf("%016x", 0xc0ffee0000000000|uint64(k))
		second.Spec.AD = rng.IntN(2) == 0
		// third: no EDNS at all (only possible when the DO bit is not part of the key)
		if !do {
			third.Spec.EDNS, third.Spec.UDPSize = false, 0
		}
		third.Spec.AD = true
	case "noad-then-ad":
		first.Spec.AD = false
		if rng.IntN(2) == 0 {
			first.Spec.EDNS, first.Spec.UDPSize = false, 0
		}
		second.Spec.AD = true
		third.Spec.AD = true
		third.Spec.EDNS, third.Spec.UDPSize = false, 0
	case "none-then-ecs":
		first.Spec.AD = true
		second.Spec.ECS = "198.18.9.0/24"
		third.Spec.ECS = "198.19.200.0/24"
		third.Spec.AD = true
	}
	// letter case: the clients of one cache key spell the name differently
	switch (k / len(popVariants)) % 3 {
	case 0: // first in mixed case, later ones in lower case / another mixed case
		first.Spec.Spelling = mixCase(rng, name)
		third.Spec.Spelling = mixCase(rng, name)
		if third.Spec.Spelling == first.Spec.Spelling {
			third.Spec.Spelling = strings.ToUpper(name)
		}
	case 1: // first in lower case, later ones in mixed / upper case
		second.Spec.Spelling = mixCase(rng, name)
		third.Spec.Spelling = strings.ToUpper(name)
	default: // all three differ
		first.Spec.Spelling = strings.ToUpper(name)
		second.Spec.Spelling = mixCase(rng, name)
	}
	return variant, []popStep{first, second, third}
}

func serveTimed(w *world, s *reqSpec, rq *requester, t0 time.Time) result {
	var rs result
	rs.start = time.Since(t0)
	before := w.ups.calls.Load()
	o, err := w.serve(s, rq)
	rs.upCalls = w.ups.calls.Load() - before
	rs.end = time.Since(t0)
	if err != nil {
		rs.err = "harness: " + err.Error()
		return rs
	}
	rs.packed, rs.resps = o.Packed, o.Responses
	if o.Err != nil {
		rs.err = o.Err.Error()
	}
	if o.Panic != nil {
		rs.panicked = fmt.Sprint(o.Panic)
	}
	return rs
}

func hasECSOption(m *dns.Msg) bool {
	if m == nil {
		return false
	}
	if o := m.IsEdns0(); o != nil {
		for _, op := range o.Option {
			if _, ok := op.(*dns.EDNS0_SUBNET); ok {
				return true
			}
		}
	}
	return false
}

func runCachePopulation(r *vkit.Run, scratch string, maxHints int) {
	rqs := requesters()
	us := usClients(rqs)
	if len(us) < 3 {
		r.Inconclusive("cache-population phase: fewer than 3 clients in one country")
		return
	}
	nHist := r.N(96, 480)
	shared, err := newWorld(filepath.Join(scratch, "pop-shared"), nil, &upstreamFn{maxHints: maxHints})
	if err != nil {
		r.Inconclusive("cannot build the shared instance of the cache-population phase: " + err.Error())
		return
	}
	tShared := time.Now()
	counters := map[string]int64{}
	for k := 0; k < nHist; k++ {
		variant, steps := genPopHistory(r, k, rqs, us)
		var sharedRes, aloneRes []result
		for i := range steps {
			st := &steps[i]
			// processed alone: a fresh stack that serves this one request only
			alone, err := newWorld(filepath.Join(scratch, "pop-alone"), nil, &upstreamFn{maxHints: maxHints})
			if err != nil {
				r.Inconclusive("cannot build a fresh instance for the processed-alone reference: " + err.Error())
				return
			}
			aloneRes = append(aloneRes, serveTimed(alone, &st.Spec, &st.Who, time.Now()))
			counters["alone_references"]++
			// the same request on the shared instance, after its predecessors
			rs := serveTimed(shared, &st.Spec, &st.Who, tShared)
			st.Hit = rs.upCalls == 0
			sharedRes = append(sharedRes, rs)
		}
		// the history is what it is meant to be only if the first request was
		// a miss and the later ones were answered from the cache
		populated := sharedRes[0].upCalls > 0
		laterHits := 0
		for i := 1; i < len(steps); i++ {
			if steps[i].Hit {
				laterHits++
			}
		}
		for i := range steps {
			st := &steps[i]
			mm := compareOne(&st.Spec, &st.Who, &aloneRes[i], &sharedRes[i], aloneRes[i].end, sharedRes[i].end, counters)
			if mm != nil {
				var aloneStr, sharedStr string
				if len(aloneRes[i].resps) > 0 && aloneRes[i].resps[0] != nil {
					aloneStr = aloneRes[i].resps[0].String()
				}
				if len(sharedRes[i].resps) > 0 && sharedRes[i].resps[0] != nil {
					sharedStr = sharedRes[i].resps[0].String()
				}
				info := map[string]any{"phase": "cache-population history", "variant": variant, "history": k, "position": i, "steps": steps,
					"processed_alone_on_fresh_stack": aloneStr, "after_the_other_clients_on_shared_stack": sharedStr}
				for kk, v := range mm.info {
					if kk != "sequential" && kk != "concurrent" {
						info[kk] = v
					}
				}
				r.Violation(mm.key, "a client's response depends on which other client populated the cache entry: it differs from the response the same request gets on a fresh stack", info)
				counters["cachepop_mismatches"]++
			}
		}
		if populated {
			for i := 1; i < len(steps); i++ {
				if steps[i].Hit && steps[i].Spec.wireName() != steps[0].Spec.wireName() {
					counters["cachepop_later_hits_spelled_differently_from_first"]++
				}
			}
		}
		if populated && laterHits > 0 {
			counters["cachepop_pairs_"+variant] += int64(laterHits)
			counters["cachepop_pairs_total"] += int64(laterHits)
			// the preconditions of the two critical classes, observed on the references
			switch variant {
			case "ecs-then-none", "ecsdep-ecs-then-none":
				if len(aloneRes[0].resps) > 0 && hasECSOption(aloneRes[0].resps[0]) {
					counters["cachepop_first_answer_carried_its_ecs_option"]++
				}
			case "noad-then-ad":
				for i := 1; i < len(steps); i++ {
					if steps[i].Hit && len(aloneRes[i].resps) > 0 && aloneRes[i].resps[0] != nil && aloneRes[i].resps[0].AuthenticatedData {
						counters["cachepop_later_alone_answer_has_ad"]++
					}
				}
			}
		}
		r.Eval(fmt.Sprintf("cachepop|%s|%s|do=%v|%s>%s>%s", variant, dns.TypeToString[steps[0].Spec.QType], steps[0].Spec.DO,
			steps[0].Who.Server, steps[1].Who.Server, steps[2].Who.Server), populated && laterHits > 0)
		if k < 2 {
			r.Sample(map[string]any{"monitor": "cache-population history", "variant": variant, "steps": steps})
		}
	}
	for k, v := range counters {
		if strings.HasPrefix(k, "cachepop_") || k == "alone_references" {
			r.Bucket("stack_"+k, v)
		} else {
			r.Bucket("stack_cachepop_cmp_"+k, v)
		}
	}
	r.Bucket("stack_cachepop_histories", int64(nHist))
}
