package c07

import (
	"encoding/json"
	"fmt"
	"net/netip"
	"os"
	"path/filepath"
	"runtime"
	"strings"
	"sync"
	"sync/atomic"
	"time"

	"github.com/AdguardTeam/AdGuardDNS/internal/access"
	"github.com/AdguardTeam/AdGuardDNS/internal/agd"
	"github.com/AdguardTeam/AdGuardDNS/internal/agdpasswd"
	"github.com/AdguardTeam/AdGuardDNS/internal/dnsmsg"
	"github.com/AdguardTeam/AdGuardDNS/internal/filter"
	"github.com/AdguardTeam/AdGuardDNS/verif/stack"
	"github.com/AdguardTeam/AdGuardDNS/verif/vkit"
	"github.com/miekg/dns"
)

// =====================================================================
// Phase "simple-cache recycling histories"
//
// One configuration of the stack runs with the SIMPLE cache middleware
// (dnsserver/cache, cache.type=simple) instead of the ECS cache; as everywhere
// in this check every written response is released into the very Cloner that
// the message constructors draw from (what ServerBase.dispose does).  The
// scripted history is the one in which a cached message can be recycled while
// the cache still owns it:
//
//	1. client 1 asks X                      -> miss, X is cached
//	2. client 2 asks X at once              -> fresh hit (served TTL == stored TTL), response released
//	3. other profiles' requests that make the stack draw records of X's type
//	   from the pools (blocked answers with the profile's custom IP, DNS-rewrite
//	   answers built by the constructor, CNAME rewrites)
//	4. clients 3 and 4 ask X                -> hits
//
// Every response is compared with the response the same request gets when it
// is processed alone on a fresh stack of the same configuration.  Requests of
// this phase carry no EDNS: the simple cache drops the upstream's OPT record on
// hits by design, which would be a hit/miss difference unrelated to C07.
// =====================================================================

type recStep struct {
	Role string    `json:"role"`
	Spec reqSpec   `json:"request"`
	Who  requester `json:"requester"`
	Hit  bool      `json:"served_from_cache_on_shared_instance"`
}

func requesterByTag(rqs []requester, tag string) int {
	for i, q := range rqs {
		if q.Tag == tag {
			return i
		}
	}
	panic("no requester " + tag)
}

var recTypes = []uint16{dns.TypeA, dns.TypeA, dns.TypeAAAA, dns.TypeTXT, dns.TypeMX, dns.TypePTR, dns.TypeSRV, dns.TypeCNAME}

func genRecyclingHistory(r *vkit.Run, k int, rqs []requester) (steps []recStep) {
	rng := r.Rand("stack-simple-cache", k)
	qt := recTypes[k%len(recTypes)]
	name := fmt.Sprintf("sc%d.plain.test.", k)
	anon := []string{"anon/dot", "anon/doh", "anon/dns", "p4/dot", "p0/doh", "p2/linked"}
	idn := 0
	mk := func(role, who, qname string, t uint16) recStep {
		ri := requesterByTag(rqs, who)
		idn++
		return recStep{Role: role, Who: rqs[ri], Spec: reqSpec{Idx: k*32 + idn, ID: uint16(1 + (k*32+idn)%65000), Name: qname, Class: "simple-cache", QType: t,
			Requester: ri, Who: who, AD: rng.IntN(3) == 0}}
	}
	perm := rng.Perm(len(anon))
	steps = append(steps,
		mk("1: first request of X (miss, populates the simple cache)", anon[perm[0]], name, qt),
		mk("2: fresh hit of X (released after writing)", anon[perm[1]], name, qt))
	// 3: draws from the pools
	draw := func(who, class string, t uint16, n int) {
		for i := 0; i < n; i++ {
			steps = append(steps, mk("3: another profile's request that draws "+dns.TypeToString[t]+" records from the pools", who,
				fmt.Sprintf("sd%d-%d.%s.test.", k, len(steps), class), t))
		}
	}
	switch qt {
	case dns.TypeA, dns.TypeAAAA:
		draw("p3/dot", "blk", qt, 2) // custom blocking IPs v4+v6
		if qt == dns.TypeA {
			draw("p5/doh", "blk", qt, 2) // two custom v4 addresses
		} else {
			draw("p0/dot", "blk", qt, 2) // null IP
		}
		draw("p1/dot", "rwa", qt, 1)
	case dns.TypeTXT:
		draw("p1/dot", "rwt", qt, 3)
		draw("p2/doh", "rwt", qt, 2)
	case dns.TypeMX:
		draw("p1/dot", "rwm", qt, 3)
		draw("p3/doh", "rwm", qt, 2)
	case dns.TypePTR:
		draw("p1/dot", "rwp", qt, 3)
		draw("p0/doh", "rwp", qt, 2)
	case dns.TypeSRV:
		draw("p1/dot", "rws", qt, 3)
		draw("p2/doh", "rws", qt, 2)
	case dns.TypeCNAME:
		// a CNAME-rewritten request gets its CNAME record from the pool
		draw("p1/dot", "rwc", dns.TypeA, 3)
		draw("p2/doh", "rwc", dns.TypeA, 2)
	}
	steps = append(steps,
		mk("4: later hit of X", anon[perm[2]], name, qt),
		mk("4: later hit of X", anon[perm[3]], name, qt))
	return steps
}

func firstMsg(rs *result) *dns.Msg {
	if len(rs.resps) > 0 {
		return rs.resps[0]
	}
	return nil
}

func msgString(m *dns.Msg) string {
	if m == nil {
		return "<no response>"
	}
	return m.String()
}

func runSimpleCacheRecycling(r *vkit.Run, scratch string, maxHints int) {
	rqs := requesters()
	nHist := r.N(64, 320)
	wo := worldOpts{simpleCache: true}
	shared, err := newWorldWith(filepath.Join(scratch, "sc-shared"), nil, &upstreamFn{maxHints: maxHints}, wo)
	if err != nil {
		r.Inconclusive("cannot build the simple-cache instance: " + err.Error())
		return
	}
	tShared := time.Now()
	counters := map[string]int64{}
	for k := 0; k < nHist; k++ {
		steps := genRecyclingHistory(r, k, rqs)
		sharedRes := make([]result, len(steps))
		aloneRes := make([]result, len(steps))
		// the shared history first, back to back (step 2 must follow step 1 at once)
		for i := range steps {
			sharedRes[i] = serveTimed(shared, &steps[i].Spec, &steps[i].Who, tShared)
			steps[i].Hit = sharedRes[i].upCalls == 0
		}
		for i := range steps {
			if strings.HasPrefix(steps[i].Role, "3:") {
				continue // the pool drawers are only the means of the history
			}
			alone, err := newWorldWith(filepath.Join(scratch, "sc-alone"), nil, &upstreamFn{maxHints: maxHints}, wo)
			if err != nil {
				r.Inconclusive("cannot build a fresh simple-cache instance for the processed-alone reference: " + err.Error())
				return
			}
			aloneRes[i] = serveTimed(alone, &steps[i].Spec, &steps[i].Who, time.Now())
			counters["alone_references"]++
		}
		// was the class exercised?  step 1 miss, step 2 hit with undecayed TTLs
		// (the hit came before the remaining TTL rounded down), step 3 requests
		// answered with records built by the constructor, step 4 hits.
		m2 := firstMsg(&sharedRes[1])
		fresh := sharedRes[0].upCalls > 0 && steps[1].Hit && m2 != nil && len(m2.Answer) > 0
		if fresh {
			T := upstreamTTL(steps[0].Spec.Name, steps[0].Spec.QType)
			for _, rr := range m2.Answer {
				if rr.Header().Ttl != T {
					fresh = false
				}
			}
		}
		laterHits := 0
		for i := range steps {
			if strings.HasPrefix(steps[i].Role, "4:") && steps[i].Hit {
				laterHits++
			}
			if strings.HasPrefix(steps[i].Role, "3:") {
				if m := firstMsg(&sharedRes[i]); m != nil && len(m.Answer) > 0 && m.Answer[0].Header().Ttl < 100 {
					counters["simplecache_pool_draw_answers"]++
				}
			}
		}
		if fresh && laterHits > 0 {
			counters["simplecache_histories_with_fresh_hit_and_later_hit"]++
			counters["simplecache_later_hits_after_fresh_hit"] += int64(laterHits)
		}
		for i := range steps {
			st := &steps[i]
			if strings.HasPrefix(st.Role, "3:") {
				continue
			}
			mm := compareOne(&st.Spec, &st.Who, &aloneRes[i], &sharedRes[i], aloneRes[i].end, sharedRes[i].end, counters)
			if mm != nil {
				info := map[string]any{"phase": "simple-cache recycling history", "history": k, "position": i, "steps": steps,
					"processed_alone_on_fresh_stack": msgString(firstMsg(&aloneRes[i])), "in_the_history_on_shared_stack": msgString(firstMsg(&sharedRes[i]))}
				for kk, v := range mm.info {
					if kk != "sequential" && kk != "concurrent" {
						info[kk] = v
					}
				}
				r.Violation(mm.key, "simple cache: a response differs from the one the same request gets on a fresh stack (a cached message was overwritten through the pools, or data of another request leaked)", info)
				counters["simplecache_mismatches"]++
			}
		}
		r.Eval(fmt.Sprintf("simple-cache|%s|%s>%s>%s", dns.TypeToString[steps[0].Spec.QType], steps[0].Who.Server, steps[1].Who.Server, steps[len(steps)-1].Who.Server), fresh && laterHits > 0)
		if k < 1 {
			r.Sample(map[string]any{"monitor": "simple-cache recycling history", "steps": steps})
		}
	}
	for k, v := range counters {
		if strings.HasPrefix(k, "simplecache_") {
			r.Bucket("stack_"+k, v)
		} else {
			r.Bucket("stack_simplecache_cmp_"+k, v)
		}
	}
	r.Bucket("stack_simplecache_histories", int64(nHist))
}

// =====================================================================
// Phase "shared rule list, concurrent profiles"
//
// The real filter storage is loaded with index rule lists (result caches on).
// Profiles rlA and rlB share the list fl_common; rlA additionally has an
// allow-list and its own block-list, rlB another block-list.  For the hot
// hosts, fl_common's cached result holds 3 resp. 5 matching rules coming from
// different urlfilter lookup tables.  Processed alone, rlA is allowed (its
// exception rule wins) and rlB is blocked.  Both profiles then ask for the same
// hosts from 32 goroutines at the same time; every response is compared with
// its profile's processed-alone response.
// =====================================================================

const (
	rlHost3 = "h.x.shared.rl.test."
	rlHost5 = "h.c.b.a.five.rl.test."
)

var ruleListTexts = map[string]string{
	"fl_common": strings.Join([]string{
		"||shared.rl.test^", "||x.shared.rl.test^", `/shared\.rl\.test/`,
		"||five.rl.test^", "||a.five.rl.test^", "||b.a.five.rl.test^", "||c.b.a.five.rl.test^", `/five\.rl\.test/`,
		"||unrelated-common.test^",
	}, "\n") + "\n",
	"fl_allow_a": "@@||x.shared.rl.test^\n@@||c.b.a.five.rl.test^\n||unrelated-allow.test^\n",
	"fl_extra_a": "||rl.test^\n||unrelated-extra-a.test^\n",
	"fl_extra_b": "||rl.test^\n||unrelated-extra-b.test^\n",
}

// writeRuleLists puts the index (file URL) and the lists (as files of the
// storage's cache directory, which the initial refresh accepts) into dir.
func writeRuleLists(dir string) error {
	type idxF struct {
		DownloadURL string `json:"downloadUrl"`
		Key         string `json:"filterKey"`
	}
	var idx struct {
		Filters []idxF `json:"filters"`
	}
	for _, id := range []string{"fl_common", "fl_allow_a", "fl_extra_a", "fl_extra_b"} {
		idx.Filters = append(idx.Filters, idxF{DownloadURL: "http://127.0.0.1:1/never-fetched/" + id, Key: id})
		if err := os.WriteFile(filepath.Join(dir, id), []byte(ruleListTexts[id]), 0o644); err != nil {
			return err
		}
	}
	b, err := json.Marshal(idx)
	if err != nil {
		return err
	}
	if err = os.WriteFile(filepath.Join(dir, "index.json"), b, 0o644); err != nil {
		return err
	}
	// blocked-service index: three services, each with its own hosts
	type svcF struct {
		ID    string   `json:"id"`
		Rules []string `json:"rules"`
	}
	var sidx struct {
		Svcs []svcF `json:"blocked_services"`
	}
	for i := 0; i < nServices; i++ {
		sidx.Svcs = append(sidx.Svcs, svcF{ID: serviceID(i), Rules: []string{fmt.Sprintf("||svc%d.sv.test^", i), fmt.Sprintf("||filler-svc%d.test^", i)}})
	}
	if b, err = json.Marshal(sidx); err != nil {
		return err
	}
	return os.WriteFile(filepath.Join(dir, "services.json"), b, 0o644)
}

const nServices = 3

func serviceID(i int) string { return fmt.Sprintf("service_%d", i) }

// serviceProfiles: profile i blocks services i and i+1 (mod 3): different,
// overlapping sets; every service is blocked by two profiles and not by the third.
var serviceProfiles = []struct {
	id, dev string
	svcs    []int
	mode    dnsmsg.BlockingMode
	ttl     time.Duration
}{
	{"sva", "dsva", []int{0, 1}, &dnsmsg.BlockingModeNullIP{}, 11 * time.Second},
	{"svb", "dsvb", []int{1, 2}, &dnsmsg.BlockingModeNullIP{}, 12 * time.Second},
	{"svc", "dsvc", []int{2, 0}, &dnsmsg.BlockingModeCustomIP{IPv4: []netip.Addr{netip.MustParseAddr("192.0.2.66")}}, 13 * time.Second},
}

func serviceClients() (cs []requester) {
	for i, sp := range serviceProfiles {
		cs = append(cs, requester{Tag: sp.id + "/dot", Prof: 200 + i, Server: "dot", Remote: fmt.Sprintf("198.18.%d.10:43001", 110+i), TLSName: sp.dev + ".d.example"})
	}
	return cs
}

func profileBlocksService(p, svc int) bool {
	for _, x := range serviceProfiles[p].svcs {
		if x == svc {
			return true
		}
	}
	return false
}

func addRuleListProfiles(db *stack.MapDB) {
	mk := func(id, dev string, mode dnsmsg.BlockingMode, ttl time.Duration, lists ...filter.ID) {
		prof := &agd.Profile{
			ID: agd.ProfileID(id),
			FilterConfig: &filter.ConfigClient{
				Custom:       &filter.ConfigCustom{ID: id},
				Parental:     &filter.ConfigParental{},
				RuleList:     &filter.ConfigRuleList{IDs: lists, Enabled: true},
				SafeBrowsing: &filter.ConfigSafeBrowsing{},
			},
			Access: access.EmptyProfile{}, BlockingMode: mode, Ratelimiter: agd.GlobalRatelimiter{},
			FilteredResponseTTL: ttl, FilteringEnabled: true, QueryLogEnabled: true,
		}
		d := &agd.Device{ID: agd.DeviceID(dev), Name: agd.DeviceName("client-" + dev), Auth: &agd.AuthSettings{PasswordHash: agdpasswd.AllowAuthenticator{}}, FilteringEnabled: true}
		db.Add(prof, d)
	}
	for _, sp := range serviceProfiles {
		var ids []filter.BlockedServiceID
		for _, x := range sp.svcs {
			ids = append(ids, filter.BlockedServiceID(serviceID(x)))
		}
		prof := &agd.Profile{
			ID: agd.ProfileID(sp.id),
			FilterConfig: &filter.ConfigClient{
				Custom:       &filter.ConfigCustom{ID: sp.id},
				Parental:     &filter.ConfigParental{Enabled: true, BlockedServices: ids},
				RuleList:     &filter.ConfigRuleList{},
				SafeBrowsing: &filter.ConfigSafeBrowsing{},
			},
			Access: access.EmptyProfile{}, BlockingMode: sp.mode, Ratelimiter: agd.GlobalRatelimiter{},
			FilteredResponseTTL: sp.ttl, FilteringEnabled: true, QueryLogEnabled: true,
		}
		db.Add(prof, &agd.Device{ID: agd.DeviceID(sp.dev), Name: agd.DeviceName("client-" + sp.dev), Auth: &agd.AuthSettings{PasswordHash: agdpasswd.AllowAuthenticator{}}, FilteringEnabled: true})
	}
	mk("rla", "drla", &dnsmsg.BlockingModeNullIP{}, 15*time.Second, "fl_common", "fl_allow_a", "fl_extra_a")
	mk("rlb", "drlb", &dnsmsg.BlockingModeCustomIP{IPv4: []netip.Addr{netip.MustParseAddr("192.0.2.66")}}, 25*time.Second, "fl_common", "fl_extra_b")
}

// looksFiltered reports whether m is an answer built by a profile's message
// constructor (blocked / rewritten) rather than the upstream's answer.
func looksFiltered(m *dns.Msg) bool {
	if m == nil {
		return false
	}
	return isBlockedShape(m) || strings.Contains(shapeOf(m), "+agdsoa") || (len(m.Answer) > 0 && m.Answer[0].Header().Ttl < 100)
}

func isBlockedShape(m *dns.Msg) bool {
	if m == nil {
		return false
	}
	for _, rr := range m.Answer {
		if a, ok := rr.(*dns.A); ok && (a.A.String() == "0.0.0.0" || a.A.String() == "192.0.2.66") {
			return true
		}
	}
	return false
}

func runSharedRuleList(r *vkit.Run, scratch string, maxHints int, yield func()) {
	wo := worldOpts{ruleLists: true}
	clients := []requester{
		{Tag: "rlA/dot", Prof: 100, Server: "dot", Remote: "198.18.100.10:42001", TLSName: "drla.d.example"},
		{Tag: "rlB/dot", Prof: 101, Server: "dot", Remote: "198.18.101.10:42002", TLSName: "drlb.d.example"},
	}
	hosts := []string{rlHost3, rlHost5}
	clientHosts := [][]string{hosts, hosts}
	var svcHosts []string
	for i := 0; i < nServices; i++ {
		svcHosts = append(svcHosts, fmt.Sprintf("hot.svc%d.sv.test.", i))
	}
	for _, c := range serviceClients() {
		clients = append(clients, c)
		clientHosts = append(clientHosts, svcHosts)
	}
	// processed alone: one fresh stack per (profile, host)
	type refKey struct {
		c int
		h string
	}
	refs := map[refKey]*dns.Msg{}
	counters := map[string]int64{}
	for ci := range clients {
		for _, h := range clientHosts[ci] {
			alone, err := newWorldWith(filepath.Join(scratch, "rl-alone"), nil, &upstreamFn{maxHints: maxHints}, wo)
			if err != nil {
				r.Inconclusive("cannot build a fresh rule-list instance for the processed-alone reference: " + err.Error())
				return
			}
			s := reqSpec{ID: 4242, Name: h, Class: "shared-rule-list", QType: dns.TypeA, Who: clients[ci].Tag}
			rs := serveTimed(alone, &s, &clients[ci], time.Now())
			m := firstMsg(&rs)
			if m == nil || rs.err != "" || rs.panicked != "" {
				r.Inconclusive(fmt.Sprintf("shared-rule-list phase: no processed-alone reference for %s %s: err=%q panic=%q", clients[ci].Tag, h, rs.err, rs.panicked))
				return
			}
			refs[refKey{ci, h}] = m
			if ci >= 2 {
				continue
			}
			if isBlockedShape(m) {
				counters["rulelist_alone_blocked"]++
			} else if len(m.Answer) > 0 {
				counters["rulelist_alone_allowed"]++
			}
		}
	}
	// the constellation is meaningful only if A is allowed and B is blocked alone
	okConstellation := true
	for _, h := range hosts {
		if isBlockedShape(refs[refKey{0, h}]) || !isBlockedShape(refs[refKey{1, h}]) {
			okConstellation = false
		}
	}
	if okConstellation {
		counters["rulelist_hosts_where_alone_verdicts_differ"] = int64(len(hosts))
	}

	if !runServiceHistories(r, scratch, maxHints, counters) {
		return
	}

	rounds := r.N(2, 6)
	perWorker := r.N(150, 400)
	// 32 workers for the two rule-list profiles, 12 for the three
	// blocked-service profiles
	const rlWorkers = 32
	const workers = rlWorkers + 12
	var sampleOnce sync.Once
	for round := 0; round < rounds; round++ {
		shared, err := newWorldWith(filepath.Join(scratch, fmt.Sprintf("rl-shared%d", round)), yield, &upstreamFn{maxHints: maxHints}, wo)
		if err != nil {
			r.Inconclusive("cannot build the shared rule-list instance: " + err.Error())
			return
		}
		t0 := time.Now()
		var wg sync.WaitGroup
		var inflight atomic.Int32
		var idc atomic.Uint32
		start := make(chan struct{})
		type obs struct {
			s       reqSpec
			ci      int
			rs      result
			overlap bool
		}
		all := make([][]obs, workers)
		for g := 0; g < workers; g++ {
			wg.Add(1)
			go func(g int) {
				defer wg.Done()
				<-start
				ci := g % 2
				if g >= rlWorkers {
					ci = 2 + (g-rlWorkers)%nServices
				}
				for i := 0; i < perWorker; i++ {
					// bursts on one host at a time, so that the profiles meet on it
					hs := clientHosts[ci]
					h := hs[(i/8)%len(hs)]
					o := obs{ci: ci, s: reqSpec{ID: uint16(1 + idc.Add(1)%65000), Name: h, Class: "shared-rule-list", QType: dns.TypeA, Who: clients[ci].Tag}}
					if inflight.Add(1) > 1 {
						o.overlap = true
					}
					o.rs = serveTimed(shared, &o.s, &clients[ci], t0)
					if inflight.Add(-1) > 0 {
						o.overlap = true
					}
					all[g] = append(all[g], o)
					if i%16 == 0 {
						runtime.Gosched()
					}
				}
			}(g)
		}
		close(start)
		wg.Wait()
		for g := range all {
			for i := range all[g] {
				o := &all[g][i]
				ref := refs[refKey{o.ci, o.s.Name}].Copy()
				ref.Id = o.s.ID
				pb, _ := ref.Pack()
				a := result{resps: []*dns.Msg{ref}, packed: [][]byte{pb}}
				mm := compareOne(&o.s, &clients[o.ci], &a, &o.rs, time.Second, o.rs.end+time.Second, counters)
				if o.ci < 2 {
					counters["rulelist_concurrent_requests"]++
					if o.overlap {
						counters["rulelist_concurrent_requests_overlapping"]++
					}
				} else {
					counters["services_concurrent_requests"]++
					if o.overlap {
						counters["services_concurrent_requests_overlapping"]++
					}
				}
				if mm != nil {
					info := map[string]any{"phase": "shared rule list, concurrent profiles", "round": round, "request": o.s, "requester": clients[o.ci],
						"lists":                          map[string]any{"rlA": []string{"fl_common", "fl_allow_a", "fl_extra_a"}, "rlB": []string{"fl_common", "fl_extra_b"}, "texts": ruleListTexts},
						"processed_alone_on_fresh_stack": msgString(refs[refKey{o.ci, o.s.Name}]), "concurrently_with_the_other_profile": msgString(firstMsg(&o.rs)),
						"error": o.rs.err, "panic": o.rs.panicked}
					for kk, v := range mm.info {
						if kk != "sequential" && kk != "concurrent" {
							info[kk] = v
						}
					}
					key := mm.key
					if mm.key == "stack:panic" || looksFiltered(firstMsg(&o.rs)) != looksFiltered(ref) {
						key = "stack:verdict-of-other-profile"
					}
					r.Violation(key, "a request's filtering verdict/response differs from the one it gets when processed alone: it was decided with a rule of a simultaneous request of another profile", info)
					counters["rulelist_mismatches"]++
				}
				r.Eval(fmt.Sprintf("shared-rule-list|%s|%s", o.s.Who, o.s.Name), o.overlap)
			}
		}
		sampleOnce.Do(func() {
			r.Sample(map[string]any{"monitor": "shared rule list, concurrent profiles", "hosts": hosts, "alone_rlA": msgString(refs[refKey{0, rlHost3}]), "alone_rlB": msgString(refs[refKey{1, rlHost3}])})
		})
	}
	for k, v := range counters {
		if strings.HasPrefix(k, "rulelist_") || strings.HasPrefix(k, "services_") {
			r.Bucket("stack_"+k, v)
		} else {
			r.Bucket("stack_rulelist_cmp_"+k, v)
		}
	}
}

// runServiceHistories: sequential two- and three-profile histories over the
// blocked-service rule lists (result caches on).  For a host of service s, the
// profile that does not block s and the two that do ask one after the other,
// in both orders, on one shared instance; every response is compared with the
// same request processed alone on a fresh stack.
func runServiceHistories(r *vkit.Run, scratch string, maxHints int, counters map[string]int64) (ok bool) {
	wo := worldOpts{ruleLists: true}
	clients := serviceClients()
	shared, err := newWorldWith(filepath.Join(scratch, "sv-shared"), nil, &upstreamFn{maxHints: maxHints}, wo)
	if err != nil {
		r.Inconclusive("cannot build the shared blocked-service instance: " + err.Error())
		return false
	}
	tShared := time.Now()
	nHist := r.N(24, 96)
	for k := 0; k < nHist; k++ {
		svc := k % nServices
		host := fmt.Sprintf("h%d.svc%d.sv.test.", k, svc)
		var non int
		var blockers []int
		for p := range serviceProfiles {
			if profileBlocksService(p, svc) {
				blockers = append(blockers, p)
			} else {
				non = p
			}
		}
		var order []int
		switch (k / nServices) % 4 {
		case 0:
			order = []int{non, blockers[0], blockers[1]}
		case 1:
			order = []int{blockers[0], non, blockers[1]}
		case 2:
			order = []int{non, blockers[1], blockers[0]}
		default:
			order = []int{blockers[1], blockers[0], non}
		}
		qt := []uint16{dns.TypeA, dns.TypeAAAA, dns.TypeHTTPS}[(k/12)%3]
		type step struct {
			Profile string  `json:"profile"`
			Blocks  bool    `json:"profile_blocks_this_service"`
			Spec    reqSpec `json:"request"`
		}
		var steps []step
		var aloneBlocked []bool
		var sharedRes, aloneRes []result
		for i, p := range order {
			s := reqSpec{Idx: k*4 + i, ID: uint16(20000 + k*4 + i), Name: host, Class: "blocked-services", QType: qt, Who: clients[p].Tag}
			steps = append(steps, step{Profile: serviceProfiles[p].id, Blocks: profileBlocksService(p, svc), Spec: s})
			alone, err := newWorldWith(filepath.Join(scratch, "sv-alone"), nil, &upstreamFn{maxHints: maxHints}, wo)
			if err != nil {
				r.Inconclusive("cannot build a fresh blocked-service instance for the processed-alone reference: " + err.Error())
				return false
			}
			aloneRes = append(aloneRes, serveTimed(alone, &s, &clients[p], time.Now()))
			sharedRes = append(sharedRes, serveTimed(shared, &s, &clients[p], tShared))
			m := firstMsg(&aloneRes[i])
			// blocked alone: constructor-built answer (TTL of the profile) or the blocked NODATA shape
			aloneBlocked = append(aloneBlocked, looksFiltered(m))
		}
		differ := false
		for i := range order {
			if aloneBlocked[i] != aloneBlocked[0] {
				differ = true
			}
			if aloneBlocked[i] != profileBlocksService(order[i], svc) {
				// Whether a verdict is the configured one is property C02's
				// question; here the processed-alone response is the reference
				// whatever it is.  Only counted.
				counters["services_alone_verdict_not_as_configured"]++
			}
		}
		if differ {
			counters["services_histories_where_alone_verdicts_differ"]++
		}
		for i := range order {
			mm := compareOne(&steps[i].Spec, &clients[order[i]], &aloneRes[i], &sharedRes[i], aloneRes[i].end, sharedRes[i].end, counters)
			counters["services_sequential_requests"]++
			if mm != nil {
				info := map[string]any{"phase": "blocked-service history", "history": k, "position": i, "steps": steps,
					"services":                       "sva blocks service_0+1, svb service_1+2, svc service_2+0; service_i = ||svc<i>.sv.test^",
					"processed_alone_on_fresh_stack": msgString(firstMsg(&aloneRes[i])), "after_the_other_profiles_on_shared_stack": msgString(firstMsg(&sharedRes[i])),
					"error": sharedRes[i].err, "panic": sharedRes[i].panicked}
				for kk, v := range mm.info {
					if kk != "sequential" && kk != "concurrent" {
						info[kk] = v
					}
				}
				key := mm.key
				if mm.key == "stack:panic" || mm.key == "stack:error-differs" || mm.key == "stack:response-count" || looksFiltered(firstMsg(&sharedRes[i])) != looksFiltered(firstMsg(&aloneRes[i])) {
					key = "stack:verdict-of-other-profile"
				}
				r.Violation(key, "a profile's blocked-service verdict depends on which other profile asked for the host before: it differs from the processed-alone response", info)
				counters["services_mismatches"]++
			}
		}
		r.Eval(fmt.Sprintf("blocked-services|svc%d|%s|order=%d", svc, dns.TypeToString[qt], (k/nServices)%4), differ)
		if k == 0 {
			r.Sample(map[string]any{"monitor": "blocked-service history", "steps": steps})
		}
	}
	counters["services_histories"] = int64(nHist)
	return true
}
