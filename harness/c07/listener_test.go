package c07

import (
	"context"
	"fmt"
	"net/netip"
	"runtime"
	"strings"
	"sync"
	"sync/atomic"
	"time"

	"github.com/AdguardTeam/AdGuardDNS/internal/dnsmsg"
	"github.com/AdguardTeam/AdGuardDNS/internal/dnsserver"
	"github.com/AdguardTeam/AdGuardDNS/verif/tbench"
	"github.com/AdguardTeam/AdGuardDNS/verif/vkit"
	"github.com/miekg/dns"
)

// =====================================================================
// Phase "listeners": the REAL plain-DNS (UDP + TCP) and DoT servers of
// internal/dnsserver with Disposer = the Cloner that the handler's message
// constructor draws from.  N client sockets send bursts of equal-size queries
// at the same moment; every socket must receive only answers to its OWN
// queries: own ID, own question, and the answer data that belongs to that
// question.  (Pooled read buffers and pooled messages are recycled while other
// requests are in flight.)  Lost UDP datagrams are counted, never judged.
// =====================================================================

// lbAnswerIP is the address the bench handler answers an A question with.
func lbAnswerIP(name string) netip.Addr {
	h := fnv(strings.ToLower(name))
	return netip.AddrFrom4([4]byte{198, 51, byte(h >> 8), byte(h)})
}

func lbAnswerTXT(name string) string { return "txt-for-" + strings.ToLower(name) }

type lbHandler struct {
	msgs     *dnsmsg.Constructor
	inflight atomic.Int32
	maxSeen  atomic.Int32
	overlap  atomic.Int64
	served   atomic.Int64
	noise    atomic.Uint64
}

func (h *lbHandler) ServeDNS(ctx context.Context, rw dnsserver.ResponseWriter, req *dns.Msg) (err error) {
	n := h.inflight.Add(1)
	defer h.inflight.Add(-1)
	h.served.Add(1)
	if n > 1 {
		h.overlap.Add(1)
	}
	for {
		m := h.maxSeen.Load()
		if n <= m || h.maxSeen.CompareAndSwap(m, n) {
			break
		}
	}
	// keep workers busy for a moment so that requests really overlap
	switch x := h.noise.Add(0x9e3779b97f4a7c15) >> 33; x % 4 {
	case 0:
		runtime.Gosched()
	case 1:
		time.Sleep(time.Duration(5+x%40) * time.Microsecond)
	}
	q := req.Question[0]
	var resp *dns.Msg
	switch q.Qtype {
	case dns.TypeA:
		resp, err = h.msgs.NewRespIP(req, lbAnswerIP(q.Name))
	case dns.TypeTXT:
		resp, err = h.msgs.NewRespTXT(req, lbAnswerTXT(q.Name))
	default:
		resp = h.msgs.NewRespRCode(req, dns.RcodeSuccess)
	}
	if err != nil {
		return err
	}
	return rw.WriteMsg(ctx, req, resp)
}

type lbQuery struct {
	ID    uint16 `json:"id"`
	Name  string `json:"name"`
	QType uint16 `json:"qtype"`
}

// lbQueries are the queries of client c in a round: unique IDs and names over
// the whole round, all of the same size on the wire.
func lbQueries(round, c, n int) (qs []lbQuery) {
	for i := 0; i < n; i++ {
		qt := uint16(dns.TypeA)
		if (c+i)%3 == 0 {
			qt = dns.TypeTXT
		}
		qs = append(qs, lbQuery{ID: uint16(1 + (round*977+c*61+i)%65000), Name: fmt.Sprintf("r%03dc%02dq%03d.lb.test.", round%1000, c, i), QType: qt})
	}
	return qs
}

// lbCheck judges one received message on a client's socket.
func lbCheck(r *vkit.Run, transport string, round, client int, own map[uint16]lbQuery, seen map[uint16]bool, raw []byte, counters map[string]int64, mu *sync.Mutex) {
	m := &dns.Msg{}
	fail := func(key, what string, extra map[string]any) {
		w := map[string]any{"phase": "listeners", "transport": transport, "round": round, "client_socket": client, "received": fmt.Sprintf("%x", raw)}
		if len(m.Question) > 0 {
			w["received_printed"] = m.String()
		}
		for k, v := range extra {
			w[k] = v
		}
		r.Violation(key, what, w)
		mu.Lock()
		counters["listener_violations"]++
		mu.Unlock()
	}
	if err := m.Unpack(raw); err != nil {
		fail("listener:unparsable-response:"+transport, "a client received bytes that are not a DNS message", map[string]any{"error": err.Error()})
		return
	}
	q, ok := own[m.Id]
	if !ok {
		fail("listener:foreign-response:"+transport, "a client received a response whose ID it never sent: the answer to another client's query", nil)
		return
	}
	if len(m.Question) != 1 || !strings.EqualFold(m.Question[0].Name, q.Name) || m.Question[0].Qtype != q.QType {
		fail("listener:foreign-question:"+transport, "a response carries the client's ID but another query's question", map[string]any{"own_query": q})
		return
	}
	if seen[m.Id] {
		fail("listener:duplicate-response:"+transport, "a client received two responses to one query", map[string]any{"own_query": q})
		return
	}
	seen[m.Id] = true
	good := false
	if m.Rcode == dns.RcodeSuccess && len(m.Answer) == 1 {
		switch a := m.Answer[0].(type) {
		case *dns.A:
			ip, _ := netip.AddrFromSlice(a.A)
			good = q.QType == dns.TypeA && ip.Unmap() == lbAnswerIP(q.Name) && strings.EqualFold(a.Hdr.Name, q.Name)
		case *dns.TXT:
			good = q.QType == dns.TypeTXT && len(a.Txt) == 1 && a.Txt[0] == lbAnswerTXT(q.Name) && strings.EqualFold(a.Hdr.Name, q.Name)
		}
	}
	if !good {
		fail("listener:foreign-answer:"+transport, "the records of a response do not belong to its question", map[string]any{"own_query": q})
		return
	}
	mu.Lock()
	counters["listener_"+transport+"_responses_own"]++
	mu.Unlock()
}

func runListeners(r *vkit.Run) {
	cl := dnsmsg.NewCloner(dnsmsg.EmptyClonerStat{})
	msgs, err := dnsmsg.NewConstructor(&dnsmsg.ConstructorConfig{Cloner: cl, BlockingMode: &dnsmsg.BlockingModeNullIP{}, StructuredErrors: sdeConf(false), FilteredResponseTTL: 30 * time.Second})
	if err != nil {
		r.Inconclusive("listeners: constructor: " + err.Error())
		return
	}
	h := &lbHandler{msgs: msgs}
	b, err := tbench.Start(tbench.Config{Handler: h, Disposer: cl, Only: []tbench.Server{tbench.SrvDNS, tbench.SrvDoT},
		DNS: tbench.StreamOptions{MaxPipelineEnabled: true, MaxPipelineCount: 64},
		DoT: tbench.StreamOptions{MaxPipelineEnabled: true, MaxPipelineCount: 64}})
	if err != nil {
		r.Inconclusive("listeners: cannot start the servers: " + err.Error())
		return
	}
	defer func() { _ = b.Close() }()

	counters := map[string]int64{}
	var mu sync.Mutex
	rounds := r.N(12, 60)
	const udpClients, udpBurst = 16, 12
	const streamClients, streamBurst = 6, 10

	for round := 0; round < rounds; round++ {
		var wg sync.WaitGroup
		start := make(chan struct{})
		// --- UDP ---
		for c := 0; c < udpClients; c++ {
			wg.Add(1)
			go func(c int) {
				defer wg.Done()
				u, err := b.DialUDP()
				if err != nil {
					mu.Lock()
					counters["listener_client_errors"]++
					mu.Unlock()
					return
				}
				defer u.Close()
				qs := lbQueries(round, c, udpBurst)
				own := map[uint16]lbQuery{}
				var wire [][]byte
				for _, q := range qs {
					own[q.ID] = q
					wire = append(wire, tbench.SimpleQuery(q.ID, q.Name, q.QType, dns.ClassINET))
				}
				<-start
				for _, w := range wire {
					if err := u.Send(w); err != nil {
						mu.Lock()
						counters["listener_client_errors"]++
						mu.Unlock()
					}
				}
				mu.Lock()
				counters["listener_udp_datagrams_sent"] += int64(len(wire))
				// every datagram of a burst but the last is followed at once by another one
				counters["listener_udp_datagrams_sent_back_to_back"] += int64(len(wire) - 1)
				mu.Unlock()
				seen := map[uint16]bool{}
				got := 0
				for got < len(wire) {
					d, err := u.Recv(400 * time.Millisecond)
					if err != nil {
						break
					}
					got++
					lbCheck(r, "udp", round, c, own, seen, d, counters, &mu)
				}
				mu.Lock()
				counters["listener_udp_datagrams_unanswered"] += int64(len(wire) - len(seen))
				mu.Unlock()
			}(c)
		}
		// --- TCP and DoT: pipelined bursts on every connection ---
		for c := 0; c < 2*streamClients; c++ {
			wg.Add(1)
			go func(c int) {
				defer wg.Done()
				transport := "tcp"
				dialFn := b.DialTCP
				if c%2 == 1 {
					transport, dialFn = "dot", b.DialDoT
				}
				sc, err := dialFn()
				if err != nil {
					mu.Lock()
					counters["listener_client_errors"]++
					mu.Unlock()
					return
				}
				defer sc.Close()
				qs := lbQueries(round, 40+c, streamBurst)
				own := map[uint16]lbQuery{}
				var raw []byte
				for _, q := range qs {
					own[q.ID] = q
					raw = append(raw, tbench.Frame(tbench.SimpleQuery(q.ID, q.Name, q.QType, dns.ClassINET))...)
				}
				<-start
				if err := sc.WriteRaw(raw); err != nil {
					mu.Lock()
					counters["listener_client_errors"]++
					mu.Unlock()
					return
				}
				mu.Lock()
				counters["listener_"+transport+"_queries_sent"] += int64(len(qs))
				mu.Unlock()
				seen := map[uint16]bool{}
				for i := 0; i < len(qs); i++ {
					p, _, err := sc.ReadFrame(5 * time.Second)
					if err != nil {
						break
					}
					lbCheck(r, transport, round, 40+c, own, seen, p, counters, &mu)
				}
				mu.Lock()
				counters["listener_"+transport+"_queries_unanswered"] += int64(len(qs) - len(seen))
				mu.Unlock()
			}(c)
		}
		close(start)
		wg.Wait()
		r.Eval(fmt.Sprintf("listeners|round=%d", round), true)
	}
	counters["listener_requests_served"] = h.served.Load()
	counters["listener_requests_overlapping_in_handler"] = h.overlap.Load()
	counters["listener_max_requests_in_handler_at_once"] = int64(h.maxSeen.Load())
	for k, v := range counters {
		r.Bucket(k, v)
	}
	r.Sample(map[string]any{"monitor": "listeners", "udp_clients": udpClients, "udp_burst": udpBurst, "stream_clients_each_tcp_and_dot": streamClients,
		"stream_burst": streamBurst, "rounds": rounds, "example_queries": lbQueries(0, 0, 3)})
}
