// Package c10 monitors property C10: access-blocked clients and names are
// dropped silently and leave no trace.
//
// The REAL middleware stack (dnssvc.NewHandlers, through the shared stack kit)
// is built around the REAL access.NewGlobal and profiles whose Access is the
// REAL access.NewDefaultProfile.  Requests are injected at the handler boundary
// for several protocols and ways of attribution; for every request a small
// membership model written from the property statement says "blocked" or "not
// blocked", and the oracle compares that with what the response writer and the
// recording fakes of every downstream stage observed.
package c10

import (
	"context"
	"fmt"
	"math/rand/v2"
	"net/netip"
	"net/url"
	"os"
	"strings"
	"sync/atomic"
	"testing"

	"github.com/AdguardTeam/AdGuardDNS/internal/access"
	"github.com/AdguardTeam/AdGuardDNS/internal/agd"
	"github.com/AdguardTeam/AdGuardDNS/internal/agdnet"
	"github.com/AdguardTeam/AdGuardDNS/internal/agdpasswd"
	"github.com/AdguardTeam/AdGuardDNS/internal/dnsmsg"
	"github.com/AdguardTeam/AdGuardDNS/internal/dnssvc"
	"github.com/AdguardTeam/AdGuardDNS/internal/filter"
	"github.com/AdguardTeam/AdGuardDNS/internal/geoip"
	"github.com/AdguardTeam/AdGuardDNS/internal/profiledb"
	"github.com/AdguardTeam/AdGuardDNS/verif/stack"
	"github.com/AdguardTeam/AdGuardDNS/verif/vkit"
	"github.com/miekg/dns"
)

// ---------------------------------------------------------------------------
// Configuration (what is generated, JSON-able for witnesses)
// ---------------------------------------------------------------------------

// ruleSpec is one blocked-name rule in the small grammar with a documented
// meaning:
//
//	domain                 exact host (hosts-style "just a domain" rule)
//	||domain^              domain and all its subdomains
//	||domain^$dnstype=T    same, only for question type T ("~T": all but T)
//	@@||domain^            exception: un-blocks domain and its subdomains
type ruleSpec struct {
	Text   string `json:"text"`
	Domain string `json:"domain"` // lower case, no trailing dot
	Suffix bool   `json:"suffix"` // false: exact host only
	Exc    bool   `json:"exception,omitempty"`
	QT     uint16 `json:"dnstype,omitempty"` // 0: any type
	Neg    bool   `json:"dnstype_negated,omitempty"`
}

type devCfg struct {
	ID string `json:"id"`
	// FilteringOff: protection is paused on the device (agd.Device.FilteringEnabled = false).
	FilteringOff bool       `json:"filtering_disabled,omitempty"`
	Linked       netip.Addr `json:"linked_ip"`
	Dedicated    netip.Addr `json:"dedicated_ip"`
}

type profCfg struct {
	ID string `json:"id"`
	// FilteringOff: protection is paused on the profile (agd.Profile.FilteringEnabled = false).
	// The access settings are not a filter: the verdict must not depend on it.
	FilteringOff bool `json:"filtering_disabled,omitempty"`
	// Shape: the settings were reduced to one kind of list (delivery phase).
	Shape       string         `json:"single_kind_of_list,omitempty"`
	Empty       bool           `json:"empty_access"` // access.EmptyProfile
	AllowedNets []netip.Prefix `json:"allowed_nets"`
	BlockedNets []netip.Prefix `json:"blocked_nets"`
	AllowedASN  []uint32       `json:"allowed_asn"`
	BlockedASN  []uint32       `json:"blocked_asn"`
	Rules       []ruleSpec     `json:"rules"`
	Devices     []devCfg       `json:"devices"`
}

type geoEnt struct {
	Net netip.Prefix `json:"net"`
	ASN uint32       `json:"asn"`
}

type config struct {
	Index       int            `json:"config_index"`
	Cache       string         `json:"cache"`
	GlobalNets  []netip.Prefix `json:"global_blocked_nets"`
	GlobalRules []ruleSpec     `json:"global_rules"`
	Geo         []geoEnt       `json:"geo"`
	Profiles    []profCfg      `json:"profiles"`

	// candidates (not part of the witness)
	addrs   []addrCand
	names   []nameCand
	domains []string
	ctr     int
	regs    []region
}

type addrCand struct {
	A    netip.Addr
	Kind string // first|last|before|after|inside|region|neutral
	Src  string // g | p<i> | region | neutral
}

type nameCand struct {
	Rule ruleSpec
	Src  string // g | p<i>
}

// ---------------------------------------------------------------------------
// address helpers (own arithmetic; the model does not call the code under test)
// ---------------------------------------------------------------------------

func bitAt(b []byte, i int) byte { return (b[i/8] >> (7 - uint(i%8))) & 1 }

// inNet is the model's "address is in subnet": same family after normalising
// an IPv4-mapped IPv6 client address to IPv4 (the documented behaviour of the
// address conversion used by the servers), and equal leading Bits() bits.
func inNet(p netip.Prefix, a netip.Addr) bool {
	a = a.Unmap()
	pa := p.Addr()
	if pa.Is4In6() {
		// A subnet written in the IPv4-mapped IPv6 form (only the delivery
		// phase generates these).  Its meaning for IPv4 clients is not
		// documented: read literally it contains no client at all (client
		// addresses are normalised to IPv4), read as its IPv4 equivalent it
		// is the IPv4 subnet with 96 bits less.  The phase evaluates both
		// readings and only judges requests on which they agree.
		if !mappedCIDRAsV4 || p.Bits() < 96 {
			return false
		}
		p = netip.PrefixFrom(pa.Unmap(), p.Bits()-96)
		pa = p.Addr()
	}
	if pa.Is4() != a.Is4() {
		return false
	}
	ab, pb := a.AsSlice(), pa.AsSlice()
	for i := 0; i < p.Bits(); i++ {
		if bitAt(ab, i) != bitAt(pb, i) {
			return false
		}
	}
	return true
}

// mappedCIDRAsV4 selects the reading of IPv4-mapped subnets, see inNet.  The
// check is sequential.
var mappedCIDRAsV4 bool

func firstOf(p netip.Prefix) netip.Addr { return p.Masked().Addr() }

func lastOf(p netip.Prefix) netip.Addr {
	b := p.Masked().Addr().AsSlice()
	for i := p.Bits(); i < len(b)*8; i++ {
		b[i/8] |= 1 << (7 - uint(i%8))
	}
	a, _ := netip.AddrFromSlice(b)
	return a
}

func randIn(rng *rand.Rand, p netip.Prefix) netip.Addr {
	b := p.Masked().Addr().AsSlice()
	for i := p.Bits(); i < len(b)*8; i++ {
		if rng.IntN(2) == 1 {
			b[i/8] |= 1 << (7 - uint(i%8))
		}
	}
	a, _ := netip.AddrFromSlice(b)
	return a
}

func mapped(a netip.Addr) netip.Addr {
	if !a.Is4() {
		return a
	}
	return netip.AddrFrom16(a.As16())
}

// subPrefix returns a prefix of p with `more` additional bits at a random
// position inside p.
func subPrefix(rng *rand.Rand, p netip.Prefix, more int) netip.Prefix {
	bits := p.Bits() + more
	if bits > p.Addr().BitLen() {
		bits = p.Addr().BitLen()
	}
	return netip.PrefixFrom(randIn(rng, p), bits).Masked()
}

func superPrefix(p netip.Prefix, less int) netip.Prefix {
	bits := p.Bits() - less
	if bits < 1 {
		bits = 1
	}
	return netip.PrefixFrom(p.Addr(), bits).Masked()
}

// ---------------------------------------------------------------------------
// generators
// ---------------------------------------------------------------------------

var tlds = []string{"test", "example", "org", "com", "net", "invalid", "dev"}

const letters = "abcdefghijklmnopqrstuvwxyz"
const alnum = "abcdefghijklmnopqrstuvwxyz0123456789"

func genLabel(rng *rand.Rand) string {
	n := 3 + rng.IntN(5)
	b := make([]byte, n)
	b[0] = letters[rng.IntN(len(letters))]
	for i := 1; i < n; i++ {
		b[i] = alnum[rng.IntN(len(alnum))]
	}
	if n > 4 && rng.IntN(5) == 0 {
		b[2] = '-'
	}
	return string(b)
}

func genDomain(rng *rand.Rand) string {
	d := genLabel(rng) + "." + tlds[rng.IntN(len(tlds))]
	if rng.IntN(3) == 0 {
		d = genLabel(rng) + "." + d
	}
	return d
}

func randCase(rng *rand.Rand, s string) string {
	b := []byte(s)
	for i, c := range b {
		if 'a' <= c && c <= 'z' && rng.IntN(2) == 0 {
			b[i] = c - 'a' + 'A'
		}
	}
	return string(b)
}

var ruleTypes = []uint16{dns.TypeA, dns.TypeAAAA, dns.TypeHTTPS, dns.TypeTXT, dns.TypeMX, dns.TypeCNAME}

func genRule(rng *rand.Rand, c *config) ruleSpec {
	var d string
	switch k := rng.IntN(10); {
	case k < 5 && len(c.domains) > 0:
		d = c.domains[rng.IntN(len(c.domains))]
	case k < 7 && len(c.domains) > 0:
		d = genLabel(rng) + "." + c.domains[rng.IntN(len(c.domains))]
	default:
		d = genDomain(rng)
	}
	c.domains = append(c.domains, d)
	rs := ruleSpec{Domain: d}
	shown := d
	if rng.IntN(4) == 0 {
		shown = randCase(rng, d)
	}
	switch k := rng.IntN(20); {
	case k < 6:
		rs.Text = shown
	case k < 13:
		rs.Suffix = true
		rs.Text = "||" + shown + "^"
	case k < 18:
		rs.Suffix = true
		rs.QT = ruleTypes[rng.IntN(len(ruleTypes))]
		rs.Neg = rng.IntN(4) == 0
		t := dns.TypeToString[rs.QT]
		if rs.Neg {
			t = "~" + t
		}
		rs.Text = "||" + shown + "^$dnstype=" + t
	default:
		rs.Suffix = true
		rs.Exc = true
		rs.Text = "@@||" + shown + "^"
	}
	return rs
}

type region struct {
	P   netip.Prefix
	Geo []geoEnt
}

var asnPool = []uint32{64500, 64501, 64502, 64503, 64504, 64505}

func genRegion(rng *rand.Rand, used map[netip.Prefix]bool) region {
	for {
		var p netip.Prefix
		if rng.IntN(5) < 3 {
			bits := []int{12, 16, 20, 23, 24}[rng.IntN(5)]
			a := netip.AddrFrom4([4]byte{byte(11 + rng.IntN(100)), byte(rng.IntN(256)), byte(rng.IntN(256)), 0})
			p = netip.PrefixFrom(a, bits).Masked()
		} else {
			bits := []int{32, 48, 56, 64, 96, 120}[rng.IntN(6)]
			var b [16]byte
			b[0], b[1] = 0x20, 0x01
			for i := 2; i < 16; i++ {
				b[i] = byte(rng.IntN(256))
			}
			p = netip.PrefixFrom(netip.AddrFrom16(b), bits).Masked()
		}
		clash := false
		for u := range used {
			if u.Overlaps(p) {
				clash = true
			}
		}
		if clash {
			continue
		}
		used[p] = true
		rg := region{P: p}
		switch rng.IntN(5) {
		case 0: // no location known for this region
		case 1, 2:
			rg.Geo = []geoEnt{{p, asnPool[rng.IntN(len(asnPool))]}}
		default: // two halves with different ASNs
			lo := netip.PrefixFrom(firstOf(p), p.Bits()+1)
			hi := netip.PrefixFrom(lastOf(p), p.Bits()+1).Masked()
			a1 := asnPool[rng.IntN(len(asnPool))]
			a2 := asnPool[rng.IntN(len(asnPool))]
			rg.Geo = []geoEnt{{lo, a1}, {hi, a2}}
		}
		return rg
	}
}

func genNet(rng *rand.Rand, regs []region, prev []netip.Prefix) netip.Prefix {
	if len(prev) > 0 && rng.IntN(4) == 0 {
		// derive from an already used net: same, inside it, or around it
		q := prev[rng.IntN(len(prev))]
		switch rng.IntN(3) {
		case 0:
			return q
		case 1:
			return subPrefix(rng, q, 1+rng.IntN(6))
		default:
			return superPrefix(q, 1+rng.IntN(4))
		}
	}
	rg := regs[rng.IntN(len(regs))]
	var p netip.Prefix
	switch k := rng.IntN(20); {
	case k < 5:
		p = rg.P
	case k < 11:
		p = subPrefix(rng, rg.P, []int{1, 2, 4, 7, 8}[rng.IntN(5)])
	case k < 15:
		p = netip.PrefixFrom(randIn(rng, rg.P), rg.P.Addr().BitLen()) // single address
	case k < 17:
		p = superPrefix(rg.P, 1+rng.IntN(3))
	case k < 18:
		// geo half
		if len(rg.Geo) > 0 {
			p = rg.Geo[rng.IntN(len(rg.Geo))].Net
		} else {
			p = rg.P
		}
	default:
		p = subPrefix(rng, rg.P, 3)
	}
	if rng.IntN(6) == 0 && p.Bits() < p.Addr().BitLen() {
		// written with host bits set, like the documented example 1.2.3.0/8
		p = netip.PrefixFrom(randIn(rng, p), p.Bits())
	}
	return p
}

func genNets(rng *rand.Rand, regs []region, n int, prev []netip.Prefix) []netip.Prefix {
	out := []netip.Prefix{}
	for i := 0; i < n; i++ {
		p := genNet(rng, regs, append(append([]netip.Prefix{}, prev...), out...))
		out = append(out, p)
	}
	return out
}

func genASNs(rng *rand.Rand, n int) []uint32 {
	out := []uint32{}
	for i := 0; i < n; i++ {
		out = append(out, asnPool[rng.IntN(len(asnPool))])
	}
	return out
}

var neutralAddrs = []netip.Addr{
	netip.MustParseAddr("203.0.113.77"),
	netip.MustParseAddr("2001:db8:ffff::77"),
	netip.MustParseAddr("192.88.99.9"),
	netip.MustParseAddr("3fff:1::9"),
	netip.MustParseAddr("1.1.1.1"),
	netip.MustParseAddr("fd00::1"),
}

func (c *config) addNetCands(p netip.Prefix, src string, rng *rand.Rand) {
	f, l := firstOf(p), lastOf(p)
	c.addrs = append(c.addrs, addrCand{f, "first", src}, addrCand{l, "last", src}, addrCand{randIn(rng, p), "inside", src})
	if b := f.Prev(); b.IsValid() {
		c.addrs = append(c.addrs, addrCand{b, "before", src})
	}
	if n := l.Next(); n.IsValid() {
		c.addrs = append(c.addrs, addrCand{n, "after", src})
	}
}

func genConfig(rng *rand.Rand, idx int) *config {
	c := &config{Index: idx}
	if rng.IntN(20) < 11 {
		c.Cache = "simple"
	} else {
		c.Cache = "ecs"
	}
	used := map[netip.Prefix]bool{}
	for _, n := range neutralAddrs {
		used[netip.PrefixFrom(n, n.BitLen())] = true
	}
	regs := []region{}
	for i, n := 0, 4+rng.IntN(3); i < n; i++ {
		rg := genRegion(rng, used)
		regs = append(regs, rg)
		c.Geo = append(c.Geo, rg.Geo...)
		c.addrs = append(c.addrs, addrCand{randIn(rng, rg.P), "region", "region"})
		for _, g := range rg.Geo {
			c.addrs = append(c.addrs, addrCand{randIn(rng, g.Net), "region", "region"})
		}
	}
	for _, n := range neutralAddrs {
		c.addrs = append(c.addrs, addrCand{n, "neutral", "neutral"})
	}
	c.regs = regs
	// global access
	c.GlobalNets = genNets(rng, regs, []int{0, 0, 1, 1, 1, 2, 3}[rng.IntN(7)], nil)
	for _, p := range c.GlobalNets {
		c.addNetCands(p, "g", rng)
	}
	c.GlobalRules = []ruleSpec{}
	for i, n := 0, []int{0, 0, 1, 2, 3, 4}[rng.IntN(6)]; i < n; i++ {
		rs := genRule(rng, c)
		c.GlobalRules = append(c.GlobalRules, rs)
		c.names = append(c.names, nameCand{rs, "g"})
	}
	// profiles
	np := 2 + rng.IntN(2)
	for pi := 0; pi < np; pi++ {
		src := fmt.Sprintf("p%d", pi)
		p := profCfg{ID: fmt.Sprintf("prof%d", pi), AllowedNets: []netip.Prefix{}, BlockedNets: []netip.Prefix{},
			AllowedASN: []uint32{}, BlockedASN: []uint32{}, Rules: []ruleSpec{}}
		if pi > 0 && rng.IntN(8) == 0 {
			p.Empty = true
		} else {
			p.BlockedNets = genNets(rng, regs, rng.IntN(4), c.GlobalNets)
			p.AllowedNets = genNets(rng, regs, rng.IntN(4), append(append([]netip.Prefix{}, c.GlobalNets...), p.BlockedNets...))
			p.BlockedASN = genASNs(rng, []int{0, 1, 1, 2}[rng.IntN(4)])
			p.AllowedASN = genASNs(rng, rng.IntN(3))
			if rng.IntN(25) == 0 {
				// a whole-family block, to be pierced by allowed nets / ASNs
				p.BlockedNets = append(p.BlockedNets, []netip.Prefix{netip.MustParsePrefix("0.0.0.0/0"), netip.MustParsePrefix("::/0")}[rng.IntN(2)])
			}
			for i, n := 0, rng.IntN(4); i < n; i++ {
				rs := genRule(rng, c)
				p.Rules = append(p.Rules, rs)
				c.names = append(c.names, nameCand{rs, src})
			}
			for _, q := range p.BlockedNets {
				c.addNetCands(q, src, rng)
			}
			for _, q := range p.AllowedNets {
				c.addNetCands(q, src, rng)
			}
		}
		c.Profiles = append(c.Profiles, p)
	}
	// devices: one found by id, two by linked IP, one by dedicated IP
	linkedUsed := map[netip.Addr]bool{}
	dedCtr := 0
	for pi := range c.Profiles {
		p := &c.Profiles[pi]
		src := fmt.Sprintf("p%d", pi)
		p.Devices = append(p.Devices, devCfg{ID: fmt.Sprintf("p%did", pi)})
		own := []addrCand{}
		for _, a := range c.addrs {
			if a.Src == src || a.Src == "g" || a.Src == "region" {
				own = append(own, a)
			}
		}
		for k := 0; k < 2; k++ {
			for try := 0; try < 20; try++ {
				a := own[rng.IntN(len(own))].A
				if try > 10 {
					a = c.addrs[rng.IntN(len(c.addrs))].A
				}
				if !linkedUsed[a] {
					linkedUsed[a] = true
					p.Devices = append(p.Devices, devCfg{ID: fmt.Sprintf("p%dln%d", pi, k), Linked: a})
					break
				}
			}
		}
		dedCtr++
		p.Devices = append(p.Devices, devCfg{ID: fmt.Sprintf("p%dded", pi),
			Dedicated: netip.AddrFrom4([4]byte{192, 0, 2, byte(64 + dedCtr)})})
	}
	// the "filtering paused" switches of profiles and devices
	for pi := range c.Profiles {
		p := &c.Profiles[pi]
		p.FilteringOff = rng.IntN(5) == 0
		for di := range p.Devices {
			p.Devices[di].FilteringOff = rng.IntN(5) == 0
		}
	}
	return c
}

// ---------------------------------------------------------------------------
// the membership model (from the property statement)
// ---------------------------------------------------------------------------

type verdict struct {
	Blocked bool `json:"blocked"`
	GNet    bool `json:"global_net"`
	GName   bool `json:"global_name"`
	PAlwNet bool `json:"profile_allowed_net"`
	PAlwASN bool `json:"profile_allowed_asn"`
	PBlkNet bool `json:"profile_blocked_net"`
	PBlkASN bool `json:"profile_blocked_asn"`
	PName   bool `json:"profile_name"`
	// informative only
	ExcDecisive  bool `json:"exception_rule_decisive,omitempty"`
	TypeDecisive bool `json:"dnstype_decisive,omitempty"`
	HasASN       bool `json:"client_has_asn"`
	ASN          uint32
}

func (c *config) asnOf(a netip.Addr) (asn uint32, ok bool) {
	best := -1
	for _, g := range c.Geo {
		if inNet(g.Net, a) && g.Net.Bits() > best {
			best, asn, ok = g.Net.Bits(), g.ASN, true
		}
	}
	return asn, ok
}

func normHost(qname string) string {
	return strings.ToLower(strings.TrimSuffix(qname, "."))
}

// nameBlocked: a blocking rule matches and no exception rule matches.
func nameBlocked(rules []ruleSpec, host string, qt uint16) (blocked, excDecisive, typeDecisive bool) {
	blk, exc, nameOnly := false, false, false
	for _, r := range rules {
		m := host == r.Domain || (r.Suffix && strings.HasSuffix(host, "."+r.Domain))
		if !m || host == "" {
			continue
		}
		if r.QT != 0 && (qt == r.QT) == r.Neg {
			nameOnly = true
			continue
		}
		if r.Exc {
			exc = true
		} else {
			blk = true
		}
	}
	return blk && !exc, blk && exc, nameOnly && !blk
}

func anyNet(ps []netip.Prefix, a netip.Addr) bool {
	for _, p := range ps {
		if inNet(p, a) {
			return true
		}
	}
	return false
}

func hasASN(l []uint32, a uint32) bool {
	for _, x := range l {
		if x == a {
			return true
		}
	}
	return false
}

// judge evaluates the model for a client address, question and the profile
// the request is attributed to (prof < 0: anonymous).
func (c *config) judge(client netip.Addr, qname string, qt uint16, prof int) verdict {
	v := verdict{}
	host := normHost(qname)
	v.GNet = anyNet(c.GlobalNets, client)
	var e1, t1, e2, t2 bool
	v.GName, e1, t1 = nameBlocked(c.GlobalRules, host, qt)
	v.ASN, v.HasASN = c.asnOf(client)
	if prof >= 0 && !c.Profiles[prof].Empty {
		p := &c.Profiles[prof]
		v.PAlwNet = anyNet(p.AllowedNets, client)
		v.PBlkNet = anyNet(p.BlockedNets, client)
		v.PAlwASN = v.HasASN && hasASN(p.AllowedASN, v.ASN)
		v.PBlkASN = v.HasASN && hasASN(p.BlockedASN, v.ASN)
		v.PName, e2, t2 = nameBlocked(p.Rules, host, qt)
	}
	rejectedByNets := (v.PBlkNet || v.PBlkASN) && !(v.PAlwNet || v.PAlwASN)
	v.Blocked = v.GNet || v.GName || rejectedByNets || v.PName
	v.ExcDecisive = (e1 || e2) && !v.Blocked
	v.TypeDecisive = (t1 || t2) && !v.Blocked
	return v
}

func (v verdict) cause() string {
	switch {
	case v.GNet:
		return "global-net"
	case v.GName:
		return "global-name"
	case (v.PBlkNet || v.PBlkASN) && !(v.PAlwNet || v.PAlwASN) && v.PBlkNet:
		return "profile-net"
	case (v.PBlkNet || v.PBlkASN) && !(v.PAlwNet || v.PAlwASN):
		return "profile-asn"
	case v.PName:
		return "profile-name"
	}
	return "none"
}

func b2i(b bool) int {
	if b {
		return 1
	}
	return 0
}

func (v verdict) bits() string {
	return fmt.Sprintf("%d%d%d%d%d%d%d", b2i(v.GNet), b2i(v.GName), b2i(v.PAlwNet), b2i(v.PAlwASN), b2i(v.PBlkNet), b2i(v.PBlkASN), b2i(v.PName))
}

// ---------------------------------------------------------------------------
// servers, stack
// ---------------------------------------------------------------------------

// countingDB wraps the profile database handed to the stack and counts every
// lookup, so that "this request reached the device / profile lookup" is an
// observation.
type countingDB struct {
	inner profiledb.Interface
	calls atomic.Int64
}

var _ profiledb.Interface = (*countingDB)(nil)

func (d *countingDB) CreateAutoDevice(ctx context.Context, id agd.ProfileID, h agd.HumanID, t agd.DeviceType) (*agd.Profile, *agd.Device, error) {
	d.calls.Add(1)
	return d.inner.CreateAutoDevice(ctx, id, h, t)
}

func (d *countingDB) ProfileByDedicatedIP(ctx context.Context, ip netip.Addr) (*agd.Profile, *agd.Device, error) {
	d.calls.Add(1)
	return d.inner.ProfileByDedicatedIP(ctx, ip)
}

func (d *countingDB) ProfileByDeviceID(ctx context.Context, id agd.DeviceID) (*agd.Profile, *agd.Device, error) {
	d.calls.Add(1)
	return d.inner.ProfileByDeviceID(ctx, id)
}

func (d *countingDB) ProfileByHumanID(ctx context.Context, id agd.ProfileID, h agd.HumanIDLower) (*agd.Profile, *agd.Device, error) {
	d.calls.Add(1)
	return d.inner.ProfileByHumanID(ctx, id, h)
}

func (d *countingDB) ProfileByLinkedIP(ctx context.Context, ip netip.Addr) (*agd.Profile, *agd.Device, error) {
	d.calls.Add(1)
	return d.inner.ProfileByLinkedIP(ctx, ip)
}

type env struct {
	// keySuffix is appended to every violation key of checkProbe, bktPrefix
	// is put before every bucket name (phases other than the main one).
	keySuffix, bktPrefix string
	note                 string
	hasMappedCIDR        bool
	tagKey               func(p *probe, v verdict) string

	profs []*agd.Profile // the profiles in the database, by index
	db    *countingDB
	geo   *stack.Geo
	c     *config
	s     *stack.Stack
	g1    *agd.ServerGroup
	g2    *agd.ServerGroup
	srv   map[string]*agd.Server
	grpOf map[string]*agd.ServerGroup
	local map[string]netip.AddrPort
	warm  map[string]bool
}

const deviceDomain = "d.example"

func specTexts(rs []ruleSpec) []string {
	out := []string{}
	for _, r := range rs {
		out = append(out, r.Text)
	}
	return out
}

func asns(l []uint32) []geoip.ASN {
	out := []geoip.ASN{}
	for _, a := range l {
		out = append(out, geoip.ASN(a))
	}
	return out
}

// builtFrom returns a fresh access.ProfileConfig (fresh slices) for p.
func builtFrom(p *profCfg) *access.ProfileConfig {
	return &access.ProfileConfig{
		AllowedNets: append([]netip.Prefix{}, p.AllowedNets...), BlockedNets: append([]netip.Prefix{}, p.BlockedNets...),
		AllowedASN: asns(p.AllowedASN), BlockedASN: asns(p.BlockedASN),
		BlocklistDomainRules: specTexts(p.Rules),
	}
}

func clientFilterConf() *filter.ConfigClient {
	return &filter.ConfigClient{Custom: &filter.ConfigCustom{}, Parental: &filter.ConfigParental{},
		RuleList: &filter.ConfigRuleList{}, SafeBrowsing: &filter.ConfigSafeBrowsing{}}
}

func buildEnv(c *config, dbOverride profiledb.Interface, geoOverride geoip.Interface) (*env, error) {
	e := &env{c: c, srv: map[string]*agd.Server{}, grpOf: map[string]*agd.ServerGroup{}, local: map[string]netip.AddrPort{}, warm: map[string]bool{}}
	add := func(g *agd.ServerGroup, name string, proto agd.Protocol, addr string, linked bool) {
		ap := netip.MustParseAddrPort(addr)
		s := stack.NewServer(name, proto, ap, linked)
		g.Servers = append(g.Servers, s)
		e.srv[name], e.grpOf[name], e.local[name] = s, g, ap
	}
	e.g1 = &agd.ServerGroup{DDR: stack.NewDDR(false), DeviceDomains: []string{deviceDomain}, Name: "g1", FilteringGroup: "fg", ProfilesEnabled: true}
	e.g2 = &agd.ServerGroup{DDR: stack.NewDDR(false), DeviceDomains: []string{deviceDomain}, Name: "g2", FilteringGroup: "fg", ProfilesEnabled: false}
	add(e.g1, "dns-linked", agd.ProtoDNS, "192.0.2.1:53", true)
	add(e.g1, "dns-plain", agd.ProtoDNS, "192.0.2.2:53", false)
	add(e.g1, "dot", agd.ProtoDoT, "192.0.2.3:853", false)
	add(e.g1, "doh", agd.ProtoDoH, "192.0.2.4:443", false)
	add(e.g1, "doq", agd.ProtoDoQ, "192.0.2.5:853", false)
	add(e.g1, "dnscrypt", agd.ProtoDNSCrypt, "192.0.2.6:5443", false)
	// a plain-DNS server bound to an interface subnet: dedicated-IP recognition
	ded := stack.NewServer("dns-ded", agd.ProtoDNS, netip.MustParseAddrPort("192.0.2.64:53"), false)
	ded.SetBindData([]*agd.ServerBindData{{PrefixAddr: &agdnet.PrefixNetAddr{Prefix: netip.MustParsePrefix("192.0.2.64/26"), Net: "udp", Port: 53}}})
	e.g1.Servers = append(e.g1.Servers, ded)
	e.srv["dns-ded"], e.grpOf["dns-ded"] = ded, e.g1
	add(e.g2, "dot2", agd.ProtoDoT, "192.0.2.130:853", false)
	add(e.g2, "dns2", agd.ProtoDNS, "192.0.2.131:53", true)

	fg := &agd.FilteringGroup{ID: "fg", FilterConfig: &filter.ConfigGroup{Parental: &filter.ConfigParental{},
		RuleList: &filter.ConfigRuleList{}, SafeBrowsing: &filter.ConfigSafeBrowsing{}}}

	glob, err := access.NewGlobal(specTexts(c.GlobalRules), c.GlobalNets)
	if err != nil {
		return nil, fmt.Errorf("access.NewGlobal: %w", err)
	}
	db := stack.NewMapDB()
	for pi := range c.Profiles {
		p := &c.Profiles[pi]
		var acc access.Profile = access.EmptyProfile{}
		if !p.Empty {
			acc = access.NewDefaultProfile(builtFrom(p))
		}
		devs := []*agd.Device{}
		for _, d := range p.Devices {
			ad := &agd.Device{ID: agd.DeviceID(d.ID), Auth: &agd.AuthSettings{PasswordHash: agdpasswd.AllowAuthenticator{}},
				FilteringEnabled: !d.FilteringOff, LinkedIP: d.Linked}
			if d.Dedicated.IsValid() {
				ad.DedicatedIPs = []netip.Addr{d.Dedicated}
			}
			devs = append(devs, ad)
		}
		ap := &agd.Profile{ID: agd.ProfileID(p.ID), FilterConfig: clientFilterConf(), Access: acc,
			BlockingMode: &dnsmsg.BlockingModeNullIP{}, Ratelimiter: agd.GlobalRatelimiter{},
			FilteringEnabled: !p.FilteringOff, QueryLogEnabled: true, IPLogEnabled: true}
		e.profs = append(e.profs, ap)
		db.Add(ap, devs...)
	}
	geo := stack.NewGeo()
	for _, g := range c.Geo {
		geo.AddNet(g.Net, &geoip.Location{Country: "DE", Continent: geoip.ContinentEU, ASN: geoip.ASN(g.ASN)})
	}
	// coarse subnets for the ECS cache, for located and unlocated clients
	for _, ctry := range []geoip.Country{geoip.CountryNone, "DE"} {
		geo.SetSubnet(ctry, 0, 4, netip.MustParsePrefix("198.18.0.0/24"))
		geo.SetSubnet(ctry, 0, 6, netip.MustParsePrefix("2001:db8:aa::/48"))
	}
	e.db, e.geo = &countingDB{inner: db}, geo
	if dbOverride != nil {
		e.db.inner = dbOverride
	}
	var geoUsed geoip.Interface = geo
	if geoOverride != nil {
		geoUsed = geoOverride
	}
	cc := &dnssvc.CacheConfig{Type: dnssvc.CacheTypeSimple, NoECSCount: 100000, ECSCount: 100000}
	if c.Cache == "ecs" {
		cc.Type = dnssvc.CacheTypeECS
	}
	e.s, err = stack.New(&stack.Options{
		Cache: cc, ProfileDB: e.db, GeoIP: geoUsed, AccessManager: glob,
		ServerGroups:    []*agd.ServerGroup{e.g1, e.g2},
		FilteringGroups: map[agd.FilteringGroupID]*agd.FilteringGroup{"fg": fg},
	})
	if err != nil {
		return nil, fmt.Errorf("stack.New: %w", err)
	}
	return e, nil
}

// ---------------------------------------------------------------------------
// probes
// ---------------------------------------------------------------------------

type probe struct {
	Index    int            `json:"probe_index"`
	Method   string         `json:"method"`
	Server   string         `json:"server"`
	Prof     int            `json:"attributed_profile"` // -1: anonymous
	Dev      string         `json:"device,omitempty"`
	Remote   netip.AddrPort `json:"remote"`
	Local    netip.AddrPort `json:"local"`
	Name     string         `json:"qname"`
	QType    uint16         `json:"qtype"`
	EDNS     bool           `json:"edns,omitempty"`
	DO       bool           `json:"do,omitempty"`
	ECS      string         `json:"ecs,omitempty"`
	CPE      string         `json:"cpe_id,omitempty"`
	SNI      string         `json:"tls_server_name,omitempty"`
	Path     string         `json:"url_path,omitempty"`
	User     string         `json:"userinfo,omitempty"`
	AddrKind string         `json:"addr_kind"`
	NameKind string         `json:"name_kind"`
	Mapped   bool           `json:"ipv4_mapped,omitempty"`
	BadECS   string         `json:"malformed_ecs,omitempty"` // key of badECS
}

var qtypes = []uint16{dns.TypeA, dns.TypeA, dns.TypeA, dns.TypeAAAA, dns.TypeAAAA, dns.TypeHTTPS, dns.TypeTXT, dns.TypeMX,
	dns.TypeCNAME, dns.TypeNS, dns.TypePTR, dns.TypeSRV, dns.TypeSOA, dns.TypeANY}

var methods = []string{
	// anonymous
	"anon:dns-linked", "anon:dns-plain", "anon:dot-noname", "anon:dot-foreign-name", "anon:doh-nopath", "anon:dnscrypt",
	"anon:noprofiles-dot", "anon:noprofiles-dns", "anon:unknown-device",
	// attributed
	"dev:dot-sni", "dev:dot-sni", "dev:doq-sni", "dev:doh-path", "dev:doh-path", "dev:doh-userinfo", "dev:dns-cpe",
	"dev:dns-linked", "dev:dns-linked", "dev:dns-linked", "dev:dns-dedicated", "dev:dns-dedicated",
}

func (c *config) pickAddr(rng *rand.Rand, srcs ...string) addrCand {
	pool := []addrCand{}
	for _, a := range c.addrs {
		for _, s := range srcs {
			if a.Src == s {
				pool = append(pool, a)
			}
		}
	}
	if len(pool) == 0 {
		pool = c.addrs
	}
	return pool[rng.IntN(len(pool))]
}

func parentOf(d string) string {
	if i := strings.IndexByte(d, '.'); i >= 0 {
		return d[i+1:]
	}
	return d
}

// pickName instantiates a name at a rule boundary.
func (c *config) pickName(rng *rand.Rand, srcs ...string) (name, kind string, rule *ruleSpec) {
	pool := []nameCand{}
	for _, n := range c.names {
		for _, s := range srcs {
			if n.Src == s {
				pool = append(pool, n)
			}
		}
	}
	c.ctr++
	if len(pool) == 0 {
		return fmt.Sprintf("n%d.neutral%d.example", c.ctr, c.Index), "neutral", nil
	}
	nc := pool[rng.IntN(len(pool))]
	d := nc.Rule.Domain
	switch k := rng.IntN(20); {
	case k < 5:
		name, kind = d, "exact"
	case k < 9:
		name, kind = fmt.Sprintf("u%d.%s", c.ctr, d), "subdomain"
	case k < 11:
		name, kind = fmt.Sprintf("a.b%d.%s", c.ctr, d), "deep-subdomain"
	case k < 13:
		name, kind = "x"+d, "glued-prefix" // suffix match not on a label boundary
	case k < 14:
		name, kind = d+"x", "glued-suffix"
	case k < 16:
		name, kind = fmt.Sprintf("sib%d.%s", c.ctr, parentOf(d)), "sibling"
	case k < 17:
		name, kind = parentOf(d), "parent"
	case k < 18:
		name, kind = fmt.Sprintf("%s.evil%d.example", d, c.ctr), "rule-domain-as-prefix"
	case k < 19:
		name, kind = randCase(rng, d), "exact-case"
	default:
		name, kind = randCase(rng, fmt.Sprintf("Www%d.%s", c.ctr, d)), "subdomain-case"
	}
	r := nc.Rule
	return name, kind + "/" + nc.Src, &r
}

func (c *config) linkedOwner(a netip.Addr) (prof int, dev string) {
	a = a.Unmap()
	for pi, p := range c.Profiles {
		for _, d := range p.Devices {
			if d.Linked.IsValid() && d.Linked == a {
				return pi, d.ID
			}
		}
	}
	return -1, ""
}

func (e *env) genProbe(rng *rand.Rand, idx int) *probe {
	c := e.c
	p := &probe{Index: idx, Prof: -1}
	p.Method = methods[rng.IntN(len(methods))]
	pi := rng.IntN(len(c.Profiles)) // the profile in focus (attributed, or the one whose lists the probe aims at)
	psrc := fmt.Sprintf("p%d", pi)
	prof := &c.Profiles[pi]
	devByKind := func(kind string) *devCfg {
		cands := []*devCfg{}
		for i := range prof.Devices {
			d := &prof.Devices[i]
			switch kind {
			case "id":
				if !d.Linked.IsValid() && !d.Dedicated.IsValid() {
					cands = append(cands, d)
				}
			case "linked":
				if d.Linked.IsValid() {
					cands = append(cands, d)
				}
			case "ded":
				if d.Dedicated.IsValid() {
					cands = append(cands, d)
				}
			}
		}
		if len(cands) == 0 {
			return nil
		}
		return cands[rng.IntN(len(cands))]
	}
	// address
	var ac addrCand
	switch k := rng.IntN(20); {
	case k < 9:
		ac = c.pickAddr(rng, psrc)
	case k < 14:
		ac = c.pickAddr(rng, "g")
	case k < 17:
		ac = c.pickAddr(rng, "region", "p0", "p1", "p2")
	default:
		ac = c.pickAddr(rng, "neutral", "region")
	}
	idDev := devByKind("id")
	switch p.Method {
	case "anon:dns-linked":
		p.Server = "dns-linked"
	case "anon:dns-plain":
		p.Server = "dns-plain"
	case "anon:dot-noname":
		p.Server = "dot"
	case "anon:dot-foreign-name":
		p.Server = "dot"
		p.SNI = []string{deviceDomain, idDev.ID + ".other.example", "x." + idDev.ID + "." + deviceDomain}[rng.IntN(3)]
	case "anon:doh-nopath":
		p.Server, p.Path = "doh", "/dns-query"
	case "anon:dnscrypt":
		p.Server = "dnscrypt"
		if rng.IntN(2) == 0 {
			p.CPE = idDev.ID // DNSCrypt has no device recognition
		}
	case "anon:noprofiles-dot":
		p.Server, p.SNI = "dot2", idDev.ID+"."+deviceDomain
	case "anon:noprofiles-dns":
		p.Server = "dns2"
		if ld := devByKind("linked"); ld != nil && rng.IntN(2) == 0 {
			ac = addrCand{ld.Linked, "linked-ip", psrc}
		} else {
			p.CPE = idDev.ID
		}
	case "anon:unknown-device":
		p.Server, p.SNI = "dot", "zz9."+deviceDomain
	case "dev:dot-sni":
		p.Server, p.SNI, p.Prof, p.Dev = "dot", idDev.ID+"."+deviceDomain, pi, idDev.ID
		if rng.IntN(4) == 0 {
			p.SNI = strings.ToUpper(p.SNI[:2]) + p.SNI[2:]
		}
	case "dev:doq-sni":
		p.Server, p.SNI, p.Prof, p.Dev = "doq", idDev.ID+"."+deviceDomain, pi, idDev.ID
	case "dev:doh-path":
		p.Server, p.Path, p.Prof, p.Dev = "doh", "/dns-query/"+idDev.ID, pi, idDev.ID
	case "dev:doh-userinfo":
		p.Server, p.Path, p.User, p.Prof, p.Dev = "doh", "/dns-query", idDev.ID, pi, idDev.ID
	case "dev:dns-cpe":
		p.Server, p.CPE, p.Prof, p.Dev = "dns-plain", idDev.ID, pi, idDev.ID
	case "dev:dns-linked":
		p.Server = "dns-linked"
		if ld := devByKind("linked"); ld != nil {
			ac = addrCand{ld.Linked, "linked-ip", psrc}
		}
	case "dev:dns-dedicated":
		dd := devByKind("ded")
		p.Server, p.Prof, p.Dev = "dns-ded", pi, dd.ID
		p.Local = netip.AddrPortFrom(dd.Dedicated, 53)
	}
	if p.Server != "dns-ded" {
		p.Local = e.local[p.Server]
	}
	if p.Server == "dns-linked" {
		// attribution follows from the client address
		p.Prof, p.Dev = c.linkedOwner(ac.A)
		if p.Prof >= 0 {
			p.Method = "dev:dns-linked"
		} else {
			p.Method = "anon:dns-linked"
		}
	}
	a := ac.A
	p.AddrKind = ac.Kind + "/" + ac.Src
	if a.Is4() && rng.IntN(5) == 0 {
		a, p.Mapped = mapped(a), true
	}
	p.Remote = netip.AddrPortFrom(a, uint16(1024+rng.IntN(60000)))
	// name
	var rule *ruleSpec
	switch k := rng.IntN(20); {
	case k < 7:
		p.Name, p.NameKind, rule = c.pickName(rng, psrc)
	case k < 12:
		p.Name, p.NameKind, rule = c.pickName(rng, "g")
	case k < 16:
		p.Name, p.NameKind, rule = c.pickName(rng, "p0", "p1", "p2")
	case k < 19:
		p.Name, p.NameKind, rule = c.pickName(rng)
	default:
		p.Name, p.NameKind = ".", "root"
	}
	p.QType = qtypes[rng.IntN(len(qtypes))]
	if rule != nil && rule.QT != 0 && rng.IntN(2) == 0 {
		p.QType = rule.QT
	}
	if p.Name == "." {
		p.QType = dns.TypeNS
	}
	// EDNS dressing
	if rng.IntN(3) == 0 || p.CPE != "" {
		p.EDNS = true
		p.DO = rng.IntN(3) == 0
	}
	if rng.IntN(6) == 0 {
		// a well-formed client-subnet option pointing somewhere else: the
		// location of the ECS subnet is not the client's
		p.EDNS = true
		o := c.addrs[rng.IntN(len(c.addrs))].A
		bits := 24
		if o.Is6() {
			bits = 56
		}
		p.ECS = netip.PrefixFrom(o, bits).Masked().String()
	}
	return p
}

// badECS are raw client-subnet options (family, source prefix, scope, address)
// that survive the wire format of the DNS library and are malformed for the
// server (RFC 7871, section 6: FORMERR).
var badECS = map[string][]byte{
	"v4-host-bits":        {0, 1, 22, 0, 1, 2, 3},                            // 1.2.3.0/22: bits set beyond the prefix
	"v6-host-bits":        {0, 2, 44, 0, 0x20, 0x01, 0x0d, 0xb8, 0x12, 0x3f}, // 2001:db8:123f::/44
	"family-0":            {0, 0, 0, 0},                                      // unsupported address family
	"v4-overlong-address": {0, 1, 8, 0, 10, 1, 2, 3},                         // 10.1.2.3/8
}

var badECSKinds = []string{"v4-host-bits", "v6-host-bits", "family-0", "v4-overlong-address"}

// msg builds the request message of a probe.  Requests that carry a malformed
// client-subnet option are round-tripped through the wire format, so that they
// are exactly what a server would have parsed.
func (p *probe) msg(id uint16) (*dns.Msg, error) {
	m := stack.NewQuery(id, p.Name, p.QType, dns.ClassINET)
	m.Question[0].Name = dns.Fqdn(p.Name)
	if !p.EDNS && p.BadECS == "" {
		return m, nil
	}
	m.SetEdns0(1232, p.DO)
	opt := m.IsEdns0()
	if p.CPE != "" {
		opt.Option = append(opt.Option, &dns.EDNS0_LOCAL{Code: 65074, Data: []byte(p.CPE)})
	}
	if p.ECS != "" {
		pr := netip.MustParsePrefix(p.ECS)
		fam := uint16(1)
		if pr.Addr().Is6() {
			fam = 2
		}
		opt.Option = append(opt.Option, &dns.EDNS0_SUBNET{Code: dns.EDNS0SUBNET, Family: fam,
			SourceNetmask: uint8(pr.Bits()), Address: pr.Addr().AsSlice()})
	}
	if p.BadECS != "" {
		opt.Option = append(opt.Option, &dns.EDNS0_LOCAL{Code: dns.EDNS0SUBNET, Data: badECS[p.BadECS]})
		b, err := m.Pack()
		if err != nil {
			return nil, err
		}
		m = &dns.Msg{}
		if err = m.Unpack(b); err != nil {
			return nil, err
		}
	}
	return m, nil
}

func (e *env) request(p *probe, m *dns.Msg) *stack.Request {
	rq := &stack.Request{Server: e.srv[p.Server], Group: e.grpOf[p.Server], Msg: m, Remote: p.Remote, Local: p.Local,
		TLSServerName: p.SNI}
	if e.srv[p.Server].Protocol == agd.ProtoDoH {
		path := p.Path
		if path == "" {
			path = "/dns-query"
		}
		rq.URL = &url.URL{Scheme: "https", Host: "dns.example", Path: path}
		if p.User != "" {
			rq.Userinfo = url.UserPassword(p.User, "pw")
		}
	}
	return rq
}

// ---------------------------------------------------------------------------
// observation
// ---------------------------------------------------------------------------

type observed struct {
	Responses     int      `json:"responses_written"`
	Rcodes        []int    `json:"rcodes,omitempty"`
	Err           string   `json:"handler_error,omitempty"`
	Panic         string   `json:"panic,omitempty"`
	Upstream      int      `json:"upstream_calls"`
	UpstreamDelta int64    `json:"upstream_calls_global_delta"`
	FilterConfig  int      `json:"filter_storage_calls"`
	FilterReq     int      `json:"filter_request_calls"`
	FilterResp    int      `json:"filter_response_calls"`
	QueryLog      int      `json:"query_log_entries"`
	Bill          int      `json:"billing_records"`
	BillDevs      []string `json:"billing_devices,omitempty"`
	RuleStat      int      `json:"rule_stat_calls"`
	DNSDB         int      `json:"dnsdb_calls"`
	DNSCheck      int      `json:"dnscheck_calls"`
	HashMatch     int      `json:"hash_matcher_calls"`
	RLChecks      int      `json:"global_ratelimit_checks"`
	RLCounts      int      `json:"global_ratelimit_counted_responses"`
	Errors        []string `json:"collected_errors,omitempty"`
	AttrProf      string   `json:"upstream_saw_profile,omitempty"`
	AttrDev       string   `json:"upstream_saw_device,omitempty"`
	SideEffects   int      `json:"side_effects_total"`
	ProfileDB     int64    `json:"profile_database_lookups"`
	GeoIP         int64    `json:"geoip_data_calls"`
}

// counters are the global counters taken before a request.
type counters struct{ up, db, geo int64 }

func (e *env) counters() counters {
	return counters{e.s.UpstreamCalls(), e.db.calls.Load(), e.geo.Calls.Load()}
}

func (e *env) serve(p *probe, m *dns.Msg) (*stack.Outcome, observed) {
	before := e.counters()
	out := e.s.Serve(e.request(p, m))
	return out, e.observe(out, before)
}

// observe condenses what a served request did (the global counters are exact
// because the check is sequential).
func (e *env) observe(out *stack.Outcome, before counters) observed {
	t := out.Trace
	o := observed{Responses: len(out.Responses), UpstreamDelta: e.s.UpstreamCalls() - before.up,
		ProfileDB: e.db.calls.Load() - before.db, GeoIP: e.geo.Calls.Load() - before.geo}
	for _, r := range out.Responses {
		o.Rcodes = append(o.Rcodes, r.Rcode)
	}
	if out.Err != nil {
		o.Err = out.Err.Error()
	}
	if out.Panic != nil {
		o.Panic = fmt.Sprint(out.Panic)
	}
	if t != nil {
		o.Upstream, o.FilterConfig, o.FilterReq, o.FilterResp = len(t.UpstreamReqs), t.FilterForConfig, t.FilterRequests, t.FilterResponses
		o.QueryLog, o.Bill, o.RuleStat, o.DNSDB, o.DNSCheck, o.HashMatch = len(t.QueryLog), len(t.Bill), len(t.RuleStat), t.DNSDB, t.DNSCheck, t.HashMatch
		o.RLChecks, o.RLCounts, o.Errors = t.GlobalRLChecks, t.GlobalRLCounts, t.Errors
		for _, b := range t.Bill {
			o.BillDevs = append(o.BillDevs, string(b.Device))
		}
		if len(t.UpstreamRI) > 0 {
			o.AttrProf, o.AttrDev = string(t.UpstreamRI[0].ProfileID), string(t.UpstreamRI[0].DeviceID)
		}
		o.SideEffects = t.SideEffects()
	}
	e.s.Forget(out)
	return o
}

func coldKey(name string, qt uint16) string { return fmt.Sprintf("%s/%d", normHost(name), qt) }

// ---------------------------------------------------------------------------
// the check
// ---------------------------------------------------------------------------

type witness struct {
	Config   *config  `json:"config"`
	Probe    *probe   `json:"probe"`
	Model    verdict  `json:"model"`
	Observed observed `json:"observed"`
	Note     string   `json:"note,omitempty"`
	Twin     *probe   `json:"twin_probe,omitempty"`
}

func passClass(c *config, p *probe, v verdict) string {
	switch {
	case (v.PBlkNet || v.PBlkASN) && (v.PAlwNet || v.PAlwASN):
		return "allow-overrides-block"
	case v.ExcDecisive:
		return "exception-rule"
	case v.TypeDecisive:
		return "dnstype-mismatch"
	}
	client := p.Remote.Addr()
	for pi := range c.Profiles {
		if pi != p.Prof && c.judge(client, p.Name, p.QType, pi).Blocked {
			if p.Prof < 0 {
				return "anonymous-but-some-profile-would-block"
			}
			return "other-profile-would-block"
		}
	}
	if p.Mapped {
		return "ipv4-mapped"
	}
	nk, _, _ := strings.Cut(p.NameKind, "/")
	ak, _, _ := strings.Cut(p.AddrKind, "/")
	if nk != "neutral" && nk != "root" && nk != "exact" && nk != "subdomain" {
		return "name-boundary-" + nk
	}
	if ak == "before" || ak == "after" {
		return "addr-boundary-" + ak
	}
	return "plain"
}

func TestCheck(t *testing.T) {
	r := vkit.Start(t, "C10", "exploration")
	defer r.Finish()

	r.Rule("case = one request injected at the handler boundary of the real dnssvc stack (real access.NewGlobal + real access.NewDefaultProfile per profile); " +
		"class = (way of attribution, model bits [global net, global name, profile allowed net, allowed ASN, blocked net, blocked ASN, profile name], " +
		"address position relative to a configured subnet, IPv4-mapped or not, name position relative to a rule, question type matches a $dnstype rule or not); " +
		"non-trivial = the client address lies in at least one configured subnet / listed ASN or the name is derived from a configured rule (a request that touches no access setting at all is trivial)")
	r.Assume("rule grammar limited to forms with a documented meaning: 'domain' (exact host), '||domain^' (domain and subdomains), '$dnstype=T' / '$dnstype=~T', '@@||domain^' (exception); rule domains are valid host names with an alphabetic TLD")
	r.Assume("an IPv4-mapped IPv6 client address is the IPv4 address (netutil.NetAddrToAddrPort documents this normalisation); the client's ASN is the ASN of the longest matching prefix of the GeoIP fake; no location => no ASN rule applies")
	r.Assume("'no response at all' is observed at the handler boundary: nothing passed to ResponseWriter.WriteMsg and a nil error (dnsserver answers SERVFAIL when the handler returns an error)")
	r.Assume("'not cached' is observed as: the first identical request from a client that no rule rejects, after a blocked request for a question never asked before in this stack, reaches the upstream exactly once")
	r.Assume("the access settings are not a filter: FilteringEnabled=false on the profile and / or the matched device (protection paused) is part of the configuration matrix and the model ignores it")
	r.Assume("the repository has no trusted-proxy configuration: the client address of a DoH request is the address the connection came from, whatever X-Forwarded-For / Forwarded / X-Real-IP / True-Client-IP / CF-Connecting-IP say")
	r.Assume("consulting the global rate limiter for a blocked request is recorded (bucket) but not judged: the statement does not order access control and rate limiting")

	nCfg := r.N(300, 15000)
	nProbe := r.N(60, 100)
	sampled := map[string]bool{}
	attrMismatch := 0

	for ci := 0; ci < nCfg; ci++ {
		rng := r.Rand("cfg", ci)
		c := genConfig(rng, ci)
		e, err := buildEnv(c, nil, nil)
		if err != nil {
			r.Violation("config-rejected", "a configuration in the documented grammar was rejected: "+err.Error(), map[string]any{"config": c})
			continue
		}
		r.Bucket("configs", 1)
		r.Bucket("cache_"+c.Cache, 1)
		msgID := uint16(1000 + ci)

		compareConfigs(r, e, "before-serving")
		attributed := []*probe{}
		for pi := 0; pi < nProbe; pi++ {
			p := e.genProbe(rng, pi)
			checkProbe(r, e, p, &msgID, sampled, &attrMismatch)
			if p.Prof >= 0 {
				attributed = append(attributed, p)
			}
		}
		malformedPhase(r, e, rng, &msgID)
		settingsRoundTrip(r, e, attributed, &msgID)
	}
	scratch := os.Getenv("VERIF_SCRATCH")
	if scratch == "" {
		scratch = t.TempDir()
	}
	deliveryPhase(r, scratch, sampled, &attrMismatch)
	realGeoPhase(r, sampled, &attrMismatch)
	dohPhase(r)
	if attrMismatch > 0 {
		r.Inconclusive(fmt.Sprintf("%d requests were attributed differently from what the harness intended (see bucket attribution_mismatch): the model judged them with the wrong profile", attrMismatch))
	}

	// coverage gates: minima far below what the unchanged tree yields
	r.Require("configs", int64(nCfg))
	r.Require("blocked_total", 2000)
	r.Require("passed_total", 3000)
	r.Require("attributed_total", 2500)
	r.Require("anonymous_total", 2500)
	for _, k := range []string{"cause_global-net", "cause_global-name", "cause_profile-net", "cause_profile-asn", "cause_profile-name"} {
		r.Require(k, 100)
	}
	r.Require("pass_allow-overrides-block", 150)
	r.Require("pass_allowed-asn-decisive", 50)
	r.Require("pass_allowed-net-decisive", 100)
	r.Require("pass_other-profile-would-block", 250)
	r.Require("pass_anonymous-but-some-profile-would-block", 500)
	r.Require("pass_dnstype-mismatch", 80)
	r.Require("blocked_ipv4_mapped", 200)
	r.Require("twin_cold_checked", 1500)
	r.Require("cache_hits_on_passed", 100)
	r.Require("ecs_option_probes", 800)
	r.Require("globally_blocked_profiledb_observed", 1500)
	for _, ft := range []string{"profile-filtering-off", "device-filtering-off", "profile-and-device-filtering-off"} {
		r.Require("profile_rejected_with_"+ft, 25)
		r.Require("passed_with_"+ft, 50)
	}
	r.Require("config_compared_before-serving", 400)
	r.Require("config_compared_with_rules_after-serving", 200)
	r.Require("profiles_rebuilt", 400)
	r.Require("rebuilt_blocked", 1500)
	r.Require("rebuilt_passed", 1500)
	for _, cause := range []string{"profile-net", "profile-asn", "profile-name"} {
		r.Require("rebuilt_cause_"+cause, 100)
	}
	r.Require("rebuilt_allow-overrides-block", 150)
	for _, cause := range []string{"global-net", "global-name", "profile-net", "profile-asn", "profile-name"} {
		r.Require("malformed_"+cause+"_malformed-ecs", 150)
	}
	r.Require("malformed_global-net_invalid-device-id", 150)
	r.Require("malformed_global-name_invalid-device-id", 150)
	for _, k := range badECSKinds {
		r.Require("malformed_control_formerr_"+k, 20)
	}
	r.Require("malformed_control_device_id_error", 100)
	for _, m := range []string{"dev:dot-sni", "dev:doq-sni", "dev:doh-path", "dev:doh-userinfo", "dev:dns-cpe", "dev:dns-linked", "dev:dns-dedicated",
		"anon:dns-linked", "anon:dns-plain", "anon:dot-noname", "anon:doh-nopath", "anon:dnscrypt", "anon:noprofiles-dot", "anon:noprofiles-dns", "anon:unknown-device"} {
		r.Require("blocked_by_method_"+m, 50)
		r.Require("passed_by_method_"+m, 80)
	}
}

func checkProbe(r *vkit.Run, e *env, p *probe, msgID *uint16, sampled map[string]bool, attrMismatch *int) {
	c := e.c
	*msgID++
	m, err := p.msg(*msgID)
	if err != nil {
		r.Inconclusive("harness: cannot build request: " + err.Error())
		return
	}
	reqID, reqQ := m.Id, m.Question[0]
	client := p.Remote.Addr()
	v := c.judge(client, p.Name, p.QType, p.Prof)
	key := coldKey(p.Name, p.QType)
	cold := !e.warm[key]

	out, o := e.serve(p, m)
	w := witness{Config: c, Probe: p, Model: v, Observed: o, Note: e.note}

	if e.hasMappedCIDR {
		// the two readings of IPv4-mapped subnets (see inNet) must agree,
		// otherwise the request is only counted
		mappedCIDRAsV4 = true
		v2 := c.judge(client, p.Name, p.QType, p.Prof)
		mappedCIDRAsV4 = false
		if v2.Blocked != v.Blocked {
			e.warm[key] = true
			e.bkt(r, "ambiguous_mapped_cidr", 1)
			if (o.Responses == 0) == v.Blocked {
				e.bkt(r, "ambiguous_mapped_cidr_observed_literal_reading", 1)
			} else {
				e.bkt(r, "ambiguous_mapped_cidr_observed_ipv4_reading", 1)
			}
			return
		}
	}
	defer func(old string) { e.keySuffix = old }(e.keySuffix)
	if e.tagKey != nil {
		// phase-specific refinement of the violation keys of this request
		e.keySuffix += e.tagKey(p, v)
	}
	if p.Prof >= 0 {
		// the "filtering paused" switches are part of the input class
		pOff, dOff := c.Profiles[p.Prof].FilteringOff, false
		for _, d := range c.Profiles[p.Prof].Devices {
			if d.ID == p.Dev {
				dOff = d.FilteringOff
			}
		}
		ft := ""
		switch {
		case pOff && dOff:
			ft = "profile-and-device-filtering-off"
		case pOff:
			ft = "profile-filtering-off"
		case dOff:
			ft = "device-filtering-off"
		}
		if ft != "" {
			rejectedByProfile := !v.GNet && !v.GName && v.Blocked
			if rejectedByProfile {
				// one key tag for the three variants (the witness and the
				// buckets tell them apart), only where the switch matters
				e.keySuffix += ":filtering-off"
				w.Note += " [" + ft + "]"
				e.bkt(r, "profile_rejected_with_"+ft, 1)
			} else if !v.Blocked {
				e.bkt(r, "passed_with_"+ft, 1)
			}
		}
	}

	// evidence accounting
	ak, _, _ := strings.Cut(p.AddrKind, "/")
	nk, _, _ := strings.Cut(p.NameKind, "/")
	nameTouches := nk != "neutral" && nk != "root"
	addrTouches := v.GNet || v.PAlwNet || v.PAlwASN || v.PBlkNet || v.PBlkASN
	meth := p.Method
	class := fmt.Sprintf("%s%s|%s|%s|m%d|%s|t%d", e.bktPrefix, meth, v.bits(), ak, b2i(p.Mapped), nk, b2i(v.TypeDecisive))
	r.Eval(class, nameTouches || addrTouches || v.Blocked)
	if p.Prof >= 0 {
		e.bkt(r, "attributed_total", 1)
	} else {
		e.bkt(r, "anonymous_total", 1)
	}
	if p.ECS != "" {
		e.bkt(r, "ecs_option_probes", 1)
	}
	if o.Panic != "" {
		e.vio(r, "panic:serve", "the handler panicked on a legal request", w)
		return
	}

	if v.Blocked {
		cause := v.cause()
		suffix := cause
		if p.Mapped {
			suffix += ":ipv4-mapped"
			e.bkt(r, "blocked_ipv4_mapped", 1)
		}
		e.bkt(r, "blocked_total", 1)
		e.bkt(r, "cause_"+cause, 1)
		e.bkt(r, "blocked_by_method_"+meth, 1)
		e.bkt(r, "blocked_addr_kind_"+ak, 1)
		e.bkt(r, "blocked_ratelimiter_checks", int64(o.RLChecks))
		e.bkt(r, "blocked_collected_errors", int64(len(o.Errors)))
		if !sampled["b:"+cause] {
			sampled["b:"+cause] = true
			r.Sample(map[string]any{"probe": p, "model": v, "observed": o})
		}
		if o.Responses > 0 {
			e.vio(r, "blocked:response-written:"+suffix, "a request that the access settings reject received a response", w)
		}
		if o.Err != "" {
			e.vio(r, "blocked:handler-error:"+suffix, "a request that the access settings reject made the handler return an error (the server answers SERVFAIL then)", w)
		}
		if o.SideEffects > 0 || o.UpstreamDelta != 0 || o.RLCounts > 0 {
			e.vio(r, "blocked:side-effects:"+suffix, "a request that the access settings reject reached a later stage (see observed counters)", w)
		}
		e.bkt(r, "blocked_geoip_calls", o.GeoIP)
		if v.GNet || v.GName {
			e.bkt(r, "globally_blocked_profiledb_observed", 1)
			if o.ProfileDB > 0 {
				e.vio(r, "blocked:profiledb-consulted:"+suffix, "a globally blocked request reached the device / profile-database lookup before it was dropped", w)
			}
		} else {
			e.bkt(r, "profile_blocked_profiledb_lookups", o.ProfileDB)
		}
		// not cached: an identical request from a client nobody rejects must
		// be resolved upstream
		if !cold {
			e.bkt(r, "twin_skipped_warm", 1)
			return
		}
		if v.GName {
			e.bkt(r, "twin_skipped_name_globally_blocked", 1)
			return
		}
		tw := *p
		tw.Method, tw.Server, tw.Prof, tw.Dev, tw.SNI, tw.Path, tw.User, tw.CPE = "twin:anon-dot2", "dot2", -1, "", "", "", "", ""
		tw.Local = e.local["dot2"]
		found := false
		for _, n := range neutralAddrs {
			if !c.judge(n, p.Name, p.QType, -1).Blocked {
				tw.Remote, tw.Mapped, found = netip.AddrPortFrom(n, 40000), false, true
				break
			}
		}
		if !found {
			e.bkt(r, "twin_skipped_no_allowed_client", 1)
			return
		}
		*msgID++
		tm, err := tw.msg(*msgID)
		if err != nil {
			return
		}
		_, to := e.serve(&tw, tm)
		e.warm[key] = true
		e.bkt(r, "twin_cold_checked", 1)
		tw2 := tw
		w2 := witness{Config: c, Probe: p, Model: v, Observed: to, Twin: &tw2, Note: "observed = what the twin request (identical question, allowed client) saw after the blocked request"}
		switch {
		case to.Panic != "" || to.Err != "" || to.Responses != 1:
			e.vio(r, "allowed:abnormal:twin-after-blocked", "an allowed request identical to a just-blocked one was not processed normally", w2)
		case to.Upstream != 1:
			e.vio(r, "blocked:cached:"+suffix, "after a blocked request, the first identical request of an allowed client did not reach the upstream: the blocked request left something in the cache", w2)
		}
		return
	}

	// not blocked: processed normally
	pc := passClass(c, p, v)
	e.bkt(r, "passed_total", 1)
	e.bkt(r, "pass_"+pc, 1)
	e.bkt(r, "passed_by_method_"+meth, 1)
	e.bkt(r, "passed_addr_kind_"+ak, 1)
	if (v.PBlkNet || v.PBlkASN) && v.PAlwASN && !v.PAlwNet {
		e.bkt(r, "pass_allowed-asn-decisive", 1)
	}
	if (v.PBlkNet || v.PBlkASN) && v.PAlwNet && !v.PAlwASN {
		e.bkt(r, "pass_allowed-net-decisive", 1)
	}
	if !sampled["p:"+pc] && (pc == "allow-overrides-block" || pc == "other-profile-would-block") {
		sampled["p:"+pc] = true
		r.Sample(map[string]any{"probe": p, "model": v, "observed": o})
	}
	e.warm[key] = true
	switch {
	case o.Responses == 0 && o.Err == "":
		e.vio(r, "allowed:dropped:"+pc, "a request that no access rule rejects was dropped silently", w)
		return
	case o.Err != "":
		e.vio(r, "allowed:abnormal:handler-error:"+pc, "a request that no access rule rejects made the handler fail", w)
		return
	case o.Responses != 1:
		e.vio(r, "allowed:abnormal:responses:"+pc, "a request that no access rule rejects received more than one response", w)
		return
	}
	if o.Upstream == 0 {
		e.bkt(r, "cache_hits_on_passed", 1)
	}
	if cold && o.Upstream != 1 {
		w.Note = "question never asked before in this stack"
		e.vio(r, "allowed:abnormal:not-resolved:"+pc, "a request that no access rule rejects, for a question never seen before, did not reach the upstream exactly once", w)
	} else if o.Upstream > 1 {
		e.vio(r, "allowed:abnormal:upstream-calls:"+pc, "more than one upstream call for one request", w)
	}
	// the response is the answer to this request
	if resp := out.Resp(); resp == nil || resp.Id != reqID || !resp.Response || len(resp.Question) != 1 ||
		resp.Question[0].Qtype != reqQ.Qtype || !strings.EqualFold(resp.Question[0].Name, reqQ.Name) {
		e.vio(r, "allowed:abnormal:foreign-response:"+pc, "the response written does not belong to the request", w)
	} else if resp.Rcode != dns.RcodeSuccess {
		e.vio(r, "allowed:abnormal:rcode:"+pc, "a request that no access rule rejects was not answered with the upstream's (successful) answer", w)
	}
	// attribution sanity: the profile that was billed / seen upstream is the
	// one the model judged with
	gotDev := ""
	if len(o.BillDevs) > 0 {
		gotDev = o.BillDevs[0]
	}
	if gotDev != p.Dev || (o.Upstream > 0 && o.AttrDev != p.Dev) {
		*attrMismatch++
		e.bkt(r, "attribution_mismatch", 1)
		if *attrMismatch == 1 {
			r.Extra("first_attribution_mismatch", w)
		}
	}
}

func (e *env) vio(r *vkit.Run, key, what string, w any) { r.Violation(key+e.keySuffix, what, w) }

func (e *env) bkt(r *vkit.Run, name string, n int64) { r.Bucket(e.bktPrefix+name, n) }

// compareConfigs: Profile.Config() is what is stored (profile file cache) and
// what every consumer of the settings reads; it must equal, field by field and
// in order, the configuration the profile was built from.
func compareConfigs(r *vkit.Run, e *env, when string) (ok bool) {
	ok = true
	for pi := range e.c.Profiles {
		pc := &e.c.Profiles[pi]
		if pc.Empty {
			continue
		}
		want, got := builtFrom(pc), e.profs[pi].Access.Config()
		r.Bucket("config_compared_"+when, 1)
		diff := func(field string, same bool) {
			if same {
				return
			}
			ok = false
			r.Violation("access-config:changed-"+when+":"+field,
				"Config() of a profile's access settings differs from the configuration the profile was built from ("+when+" any request)",
				map[string]any{"config": e.c, "profile": pc.ID, "field": field, "built_from": want, "config_returns": got})
		}
		if got == nil {
			diff("nil", false)
			continue
		}
		diff("allowed_nets", slicesEqual(want.AllowedNets, got.AllowedNets))
		diff("blocked_nets", slicesEqual(want.BlockedNets, got.BlockedNets))
		diff("allowed_asn", slicesEqual(want.AllowedASN, got.AllowedASN))
		diff("blocked_asn", slicesEqual(want.BlockedASN, got.BlockedASN))
		diff("blocklist_domain_rules", slicesEqual(want.BlocklistDomainRules, got.BlocklistDomainRules))
		if len(want.BlocklistDomainRules) > 0 {
			r.Bucket("config_compared_with_rules_"+when, 1)
		}
	}
	return ok
}

func slicesEqual[T comparable](a, b []T) bool {
	if len(a) != len(b) {
		return false
	}
	for i := range a {
		if a[i] != b[i] {
			return false
		}
	}
	return true
}

// settingsRoundTrip: after the profiles have served requests (every lazily
// built part exists), their Config() must still be what they were built from,
// and a profile rebuilt from that Config() (what a restart from the profile
// cache does) must judge the profile's requests exactly like the model.
func settingsRoundTrip(r *vkit.Run, e *env, probes []*probe, msgID *uint16) {
	c := e.c
	compareConfigs(r, e, "after-serving")
	for pi := range c.Profiles {
		if c.Profiles[pi].Empty {
			continue
		}
		cfg := e.profs[pi].Access.Config()
		if cfg == nil {
			continue // reported by compareConfigs
		}
		// sequential: no request is in flight while the settings are swapped
		e.profs[pi].Access = access.NewDefaultProfile(cfg)
		r.Bucket("profiles_rebuilt", 1)
	}
	for _, p := range probes {
		*msgID++
		m, err := p.msg(*msgID)
		if err != nil {
			continue
		}
		v := c.judge(p.Remote.Addr(), p.Name, p.QType, p.Prof)
		_, o := e.serve(p, m)
		w := witness{Config: c, Probe: p, Model: v, Observed: o, Note: "second pass: the profile's access settings were rebuilt from Profile.Config() after the first pass"}
		r.Eval("rebuilt|"+p.Method+"|"+v.bits(), true)
		if o.Panic != "" {
			r.Violation("panic:serve", "the handler panicked", w)
			continue
		}
		if v.Blocked {
			cause := v.cause()
			r.Bucket("rebuilt_blocked", 1)
			r.Bucket("rebuilt_cause_"+cause, 1)
			if o.Responses > 0 || o.Err != "" {
				r.Violation("blocked:response-written:"+cause+":rebuilt-profile", "a request that the access settings reject is answered once the profile's settings went through Config() and NewDefaultProfile", w)
			}
			if o.SideEffects > 0 || o.UpstreamDelta != 0 {
				r.Violation("blocked:side-effects:"+cause+":rebuilt-profile", "a request that the access settings reject reaches a later stage once the profile's settings went through Config() and NewDefaultProfile", w)
			}
			continue
		}
		r.Bucket("rebuilt_passed", 1)
		if (v.PBlkNet || v.PBlkASN) && (v.PAlwNet || v.PAlwASN) {
			r.Bucket("rebuilt_allow-overrides-block", 1)
		}
		if o.Responses != 1 || o.Err != "" {
			r.Violation("allowed:dropped:rebuilt-profile", "a request that no access rule rejects is not answered once the profile's settings went through Config() and NewDefaultProfile", w)
		}
	}
}

// malformedPhase: requests that the access settings reject AND that fail a
// validation which the stack performs on every request (malformed
// client-subnet option; invalid device id in the TLS server name, DoH path or
// EDNS option).  The statement quantifies over all requests of a blocked
// client / for a blocked name: they receive no response at all.  One base
// request per cause (global net, global name, profile net, profile ASN, profile
// name) is searched for in the configuration, then dressed with each defect.
func malformedPhase(r *vkit.Run, e *env, rng *rand.Rand, msgID *uint16) {
	c := e.c
	neutralName := func() string {
		c.ctr++
		return fmt.Sprintf("m%d.neutral%d.example", c.ctr, c.Index)
	}
	ruleName := func(rs ruleSpec) (string, uint16) {
		c.ctr++
		qt := dns.TypeA
		if rs.QT != 0 {
			qt = rs.QT
			if rs.Neg {
				qt = dns.TypeNS
			}
		}
		if rs.Suffix && rng.IntN(2) == 0 {
			return fmt.Sprintf("m%d.%s", c.ctr, rs.Domain), qt
		}
		return rs.Domain, qt
	}
	anonServers := []string{"dns-plain", "dot", "doh", "doq"}
	type base struct {
		cause string
		p     probe
	}
	bases := []base{}
	find := func(cause string, gen func() (probe, bool)) {
		for try := 0; try < 40; try++ {
			p, ok := gen()
			if !ok {
				continue
			}
			v := c.judge(p.Remote.Addr(), p.Name, p.QType, p.Prof)
			if v.Blocked && v.cause() == cause {
				bases = append(bases, base{cause, p})
				return
			}
		}
		r.Bucket("malformed_no_base_"+cause, 1)
	}
	anon := func(a netip.Addr, name string, qt uint16) probe {
		srv := anonServers[rng.IntN(len(anonServers))]
		return probe{Index: -1, Method: "anon:" + srv, Server: srv, Prof: -1, Remote: netip.AddrPortFrom(a, uint16(2000+rng.IntN(50000))),
			Local: e.local[srv], Name: name, QType: qt, AddrKind: "any", NameKind: "any"}
	}
	attributed := func(pi int, a netip.Addr, name string, qt uint16) probe {
		id := c.Profiles[pi].Devices[0].ID // the device found by id
		p := probe{Index: -1, Prof: pi, Dev: id, Remote: netip.AddrPortFrom(a, uint16(2000+rng.IntN(50000))), Name: name, QType: qt,
			AddrKind: "any", NameKind: "any"}
		switch rng.IntN(4) {
		case 0:
			p.Method, p.Server, p.SNI = "dev:dot-sni", "dot", id+"."+deviceDomain
		case 1:
			p.Method, p.Server, p.SNI = "dev:doq-sni", "doq", id+"."+deviceDomain
		case 2:
			p.Method, p.Server, p.Path = "dev:doh-path", "doh", "/dns-query/"+id
		default:
			p.Method, p.Server, p.CPE = "dev:dns-cpe", "dns-plain", id
		}
		p.Local = e.local[p.Server]
		return p
	}
	if len(c.GlobalNets) > 0 {
		find("global-net", func() (probe, bool) {
			return anon(randIn(rng, c.GlobalNets[rng.IntN(len(c.GlobalNets))]), neutralName(), dns.TypeA), true
		})
	}
	if len(c.GlobalRules) > 0 {
		find("global-name", func() (probe, bool) {
			n, qt := ruleName(c.GlobalRules[rng.IntN(len(c.GlobalRules))])
			return anon(neutralAddrs[rng.IntN(len(neutralAddrs))], n, qt), true
		})
	}
	for _, cause := range []string{"profile-net", "profile-asn", "profile-name"} {
		cause := cause
		find(cause, func() (probe, bool) {
			pi := rng.IntN(len(c.Profiles))
			pr := &c.Profiles[pi]
			switch cause {
			case "profile-net":
				if len(pr.BlockedNets) == 0 {
					return probe{}, false
				}
				return attributed(pi, randIn(rng, pr.BlockedNets[rng.IntN(len(pr.BlockedNets))]), neutralName(), dns.TypeA), true
			case "profile-asn":
				if len(pr.BlockedASN) == 0 || len(c.Geo) == 0 {
					return probe{}, false
				}
				return attributed(pi, randIn(rng, c.Geo[rng.IntN(len(c.Geo))].Net), neutralName(), dns.TypeA), true
			default:
				if len(pr.Rules) == 0 {
					return probe{}, false
				}
				n, qt := ruleName(pr.Rules[rng.IntN(len(pr.Rules))])
				return attributed(pi, neutralAddrs[rng.IntN(len(neutralAddrs))], n, qt), true
			}
		})
	}

	run := func(cause, defect, kind string, p *probe) {
		v := c.judge(p.Remote.Addr(), p.Name, p.QType, p.Prof)
		*msgID++
		m, err := p.msg(*msgID)
		if err != nil {
			r.Inconclusive("harness: cannot build malformed request: " + err.Error())
			return
		}
		_, o := e.serve(p, m)
		w := witness{Config: c, Probe: p, Model: v, Observed: o, Note: defect + ": " + kind}
		r.Eval("malformed|"+cause+"|"+defect+"|"+kind+"|"+p.Server, true)
		r.Bucket("malformed_"+cause+"_"+defect, 1)
		if o.Panic != "" {
			r.Violation("panic:serve", "the handler panicked", w)
			return
		}
		if o.Responses > 0 || o.Err != "" {
			// one key per cause and kind of validation: a response written
			// by the handler and an error returned by it (which dnsserver
			// turns into a SERVFAIL response) are the same for the client
			r.Violation("blocked:answered:"+cause+":"+defect, "a request that the access settings reject is answered (FORMERR written / handler error that the server turns into SERVFAIL): this validation runs before the access check", w)
		}
		if o.SideEffects > 0 || o.UpstreamDelta != 0 {
			r.Violation("blocked:side-effects:"+cause+":"+defect, "a request that the access settings reject reached a later stage", w)
		}
		if strings.HasPrefix(cause, "global-") && o.ProfileDB > 0 {
			r.Violation("blocked:profiledb-consulted:"+cause, "a globally blocked request reached the device / profile-database lookup before it was dropped", w)
		}
	}
	for _, b := range bases {
		for _, k := range badECSKinds {
			p := b.p
			p.BadECS = k
			run(b.cause, "malformed-ecs", k, &p)
		}
		if !strings.HasPrefix(b.cause, "global-") {
			continue // a request with an invalid device id cannot be attributed
		}
		for _, k := range []string{"sni", "doh-path", "edns-cpe"} {
			p := b.p
			p.SNI, p.Path, p.CPE = "", "", ""
			switch k {
			case "sni":
				p.Server, p.SNI = []string{"dot", "doq"}[rng.IntN(2)], "toolongid9."+deviceDomain
			case "doh-path":
				p.Server, p.Path = "doh", "/dns-query/toolongid9"
			default:
				p.Server, p.CPE = "dns-plain", "toolongid9"
			}
			p.Method, p.Local = "anon:"+p.Server, e.local[p.Server]
			run(b.cause, "invalid-device-id", k, &p)
		}
	}
	// control: the same defects from a client that nobody rejects ARE answered
	// (otherwise the probes above would prove nothing)
	for _, n := range neutralAddrs {
		name := neutralName()
		if c.judge(n, name, dns.TypeA, -1).Blocked {
			continue
		}
		k := badECSKinds[rng.IntN(len(badECSKinds))]
		p := anon(n, name, dns.TypeA)
		p.BadECS = k
		*msgID++
		if m, err := p.msg(*msgID); err == nil {
			if _, o := e.serve(&p, m); o.Responses == 1 && len(o.Rcodes) == 1 && o.Rcodes[0] == dns.RcodeFormatError {
				r.Bucket("malformed_control_formerr_"+k, 1)
			}
		}
		q := anon(n, name, dns.TypeA)
		q.Server, q.Method, q.Local, q.SNI = "dot", "anon:dot", e.local["dot"], "toolongid9."+deviceDomain
		*msgID++
		if m, err := q.msg(*msgID); err == nil {
			if _, o := e.serve(&q, m); o.Err != "" {
				r.Bucket("malformed_control_device_id_error", 1)
			}
		}
		break
	}
}
