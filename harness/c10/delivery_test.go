package c10

// Delivery phase: the per-profile access configurations reach the access
// engine the way production delivers them - an (in-process) gRPC backend
// streams DNSProfile messages, the REAL backendpb.ProfileStorage converts them,
// the REAL profiledb.Default stores them (full synchronisation first, partial
// synchronisations afterwards) and the full stack looks the profiles up in that
// database.  The model is built from what the backend SENT.

import (
	"context"
	"fmt"
	"math/rand/v2"
	"net"
	"net/netip"
	"net/url"
	"os"
	"path/filepath"
	"strconv"
	"sync"
	"sync/atomic"
	"time"

	"github.com/AdguardTeam/AdGuardDNS/internal/agd"
	"github.com/AdguardTeam/AdGuardDNS/internal/backendpb"
	"github.com/AdguardTeam/AdGuardDNS/internal/profiledb"
	"github.com/AdguardTeam/AdGuardDNS/verif/stack"
	"github.com/AdguardTeam/AdGuardDNS/verif/vkit"
	"github.com/AdguardTeam/golibs/netutil"
	"github.com/c2h5oh/datasize"
	"github.com/miekg/dns"
	"google.golang.org/grpc"
	"google.golang.org/grpc/metadata"
)

type deliveryBackend struct {
	backendpb.UnimplementedDNSServiceServer

	mu    sync.Mutex
	batch []*backendpb.DNSProfile
	full  []bool // per call: was it a request for a full synchronisation
	epoch int64
}

func (b *deliveryBackend) GetDNSProfiles(req *backendpb.DNSProfilesRequest, srv grpc.ServerStreamingServer[backendpb.DNSProfile]) error {
	b.mu.Lock()
	batch := b.batch
	b.epoch++
	ep := b.epoch
	b.full = append(b.full, req.GetSyncTime() == nil || req.GetSyncTime().AsTime().Year() <= 1)
	b.mu.Unlock()
	for _, p := range batch {
		if err := srv.Send(p); err != nil {
			return err
		}
	}
	srv.SetTrailer(metadata.Pairs("sync_time", strconv.FormatInt(time.Now().UnixMilli()+ep, 10)))
	return nil
}

func (b *deliveryBackend) set(batch []*backendpb.DNSProfile) {
	b.mu.Lock()
	b.batch = batch
	b.mu.Unlock()
}

func (b *deliveryBackend) lastWasFull() bool {
	b.mu.Lock()
	defer b.mu.Unlock()
	return len(b.full) > 0 && b.full[len(b.full)-1]
}

type countingErrColl struct{ n atomic.Int64 }

func (c *countingErrColl) Collect(context.Context, error) { c.n.Add(1) }

func cidrs(ps []netip.Prefix) []*backendpb.CidrRange {
	out := []*backendpb.CidrRange{}
	for _, p := range ps {
		out = append(out, &backendpb.CidrRange{Address: p.Addr().AsSlice(), Prefix: uint32(p.Bits())})
	}
	return out
}

// toProto is what the backend sends for a profile.
func toProto(p *profCfg) *backendpb.DNSProfile {
	pb := &backendpb.DNSProfile{
		DnsId: p.ID, FilteringEnabled: !p.FilteringOff, QueryLogEnabled: true, IpLogEnabled: true,
		BlockingMode: &backendpb.DNSProfile_BlockingModeNullIp{BlockingModeNullIp: &backendpb.BlockingModeNullIP{}},
		Access: &backendpb.AccessSettings{
			Enabled:       !p.Empty,
			AllowlistCidr: cidrs(p.AllowedNets), BlocklistCidr: cidrs(p.BlockedNets),
			AllowlistAsn: append([]uint32{}, p.AllowedASN...), BlocklistAsn: append([]uint32{}, p.BlockedASN...),
			BlocklistDomainRules: specTexts(p.Rules),
		},
	}
	for _, d := range p.Devices {
		ds := &backendpb.DeviceSettings{Id: d.ID, Name: "device " + d.ID, FilteringEnabled: !d.FilteringOff}
		if d.Linked.IsValid() {
			ds.LinkedIp, _ = d.Linked.MarshalBinary()
		}
		if d.Dedicated.IsValid() {
			b, _ := d.Dedicated.MarshalBinary()
			ds.DedicatedIps = [][]byte{b}
		}
		pb.Devices = append(pb.Devices, ds)
	}
	return pb
}

func cloneProf(p profCfg) profCfg {
	q := p
	q.AllowedNets = append([]netip.Prefix{}, p.AllowedNets...)
	q.BlockedNets = append([]netip.Prefix{}, p.BlockedNets...)
	q.AllowedASN = append([]uint32{}, p.AllowedASN...)
	q.BlockedASN = append([]uint32{}, p.BlockedASN...)
	q.Rules = append([]ruleSpec{}, p.Rules...)
	q.Devices = append([]devCfg{}, p.Devices...)
	return q
}

// boundaryNet returns a subnet with a boundary prefix length.
func boundaryNet(rng *rand.Rand, c *config) netip.Prefix {
	rg := c.regs[rng.IntN(len(c.regs))]
	a := randIn(rng, rg.P)
	bl := a.BitLen()
	switch rng.IntN(8) {
	case 0, 1, 2:
		if a.Is4() {
			return netip.MustParsePrefix("0.0.0.0/0")
		}
		return netip.MustParsePrefix("::/0")
	case 3:
		return netip.PrefixFrom(a, 1).Masked()
	case 4:
		return netip.PrefixFrom(a, bl-1).Masked()
	case 5:
		return netip.PrefixFrom(a, bl)
	case 6:
		return netip.PrefixFrom(a, 2).Masked()
	default:
		return netip.PrefixFrom(a, bl-2).Masked()
	}
}

// addBoundaryNets adds subnets with boundary prefix lengths (and, rarely,
// subnets in the IPv4-mapped form) to the profiles of c.
func addBoundaryNets(rng *rand.Rand, c *config) (hasMapped bool) {
	for pi := range c.Profiles {
		p := &c.Profiles[pi]
		if p.Empty {
			continue
		}
		src := fmt.Sprintf("p%d", pi)
		if rng.IntN(10) < 6 {
			q := boundaryNet(rng, c)
			p.BlockedNets = append(p.BlockedNets, q)
			c.addNetCands(q, src, rng)
			if q.Bits() == 0 && len(p.AllowedNets) == 0 {
				// block everyone except my networks
				al := genNet(rng, c.regs, nil)
				p.AllowedNets = append(p.AllowedNets, al)
				c.addNetCands(al, src, rng)
			}
		}
		if rng.IntN(10) < 3 {
			q := boundaryNet(rng, c)
			p.AllowedNets = append(p.AllowedNets, q)
			c.addNetCands(q, src, rng)
		}
		if rng.IntN(12) == 0 {
			for try := 0; try < 10; try++ {
				q := genNet(rng, c.regs, nil)
				if !q.Addr().Is4() {
					continue
				}
				m := netip.PrefixFrom(mapped(q.Addr()), q.Bits()+96)
				if rng.IntN(2) == 0 {
					p.BlockedNets = append(p.BlockedNets, m)
				} else {
					p.AllowedNets = append(p.AllowedNets, m)
				}
				c.addNetCands(q, src, rng)
				hasMapped = true
				break
			}
		}
	}
	return hasMapped
}

// shapeSingleKind reduces the access settings of about half of the profiles to
// exactly one kind of list.
func shapeSingleKind(rng *rand.Rand, c *config) {
	for pi := range c.Profiles {
		p := &c.Profiles[pi]
		if p.Empty || rng.IntN(5) < 2 {
			continue
		}
		src := fmt.Sprintf("p%d", pi)
		shape := []string{"asn-blocks-only", "net-blocks-only", "names-only", "allowlists-only"}[rng.IntN(4)]
		an, bn, aa, ba, ru := p.AllowedNets, p.BlockedNets, p.AllowedASN, p.BlockedASN, p.Rules
		p.AllowedNets, p.BlockedNets, p.AllowedASN, p.BlockedASN, p.Rules = []netip.Prefix{}, []netip.Prefix{}, []uint32{}, []uint32{}, []ruleSpec{}
		switch shape {
		case "asn-blocks-only":
			p.BlockedASN = ba
			if len(ba) == 0 {
				p.BlockedASN = genASNs(rng, 1+rng.IntN(2))
			}
		case "net-blocks-only":
			p.BlockedNets = bn
			if len(bn) == 0 {
				q := genNet(rng, c.regs, nil)
				p.BlockedNets = []netip.Prefix{q}
				c.addNetCands(q, src, rng)
			}
		case "names-only":
			p.Rules = ru
			for len(p.Rules) == 0 || p.Rules[0].Exc {
				rs := genRule(rng, c)
				p.Rules = append([]ruleSpec{rs}, p.Rules...)
				c.names = append(c.names, nameCand{rs, src})
			}
		default:
			p.AllowedNets, p.AllowedASN = an, aa
			if len(an) == 0 && len(aa) == 0 {
				p.AllowedASN = genASNs(rng, 1)
			}
		}
		p.Shape = shape
		// name candidates of removed rules stay: they are boundary names of
		// rules that no longer exist
	}
}

func hasMappedNets(c *config) bool {
	for _, p := range c.Profiles {
		for _, l := range [][]netip.Prefix{p.AllowedNets, p.BlockedNets} {
			for _, q := range l {
				if q.Addr().Is4In6() {
					return true
				}
			}
		}
	}
	return false
}

// mutateProfile changes one aspect of the access settings of profile pi.
func mutateProfile(rng *rand.Rand, c *config, pi int, kind string) {
	p := &c.Profiles[pi]
	src := fmt.Sprintf("p%d", pi)
	addNet := func(l *[]netip.Prefix) {
		var q netip.Prefix
		if rng.IntN(4) == 0 {
			q = boundaryNet(rng, c)
		} else {
			q = genNet(rng, c.regs, append(append([]netip.Prefix{}, p.BlockedNets...), p.AllowedNets...))
		}
		*l = append(*l, q)
		c.addNetCands(q, src, rng)
	}
	dropOne := func(l *[]netip.Prefix) bool {
		if len(*l) == 0 {
			return false
		}
		i := rng.IntN(len(*l))
		*l = append(append([]netip.Prefix{}, (*l)[:i]...), (*l)[i+1:]...)
		return true
	}
	switch kind {
	case "nets":
		switch k := rng.IntN(6); {
		case k == 0 && dropOne(&p.BlockedNets):
		case k == 1 && dropOne(&p.AllowedNets):
		case k == 2 && len(p.BlockedNets) > 0:
			// a blocked subnet becomes an allowed one
			i := rng.IntN(len(p.BlockedNets))
			p.AllowedNets = append(p.AllowedNets, p.BlockedNets[i])
			dropOne(&p.BlockedNets)
		case k == 3:
			addNet(&p.AllowedNets)
		default:
			addNet(&p.BlockedNets)
		}
	case "asns":
		for try := 0; try < 20; try++ {
			na, nb := genASNs(rng, rng.IntN(3)), genASNs(rng, 1+rng.IntN(2))
			if !slicesEqual(na, p.AllowedASN) || !slicesEqual(nb, p.BlockedASN) {
				p.AllowedASN, p.BlockedASN = na, nb
				break
			}
		}
	case "names":
		if len(p.Rules) > 0 && rng.IntN(3) == 0 {
			i := rng.IntN(len(p.Rules))
			p.Rules = append(append([]ruleSpec{}, p.Rules[:i]...), p.Rules[i+1:]...)
		} else {
			rs := genRule(rng, c)
			p.Rules = append(p.Rules, rs)
			c.names = append(c.names, nameCand{rs, src})
		}
	case "toggle":
		p.Empty = !p.Empty
	case "nothing":
	}
}

func (c *config) judgeAs(prof profCfg, pi int, client netip.Addr, name string, qt uint16) verdict {
	cur := c.Profiles[pi]
	c.Profiles[pi] = prof
	v := c.judge(client, name, qt, pi)
	c.Profiles[pi] = cur
	return v
}

// attributedProbe builds a request of the device of profile pi that is found
// by its identifier.
func (e *env) attributedProbe(rng *rand.Rand, pi int, ac addrCand, name string, qt uint16) *probe {
	id := e.c.Profiles[pi].Devices[0].ID
	p := &probe{Index: -2, Prof: pi, Dev: id, Name: name, QType: qt, AddrKind: ac.Kind + "/" + ac.Src, NameKind: "neutral"}
	switch rng.IntN(4) {
	case 0:
		p.Method, p.Server, p.SNI = "dev:dot-sni", "dot", id+"."+deviceDomain
	case 1:
		p.Method, p.Server, p.SNI = "dev:doq-sni", "doq", id+"."+deviceDomain
	case 2:
		p.Method, p.Server, p.Path = "dev:doh-path", "doh", "/dns-query/"+id
	default:
		p.Method, p.Server, p.CPE, p.EDNS = "dev:dns-cpe", "dns-plain", id, true
	}
	a := ac.A
	if a.Is4() && rng.IntN(5) == 0 {
		a, p.Mapped = mapped(a), true
	}
	p.Local, p.Remote = e.local[p.Server], netip.AddrPortFrom(a, uint16(1024+rng.IntN(60000)))
	return p
}

var fieldNames = []string{"allowed_nets", "blocked_nets", "allowed_asn", "blocked_asn", "blocklist_domain_rules"}

// compareDelivered compares Access.Config() of every profile as found in the
// database with what the backend sent last for it.
func compareDelivered(r *vkit.Run, e *env, db *profiledb.Default, keyPrefix string) {
	c := e.c
	for pi := range c.Profiles {
		pc := &c.Profiles[pi]
		prof, _, err := db.ProfileByDeviceID(context.Background(), agd.DeviceID(pc.Devices[0].ID))
		if err != nil {
			r.Inconclusive("delivery: profile " + pc.ID + " not found in the database: " + err.Error())
			continue
		}
		got := prof.Access.Config()
		r.Bucket("delivery_config_compared", 1)
		wit := func(field string) map[string]any {
			return map[string]any{"config": c, "profile": pc.ID, "field": field, "backend_sent": builtFrom(pc), "access_disabled": pc.Empty,
				"config_returns": got, "note": e.note}
		}
		if pc.Empty {
			if got != nil {
				r.Violation(keyPrefix+":access-disabled", "the backend sent disabled access settings, the profile in the database has some", wit("enabled"))
			}
			continue
		}
		if got == nil {
			r.Violation(keyPrefix+":access-enabled", "the backend sent enabled access settings, the profile in the database has none", wit("enabled"))
			continue
		}
		want := builtFrom(pc)
		same := []bool{slicesEqual(want.AllowedNets, got.AllowedNets), slicesEqual(want.BlockedNets, got.BlockedNets),
			slicesEqual(want.AllowedASN, got.AllowedASN), slicesEqual(want.BlockedASN, got.BlockedASN),
			slicesEqual(want.BlocklistDomainRules, got.BlocklistDomainRules)}
		for i, ok := range same {
			if ok {
				continue
			}
			k := keyPrefix + ":" + fieldNames[i]
			if i < 2 {
				for _, q := range [][]netip.Prefix{want.AllowedNets, want.BlockedNets}[i] {
					if q.Bits() == 0 {
						k += ":zero-length-prefix"
						break
					}
				}
			}
			r.Violation(k, "the access settings of the profile in the database differ from what the backend sent for it", wit(fieldNames[i]))
		}
	}
}

func withoutZeroLen(p profCfg) profCfg {
	q := cloneProf(p)
	q.AllowedNets, q.BlockedNets = nil, nil
	for _, n := range p.AllowedNets {
		if n.Bits() != 0 {
			q.AllowedNets = append(q.AllowedNets, n)
		}
	}
	for _, n := range p.BlockedNets {
		if n.Bits() != 0 {
			q.BlockedNets = append(q.BlockedNets, n)
		}
	}
	return q
}

func deliveryPhase(r *vkit.Run, scratch string, sampled map[string]bool, attrMismatch *int) {
	l, err := net.Listen("tcp4", "127.0.0.1:0")
	if err != nil {
		r.Inconclusive("delivery: cannot listen: " + err.Error())
		return
	}
	be := &deliveryBackend{}
	gs := grpc.NewServer()
	backendpb.RegisterDNSServiceServer(gs, be)
	go func() { _ = gs.Serve(l) }()
	defer gs.Stop()

	ec := &countingErrColl{}
	strg, err := backendpb.NewProfileStorage(&backendpb.ProfileStorageConfig{
		BindSet:              netutil.SliceSubnetSet{netip.MustParsePrefix("192.0.2.64/26")},
		ErrColl:              ec,
		Logger:               stack.Logger(),
		GRPCMetrics:          backendpb.EmptyGRPCMetrics{},
		Metrics:              backendpb.EmptyProfileDBMetrics{},
		Endpoint:             &url.URL{Scheme: "grpc", Host: l.Addr().String()},
		ResponseSizeEstimate: datasize.KB, MaxProfilesSize: 64 * datasize.MB,
	})
	if err != nil {
		r.Inconclusive("delivery: NewProfileStorage: " + err.Error())
		return
	}

	nCfg := r.N(80, 1500)
	nProbe := r.N(30, 40)
	for ci := 0; ci < nCfg; ci++ {
		rng := r.Rand("delivery", ci)
		c := genConfig(rng, 1_000_000+ci)
		addBoundaryNets(rng, c)
		shapeSingleKind(rng, c)
		for pi := range c.Profiles {
			// "block these, but let a whole family through": a zero-length
			// ALLOWED subnet that overrides blocked subnets / ASNs
			p := &c.Profiles[pi]
			if p.Empty || p.Shape != "" || len(p.BlockedNets)+len(p.BlockedASN) == 0 || rng.IntN(4) != 0 {
				continue
			}
			q := netip.MustParsePrefix("0.0.0.0/0")
			if (len(p.BlockedNets) > 0 && p.BlockedNets[0].Addr().Is6()) || (len(p.BlockedNets) == 0 && rng.IntN(2) == 0) {
				q = netip.MustParsePrefix("::/0")
			}
			p.AllowedNets = append(p.AllowedNets, q)
		}

		cachePath := filepath.Join(scratch, fmt.Sprintf("c10-profiles-%d.pb", ci))
		_ = os.Remove(cachePath)
		newDB := func() (*profiledb.Default, error) {
			return profiledb.New(&profiledb.Config{
				Logger: stack.Logger(), Storage: strg, ErrColl: ec, Metrics: profiledb.EmptyMetrics{},
				CacheFilePath: cachePath, FullSyncIvl: 24 * time.Hour, FullSyncRetryIvl: 24 * time.Hour, ResponseSizeEstimate: datasize.KB,
			})
		}
		db, err := newDB()
		if err != nil {
			r.Inconclusive("delivery: profiledb.New: " + err.Error())
			return
		}
		sync := func(batch []*backendpb.DNSProfile, wantFull bool) bool {
			be.set(batch)
			ctx, cancel := context.WithTimeout(context.Background(), 60*time.Second)
			defer cancel()
			if err := db.Refresh(ctx); err != nil {
				r.Inconclusive("delivery: synchronisation failed: " + err.Error())
				return false
			}
			if be.lastWasFull() != wantFull {
				r.Bucket("delivery_sync_unexpected_kind", 1)
				return false
			}
			return true
		}
		all := []*backendpb.DNSProfile{}
		for pi := range c.Profiles {
			all = append(all, toProto(&c.Profiles[pi]))
		}
		if !sync(all, true) {
			continue
		}
		r.Bucket("delivery_sync_full", 1)
		e, err := buildEnv(c, db, nil)
		if err != nil {
			r.Violation("config-rejected", "a configuration in the documented grammar was rejected: "+err.Error(), map[string]any{"config": c})
			continue
		}
		r.Bucket("delivery_configs", 1)
		e.bktPrefix = "delivery_"
		tagKey := func(p *probe, v verdict) string {
			if p.Prof < 0 || c.Profiles[p.Prof].Empty {
				return ""
			}
			client := p.Remote.Addr()
			pc := c.Profiles[p.Prof]
			tag := ""
			for _, n := range append(append([]netip.Prefix{}, pc.AllowedNets...), pc.BlockedNets...) {
				if !inNet(n, client) {
					continue
				}
				bits, bl := n.Bits(), n.Addr().BitLen()
				switch {
				case bits == 0:
					tag = ":zero-length-prefix"
				case bits <= 2:
					r.Bucket("delivery_client_in_subnet_len_1-2", 1)
				case bits >= bl-2 && bits < bl:
					r.Bucket("delivery_client_in_subnet_len_max-2..max-1", 1)
				case bits == bl:
					r.Bucket("delivery_client_in_subnet_len_max", 1)
				}
			}
			if tag != "" && c.judgeAs(withoutZeroLen(pc), p.Prof, client, p.Name, p.QType).Blocked != v.Blocked {
				r.Bucket("delivery_zero_length_prefix_decisive", 1)
				if v.Blocked {
					r.Bucket("delivery_zero_length_prefix_decisive_blocked", 1)
				} else {
					r.Bucket("delivery_zero_length_prefix_decisive_allowed", 1)
				}
			}
			return tag
		}
		e.tagKey = tagKey
		msgID := uint16(3000 + ci)
		e.hasMappedCIDR = hasMappedNets(c)
		e.keySuffix = ":backend-delivered"
		e.note = "delivery phase: profiles sent by a gRPC backend, converted by backendpb.ProfileStorage, stored by profiledb.Default (full synchronisation)"
		compareDelivered(r, e, db, "access-config:delivered-differs")
		// decided: for every profile, a few requests that this profile's
		// settings decide (rejected, or let through by an allowlist entry)
		decided := func(bp string) {
			for pi := range c.Profiles {
				// requests that this profile's settings decide
				pc := &c.Profiles[pi]
				src := fmt.Sprintf("p%d", pi)
				nb, np := 0, 0
				for _, ai := range rng.Perm(len(c.addrs)) {
					ac := c.addrs[ai]
					if ac.Src != src && ac.Src != "region" {
						continue
					}
					c.ctr++
					name, qt := fmt.Sprintf("r%d.neutral%d.example", c.ctr, c.Index), dns.TypeA
					if len(pc.Rules) > 0 && (pc.Shape == "names-only" || rng.IntN(3) == 0) {
						var rule *ruleSpec
						name, _, rule = c.pickName(rng, src)
						if rule != nil && rule.QT != 0 && !rule.Neg {
							qt = rule.QT
						}
					}
					v := c.judge(ac.A, name, qt, pi)
					touched := v.PAlwNet || v.PAlwASN || v.PBlkNet || v.PBlkASN || v.PName
					if v.GNet || v.GName || !touched || (v.Blocked && nb >= 4) || (!v.Blocked && np >= 4) {
						continue
					}
					p := e.attributedProbe(rng, pi, ac, name, qt)
					if v.Blocked {
						nb++
						r.Bucket(bp+"profile_rejected", 1)
						if pc.Shape != "" {
							r.Bucket(bp+"rejected_shape_"+pc.Shape, 1)
						}
					} else {
						np++
						if pc.Shape != "" {
							r.Bucket(bp+"passed_shape_"+pc.Shape, 1)
						}
					}
					checkProbe(r, e, p, &msgID, sampled, attrMismatch)
				}
			}
		}
		decided("delivery_full_")
		for k := 0; k < nProbe; k++ {
			checkProbe(r, e, e.genProbe(rng, k), &msgID, sampled, attrMismatch)
		}

		// restart: a second database instance on the same cache file (written
		// by the full synchronisation), then an incremental synchronisation
		// in which nothing changed
		db, err = newDB()
		_ = os.Remove(cachePath) // loaded; only a full synchronisation would write it again
		if err != nil {
			r.Inconclusive("delivery: profiledb.New on the cache file: " + err.Error())
			return
		}
		if !sync(nil, false) {
			continue
		}
		r.Bucket("delivery_restart_from_cache", 1)
		e, err = buildEnv(c, db, nil)
		if err != nil {
			r.Inconclusive("delivery: cannot rebuild the stack: " + err.Error())
			return
		}
		e.bktPrefix, e.tagKey, e.hasMappedCIDR = "delivery_", tagKey, hasMappedNets(c)
		e.keySuffix = ":after-restart-from-cache"
		e.note = "delivery phase: second profiledb.Default instance loaded from the cache file that the full synchronisation stored, then an incremental synchronisation without changes"
		compareDelivered(r, e, db, "access-config:lost-after-restart-from-cache")
		decided("delivery_restart_")
		for k := 0; k < nProbe/2; k++ {
			checkProbe(r, e, e.genProbe(rng, 500+k), &msgID, sampled, attrMismatch)
		}

		// partial synchronisations
		kinds := []string{"nets", "asns", "names", "nothing"}
		rng.Shuffle(len(kinds), func(i, j int) { kinds[i], kinds[j] = kinds[j], kinds[i] })
		if rng.IntN(3) == 0 {
			kinds = append(kinds, "toggle")
		}
		for step, kind := range kinds {
			prev := []profCfg{}
			for _, p := range c.Profiles {
				prev = append(prev, cloneProf(p))
			}
			updated := []int{}
			for pi := range c.Profiles {
				if (c.Profiles[pi].Empty && kind != "toggle") || (len(updated) > 0 && rng.IntN(2) == 0) {
					continue
				}
				mutateProfile(rng, c, pi, kind)
				updated = append(updated, pi)
			}
			if len(updated) == 0 {
				continue
			}
			batch := []*backendpb.DNSProfile{}
			for _, pi := range updated {
				batch = append(batch, toProto(&c.Profiles[pi]))
			}
			if !sync(batch, false) {
				break
			}
			r.Bucket("delivery_sync_partial_"+kind, 1)
			e.hasMappedCIDR = hasMappedNets(c)
			e.keySuffix = ":after-partial-sync-" + kind
			e.note = fmt.Sprintf("delivery phase: after partial synchronisation #%d which changed only %q of profiles %v; model = what the backend sent last", step+1, kind, updated)
			compareDelivered(r, e, db, "access-config:stale-after-partial-sync-"+kind)

			// requests whose verdict the update changed
			for _, pi := range updated {
				src := fmt.Sprintf("p%d", pi)
				n := 0
				for _, ci2 := range rng.Perm(len(c.addrs)) {
					ac := c.addrs[ci2]
					if ac.Src != src && ac.Src != "region" {
						continue
					}
					c.ctr++
					name := fmt.Sprintf("s%d.neutral%d.example", c.ctr, c.Index)
					if kind == "names" {
						name, _, _ = c.pickName(rng, src)
					}
					if c.judgeAs(prev[pi], pi, ac.A, name, 1).Blocked == c.judge(ac.A, name, 1, pi).Blocked {
						continue
					}
					p := e.attributedProbe(rng, pi, ac, name, 1)
					if c.judgeAs(prev[pi], pi, p.Remote.Addr(), name, 1).Blocked == c.judge(p.Remote.Addr(), name, 1, pi).Blocked {
						continue
					}
					r.Bucket("delivery_sync_discriminating_"+kind, 1)
					checkProbe(r, e, p, &msgID, sampled, attrMismatch)
					if n++; n >= 6 {
						break
					}
				}
			}
			for k := 0; k < nProbe/2; k++ {
				checkProbe(r, e, e.genProbe(rng, 1000*(step+1)+k), &msgID, sampled, attrMismatch)
			}
		}
	}
	r.Bucket("delivery_errcoll_reports", ec.n.Load())
	r.Require("delivery_restart_from_cache", int64(nCfg))
	r.Require("delivery_restart_profile_rejected", 150)
	for _, k := range []string{"asn-blocks-only", "net-blocks-only", "names-only"} {
		r.Require("delivery_restart_rejected_shape_"+k, 12)
	}
	r.Require("delivery_restart_passed_shape_allowlists-only", 12)

	r.Require("delivery_configs", int64(nCfg))
	r.Require("delivery_sync_full", int64(nCfg))
	for _, k := range []string{"nets", "asns", "names", "nothing"} {
		r.Require("delivery_sync_partial_"+k, int64(nCfg*8/10))
	}
	r.Require("delivery_sync_discriminating_nets", 60)
	r.Require("delivery_sync_discriminating_asns", 60)
	r.Require("delivery_sync_discriminating_names", 60)
	r.Require("delivery_config_compared", int64(nCfg*8))
	r.Require("delivery_blocked_total", 1500)
	r.Require("delivery_passed_total", 1500)
	r.Require("delivery_attributed_total", 2000)
	r.Require("delivery_cause_profile-net", 200)
	r.Require("delivery_cause_profile-asn", 60)
	r.Require("delivery_cause_profile-name", 100)
	r.Require("delivery_pass_allow-overrides-block", 150)
	r.Require("delivery_zero_length_prefix_decisive_blocked", 60)
	r.Require("delivery_zero_length_prefix_decisive_allowed", 15)
	r.Require("delivery_client_in_subnet_len_1-2", 100)
	r.Require("delivery_client_in_subnet_len_max-2..max-1", 40)
	r.Require("delivery_client_in_subnet_len_max", 40)
}
