package c10

// DoH-listener phase: a REAL dnsserver.ServerHTTPS (plain and TLS instances of
// the transport bench) stands in front of the stack's DoH handler.  Clients
// connect from chosen loopback addresses (the whole 127.0.0.0/8 is local) and
// send forged forwarding headers.  The repository has no notion of trusted
// proxies, so the access verdict must be the one of the CONNECTING address.

import (
	"bytes"
	"context"
	"crypto/tls"
	"fmt"
	"io"
	"net"
	"net/http"
	"net/netip"
	"strings"
	"sync"
	"time"

	"github.com/AdguardTeam/AdGuardDNS/internal/dnsserver"
	"github.com/AdguardTeam/AdGuardDNS/verif/stack"
	"github.com/AdguardTeam/AdGuardDNS/verif/tbench"
	"github.com/AdguardTeam/AdGuardDNS/verif/vkit"
	"github.com/miekg/dns"
)

// dohFront is the handler given to the real DoH servers: it hands the request,
// with the remote address that the server computed, to the stack exactly like
// stack.Serve does for every other request of this check (so that the trace of
// side effects is recorded) and relays what the stack wrote.
type dohFront struct {
	e *env

	mu   sync.Mutex
	last *stack.Outcome
	seen netip.AddrPort
	n    int
}

func (f *dohFront) ServeDNS(ctx context.Context, rw dnsserver.ResponseWriter, req *dns.Msg) error {
	ri := dnsserver.MustRequestInfoFromContext(ctx)
	var remote netip.AddrPort
	if ap, ok := rw.RemoteAddr().(interface{ AddrPort() netip.AddrPort }); ok {
		remote = ap.AddrPort()
	}
	out := f.e.s.Serve(&stack.Request{Server: f.e.srv["doh"], Group: f.e.g1, Msg: req, Remote: remote, Local: f.e.local["doh"],
		URL: ri.URL, Userinfo: ri.Userinfo, TLSServerName: ""})
	f.mu.Lock()
	f.last, f.seen = out, remote
	f.n++
	f.mu.Unlock()
	for _, resp := range out.Responses {
		if err := rw.WriteMsg(ctx, req, resp); err != nil {
			return err
		}
	}
	return out.Err
}

func (f *dohFront) take() (out *stack.Outcome, seen netip.AddrPort, n int) {
	f.mu.Lock()
	defer f.mu.Unlock()
	out, seen, n = f.last, f.seen, f.n
	f.last, f.n = nil, 0
	return out, seen, n
}

type dohCase struct {
	Case       int        `json:"case"`
	Variant    string     `json:"variant"`
	Method     string     `json:"http_method"`
	Connecting netip.Addr `json:"connecting_address"`
	Header     string     `json:"forged_header"`
	HeaderVal  string     `json:"forged_header_value,omitempty"`
	Forged     netip.Addr `json:"forged_address"`
	Path       string     `json:"url_path"`
	Prof       int        `json:"attributed_profile"`
	Name       string     `json:"qname"`
}

type dohObserved struct {
	HTTPStatus      int        `json:"http_status"`
	HTTPErr         string     `json:"http_error,omitempty"`
	DNSAnswer       bool       `json:"http_body_is_dns_response"`
	HandlerCalls    int        `json:"handler_calls"`
	HandlerSawAddr  netip.Addr `json:"remote_address_given_to_handler"`
	Stack           observed   `json:"stack"`
	ForgedVerdict   bool       `json:"model_blocked_for_forged_address"`
	ConnectingBlock bool       `json:"model_blocked_for_connecting_address"`
}

func dohPhase(r *vkit.Run) {
	ap := netip.MustParsePrefix
	c := &config{Index: 3_000_000, Cache: "simple",
		GlobalNets:  []netip.Prefix{ap("127.0.1.0/24"), ap("127.9.9.9/32")},
		GlobalRules: []ruleSpec{},
		Geo:         []geoEnt{{ap("127.0.3.0/24"), 64500}, {ap("127.0.4.0/24"), 64501}},
		Profiles: []profCfg{
			{ID: "prof0", AllowedNets: []netip.Prefix{ap("127.0.2.128/25")}, BlockedNets: []netip.Prefix{ap("127.0.2.0/24")},
				AllowedASN: []uint32{}, BlockedASN: []uint32{64500}, Rules: []ruleSpec{}, Devices: []devCfg{{ID: "p0id"}}},
			{ID: "prof1", AllowedNets: []netip.Prefix{}, BlockedNets: []netip.Prefix{ap("127.0.0.0/8")},
				AllowedASN: []uint32{64501}, BlockedASN: []uint32{}, Rules: []ruleSpec{}, Devices: []devCfg{{ID: "p1id"}}},
		}}
	e, err := buildEnv(c, nil, nil)
	if err != nil {
		r.Inconclusive("doh: stack: " + err.Error())
		return
	}
	front := &dohFront{e: e}
	b, err := tbench.Start(tbench.Config{Handler: front, Only: []tbench.Server{tbench.SrvDoH, tbench.SrvDoHPlain}})
	if err != nil {
		r.Inconclusive("doh: cannot start the DoH servers: " + err.Error())
		return
	}
	defer func() { _ = b.Close() }()

	// one HTTP client per (variant, connecting address)
	clients := map[string]*http.Client{}
	client := func(variant string, from netip.Addr) *http.Client {
		k := variant + "/" + from.String()
		if cl := clients[k]; cl != nil {
			return cl
		}
		d := &net.Dialer{Timeout: 10 * time.Second, LocalAddr: &net.TCPAddr{IP: from.AsSlice()}}
		tr := &http.Transport{DisableCompression: true, MaxIdleConnsPerHost: 4}
		if variant == "plain" {
			addr := b.DoHPlainAddr
			tr.DialContext = func(ctx context.Context, _, _ string) (net.Conn, error) { return d.DialContext(ctx, "tcp4", addr) }
		} else {
			addr := b.DoHAddr
			tr.TLSClientConfig = b.PKI.ClientTLS("http/1.1")
			tr.TLSNextProto = map[string]func(string, *tls.Conn) http.RoundTripper{}
			tr.DialContext = func(ctx context.Context, _, _ string) (net.Conn, error) { return d.DialContext(ctx, "tcp4", addr) }
		}
		cl := &http.Client{Transport: tr}
		clients[k] = cl
		b.OnClose(tr.CloseIdleConnections)
		return cl
	}

	pa := netip.MustParseAddr
	connecting := []netip.Addr{pa("127.0.0.5"), pa("127.0.1.7"), pa("127.9.9.9"), pa("127.0.2.9"), pa("127.0.2.200"), pa("127.0.3.4"), pa("127.0.3.77"), pa("127.0.4.4")}
	forged := append([]netip.Addr{pa("203.0.113.77"), pa("2001:db8:ffff::77"), pa("10.1.2.3")}, connecting...)
	headers := []string{"", "X-Forwarded-For", "X-Forwarded-For-list", "Forwarded", "X-Real-IP", "True-Client-IP", "CF-Connecting-IP"}
	paths := []struct {
		path string
		prof int
	}{{"/dns-query", -1}, {"/dns-query/p0id", 0}, {"/dns-query/p1id", 1}}

	rng := r.Rand("doh", 0)
	n := 0
	sampledHdr := map[string]bool{}
	for _, conn := range connecting {
		for _, hdr := range headers {
			for _, pth := range paths {
				// forged addresses: one whose verdict differs from the
				// connecting one's if there is one, plus a random one
				vc := c.judge(conn, "x.example", dns.TypeA, pth.prof)
				cands := []netip.Addr{}
				for _, i := range rng.Perm(len(forged)) {
					f := forged[i]
					if f != conn && c.judge(f, "x.example", dns.TypeA, pth.prof).Blocked != vc.Blocked {
						cands = append(cands, f)
						break
					}
				}
				cands = append(cands, forged[rng.IntN(len(forged))])
				if hdr == "" {
					cands = cands[:1]
				}
				for _, f := range cands {
					n++
					dc := &dohCase{Case: n, Variant: []string{"plain", "tls"}[n%2], Method: []string{"GET", "POST"}[(n/2)%2],
						Connecting: conn, Header: hdr, Forged: f, Path: pth.path, Prof: pth.prof,
						Name: fmt.Sprintf("h%d.neutral%d.example", n, c.Index)}
					fs := f.String()
					switch hdr {
					case "X-Forwarded-For-list":
						dc.HeaderVal = fs + ", 198.51.100.9, " + conn.String()
					case "Forwarded":
						dc.HeaderVal = "for=" + fs + ";proto=https"
						if f.Is6() {
							dc.HeaderVal = "for=\"[" + fs + "]\";proto=https"
						}
					case "":
					default:
						dc.HeaderVal = fs
					}
					runDoHCase(r, e, front, b, client(dc.Variant, conn), dc, sampledHdr)
				}
			}
		}
	}
	r.Require("doh_cases", 200)
	r.Require("doh_rejected_connecting_with_unblocked_forged", 60)
	r.Require("doh_passed_connecting_with_blocked_forged", 40)
	for _, h := range headers[1:] {
		r.Require("doh_header_"+h, 25)
	}
	for _, k := range []string{"global-net", "profile-net", "profile-asn"} {
		r.Require("doh_cause_"+k, 15)
	}
	r.Require("doh_pass_allow-overrides-block", 10)
}

func runDoHCase(r *vkit.Run, e *env, front *dohFront, b *tbench.Bench, cl *http.Client, dc *dohCase, sampledHdr map[string]bool) {
	c := e.c
	q := stack.NewQuery(uint16(dc.Case), dc.Name, dns.TypeA, dns.ClassINET)
	wire, err := q.Pack()
	if err != nil {
		return
	}
	scheme, host := "http", b.PKI.ServerName
	if dc.Variant == "tls" {
		scheme = "https"
	}
	ctx, cancel := context.WithTimeout(context.Background(), 30*time.Second)
	defer cancel()
	var req *http.Request
	if dc.Method == "GET" {
		req, err = http.NewRequestWithContext(ctx, http.MethodGet, scheme+"://"+host+dc.Path+"?dns="+tbench.Base64URL(wire), nil)
	} else {
		req, err = http.NewRequestWithContext(ctx, http.MethodPost, scheme+"://"+host+dc.Path, bytes.NewReader(wire))
		if err == nil {
			req.Header.Set("Content-Type", dnsserver.MimeTypeDoH)
		}
	}
	if err != nil {
		r.Inconclusive("doh: cannot build request: " + err.Error())
		return
	}
	req.Header.Set("Accept", dnsserver.MimeTypeDoH)
	if dc.Header != "" {
		req.Header.Set(strings.TrimSuffix(dc.Header, "-list"), dc.HeaderVal)
	}

	vConn := c.judge(dc.Connecting, dc.Name, dns.TypeA, dc.Prof)
	vForged := c.judge(dc.Forged, dc.Name, dns.TypeA, dc.Prof)
	before := e.counters()
	front.take()
	o := dohObserved{ConnectingBlock: vConn.Blocked, ForgedVerdict: vForged.Blocked}
	resp, herr := cl.Do(req)
	if herr != nil {
		o.HTTPErr = herr.Error()
	} else {
		body, _ := io.ReadAll(resp.Body)
		_ = resp.Body.Close()
		o.HTTPStatus = resp.StatusCode
		m := &dns.Msg{}
		if resp.StatusCode == http.StatusOK && m.Unpack(body) == nil && m.Response {
			o.DNSAnswer = true
		}
	}
	out, seen, calls := front.take()
	o.HandlerCalls, o.HandlerSawAddr = calls, seen.Addr()
	if out != nil {
		o.Stack = e.observe(out, before)
	}
	w := map[string]any{"config": c, "case": dc, "model_for_connecting_address": vConn, "observed": o,
		"note": "real dnsserver.ServerHTTPS in front of the stack's DoH handler; the client connected from connecting_address"}

	hdrName := dc.Header
	if hdrName == "" {
		hdrName = "no-forwarding-header"
	}
	r.Eval(fmt.Sprintf("doh|%s|%s|%s|%d|%s|f%d", dc.Variant, dc.Method, hdrName, dc.Prof, vConn.bits(), b2i(vForged.Blocked)), true)
	r.Bucket("doh_cases", 1)
	r.Bucket("doh_header_"+hdrName, 1)
	r.Bucket("doh_variant_"+dc.Variant+"_"+dc.Method, 1)
	if !sampledHdr[hdrName] && dc.Header != "" && vConn.Blocked != vForged.Blocked {
		sampledHdr[hdrName] = true
		if len(sampledHdr) <= 2 {
			r.Sample(map[string]any{"doh_case": dc, "model_for_connecting_address": vConn, "observed": o})
		}
	}
	if herr != nil || calls != 1 || out == nil {
		r.Bucket("doh_harness_anomalies", 1)
		r.Inconclusive(fmt.Sprintf("doh: case %d: transport anomaly (http error %q, handler calls %d)", dc.Case, o.HTTPErr, calls))
		return
	}
	if seen.Addr().Unmap() != dc.Connecting {
		r.Bucket("doh_handler_saw_other_address_than_connecting", 1)
	}
	suffix := ":doh-listener:" + hdrName
	if vConn.Blocked {
		cause := vConn.cause()
		r.Bucket("doh_rejected_total", 1)
		r.Bucket("doh_cause_"+cause, 1)
		if dc.Header != "" && !vForged.Blocked {
			r.Bucket("doh_rejected_connecting_with_unblocked_forged", 1)
		}
		if o.Stack.Responses > 0 || o.Stack.Err != "" || o.DNSAnswer {
			r.Violation("blocked:response-written:"+cause+suffix, "a DoH request whose connecting address the access settings reject was answered", w)
		}
		if o.Stack.SideEffects > 0 || o.Stack.UpstreamDelta != 0 {
			r.Violation("blocked:side-effects:"+cause+suffix, "a DoH request whose connecting address the access settings reject reached a later stage", w)
		}
		return
	}
	r.Bucket("doh_passed_total", 1)
	if (vConn.PBlkNet || vConn.PBlkASN) && (vConn.PAlwNet || vConn.PAlwASN) {
		r.Bucket("doh_pass_allow-overrides-block", 1)
	}
	if dc.Header != "" && vForged.Blocked {
		r.Bucket("doh_passed_connecting_with_blocked_forged", 1)
	}
	if o.Stack.Responses != 1 || o.Stack.Err != "" || !o.DNSAnswer || o.Stack.Upstream != 1 {
		r.Violation("allowed:dropped"+suffix, "a DoH request whose connecting address no access rule rejects was not resolved and answered", w)
	}
}
