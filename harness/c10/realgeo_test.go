package c10

// Real-GeoIP phase: the stack gets the REAL geoip.File over the repository's
// test databases instead of the deterministic fake, and profiles whose ASN
// rules are decided by it.  The location of a client must be the location of
// THAT client: histories of two clients of different address families whose
// addresses start with the same bytes (an IPv6 address a:b:c00:0:... and the
// IPv4 address a.b.c.x share the leading three bytes of the keys of the
// address cache of geoip.File) are served in both orders.  Ground truth for the
// model is a direct look-up in the database file.

import (
	"context"
	"fmt"
	"net"
	"net/netip"
	"os"
	"path/filepath"
	"sort"
	"time"

	"github.com/AdguardTeam/AdGuardDNS/internal/agdcache"
	"github.com/AdguardTeam/AdGuardDNS/internal/geoip"
	"github.com/AdguardTeam/AdGuardDNS/verif/stack"
	"github.com/AdguardTeam/AdGuardDNS/verif/vkit"
	"github.com/AdguardTeam/golibs/container"
	"github.com/miekg/dns"
	"github.com/oschwald/maxminddb-golang"
)

type asnRecord struct {
	ASN uint32 `maxminddb:"autonomous_system_number"`
}

type famPair struct {
	V6   netip.Addr `json:"ipv6_client"`
	ASN6 uint32     `json:"ipv6_client_asn"`
	V4   netip.Addr `json:"ipv4_client"`
	ASN4 uint32     `json:"ipv4_client_asn"` // 0: none
}

func repoPath() string {
	if p := os.Getenv("VERIF_REPO"); p != "" {
		return p
	}
	return "/repo"
}

// familyPairs derives, from the ASN database, the clients of different
// families with equal leading address bytes and different ASNs.
func familyPairs(asnPath string) (pairs []famPair, err error) {
	rd, err := maxminddb.Open(asnPath)
	if err != nil {
		return nil, err
	}
	defer func() { _ = rd.Close() }()
	nw := rd.Networks(maxminddb.SkipAliasedNetworks)
	for nw.Next() {
		var rec asnRecord
		sub, nerr := nw.Network(&rec)
		if nerr != nil {
			return nil, nerr
		}
		pfx, perr := netip.ParsePrefix(sub.String())
		if perr != nil || pfx.Addr().Is4() || pfx.Addr().Is4In6() || rec.ASN == 0 {
			continue
		}
		b := pfx.Addr().As16()
		if b[3]|b[4]|b[5]|b[6] != 0 || pfx.Bits() > 120 {
			continue
		}
		v6 := b
		v6[15] = 1
		p := famPair{V6: netip.AddrFrom16(v6), ASN6: rec.ASN, V4: netip.AddrFrom4([4]byte{b[0], b[1], b[2], 5})}
		var r4 asnRecord
		if lerr := rd.Lookup(net.IP(p.V4.AsSlice()), &r4); lerr != nil {
			return nil, lerr
		}
		p.ASN4 = r4.ASN
		// make sure of the IPv6 ground truth for the exact address as well
		var r6 asnRecord
		if lerr := rd.Lookup(net.IP(p.V6.AsSlice()), &r6); lerr != nil || r6.ASN != rec.ASN {
			continue
		}
		if p.ASN4 != p.ASN6 {
			pairs = append(pairs, p)
		}
	}
	sort.Slice(pairs, func(i, j int) bool { return pairs[i].V6.Less(pairs[j].V6) })
	return pairs, nw.Err()
}

func realGeoPhase(r *vkit.Run, sampled map[string]bool, attrMismatch *int) {
	asnPath := filepath.Join(repoPath(), "internal/geoip/testdata/GeoIP2-ISP-Test.mmdb")
	ctryPath := filepath.Join(repoPath(), "internal/geoip/testdata/GeoIP2-Country-Test.mmdb")
	pairs, err := familyPairs(asnPath)
	if err != nil || len(pairs) < 20 {
		r.Inconclusive(fmt.Sprintf("real geoip: cannot derive client pairs from %s: %d pairs, %v", asnPath, len(pairs), err))
		return
	}
	r.Bucket("geo_family_pairs_in_database", int64(len(pairs)))

	nCases := r.N(120, 1600)
	for ci := 0; ci < nCases; ci++ {
		rng := r.Rand("realgeo", ci)
		pr := pairs[rng.IntN(len(pairs))]
		// the rule: block / allow the ASN of one of the two clients
		variants := []string{"block-asn-of-ipv6", "allow-asn-of-ipv6"}
		if pr.ASN4 != 0 {
			variants = append(variants, "block-asn-of-ipv4", "allow-asn-of-ipv4")
		}
		variant := variants[rng.IntN(len(variants))]
		p0 := profCfg{ID: "prof0", AllowedNets: []netip.Prefix{}, BlockedNets: []netip.Prefix{}, AllowedASN: []uint32{}, BlockedASN: []uint32{},
			Rules: []ruleSpec{}, Devices: []devCfg{{ID: "p0id"}}}
		switch variant {
		case "block-asn-of-ipv6":
			p0.BlockedASN = []uint32{pr.ASN6}
		case "block-asn-of-ipv4":
			p0.BlockedASN = []uint32{pr.ASN4}
		case "allow-asn-of-ipv6":
			p0.BlockedNets = []netip.Prefix{netip.MustParsePrefix("0.0.0.0/0"), netip.MustParsePrefix("::/0")}
			p0.AllowedASN = []uint32{pr.ASN6}
		default:
			p0.BlockedNets = []netip.Prefix{netip.MustParsePrefix("0.0.0.0/0"), netip.MustParsePrefix("::/0")}
			p0.AllowedASN = []uint32{pr.ASN4}
		}
		c := &config{Index: 2_000_000 + ci, Cache: "simple", GlobalNets: []netip.Prefix{}, GlobalRules: []ruleSpec{},
			Geo: []geoEnt{{netip.PrefixFrom(pr.V6, 128), pr.ASN6}}, Profiles: []profCfg{p0}}
		if pr.ASN4 != 0 {
			c.Geo = append(c.Geo, geoEnt{netip.PrefixFrom(pr.V4, 32), pr.ASN4})
		}
		gf := geoip.NewFile(&geoip.FileConfig{
			Logger: stack.Logger(), CacheManager: agdcache.EmptyManager{}, AllTopASNs: container.NewMapSet[geoip.ASN](),
			CountryTopASNs: map[geoip.Country]geoip.ASN{}, ASNPath: asnPath, CountryPath: ctryPath, HostCacheCount: 0, IPCacheCount: 1000,
		})
		ctx, cancel := context.WithTimeout(context.Background(), 60*time.Second)
		err = gf.Refresh(ctx)
		cancel()
		if err != nil {
			r.Inconclusive("real geoip: refresh: " + err.Error())
			return
		}
		e, err := buildEnv(c, nil, gf)
		if err != nil {
			r.Inconclusive("real geoip: stack: " + err.Error())
			return
		}
		r.Bucket("geo_cases", 1)
		r.Bucket("geo_variant_"+variant, 1)
		e.bktPrefix = "geo_"
		e.note = fmt.Sprintf("real geoip.File over the repository's test databases; clients %s (ASN %d) and %s (ASN %d); rule %s; ground truth = direct look-up in the database",
			pr.V6, pr.ASN6, pr.V4, pr.ASN4, variant)
		order := []netip.Addr{pr.V4, pr.V6, pr.V4}
		oname := "ipv4-first"
		if rng.IntN(2) == 0 {
			order, oname = []netip.Addr{pr.V6, pr.V4, pr.V6}, "ipv6-first"
		}
		r.Bucket("geo_order_"+oname, 1)
		msgID := uint16(7000 + ci)
		for step, a := range order {
			stepName := []string{"first-lookup", "after-other-family-lookup", "repeat-of-first"}[step]
			e.keySuffix = ":real-geoip-file:" + stepName
			c.ctr++
			p := e.attributedProbe(rng, 0, addrCand{A: a, Kind: "family-pair", Src: "p0"}, fmt.Sprintf("g%d.neutral%d.example", c.ctr, c.Index), dns.TypeA)
			v := c.judge(p.Remote.Addr(), p.Name, p.QType, 0)
			if v.Blocked {
				r.Bucket("geo_"+stepName+"_rejected", 1)
			} else {
				r.Bucket("geo_"+stepName+"_passed", 1)
			}
			checkProbe(r, e, p, &msgID, sampled, attrMismatch)
		}
	}
	r.Require("geo_cases", int64(nCases))
	r.Require("geo_order_ipv4-first", int64(nCases/4))
	r.Require("geo_order_ipv6-first", int64(nCases/4))
	r.Require("geo_after-other-family-lookup_rejected", int64(nCases/5))
	r.Require("geo_after-other-family-lookup_passed", int64(nCases/5))
	r.Require("geo_cause_profile-asn", int64(nCases/5))
	r.Require("geo_pass_allowed-asn-decisive", int64(nCases/8))
}
