package c12

// Concurrent queries of two profiles that SHARE a cached rule list but have
// different further lists.  The shared list matches every probe host with
// 1..6 rules of different kinds (so that the cached per-host result slices have
// all the length/capacity shapes urlfilter produces), one profile has an
// exception list after it, both have a further blocking list.  Every verdict
// on the cache-enabled storage is compared with the cache-off twin.

import (
	"fmt"
	"strings"
	"sync"
	"sync/atomic"

	"github.com/AdguardTeam/AdGuardDNS/internal/filter"
	"github.com/AdguardTeam/AdGuardDNS/verif/vkit"
	"github.com/miekg/dns"
)

var spareListIDs = []string{"vs_allow", "vs_extra", "vs_shared"}

const spareVariants = 6

func spareHost(k int) string { return fmt.Sprintf("ads.t%d.spare.test", k) }

// spareSharedRules are the rules of the shared list that match spareHost(k):
// the first k of six kinds that live in different urlfilter lookup tables.
func spareSharedRules(k int) []string {
	all := []string{
		fmt.Sprintf("||t%d.spare.test^", k),
		fmt.Sprintf("||t%d.spare.test^$dnstype=A", k),
		fmt.Sprintf(`/^ads\.t%d\./`, k),
		fmt.Sprintf("|ads.t%d.spare.test^", k),
		fmt.Sprintf(`/t%d\.spare\.test$/`, k),
		fmt.Sprintf("ads.t%d.spare.test^$dnstype=A|AAAA", k),
	}
	return all[:k]
}

func spareListText(id string) string {
	b := &strings.Builder{}
	fmt.Fprintf(b, "! %s\n", id)
	for k := 1; k <= spareVariants; k++ {
		switch id {
		case "vs_shared":
			for _, r := range spareSharedRules(k) {
				b.WriteString(r + "\n")
			}
		case "vs_allow":
			fmt.Fprintf(b, "@@||%s^\n", spareHost(k))
		case "vs_extra":
			fmt.Fprintf(b, "||%s^\n", spareHost(k))
		}
	}
	return b.String()
}

func sharedCachedListPhase(r *vkit.Run, s *srv) {
	n := r.N(3, 20)
	for i := 0; i < n; i++ {
		if !oneSharedCachedList(r, s, i) {
			return
		}
	}
}

func oneSharedCachedList(r *vkit.Run, s *srv, idx int) (goOn bool) {
	rng := r.Rand("shared-cached-list", idx)
	const (
		perProfile = 8
		opsPerCase = 150
	)
	s.setGate(nil)
	hookFn.Store(nil)
	c := baseContent()
	c.Spare = true
	s.set(c)
	cached, err := newEnv(s, "spare-cached", prodOpt)
	if err != nil {
		r.Inconclusive("shared cached list: cannot build storage: " + err.Error())
		return false
	}
	defer cached.close()
	uo := prodOpt
	uo.ResultCache = false
	uncached, err := newEnv(s, "spare-uncached", uo)
	if err != nil {
		r.Inconclusive("shared cached list: cannot build twin: " + err.Error())
		return false
	}
	defer uncached.close()

	reqs := newRequesters()
	mk := func(name string, client bool, lists ...string) *requester {
		q := onlyComp(reqs[rng.IntN(len(reqs))], "rulelist")
		q.Name = name
		q.RuleLists = ids(lists...)
		if client {
			// a profile without custom rules
			q.Profile = &profile{ID: "spare-" + name, Idx: 7, Enabled: false, Ver: 1}
		}
		return q.fix()
	}
	profiles := []*requester{
		mk("profile1[vs_shared,vs_allow,vs_extra]", true, "vs_shared", "vs_allow", "vs_extra"),
		mk("profile2[vs_shared,vs_extra]", idx%2 == 0, "vs_shared", "vs_extra"),
	}
	type caseT struct {
		k  int
		qt uint16
	}
	var cases []caseT
	for k := 1; k <= spareVariants; k++ {
		cases = append(cases, caseT{k, dns.TypeA}, caseT{k, dns.TypeAAAA})
	}
	verdict := func(o obs) string { return o.Kind + ":" + o.List + ":" + o.Rule + ":" + o.Err }
	// sequential reference on the cache-off twin, and a sequential pass on the
	// cached storage (which also populates its caches)
	want := map[string]string{}
	for _, cs := range cases {
		for _, q := range profiles {
			qu := query{Host: spareHost(cs.k), QType: cs.qt}
			key := q.Name + "|" + qu.String()
			uncached.mgr.clearAll()
			ou := ask(uncached, q, 1, qu, 1)
			want[key] = verdict(ou)
			for n := 0; n < 2; n++ {
				if oc := ask(cached, q, 1, qu, 1); verdict(oc) != want[key] {
					r.Violation("transparency:rulelist:verdict-differs", "sequential: the cached storage and its cache-off twin disagree",
						map[string]any{"phase": "shared-cached-list", "history_index": idx, "profile": q.Name, "query": qu.String(), "cached": oc, "cache_off": ou})
				}
			}
		}
	}
	type bad struct {
		Profile  string `json:"profile"`
		Query    string `json:"query"`
		Want     string `json:"verdict_without_caches"`
		Got      string `json:"observed"`
		Storage  string `json:"storage"`
		SharedRs []string
	}
	var (
		mu    sync.Mutex
		bads  []bad
		nbad  = map[string]int{}
		pairs atomic.Int64
	)
	run := func(e *env, label string) {
		for _, cs := range cases {
			qu := query{Host: spareHost(cs.k), QType: cs.qt}
			var start, wg sync.WaitGroup
			start.Add(1)
			for _, q := range profiles {
				for g := 0; g < perProfile; g++ {
					wg.Add(1)
					go func(q *requester) {
						defer wg.Done()
						key := q.Name + "|" + qu.String()
						start.Wait()
						for n := 0; n < opsPerCase; n++ {
							o := ask(e, q, 1, qu, uint16(n))
							pairs.Add(1)
							if got := verdict(o); got != want[key] {
								mu.Lock()
								nbad[label+"|"+o.Kind]++
								if len(bads) < 6 {
									bads = append(bads, bad{q.Name, qu.String(), want[key], got, label, spareSharedRules(cs.k)})
								}
								mu.Unlock()
							}
						}
					}(q)
				}
			}
			start.Done()
			wg.Wait()
		}
	}
	run(cached, "caches enabled")
	nCached := pairs.Load()
	run(uncached, "caches off")
	r.Bucket("shared_list_concurrent_verdicts_compared_cached_storage", nCached)
	r.Bucket("shared_list_concurrent_verdicts_compared_cache_off_twin", pairs.Load()-nCached)
	r.Bucket("shared_list_cases", int64(len(cases)))
	r.Eval(fmt.Sprintf("shared-cached-list|history=%d", idx%2), true)
	if idx == 0 {
		r.Sample(map[string]any{"phase": "shared-cached-list", "profiles": []string{profiles[0].Name, profiles[1].Name},
			"verdicts_without_caches": want, "goroutines_per_profile": perProfile, "queries_per_goroutine_and_case": opsPerCase})
	}
	if len(bads) == 0 {
		return true
	}
	w := map[string]any{
		"phase": "shared-cached-list", "history_index": idx, "profiles": []string{profiles[0].Name, profiles[1].Name},
		"goroutines_per_profile": perProfile, "mismatches_by_storage_and_kind": nbad, "first_mismatches": bads,
		"lists": map[string]string{"vs_shared": spareListText("vs_shared"), "vs_allow": spareListText("vs_allow"), "vs_extra": spareListText("vs_extra")},
	}
	off, panicked, differs := false, false, false
	for k := range nbad {
		off = off || strings.HasPrefix(k, "caches off")
		if strings.HasPrefix(k, "caches enabled") {
			if strings.HasSuffix(k, "|panic") {
				panicked = true
			} else {
				differs = true
			}
		}
	}
	if off {
		r.Violation("concurrency:rulelist:cache-off-storage-verdict-depends-on-concurrent-queries",
			"even without result caches, concurrent queries of two profiles change each other's verdicts", w)
	}
	if differs {
		r.Violation("transparency:rulelist:concurrent-profiles-sharing-a-cached-list-get-each-others-rules",
			"with result caches enabled, concurrent queries of two profiles that share a cached rule list but have different further lists get verdicts that differ from those without caches", w)
	}
	if panicked {
		r.Violation("failure:rulelist:panic-in-concurrent-profiles-sharing-a-cached-list",
			"with result caches enabled, a query panics when another profile that shares a cached rule list is queried concurrently (the verdict names a list that is not in this profile's filter)", w)
	}
	return true
}

var _ filter.ID
