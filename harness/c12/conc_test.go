package c12

// Freshness under concurrency: (1) a reader parked by the hashprefix.afterMatch
// hook across a completed hash-list refresh; (2) random reader/refresher
// histories per component, decided by an interval rule and by porcupine.

import (
	"context"
	"fmt"
	"strings"
	"sync"
	"sync/atomic"
	"time"

	"github.com/AdguardTeam/AdGuardDNS/internal/filter"
	"github.com/AdguardTeam/AdGuardDNS/verif/vkit"
	"github.com/anishathalye/porcupine"
	"github.com/miekg/dns"
)

// watchdog only bounds a hung experiment (=> inconclusive); it decides nothing.
const watchdog = 90 * time.Second

func baseContent() content {
	c := content{RL: map[string]int{}, Svc: map[string]int{}, Hash: map[string]int{}, SSGen: 1, SSYT: 1}
	for _, id := range ruleListIDs {
		c.RL[id] = 1
	}
	for _, id := range svcIDs {
		c.Svc[id] = 1
	}
	for _, k := range hashKinds {
		c.Hash[k] = 1
	}
	return c
}

// onlyComp is a requester whose verdict for the probe hosts of comp is a
// function of comp's version alone.
func onlyComp(base *requester, comp string) *requester {
	qq := *base
	q := &qq
	q.Profile = nil
	q.Name = base.Name + "/only-" + comp
	q.RuleLists = nil
	q.Parental = &filter.ConfigParental{}
	q.SafeBrows = &filter.ConfigSafeBrowsing{}
	switch comp {
	case "rulelist":
		q.RuleLists = ids("vl_a")
	case "safesearch":
		q.Parental = &filter.ConfigParental{Enabled: true, SafeSearchGeneralEnabled: true}
	case "services":
		q.Parental = &filter.ConfigParental{Enabled: true, BlockedServices: svcs("svc_a")}
	case "adult":
		q.Parental = &filter.ConfigParental{Enabled: true, AdultBlockingEnabled: true}
	case "danger":
		q.SafeBrows = &filter.ConfigSafeBrowsing{Enabled: true, DangerousDomainsEnabled: true}
	case "newreg":
		q.SafeBrows = &filter.ConfigSafeBrowsing{Enabled: true, NewlyRegisteredDomainsEnabled: true}
	}
	return q.fix()
}

func compHost(comp string, j int) string {
	switch comp {
	case "rulelist":
		return fmt.Sprintf("h%d.vla.test", j)
	case "safesearch":
		return fmt.Sprintf("ss%d.gen.test", j)
	case "services":
		return fmt.Sprintf("s%d.svca.test", j)
	default:
		return hashHost(comp, j)
	}
}

func compPath(comp string) string {
	switch comp {
	case "rulelist":
		return "/rl/vl_a"
	case "safesearch":
		return "/ss/gen"
	case "services":
		return "/svc/index"
	default:
		return "/hp/" + comp
	}
}

func setCompVer(c *content, comp string, v int) {
	switch comp {
	case "rulelist":
		c.RL["vl_a"] = v
	case "safesearch":
		c.SSGen = v
	case "services":
		c.Svc["svc_a"] = v
	default:
		c.Hash[comp] = v
	}
}

func isHashComp(comp string) bool { return comp == "adult" || comp == "danger" || comp == "newreg" }

func refreshComp(e *env, comp string) error {
	if isHashComp(comp) {
		return e.hp[comp].Refresh(context.Background())
	}
	return e.st.Refresh(context.Background())
}

// filtered reports whether o is a "filtered by comp" verdict; ok is false for
// anything that is neither filtered nor passed.
func filtered(o obs) (yes, ok bool) {
	switch o.Kind {
	case "none":
		return false, true
	case "blocked", "modreq", "modresp":
		return true, true
	}
	return false, false
}

// askDirect calls the hash-prefix filter itself, without the storage.
func askDirect(e *env, kind string, q *requester, host string, qt uint16) (o obs) {
	defer func() {
		if p := recover(); p != nil {
			o = obs{Kind: "panic", Err: fmt.Sprint(p)}
		}
	}()
	return toObs(e.hp[kind].FilterRequest(context.Background(), &filter.Request{
		DNS: q.newReq(host, qt, 4242), Messages: q.Msgs, RemoteIP: q.RemoteIP, ClientName: q.ClientName,
		Host: host, QType: qt, QClass: dns.ClassINET,
	}))
}

// ---------------------------------------------------------------------------
// (1) deterministic straddle through the hook
// ---------------------------------------------------------------------------

func straddlePhase(r *vkit.Run, s *srv) {
	n := r.N(40, 400)
	s.setGate(nil)
	c := baseContent()
	s.set(c)
	e, err := newEnv(s, "straddle", prodOpt)
	if err != nil {
		r.Inconclusive("straddle: cannot build storage: " + err.Error())
		return
	}
	defer e.close()
	reqs := newRequesters()
	for i := 0; i < n; i++ {
		if !oneStraddle(r, s, e, reqs, &c, i) {
			return
		}
	}
}

func oneStraddle(r *vkit.Run, s *srv, e *env, reqs []*requester, c *content, idx int) (goOn bool) {
	rng := r.Rand("straddle", idx)
	kind := hashKinds[rng.IntN(3)]
	added := rng.IntN(2) == 0
	hi := 2 + rng.IntN(maxV-1)
	lo := rng.IntN(hi)
	j := lo + 1 + rng.IntN(hi-lo)
	vOld, vNew := hi, lo // host j removed by the refresh
	if added {
		vOld, vNew = lo, hi
	}
	direct := rng.IntN(3) == 0
	withMid := rng.IntN(2) == 0
	host := hashHost(kind, j)
	if rng.IntN(3) == 0 {
		host = "www." + host
	}
	qt := []uint16{dns.TypeA, dns.TypeA, dns.TypeAAAA, dns.TypeHTTPS}[rng.IntN(4)]
	rA := onlyComp(reqs[rng.IntN(len(reqs))], kind)
	rB := onlyComp(reqs[rng.IntN(len(reqs))], kind)
	rC := onlyComp(reqs[rng.IntN(len(reqs))], kind)
	askH := func(q *requester) obs {
		if direct {
			return askDirect(e, kind, q, host, qt)
		}
		return ask(e, q, 0, query{Host: host, QType: qt}, 4242)
	}
	class := fmt.Sprintf("straddle|%s|added=%v|direct=%v|mid=%v|%s", kind, added, direct, withMid, dns.Type(qt).String())
	var steps []string
	logf := func(f string, a ...any) { steps = append(steps, fmt.Sprintf(f, a...)) }
	witness := func(extra map[string]any) map[string]any {
		w := map[string]any{
			"phase": "straddle", "case_index": idx, "hash_filter": kind, "host": host, "qtype": dns.Type(qt).String(),
			"version_before": vOld, "version_after": vNew, "host_listed_before": !added, "host_listed_after": added,
			"through": map[bool]string{true: "hashprefix.Filter.FilterRequest", false: "filterstorage.Default.ForConfig(...).FilterRequest"}[direct],
			"steps":   steps,
		}
		for k, v := range extra {
			w[k] = v
		}
		return w
	}
	ctx := context.Background()

	// old version applied; Refresh also empties the result cache
	hookFn.Store(nil)
	setCompVer(c, kind, vOld)
	s.set(*c)
	t1 := time.Now()
	if err := e.hp[kind].Refresh(ctx); err != nil {
		r.Inconclusive("straddle: refresh failed: " + err.Error())
		return false
	}
	// patience is how long the refresh may run before the harness concludes
	// that it waits for the parked reader (an implementation may serialise the
	// two); it only changes the schedule, never a verdict.
	patience := max(250*time.Millisecond, 10*time.Since(t1))
	logf("hash list %s := version %d (host %s listed: %v); Refresh() returned", kind, vOld, host, !added)

	parked, release := make(chan struct{}), make(chan struct{})
	var armed atomic.Bool
	armed.Store(true)
	fn := func(p string) {
		if p == "hashprefix.afterMatch" && armed.CompareAndSwap(true, false) {
			close(parked)
			<-release
		}
	}
	hookFn.Store(&fn)
	defer hookFn.Store(nil)

	var o1 obs
	done := make(chan struct{})
	go func() { defer close(done); o1 = askH(rA) }()
	select {
	case <-parked:
	case <-done:
		// the query never reached the hook point (served from a cache?)
		r.Bucket("straddle_hook_not_reached", 1)
		armed.Store(false)
		r.Eval(class, false)
		return true
	case <-time.After(watchdog):
		armed.Store(false)
		close(release)
		r.Inconclusive("straddle: watchdog: reader neither returned nor reached hashprefix.afterMatch")
		return false
	}
	logf("reader %s: FilterRequest(%s) matched against version %d and is parked at hashprefix.afterMatch (before its result-cache write)", rA.Name, host, vOld)

	setCompVer(c, kind, vNew)
	s.set(*c)
	refDone := make(chan error, 1)
	go func() { refDone <- e.hp[kind].Refresh(ctx) }()
	waited := false
	var err error
	select {
	case err = <-refDone:
	case <-time.After(patience):
		// the refresh does not complete while a query is in flight
		waited = true
		withMid = false
		close(release)
		select {
		case err = <-refDone:
		case <-time.After(watchdog):
			r.Inconclusive("straddle: watchdog: refresh did not return after the parked reader was released")
			return false
		}
	}
	if err != nil {
		if !waited {
			close(release)
		}
		<-done
		r.Inconclusive("straddle: refresh failed: " + err.Error())
		return false
	}
	if waited {
		logf("hash list %s := version %d: Refresh() did not return while the reader was parked; reader released, then Refresh() RETURNED", kind, vNew)
		r.Bucket("straddle_refresh_waited_for_parked_reader", 1)
	} else {
		logf("hash list %s := version %d (host listed: %v); Refresh() RETURNED", kind, vNew, added)
		r.Bucket("straddle_reader_parked_across_refresh", 1)
	}
	r.Bucket("straddle_interleavings_resolved", 1)

	var oMid obs
	if withMid {
		oMid = askH(rC)
		logf("query by %s started after the refresh returned (reader still parked): %s", rC.Name, short(oMid))
	}
	if !waited {
		close(release)
	}
	select {
	case <-done:
	case <-time.After(watchdog):
		r.Inconclusive("straddle: watchdog: released reader did not return")
		return false
	}
	logf("reader released and returned: %s", short(o1))
	oAfter := askH(rB)
	logf("query by %s started after the refresh AND the reader returned: %s", rB.Name, short(oAfter))
	oAfter2 := askH(rA)
	logf("query by %s after that: %s", rA.Name, short(oAfter2))

	r.Eval(class, true)
	if idx < 2 {
		r.Sample(witness(nil))
	}
	if f, ok := filtered(o1); !ok {
		r.Violation("failure:hashprefix:query-during-refresh", "a query that overlapped a refresh failed", witness(map[string]any{"reader": o1}))
	} else if f == !added {
		r.Bucket("straddle_reader_answered_with_old_version", 1)
	} else {
		r.Bucket("straddle_reader_answered_with_new_version", 1)
	}
	if withMid {
		if f, ok := filtered(oMid); !ok || f != added {
			r.Violation("stale:hashprefix:refresh-returned-but-old-version-answered",
				"a query started after Refresh returned (no concurrent cache write yet) does not reflect the new hash list", witness(map[string]any{"query": oMid}))
		}
	}
	for _, o := range []obs{oAfter, oAfter2} {
		if f, ok := filtered(o); !ok || f != added {
			r.Bucket("straddle_stale_answers_after_refresh", 1)
			r.Violation("hashprefix:stale-result-cached-across-refresh",
				"a reader that matched against the OLD hashes wrote its result into the result cache after Refresh had cleared it; queries that start after the refresh returned are served that old result (until the next refresh)",
				witness(map[string]any{"expected_filtered": added, "observed": o}))
			break
		}
	}
	return true
}

// ---------------------------------------------------------------------------
// (2) random concurrent histories
// ---------------------------------------------------------------------------

type readOp struct {
	Reader   int    `json:"reader"`
	Call     int64  `json:"call_ns"`
	Ret      int64  `json:"return_ns"`
	J        int    `json:"host_number"`
	Filtered bool   `json:"filtered"`
	Obs      string `json:"obs"`
}

type writeOp struct {
	Call int64 `json:"call_ns"`
	Ret  int64 `json:"return_ns"`
	V    int   `json:"version"`
}

type regIn struct {
	Write bool
	V     int // version written, or host number read
}

var regModel = func(v0 int) porcupine.Model {
	return porcupine.Model{
		Init: func() any { return v0 },
		Step: func(st, in, out any) (bool, any) {
			v := st.(int)
			i := in.(regIn)
			if i.Write {
				return true, i.V
			}
			return out.(bool) == (i.V <= v), v
		},
		DescribeOperation: func(in, out any) string {
			i := in.(regIn)
			if i.Write {
				return fmt.Sprintf("refresh(v=%d)", i.V)
			}
			return fmt.Sprintf("query(host %d) -> filtered=%v", i.V, out)
		},
	}
}

func concurrentPhase(r *vkit.Run, s *srv) {
	n := r.N(36, 360)
	comps := []string{"adult", "rulelist", "danger", "safesearch", "newreg", "services"}
	for i := 0; i < n; i++ {
		if !oneConcurrent(r, s, i, comps[i%len(comps)]) {
			return
		}
	}
	s.setGate(nil)
	hookFn.Store(nil)
}

func oneConcurrent(r *vkit.Run, s *srv, idx int, comp string) (goOn bool) {
	rng := r.Rand("conc", idx)
	const nReaders = 8
	nWrites := 3
	if comp == "safesearch" {
		// the one storage-level result cache that outlives a refresh: more refreshes
		nWrites = 6
	}
	// readers run until the refresher is through (count-based hand-shakes
	// below), at most readerCap queries each
	readerCap := 600
	const minBetween = 48 // completed reads before every refresh may download and after the last one
	c := baseContent()
	if comp == "rulelist" || comp == "safesearch" {
		c.Filler = 1500 // makes compiling the new engine take a while
	}
	if isHashComp(comp) {
		c.HashFiller = 8000 // makes resetting the hash storage take a while
	}
	lo := 0
	if comp == "rulelist" {
		lo = 1
	}
	v0 := newVer(rng, -1, lo)
	setCompVer(&c, comp, v0)
	s.setGate(nil)
	hookFn.Store(nil)
	s.set(c)
	opt := prodOpt
	if idx%5 == 4 {
		opt = tinyOpt()
		opt.HashCount = 3
	}
	e, err := newEnv(s, "conc", opt)
	if err != nil {
		r.Inconclusive("concurrent: cannot build storage: " + err.Error())
		return false
	}
	defer e.close()
	t1 := time.Now()
	if err = refreshComp(e, comp); err != nil {
		r.Inconclusive("concurrent: priming refresh failed: " + err.Error())
		return false
	}
	// patience bounds how long a reader stays parked in the hook if the
	// refresh does not return meanwhile (schedule only, never a verdict).
	patience := max(100*time.Millisecond, 10*time.Since(t1))
	vs := make([]int, nWrites)
	prev := v0
	for k := range vs {
		vs[k] = newVer(rng, prev, lo)
		prev = vs[k]
	}
	reqs := newRequesters()
	readers := make([]*requester, nReaders)
	seeds := make([]uint64, nReaders)
	for w := range readers {
		readers[w] = onlyComp(reqs[rng.IntN(len(reqs))], comp)
		seeds[w] = rng.Uint64()
	}
	direct := isHashComp(comp) && rng.IntN(3) == 0

	var (
		mu          sync.Mutex
		cond        = sync.NewCond(&mu)
		progress    int64
		lastWriteAt int64 // progress when the previous refresh returned
		readersDone bool
		reads       []readOp
		writes      []writeOp
	)
	var inCritical, stop atomic.Bool
	var parkBudget atomic.Int64
	critDone := make([]chan struct{}, nWrites)
	for k := range critDone {
		critDone[k] = make(chan struct{})
	}
	var curCrit atomic.Pointer[chan struct{}]
	var parkedReaders, parkTimeouts atomic.Int64
	path := compPath(comp)
	s.setGate(func(p string) {
		if p != path {
			return
		}
		mu.Lock()
		for progress < lastWriteAt+minBetween && !readersDone {
			cond.Wait()
		}
		mu.Unlock()
		parkBudget.Store(3)
		inCritical.Store(true)
	})
	fn := func(p string) {
		if p != "hashprefix.afterMatch" || !inCritical.Load() {
			return
		}
		ch := curCrit.Load()
		if ch == nil || parkBudget.Add(-1) < 0 {
			return
		}
		parkedReaders.Add(1)
		select {
		case <-*ch:
		case <-time.After(patience):
			parkTimeouts.Add(1)
		}
	}
	hookFn.Store(&fn)

	t0 := time.Now()
	now := func() int64 { return int64(time.Since(t0)) }
	var wg sync.WaitGroup
	for w := 0; w < nReaders; w++ {
		wg.Add(1)
		go func(w int) {
			defer wg.Done()
			x := seeds[w]
			q := readers[w]
			for i := 0; i < readerCap && !stop.Load(); i++ {
				x = x*6364136223846793005 + 1442695040888963407
				j := 1 + int(x>>33)%(maxV+1)
				host := compHost(comp, j)
				call := now()
				var o obs
				if direct {
					o = askDirect(e, comp, q, host, dns.TypeA)
				} else {
					o = ask(e, q, 0, query{Host: host, QType: dns.TypeA}, uint16(i))
				}
				ret := now()
				if ret <= call {
					ret = call + 1
				}
				f, ok := filtered(o)
				mu.Lock()
				reads = append(reads, readOp{w, call, ret, j, f, short(o)})
				progress++
				mu.Unlock()
				cond.Broadcast()
				if !ok {
					r.Violation("failure:"+famOf(comp)+":query-during-refresh", "a query that ran while a refresh was in progress failed",
						map[string]any{"phase": "concurrent", "history_index": idx, "component": comp, "host": host, "observed": o})
				}
			}
		}(w)
	}
	refErr := make(chan error, 1)
	go func() {
		for k := 0; k < nWrites; k++ {
			mu.Lock()
			cc := c.clone()
			mu.Unlock()
			setCompVer(&cc, comp, vs[k])
			c = cc
			s.set(cc)
			curCrit.Store(&critDone[k])
			call := now()
			err := refreshComp(e, comp)
			ret := now()
			inCritical.Store(false)
			close(critDone[k])
			if err != nil {
				for m := k + 1; m < nWrites; m++ {
					close(critDone[m])
				}
				stop.Store(true)
				refErr <- err
				return
			}
			mu.Lock()
			writes = append(writes, writeOp{call, ret, vs[k]})
			lastWriteAt = progress
			mu.Unlock()
		}
		mu.Lock()
		for progress < lastWriteAt+minBetween && !readersDone {
			cond.Wait()
		}
		mu.Unlock()
		stop.Store(true)
		refErr <- nil
	}()
	readersFinished := make(chan struct{})
	go func() {
		wg.Wait()
		mu.Lock()
		readersDone = true
		mu.Unlock()
		cond.Broadcast()
		close(readersFinished)
	}()
	select {
	case <-readersFinished:
	case <-time.After(2 * watchdog):
		r.Inconclusive("concurrent: watchdog: readers did not finish")
		return false
	}
	select {
	case err = <-refErr:
	case <-time.After(2 * watchdog):
		r.Inconclusive("concurrent: watchdog: refresher did not finish")
		return false
	}
	s.setGate(nil)
	hookFn.Store(nil)
	if err != nil {
		r.Bucket("refresh_errors", 1)
		r.Inconclusive(fmt.Sprintf("concurrent history %d (%s): refresh failed: %v", idx, comp, err))
		return true
	}
	// a few reads after everything is quiet
	q := readers[0]
	for j := 1; j <= maxV+1; j++ {
		call := now()
		o := ask(e, q, 0, query{Host: compHost(comp, j), QType: dns.TypeA}, 7)
		ret := now()
		f, _ := filtered(o)
		reads = append(reads, readOp{nReaders, call, ret + 1, j, f, short(o)})
	}
	r.Bucket("conc_readers_parked_in_hook_during_refresh", parkedReaders.Load())
	r.Bucket("conc_parked_readers_released_by_patience", parkTimeouts.Load())

	// interval rule
	overlapping, after := 0, 0
	var bad *readOp
	var badCands []int
	for i := range reads {
		rd := &reads[i]
		k := -1
		for wi, w := range writes {
			if w.Ret < rd.Call {
				k = wi
			}
		}
		cands := []int{v0}
		if k >= 0 {
			cands[0] = writes[k].V
			after++
		}
		for wi := k + 1; wi < len(writes); wi++ {
			if writes[wi].Call < rd.Ret {
				cands = append(cands, writes[wi].V)
			}
		}
		if len(cands) > 1 {
			overlapping++
		}
		ok := false
		for _, v := range cands {
			ok = ok || (rd.J <= v) == rd.Filtered
		}
		if !ok && bad == nil {
			bad, badCands = rd, cands
		}
	}
	r.Bucket("conc_reads", int64(len(reads)))
	r.Bucket("conc_reads_overlapping_a_refresh", int64(overlapping))
	r.Bucket("conc_reads_after_a_refresh", int64(after))
	r.Bucket("conc_histories_checked", 1)
	r.Eval(fmt.Sprintf("concurrent|%s|direct=%v|tiny=%v", comp, direct, idx%5 == 4), overlapping > 0)
	hist := func() map[string]any {
		return map[string]any{
			"phase": "concurrent", "history_index": idx, "component": comp, "initial_version": v0,
			"refreshes": writes, "reads": reads, "rule": "host number j is filtered iff j <= version",
		}
	}
	if idx < 2 {
		w := hist()
		w["reads"] = reads[:min(len(reads), 12)]
		r.Sample(w)
	}
	key := famOf(comp) + ":stale-after-concurrent-refresh"
	if isHashComp(comp) {
		key = "hashprefix:stale-result-cached-across-refresh"
	}
	if bad != nil {
		w := hist()
		w["offending_read"] = bad
		w["versions_it_may_legally_reflect"] = badCands
		r.Violation(key, "a query that STARTED after a refresh RETURNED is answered with a result of an older version (interval rule)", w)
	}
	// porcupine: every host is a register holding the list version
	for j := 1; j <= maxV+1; j++ {
		var ops []porcupine.Operation
		for _, w := range writes {
			ops = append(ops, porcupine.Operation{ClientId: nReaders + 1, Input: regIn{true, w.V}, Call: w.Call, Output: true, Return: w.Ret})
		}
		nr := 0
		for _, rd := range reads {
			if rd.J == j {
				ops = append(ops, porcupine.Operation{ClientId: rd.Reader, Input: regIn{false, j}, Call: rd.Call, Output: rd.Filtered, Return: rd.Ret})
				nr++
			}
		}
		if nr == 0 {
			continue
		}
		switch res := porcupine.CheckOperationsTimeout(regModel(v0), ops, 30*time.Second); res {
		case porcupine.Ok:
			r.Bucket("porcupine_ok", 1)
		case porcupine.Illegal:
			r.Bucket("porcupine_illegal", 1)
			if bad == nil {
				k2 := key
				if !isHashComp(comp) {
					k2 = famOf(comp) + ":not-linearizable-across-refresh"
				}
				w := hist()
				w["host_number"] = j
				var hr []readOp
				for _, rd := range reads {
					if rd.J == j {
						hr = append(hr, rd)
					}
				}
				w["reads"] = hr
				r.Violation(k2, "the reads of one host and the refreshes are not explained by any sequential order of a version register (an older version is observed after a newer one)", w)
			}
		default:
			r.Bucket("porcupine_unknown", 1)
		}
	}
	return true
}

func famOf(comp string) string {
	if isHashComp(comp) {
		return "hashprefix"
	}
	return strings.ReplaceAll(comp, "services", "blocked-service")
}

var _ = vkit.JSON
